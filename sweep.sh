#!/bin/bash
# ./sweep.sh [tier] [seed]  run every registered check once; print one line per property
TIER=${1:-quick}; export VERIF_SEED=${2:-1}
cd "$(dirname "$0")"
for id in ${SWEEP_IDS:-$(jq -r ".checks[].property_id" MANIFEST.json)}; do
  s=$(date +%s); out=$(./check $id $TIER 2>&1); rc=$?
  echo "$id rc=$rc $(( $(date +%s)-s ))s $(echo "$out" | grep "^$id " | sed 's/^[^:]*: //' | cut -c1-150)"
  [ $rc -ne 0 ] && echo "$out" | grep "signature\|INCONCLUSIVE\|BUILD" | head -5 | cut -c1-300
done
