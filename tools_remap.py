#!/usr/bin/env python3
"""Rewrite commit hashes in known-findings.d/*.json 'fixed' entries to the hash the commit has on /repo main
(fix commits were cherry-picked from development branches; the subject line identifies them)."""
import json,glob,subprocess,re,sys
log=subprocess.check_output(['git','-C','/repo','log','--format=%h\t%s','main']).decode().splitlines()
by_subject={l.split('\t',1)[1]:l.split('\t',1)[0] for l in log}
hashes={l.split('\t',1)[0] for l in log}
allrefs=subprocess.check_output(['git','-C','/repo','log','--all','--format=%h\t%s']).decode().splitlines()
subj_of={l.split('\t',1)[0]:l.split('\t',1)[1] for l in allrefs}
bad=0
for f in sorted(glob.glob('/verif/known-findings.d/*.json'))+['/verif/known-findings.json']:
    d=json.load(open(f)); changed=False
    for e in d.get('findings',[]):
        if e.get('status')!='fixed': continue
        c=e.get('commit','')
        if any(h.startswith(c) or c.startswith(h) for h in hashes) and c: continue
        s=None
        try:
            s=subprocess.check_output(['git','-C','/repo','show','-s','--format=%s',c],stderr=subprocess.DEVNULL).decode().strip()
        except Exception:
            pass
        if s and s in by_subject:
            new=by_subject[s]; e['line']=e.get('line','').replace(c,new); e['commit']=new; changed=True
        else:
            print('UNRESOLVED',f,c,e.get('what','')[:60]); bad+=1
    if changed: json.dump(d,open(f,'w'),indent=1); print('remapped',f)
sys.exit(1 if bad else 0)
