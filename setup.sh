#!/bin/bash
# MANIFEST.setup_cmd: offline build of both monitor variants (warms the Go build cache).
set -eu
cd "$(dirname "$0")"
export GOFLAGS=-mod=mod GOPROXY=off GOSUMDB=off GOTOOLCHAIN=local
mkdir -p .bin .work evidence/replay
( cd harness && go build -tags verif -o ../.bin/vmon ./cmd/vmon )
( cd harness && go build -race -tags verif -o ../.bin/vmon.race ./cmd/vmon )
./.bin/vmon list | wc -l
