#!/bin/bash
# ./seeded_process.sh <Cnn-k>   confirm a delivered seeded change (seeded_confirm.sh), drop the seeder's worktree,
# then run the property's quick check against it in a scratch worktree (seeded_run_wt.sh). Development helper.
ID=$1; P=${ID%%-*}
cd "$(dirname "$0")"
./seeded_confirm.sh $ID > /tmp/proc-$ID.log 2>&1
git -C /repo worktree remove --force /tmp/mut-$ID 2>/dev/null
if grep -q "^CONFIRMED" /tmp/proc-$ID.log; then
  # the verdict "when the change arrived": the monitors as committed when round 3 started (a worktree of /verif)
  ${ARRIVAL:-/tmp/verif-arrival}/seeded_run_wt.sh /verif/seeded/$ID $P 2>&1 | grep -E "signature|CAUGHT|MISSED|INCONCL|BUILD|^$P " | head -6 | cut -c1-300 >> /tmp/proc-$ID.log
fi
tail -8 /tmp/proc-$ID.log
