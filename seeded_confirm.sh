#!/bin/bash
# ./seeded_confirm.sh <Cnn> [srcdir]  confirm a seeded change in a scratch worktree of /repo main:
#  (1) with the patch the repository builds and its whole existing suite passes,
#  (2) the demonstration fails with the patch, (3) passes without it. Then file it under /verif/seeded/<id>/.
set -u
ID=$1; SRC=${2:-/tmp/mut-out/$ID}
export GOFLAGS=-mod=mod GOPROXY=off GOSUMDB=off GOTOOLCHAIN=local
WT=/tmp/confirm-$ID
git -C /repo worktree remove --force $WT 2>/dev/null
git -C /repo worktree add -q --detach $WT main || exit 2
M=$WT/src/diagonal.works/b6
RUN=$(grep -o -E '^func Test[A-Za-z0-9_]+' $SRC/demo_seeded_test.go | sed 's/func //' | paste -sd'|')
PKG=$(head -3 $SRC/demo_seeded_test.go | grep -o -E '(ingest|search|api|graph|renderer|osm|encoding|geojson|grpc|ui)[a-z/]*' | head -1)
[ -z "$PKG" ] && PKG=$(python3 -c "import json;print(json.load(open('$SRC/meta.json')).get('demo_dir',''))" 2>/dev/null)
[ -z "$PKG" ] && PKG=.
echo "demo package dir: $PKG"
res() { echo "$1"; }
( cd $WT && git apply $SRC/patch.diff ) || { echo "PATCH DOES NOT APPLY"; git -C /repo worktree remove --force $WT; exit 2; }
# the packages whose tests the patch can affect: the touched ones and everything that imports them (code or tests);
# set SEEDED_WHOLE_SUITE=1 to run every package as rounds 1 and 2 did
if [ -n "${SEEDED_WHOLE_SUITE:-}" ]; then PKGS=$(cd $M && go list ./... 2>/dev/null | grep -v -E 'gdal|/cmd/'); else PKGS=$(python3 /verif/tools_affected.py $M $SRC/patch.diff); fi
echo "suite packages: $PKGS"
[ -z "$PKGS" ] && { echo "NO AFFECTED PACKAGES FOUND"; git -C /repo worktree remove --force $WT; exit 2; }
SUITE=$(cd $M && go test -vet=off -count=1 -timeout 60m $PKGS 2>&1 | grep -v "^ok\|no test files" | head -10)
if [ -n "$SUITE" ]; then echo "SUITE WITH PATCH: NOT CLEAN"; echo "$SUITE"; else echo "SUITE WITH PATCH: all packages ok"; fi
cp $SRC/demo_seeded_test.go $M/$PKG/zz_demo_seeded_test.go
WITH=$(cd $M && go test -vet=off -count=1 -run "^($RUN)\$" ./$PKG/ 2>&1 | tail -3)
echo "DEMO WITH PATCH: $(echo "$WITH" | tail -1)"
( cd $WT && git checkout -- . )
WITHOUT=$(cd $M && go test -vet=off -count=1 -run "^($RUN)\$" ./$PKG/ 2>&1 | tail -3)
echo "DEMO WITHOUT PATCH: $(echo "$WITHOUT" | tail -1)"
OK=1
[ -n "$SUITE" ] && OK=0
echo "$WITH" | tail -1 | grep -q "^FAIL" || OK=0
echo "$WITHOUT" | tail -1 | grep -q "^ok" || OK=0
git -C /repo worktree remove --force $WT
if [ $OK = 1 ]; then
  mkdir -p /verif/seeded/$ID; cp $SRC/patch.diff $SRC/demo_seeded_test.go /verif/seeded/$ID/
  python3 - "$ID" "$SRC" "$PKG" <<'PY'
import json,sys
id,src,pkg=sys.argv[1:4]
try: m=json.load(open(src+'/meta.json'))
except Exception: m={}
m.update({"property":id.split('-')[0],"demo_dir":pkg,"confirmed":"seeded_confirm.sh: the existing tests of every package the patch can affect (touched packages and all their importers; all packages except cgo gdal and cmd when SEEDED_WHOLE_SUITE=1) pass with the patch; demonstration fails with the patch and passes without it, in a scratch worktree of /repo main"})
json.dump(m,open('/verif/seeded/%s/meta.json'%id,'w'),indent=1)
PY
  echo "CONFIRMED -> /verif/seeded/$ID"
else echo "NOT CONFIRMED"; fi
