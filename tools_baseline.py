#!/usr/bin/env python3
"""tools_baseline.py <go test -json output>: compare with /root/.vp/BASELINE.json stable_pass; print missing/failing tests."""
import json,sys
base=set(json.load(open('/root/.vp/BASELINE.json'))['stable_pass'])
res={}
for line in open(sys.argv[1]):
    try: e=json.loads(line)
    except Exception: continue
    if e.get('Test') and e.get('Action') in ('pass','fail','skip'):
        res[e['Package']+'::'+e['Test']]=e['Action']
bad=[t for t in sorted(base) if res.get(t)!='pass']
print('baseline tests:',len(base),'passed now:',sum(1 for t in base if res.get(t)=='pass'))
for t in bad[:40]: print('NOT PASSING',t,res.get(t))
