#!/usr/bin/env python3
"""Regenerate the table of section 15 of DESIGN.md from seeded/results.json and seeded/*/meta.json."""
import json,re,os
r=json.load(open('/verif/seeded/results.json'))['results']
rows=['| change | what it does (needs) | `./check <id> quick` when it arrived | now | caught by |','|---|---|---|---|---|']
for k in sorted(r):
    m={}
    try: m=json.load(open('/verif/seeded/%s/meta.json'%k))
    except Exception: pass
    what=(m.get('summary','')[:160]+' ('+m.get('needs','')[:120]+')').replace('|','/').replace('\n',' ')
    e=r[k]
    rows.append('| seeded/%s | %s | %s | %s | %s |'%(k,what,e['first'],e['now'],e['by'].replace('|','/')))
n=len(r); first=sum(1 for e in r.values() if e['first']=='caught'); now=sum(1 for e in r.values() if e['now']=='caught')
rows.append('')
rows.append('%d changes; %d caught by the quick tier as it was when the change arrived, %d after strengthening.'%(n,first,now))
s=open('/verif/DESIGN.md').read()
s=re.sub(r'<!-- seeded:begin -->.*<!-- seeded:end -->','<!-- seeded:begin -->\n'+'\n'.join(rows)+'\n<!-- seeded:end -->',s,flags=re.S)
open('/verif/DESIGN.md','w').write(s)
print(n,first,now)
