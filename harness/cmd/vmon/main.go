// vmon is the single monitor binary: parent (run), child, replay.
package main

import (
	"flag"
	"fmt"
	"io"
	"log"
	"os"
	"strconv"
	"strings"

	"verif/internal/core"
	_ "verif/internal/mon"
)

func seedFromEnv() uint64 {
	if s := os.Getenv("VERIF_SEED"); s != "" {
		if v, err := strconv.ParseInt(s, 10, 64); err == nil {
			return uint64(v)
		}
	}
	return 1
}

func main() {
	if len(os.Args) < 2 {
		fmt.Fprintln(os.Stderr, "usage: vmon run|child|replay|info|list ...")
		os.Exit(2)
	}
	cmd := os.Args[1]
	fs := flag.NewFlagSet(cmd, flag.ExitOnError)
	p := fs.String("p", "", "property id")
	tier := fs.String("tier", "quick", "quick|thorough")
	seed := fs.Uint64("seed", seedFromEnv(), "run seed")
	from := fs.Int("from", 0, "")
	to := fs.Int("to", 0, "")
	out := fs.String("out", "", "")
	cur := fs.String("cur", "", "")
	skip := fs.String("skip", "", "")
	dir := fs.String("verif", "/verif", "verif directory")
	bin := fs.String("bin", os.Args[0], "child binary")
	cases := fs.Int("cases", 0, "override case count")
	par := fs.Int("parallel", 0, "override parallelism")
	caseIdx := fs.Int("case", 0, "case index for replay")
	verbose := fs.Bool("v", false, "keep library logging")
	fs.Parse(os.Args[2:])
	if !*verbose {
		log.SetOutput(io.Discard)
	}
	if cmd == "list" {
		for _, id := range core.IDs() {
			m := core.Lookup(id)
			fmt.Printf("%s quick=%d thorough=%d race=%v/%v %s\n", id, m.Quick, m.Thorough, m.Race, m.RaceThorough || m.Race, m.Title)
		}
		return
	}
	if cmd == "manifest" {
		os.Stdout.Write(core.Manifest(*dir))
		return
	}
	m := core.Lookup(*p)
	if m == nil {
		fmt.Fprintf(os.Stderr, "unknown property %q\n", *p)
		os.Exit(2)
	}
	switch cmd {
	case "info":
		if m.WantsRace(*tier) {
			fmt.Println("race")
		} else {
			fmt.Println("plain")
		}
	case "run":
		os.Exit(core.RunParent(m, core.ParentOpts{Tier: *tier, Seed: *seed, VerifDir: *dir, Bin: *bin, Cases: *cases, Parallel: *par}))
	case "child":
		sk := map[int]bool{}
		for _, s := range strings.Split(*skip, ",") {
			if v, err := strconv.Atoi(s); err == nil {
				sk[v] = true
			}
		}
		os.Exit(core.RunChild(m, core.ChildOpts{From: *from, To: *to, Seed: *seed, Tier: *tier, Out: *out, Cur: *cur, Skip: sk}))
	case "replay":
		os.Exit(core.RunChild(m, core.ChildOpts{From: *caseIdx, To: *caseIdx + 1, Seed: *seed, Tier: *tier, Dump: true}))
	default:
		fmt.Fprintln(os.Stderr, "unknown command", cmd)
		os.Exit(2)
	}
}
