module verif

go 1.23

toolchain go1.23.5

require (
	diagonal.works/b6 v0.0.0
	github.com/anishathalye/porcupine v1.3.0
	github.com/golang/geo v0.0.0-20190916061304-5b978397cfec
	google.golang.org/protobuf v1.30.0
	gopkg.in/yaml.v2 v2.4.0
)

require (
	github.com/apache/beam v2.32.0+incompatible // indirect
	github.com/golang/groupcache v0.0.0-20210331224755-41bb18bfe9da // indirect
	github.com/golang/protobuf v1.5.3 // indirect
	golang.org/x/exp v0.0.0-20231110203233-9a3e6036ecaa // indirect
	golang.org/x/mod v0.20.0 // indirect
	golang.org/x/net v0.21.0 // indirect
	golang.org/x/sync v0.10.0 // indirect
	golang.org/x/sys v0.28.0 // indirect
	golang.org/x/text v0.21.0 // indirect
	gonum.org/v1/gonum v0.15.1 // indirect
	google.golang.org/genproto v0.0.0-20230403163135-c38d8f061ccd // indirect
	google.golang.org/grpc v1.54.0 // indirect
)

replace diagonal.works/b6 => /repo/src/diagonal.works/b6
