// Package obs renders everything a user can ask a b6.World as canonical,
// comparable text. Two worlds "answer every query the same" iff their dumps are
// equal; "the world is as it was" iff the dump before equals the dump after.
//
// Normalisations (each found necessary by a differential run over real data,
// see DESIGN.md section 5): point-valued tag values and geometry are rendered
// at E7 (integer 1e-7 degrees), never through String(); tags are rendered as a
// map (sorted by key) because tag order is only promised by C39; polygon rings
// are rotated to start at their smallest vertex.
package obs

import (
	"fmt"
	"math"
	"sort"
	"strconv"
	"strings"
	"sync"

	"diagonal.works/b6"
	"github.com/golang/geo/s2"
	"verif/internal/core"
)

// Sections selects what Take observes.
type Sections uint

const (
	Lookup    Sections = 1 << iota // FindFeatureByID + HasFeatureWithID per probe id
	Locations                      // FindLocationByID per probe id
	Find                           // FindFeatures per probe query (ordered)
	Refs                           // FindReferences (untyped and per type), relations, collections, areas-by-point
	Traverse                       // Traverse per probe id (as a set of segment keys)
	Each                           // EachFeature as a multiset of (id, rendering hash)
	Tokens                         // Tokens as a set
	All       = Lookup | Locations | Find | Refs | Traverse | Each | Tokens
)

type NamedQuery struct {
	Name  string
	Query b6.Query
}

type Probes struct {
	IDs     []b6.FeatureID
	Queries []NamedQuery
	What    Sections
}

type Dump struct {
	Keys []string
	M    map[string]string
}

func (d *Dump) put(k, v string) {
	if _, ok := d.M[k]; !ok {
		d.Keys = append(d.Keys, k)
	}
	d.M[k] = v
}

type Difference struct {
	Key  string
	A, B string
}

func (d Difference) String() string {
	return fmt.Sprintf("%s:\n    A: %s\n    B: %s", d.Key, d.A, d.B)
}

// Diff returns the keys on which the dumps disagree (a missing key counts).
func (d *Dump) Diff(o *Dump) []Difference {
	var out []Difference
	seen := map[string]bool{}
	for _, k := range d.Keys {
		seen[k] = true
		if ov, ok := o.M[k]; !ok || ov != d.M[k] {
			if !ok {
				ov = "<absent>"
			}
			out = append(out, Difference{k, d.M[k], ov})
		}
	}
	for _, k := range o.Keys {
		if !seen[k] {
			out = append(out, Difference{k, "<absent>", o.M[k]})
		}
	}
	return out
}

func (d *Dump) String() string {
	var sb strings.Builder
	for _, k := range d.Keys {
		sb.WriteString(k + " => " + d.M[k] + "\n")
	}
	return sb.String()
}

func e7(a float64) int64 { return int64(math.Round(a * 1e7)) }

func LatLngE7(ll s2.LatLng) string {
	return strconv.FormatInt(e7(ll.Lat.Degrees()), 10) + "," + strconv.FormatInt(e7(ll.Lng.Degrees()), 10)
}

func PointE7(p s2.Point) string {
	if p.Norm() == 0 {
		return "zero"
	}
	return LatLngE7(s2.LatLngFromPoint(p))
}

// RenderAny renders a tag value with its kind.
func RenderAny(a b6.AnyExpression) string {
	switch v := a.(type) {
	case nil:
		return "nil"
	case b6.StringExpression:
		return "s:" + strconv.Quote(string(v))
	case b6.PointExpression:
		return "p:" + LatLngE7(s2.LatLng(v))
	case b6.FeatureIDExpression:
		return "f:" + b6.FeatureID(v).String()
	case b6.IntExpression:
		return "i:" + strconv.Itoa(int(v))
	case b6.FloatExpression:
		return "fl:" + strconv.FormatFloat(float64(v), 'g', -1, 64)
	case b6.Expressions:
		parts := make([]string, len(v))
		for i, e := range v {
			parts[i] = RenderAny(e)
		}
		return "[" + strings.Join(parts, " ") + "]"
	case *b6.Expressions:
		if v == nil {
			return "nil"
		}
		return RenderAny(*v)
	}
	return fmt.Sprintf("%T:%v", a, a)
}

func RenderValue(e b6.Expression) string { return RenderAny(e.AnyExpression) }

// RenderTags renders tags as a map sorted by key; a repeated key shows as such.
func RenderTags(tags b6.Tags) string {
	parts := make([]string, 0, len(tags))
	for _, t := range tags {
		parts = append(parts, strconv.Quote(t.Key)+"="+RenderValue(t.Value))
	}
	sort.Strings(parts)
	return "{" + strings.Join(parts, " ") + "}"
}

func rotateMin(vs []string) []string {
	if len(vs) == 0 {
		return vs
	}
	m := 0
	for i := range vs {
		if vs[i] < vs[m] {
			m = i
		}
	}
	return append(append([]string{}, vs[m:]...), vs[:m]...)
}

// RenderPolygon renders the loops of a polygon, each rotated to its smallest
// vertex; loops are kept in order (outer first).
func RenderPolygon(p *s2.Polygon) string {
	if p == nil {
		return "nilpolygon"
	}
	var loops []string
	for i := 0; i < p.NumLoops(); i++ {
		l := p.Loop(i)
		vs := make([]string, l.NumVertices())
		for j := range vs {
			vs[j] = PointE7(l.Vertex(j))
		}
		loops = append(loops, "("+strings.Join(rotateMin(vs), " ")+")")
	}
	return "<" + strings.Join(loops, "") + ">"
}

// RenderFeature renders one feature completely. Accessor panics are part of
// the observable behaviour and are rendered, not propagated.
func RenderFeature(f b6.Feature) (out string) {
	if f == nil {
		return "nil"
	}
	var sb strings.Builder
	panicked, class, frame, _ := core.Protect(func() {
		id := f.FeatureID()
		sb.WriteString(id.String() + " tags=" + RenderTags(f.AllTags()))
		switch id.Type {
		case b6.FeatureTypePoint:
			if p, ok := f.(b6.PhysicalFeature); ok {
				sb.WriteString(" at=" + PointE7(p.Point()))
			} else {
				sb.WriteString(" not-physical")
			}
		case b6.FeatureTypePath:
			if p, ok := f.(b6.PhysicalFeature); ok {
				n := p.GeometryLen()
				sb.WriteString(" path[" + strconv.Itoa(n) + "]=")
				for i := 0; i < n; i++ {
					ref := p.Reference(i).Source()
					if ref.IsValid() {
						sb.WriteString(ref.String())
					} else {
						sb.WriteString("-")
					}
					sb.WriteString("@" + PointE7(p.PointAt(i)) + " ")
				}
			} else {
				sb.WriteString(" not-physical")
			}
		case b6.FeatureTypeArea:
			if a, ok := f.(b6.AreaFeature); ok {
				n := a.Len()
				sb.WriteString(" area[" + strconv.Itoa(n) + "]=")
				for i := 0; i < n; i++ {
					sb.WriteString(RenderPolygon(a.Polygon(i)))
					paths := a.Feature(i)
					if paths != nil {
						sb.WriteString("via(")
						for _, pf := range paths {
							if pf == nil {
								sb.WriteString("nil ")
							} else {
								sb.WriteString(pf.FeatureID().String() + " ")
							}
						}
						sb.WriteString(")")
					}
				}
			} else {
				sb.WriteString(" not-area")
			}
		case b6.FeatureTypeRelation:
			if r, ok := f.(b6.RelationFeature); ok {
				sb.WriteString(" members[" + strconv.Itoa(r.Len()) + "]=")
				for i := 0; i < r.Len(); i++ {
					m := r.Member(i)
					sb.WriteString(m.ID.String() + ":" + strconv.Quote(m.Role) + " ")
				}
			} else {
				sb.WriteString(" not-relation")
			}
		case b6.FeatureTypeCollection:
			if c, ok := f.(b6.CollectionFeature); ok {
				sb.WriteString(" items=")
				var keys []any
				it := c.BeginUntyped()
				for {
					ok, err := it.Next()
					if err != nil {
						sb.WriteString("ERR:" + err.Error())
						break
					}
					if !ok {
						break
					}
					sb.WriteString(renderGo(it.Key()) + "->" + renderGo(it.Value()) + " ")
					keys = append(keys, it.Key())
				}
				// key lookups are queries too: the first value stored under each key
				sb.WriteString(" lookups=")
				seen := map[string]bool{}
				for _, k := range keys {
					rk := renderGo(k)
					if seen[rk] {
						continue
					}
					seen[rk] = true
					v, ok := c.FindValue(k)
					sb.WriteString(rk + "=>" + renderGo(v) + "," + strconv.FormatBool(ok) + " ")
				}
			} else {
				sb.WriteString(" not-collection")
			}
		}
		sb.WriteString(" refs=")
		for _, r := range f.References() {
			sb.WriteString(r.Source().String() + " ")
		}
	})
	if panicked {
		sb.WriteString(" PANIC@" + frame + ":" + class)
	}
	return sb.String()
}

func renderGo(v any) string {
	switch v := v.(type) {
	case b6.FeatureID:
		return "f:" + v.String()
	case b6.Identifiable:
		return "f:" + v.FeatureID().String()
	case s2.LatLng:
		return "p:" + LatLngE7(v)
	case s2.Point:
		return "p:" + PointE7(v)
	case string:
		return "s:" + strconv.Quote(v)
	case b6.AnyExpression:
		return RenderAny(v)
	}
	return fmt.Sprintf("%T:%v", v, v)
}

func idList(ids []string, sorted bool) string {
	if sorted {
		sort.Strings(ids)
	}
	return "[" + strings.Join(ids, " ") + "]"
}

func guard(d *Dump, key string, f func() string) {
	var v string
	panicked, class, frame, _ := core.Protect(func() { v = f() })
	if panicked {
		v = "PANIC@" + frame + ":" + class
	}
	d.put(key, v)
}

// FindIDs runs a query and returns the IDs in result order.
func FindIDs(w b6.World, q b6.Query) []b6.FeatureID {
	var ids []b6.FeatureID
	fs := w.FindFeatures(q)
	for fs.Next() {
		ids = append(ids, fs.FeatureID())
	}
	return ids
}

var refTypes = []b6.FeatureType{b6.FeatureTypePoint, b6.FeatureTypePath, b6.FeatureTypeArea, b6.FeatureTypeRelation, b6.FeatureTypeCollection}

// Take observes the world.
func Take(w b6.World, p Probes) *Dump {
	d := &Dump{M: map[string]string{}}
	for _, id := range p.IDs {
		id := id
		if p.What&Lookup != 0 {
			guard(d, "has "+id.String(), func() string { return strconv.FormatBool(w.HasFeatureWithID(id)) })
			guard(d, "feature "+id.String(), func() string { return RenderFeature(w.FindFeatureByID(id)) })
		}
		if p.What&Locations != 0 {
			guard(d, "loc "+id.String(), func() string {
				ll, err := w.FindLocationByID(id)
				if err != nil {
					return "error"
				}
				return LatLngE7(ll)
			})
		}
		if p.What&Refs != 0 {
			guard(d, "refs "+id.String(), func() string {
				var ids []string
				fs := w.FindReferences(id)
				for fs.Next() {
					ids = append(ids, fs.FeatureID().String())
				}
				return idList(ids, true)
			})
			for _, t := range refTypes {
				t := t
				guard(d, "refs "+id.String()+" "+t.String(), func() string {
					var ids []string
					fs := w.FindReferences(id, t)
					for fs.Next() {
						ids = append(ids, fs.FeatureID().String())
					}
					return idList(ids, true)
				})
			}
			guard(d, "relations "+id.String(), func() string {
				var ids []string
				fs := w.FindRelationsByFeature(id)
				for fs.Next() {
					ids = append(ids, fs.FeatureID().String())
				}
				return idList(ids, true)
			})
			guard(d, "collections "+id.String(), func() string {
				var ids []string
				fs := w.FindCollectionsByFeature(id)
				for fs.Next() {
					ids = append(ids, fs.FeatureID().String())
				}
				return idList(ids, true)
			})
			if id.Type == b6.FeatureTypePoint {
				guard(d, "areas "+id.String(), func() string {
					var ids []string
					fs := w.FindAreasByPoint(id)
					for fs.Next() {
						ids = append(ids, fs.FeatureID().String())
					}
					return idList(ids, true)
				})
			}
		}
		if p.What&Traverse != 0 && id.Type == b6.FeatureTypePoint {
			guard(d, "traverse "+id.String(), func() string {
				var segs []string
				ss := w.Traverse(id)
				for ss.Next() {
					s := ss.Segment()
					segs = append(segs, fmt.Sprintf("%s:%d-%d", s.Feature.FeatureID(), s.First, s.Last))
				}
				return idList(segs, true)
			})
		}
	}
	if p.What&Find != 0 {
		for _, nq := range p.Queries {
			nq := nq
			guard(d, "find "+nq.Name, func() string {
				var ids []string
				fs := w.FindFeatures(nq.Query)
				for fs.Next() {
					ids = append(ids, fs.FeatureID().String())
				}
				return idList(ids, false)
			})
			// the features delivered by the search iterator (not re-fetched by id)
			guard(d, "findf "+nq.Name, func() string {
				var rows []string
				fs := w.FindFeatures(nq.Query)
				for fs.Next() {
					rows = append(rows, RenderFeature(fs.Feature()))
				}
				return strconv.Itoa(len(rows)) + " features #" + strconv.FormatUint(core.HashString(strings.Join(rows, "\n")), 16)
			})
		}
	}
	if p.What&Each != 0 {
		guard(d, "each", func() string {
			var rows []string
			var mu sync.Mutex
			err := w.EachFeature(func(f b6.Feature, g int) error {
				mu.Lock()
				defer mu.Unlock()
				rows = append(rows, f.FeatureID().String()+"#"+strconv.FormatUint(core.HashString(RenderFeature(f)), 16))
				return nil
			}, &b6.EachFeatureOptions{Goroutines: 1})
			if err != nil {
				return "error:" + err.Error()
			}
			return idList(rows, true)
		})
	}
	if p.What&Tokens != 0 {
		guard(d, "tokens", func() string {
			ts := append([]string{}, w.Tokens()...)
			sort.Strings(ts)
			// a set: duplicates collapse
			out := ts[:0]
			for i, t := range ts {
				if i == 0 || t != ts[i-1] {
					out = append(out, t)
				}
			}
			return idList(out, false)
		})
	}
	return d
}

// AllIDs enumerates the IDs the world reports through EachFeature.
func AllIDs(w b6.World) []b6.FeatureID {
	var ids []b6.FeatureID
	w.EachFeature(func(f b6.Feature, g int) error {
		ids = append(ids, f.FeatureID())
		return nil
	}, &b6.EachFeatureOptions{Goroutines: 1})
	sort.Slice(ids, func(i, j int) bool { return ids[i].Less(ids[j]) })
	return ids
}
