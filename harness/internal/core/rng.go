// Package core is the monitor framework: deterministic case seeds, the
// child/parent process protocol, evidence and known-finding triage.
package core

import (
	"hash/fnv"
	"math"
)

// R is a splitmix64 generator. It is implemented here (not math/rand) so that
// case i of a property is the same list of draws on every Go version.
type R struct{ s uint64 }

func NewR(seed uint64) *R { return &R{s: seed} }

func mix(z uint64) uint64 {
	z = (z ^ (z >> 30)) * 0xbf58476d1ce4e5b9
	z = (z ^ (z >> 27)) * 0x94d049bb133111eb
	return z ^ (z >> 31)
}

func (r *R) U64() uint64 {
	r.s += 0x9e3779b97f4a7c15
	return mix(r.s)
}

// Intn returns a value in [0,n). n<=0 returns 0.
func (r *R) Intn(n int) int {
	if n <= 0 {
		return 0
	}
	return int(r.U64() % uint64(n))
}

// Range returns a value in [lo,hi] inclusive.
func (r *R) Range(lo, hi int) int {
	if hi <= lo {
		return lo
	}
	return lo + r.Intn(hi-lo+1)
}

func (r *R) Bool() bool { return r.U64()&1 == 1 }

// Float returns a value in [0,1).
func (r *R) Float() float64 { return float64(r.U64()>>11) / float64(1<<53) }

func (r *R) Chance(p float64) bool { return r.Float() < p }

func (r *R) I64() int64 { return int64(r.U64()) }

// Fork derives an independent generator, so that adding draws in one part of a
// generator does not shift every later part.
func (r *R) Fork() *R { return NewR(mix(r.U64() ^ 0xa5a5a5a5deadbeef)) }

// Perm returns a permutation of 0..n-1.
func (r *R) Perm(n int) []int {
	p := make([]int, n)
	for i := range p {
		p[i] = i
	}
	for i := n - 1; i > 0; i-- {
		j := r.Intn(i + 1)
		p[i], p[j] = p[j], p[i]
	}
	return p
}

// NormFloat returns an approximately normal value (sum of uniforms).
func (r *R) NormFloat() float64 {
	s := 0.0
	for i := 0; i < 12; i++ {
		s += r.Float()
	}
	return s - 6
}

// ExpInt returns an int in [0,max] biased towards small values.
func (r *R) ExpInt(max int) int {
	if max <= 0 {
		return 0
	}
	f := r.Float()
	return int(math.Floor(f * f * f * float64(max+1)))
}

func Pick[T any](r *R, xs []T) T {
	return xs[r.Intn(len(xs))]
}

func Shuffle[T any](r *R, xs []T) {
	for i := len(xs) - 1; i > 0; i-- {
		j := r.Intn(i + 1)
		xs[i], xs[j] = xs[j], xs[i]
	}
}

// CaseSeed is the seed of case index of property id under the run seed. It does
// not depend on the tier: the quick case list is a prefix of the thorough one.
func CaseSeed(seed uint64, id string, index int) uint64 {
	h := fnv.New64a()
	h.Write([]byte(id))
	return mix(mix(seed^h.Sum64()) + uint64(index)*0x9e3779b97f4a7c15)
}

func HashString(s string) uint64 {
	h := fnv.New64a()
	h.Write([]byte(s))
	return h.Sum64()
}
