package core

import (
	"encoding/json"
	"fmt"
	"regexp"
	"runtime/debug"
	"sort"
	"strings"
	"time"
)

// Monitor describes the check of one property.
type Monitor struct {
	ID          string
	Title       string
	Level       string // exploration | fault_enumeration
	Rule        string // how cases are generated, what is distinct and non-trivial
	Technique   string
	Assumptions []string

	Quick, Thorough int // number of cases per tier (a fixed list, never a time budget)
	Batch           int // cases per child process; 0 = split evenly over MaxParallel
	MaxParallel     int // concurrent children; 0 = 16
	Race            bool // run under the race-detector build in the quick tier
	RaceThorough    bool // ... in the thorough tier
	Required        []string // counters that must be > 0, else the run is inconclusive

	// CaseCap is the hard wall-clock safety net per case; hitting it is
	// inconclusive unless the hang detector shows quiescence. 0 = 10 min.
	CaseCap time.Duration

	// Setup runs once per child before the first case.
	Setup func(tier string)
	// Run executes one case.
	Run func(c *Ctx)
}

var registry = map[string]*Monitor{}

func Register(m *Monitor) {
	if _, ok := registry[m.ID]; ok {
		panic("duplicate monitor " + m.ID)
	}
	if m.Level == "" {
		m.Level = "exploration"
	}
	registry[m.ID] = m
}

func Lookup(id string) *Monitor { return registry[id] }

func IDs() []string {
	ids := make([]string, 0, len(registry))
	for id := range registry {
		ids = append(ids, id)
	}
	sort.Strings(ids)
	return ids
}

func (m *Monitor) Cases(tier string) int {
	if tier == "thorough" {
		return m.Thorough
	}
	return m.Quick
}

func (m *Monitor) WantsRace(tier string) bool {
	if tier == "thorough" {
		return m.RaceThorough || m.Race
	}
	return m.Race
}

// Violation is one observed contradiction of the property.
type Violation struct {
	Sig     string `json:"sig"`    // triage signature: names the failing site / input class, never a seed
	Detail  string `json:"detail"` // what the monitor saw versus what the oracle expected
	Case    int    `json:"case"`
	Witness any    `json:"witness,omitempty"`
}

// Ctx is handed to Monitor.Run for one case.
type Ctx struct {
	ID    string
	Index int
	Seed  uint64 // run seed
	Tier  string
	R     *R

	key        string
	nontrivial bool
	counters   map[string]int64
	maxes      map[string]int64
	violations []Violation
	sample     any
	inconcl    []string
	restart    bool
}

// Key sets the text whose hash decides whether this case is distinct from the
// others. Monitors pass a canonical rendering of the generated case.
func (c *Ctx) Key(format string, args ...any) { c.key = fmt.Sprintf(format, args...) }

// Nontrivial marks the case as non-trivial by the monitor's stated rule.
func (c *Ctx) Nontrivial() { c.nontrivial = true }

func (c *Ctx) Count(name string) { c.counters[name]++ }

func (c *Ctx) Add(name string, n int) { c.counters[name] += int64(n) }

func (c *Ctx) Max(name string, v int64) {
	if old, ok := c.maxes[name]; !ok || v > old {
		c.maxes[name] = v
	}
}

func (c *Ctx) Sample(v any) { c.sample = v }

// Violate records a violation. sig is completed with the property id.
func (c *Ctx) Violate(sig string, witness any, format string, args ...any) {
	if len(c.violations) >= 20 {
		return
	}
	c.violations = append(c.violations, Violation{
		Sig: c.ID + ":" + sig, Detail: clip(fmt.Sprintf(format, args...), 4000), Case: c.Index, Witness: witness,
	})
}

// Inconclusive records that this case could not be decided (cap hit etc).
func (c *Ctx) Inconclusive(why string) { c.inconcl = append(c.inconcl, why) }

// RequestRestart asks the child to exit after this case so that the parent
// starts a fresh process (used after a detected hang leaked goroutines).
func (c *Ctx) RequestRestart() { c.restart = true }

func (c *Ctx) Violations() int { return len(c.violations) }

func clip(s string, n int) string {
	if len(s) > n {
		return s[:n] + "…"
	}
	return s
}

var numRe = regexp.MustCompile(`0x[0-9a-fA-F]+|[0-9]+`)

// PanicClass normalises a panic value to a class: numbers are removed so that
// "index out of range [30] with length 4" and "... [2] with length 1" agree.
func PanicClass(v any) string {
	s := fmt.Sprint(v)
	if i := strings.IndexByte(s, '\n'); i >= 0 {
		s = s[:i]
	}
	s = numRe.ReplaceAllString(s, "N")
	s = strings.Map(func(r rune) rune {
		switch {
		case r >= 'a' && r <= 'z', r >= 'A' && r <= 'Z', r >= '0' && r <= '9', r == '.', r == '/', r == '-':
			return r
		}
		return '_'
	}, s)
	return clip(s, 80)
}

var frameRe = regexp.MustCompile(`(?m)^(diagonal\.works/b6[^\s(]*[^\s(])\(`)
var frameReAny = regexp.MustCompile(`(?m)^(diagonal\.works/b6[^\s]*?)(\(|\.func\d)`)

// TopB6Frame returns the innermost diagonal.works/b6 function in a stack text.
func TopB6Frame(stack string) string {
	for _, line := range strings.Split(stack, "\n") {
		if !strings.HasPrefix(line, "diagonal.works/b6") {
			continue
		}
		f := line
		if i := strings.LastIndex(f, "("); i > 0 {
			f = f[:i]
		}
		f = strings.TrimPrefix(f, "diagonal.works/b6/")
		f = strings.TrimPrefix(f, "diagonal.works/b6.")
		// drop generic instantiation noise and closure suffixes
		f = regexp.MustCompile(`\[\.\.\.\]`).ReplaceAllString(f, "")
		f = regexp.MustCompile(`\.func\d+(\.\d+)*$`).ReplaceAllString(f, "")
		f = strings.NewReplacer("(*", "", ")", "").Replace(f)
		return f
	}
	return "unknown"
}

// Protect runs f and converts a panic into (class, frame, stack).
func Protect(f func()) (panicked bool, class, frame, stack string) {
	defer func() {
		if r := recover(); r != nil {
			panicked = true
			class = PanicClass(r)
			stack = string(debug.Stack())
			// skip the frames of the panic machinery itself: TopB6Frame looks
			// for the first b6 frame, which is the innermost one.
			frame = TopB6Frame(stack)
		}
	}()
	f()
	return
}

// ChildResult is what one child process reports for its batch.
type ChildResult struct {
	From, To     int // [From,To)
	Next         int // first case not yet accounted for
	Evaluations  int
	Keys         []uint64 // hashes of the keys of distinct non-trivial cases
	Counters     map[string]int64
	Maxes        map[string]int64
	Violations   []Violation    // first few per signature
	SigCounts    map[string]int // all
	Samples      []any
	Inconclusive []string
	CaseNanos    []int64 // a sample of per-case costs
}

func (r *ChildResult) JSON() []byte {
	b, err := json.Marshal(r)
	if err != nil {
		// a witness that cannot be marshalled must not lose the result
		for i := range r.Violations {
			r.Violations[i].Witness = fmt.Sprintf("%+v", r.Violations[i].Witness)
		}
		for i := range r.Samples {
			r.Samples[i] = fmt.Sprintf("%+v", r.Samples[i])
		}
		b, _ = json.Marshal(r)
	}
	return b
}
