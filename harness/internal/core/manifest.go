package core

import (
	"bufio"
	"encoding/json"
	"os"
	"path/filepath"
)

// NotApplicable holds reasons for properties that have no monitor.
var NotApplicable = map[string]string{}

// Manifest renders MANIFEST.json from the registered monitors.
func Manifest(dir string) []byte {
	type level struct {
		Category  string `json:"category"`
		Text      string `json:"text"`
		DesignRef string `json:"design_ref"`
	}
	type check struct {
		PropertyID string `json:"property_id"`
		Quick      string `json:"quick_cmd"`
		Thorough   string `json:"thorough_cmd"`
		Evidence   string `json:"evidence_file"`
		Replay     string `json:"replay_cmd_template"`
		Engine     string `json:"engine"`
		Level      level  `json:"level_claimed"`
		Note       string `json:"level_note"`
		Technique  string `json:"technique"`
	}
	var checks []check
	have := map[string]bool{}
	for _, id := range IDs() {
		m := Lookup(id)
		have[id] = true
		note := "trusted: Go runtime, golang/geo, the monitor's own reference model"
		if len(m.Assumptions) > 0 {
			note = ""
			for i, a := range m.Assumptions {
				if i > 0 {
					note += "; "
				}
				note += a
			}
		}
		text := "Held on the executions observed, not verified: " + m.Rule
		checks = append(checks, check{
			PropertyID: id, Quick: "./check " + id + " quick", Thorough: "./check " + id + " thorough",
			Evidence: "/verif/evidence/" + id + ".json", Replay: "cat {path}", Engine: "vmon",
			Level: level{Category: m.Level, Text: text, DesignRef: "DESIGN.md section 7, " + id}, Note: note, Technique: m.Technique,
		})
	}
	type na struct {
		PropertyID string `json:"property_id"`
		Reason     string `json:"reason"`
	}
	nas := []na{}
	if f, err := os.Open(filepath.Join(dir, "properties.jsonl")); err == nil {
		sc := bufio.NewScanner(f)
		sc.Buffer(make([]byte, 1<<20), 1<<22)
		for sc.Scan() {
			var p struct {
				ID string `json:"id"`
			}
			if json.Unmarshal(sc.Bytes(), &p) == nil && p.ID != "" && !have[p.ID] {
				reason := NotApplicable[p.ID]
				if reason == "" {
					reason = "monitor not built yet (planned: DESIGN.md section 7)"
				}
				nas = append(nas, na{p.ID, reason})
			}
		}
		f.Close()
	}
	var ids []string
	for id := range have {
		ids = append(ids, id)
	}
	man := map[string]any{
		"version":   1,
		"setup_cmd": "./setup.sh",
		"hooks": map[string]any{
			"guard":            "verif (Go build tag)",
			"enable":           "go build -tags verif (the check script builds /verif/harness against /repo through a module replace)",
			"baseline_off_cmd": "cd /repo/src/diagonal.works/b6 && go test -mod=mod -vet=off -count=1 -timeout 25m ./...",
			"source_commits":   HookCommits,
			"add_only":         true,
		},
		"engines": []map[string]any{{
			"name": "vmon", "path": "/verif/harness", "serves_properties": IDs(),
			"kind_free_text": "runtime monitors (reference models, differential twins, invariant walkers, recorded-history checkers incl. porcupine) driving the real code in child processes; race-detector build for the concurrent properties",
		}},
		"checks":         checks,
		"not_applicable": nas,
		"notes":          "Every check is ./check <id> quick|thorough; it rebuilds the monitor binary from /repo's working tree. Known findings: /verif/known-findings.json. Design: /verif/DESIGN.md.",
	}
	b, _ := json.MarshalIndent(man, "", " ")
	return append(b, '\n')
}

// HookCommits lists the /repo commits that add build-tag-guarded hooks.
var HookCommits = []string{"f2ec15c", "dc083ae", "ad88cd1", "c9191c6", "cb22839"}
