package core

import (
	"context"
	"encoding/json"
	"fmt"
	"os"
	"os/exec"
	"path/filepath"
	"regexp"
	"sort"
	"strconv"
	"strings"
	"sync"
	"syscall"
	"time"
)

type ParentOpts struct {
	Tier     string
	Seed     uint64
	VerifDir string // /verif
	Bin      string // binary to run children with
	Cases    int    // override (0 = monitor's tier count)
	Parallel int
}

// Finding is one entry of known-findings.json.
type Finding struct {
	Property  string `json:"property"`
	Signature string `json:"signature,omitempty"`
	Status    string `json:"status"` // known | fixed
	What      string `json:"what"`
	Witness   any    `json:"witness,omitempty"`
	Commit    string `json:"commit,omitempty"`
	Line      string `json:"line,omitempty"`
}

type findingsFile struct {
	Findings []Finding `json:"findings"`
}

func loadFindings(dir string) []Finding {
	b, err := os.ReadFile(filepath.Join(dir, "known-findings.json"))
	if err != nil {
		b = []byte("{}")
	}
	var f findingsFile
	if err := json.Unmarshal(b, &f); err != nil {
		fmt.Fprintf(os.Stderr, "known-findings.json: %v\n", err)
		os.Exit(2)
	}
	// per-property files (same format), so that entries can be maintained independently
	extra, _ := filepath.Glob(filepath.Join(dir, "known-findings.d", "*.json"))
	sort.Strings(extra)
	for _, p := range extra {
		eb, err := os.ReadFile(p)
		if err != nil {
			continue
		}
		var ef findingsFile
		if err := json.Unmarshal(eb, &ef); err != nil {
			fmt.Fprintf(os.Stderr, "%s: %v\n", p, err)
			os.Exit(2)
		}
		f.Findings = append(f.Findings, ef.Findings...)
	}
	return f.Findings
}

type batch struct {
	from, to int
	res      []*ChildResult
	crashes  []Violation
	inconcl  []string
}

var fatalRe = regexp.MustCompile(`(?m)^(fatal error: .*|panic: .*|runtime: goroutine stack exceeds.*)$`)

// crashFromLog turns the banner of a dead child into a violation.
func crashFromLog(id string, log string, caseIdx int) Violation {
	class := "process-died"
	frame := "unknown"
	if loc := fatalRe.FindStringIndex(log); loc != nil {
		banner := log[loc[0]:loc[1]]
		if strings.Contains(log, "goroutine stack exceeds") {
			banner = "stack overflow"
		}
		class = PanicClass(strings.TrimPrefix(strings.TrimPrefix(banner, "fatal error: "), "panic: "))
		frame = TopB6Frame(log[loc[0]:])
		if strings.HasPrefix(banner, "panic: ") {
			// "panic: X [recovered]" blocks repeat; the innermost b6 frame after the banner is the site
		}
	}
	return Violation{Sig: id + ":crash@" + frame + ":" + class, Case: caseIdx,
		Detail: "the child process died while running this case", Witness: clip(tail(log, 6000), 6000)}
}

func tail(s string, n int) string {
	if len(s) > n {
		return s[len(s)-n:]
	}
	return s
}

func (b *batch) run(m *Monitor, o ParentOpts, work string, k int, raceLog string) {
	from := b.from
	skip := []int{}
	for attempt := 0; from < b.to; attempt++ {
		if attempt > 60 {
			b.inconcl = append(b.inconcl, fmt.Sprintf("batch %d: more than 60 restarts, cases %d..%d not run", k, from, b.to))
			return
		}
		base := filepath.Join(work, fmt.Sprintf("b%03d.%02d", k, attempt))
		args := []string{"child", "-p", m.ID, "-tier", o.Tier, "-seed", strconv.FormatUint(o.Seed, 10),
			"-from", strconv.Itoa(from), "-to", strconv.Itoa(b.to), "-out", base + ".json", "-cur", base + ".cur"}
		if len(skip) > 0 {
			var ss []string
			for _, s := range skip {
				ss = append(ss, strconv.Itoa(s))
			}
			args = append(args, "-skip", strings.Join(ss, ","))
		}
		ctx, cancel := context.WithTimeout(context.Background(), 3*time.Hour)
		cmd := exec.CommandContext(ctx, o.Bin, args...)
		cmd.Cancel = func() error { return cmd.Process.Signal(syscall.SIGQUIT) }
		cmd.WaitDelay = 20 * time.Second
		logf, _ := os.Create(base + ".log")
		cmd.Stdout, cmd.Stderr = logf, logf
		cmd.Env = append(os.Environ(), "GOTRACEBACK=all")
		if raceLog != "" {
			cmd.Env = append(cmd.Env, "GORACE=halt_on_error=0 exitcode=0 log_path="+raceLog+fmt.Sprintf(".b%03d", k))
		}
		err := cmd.Run()
		timedOut := ctx.Err() != nil
		cancel()
		logf.Close()
		code := 0
		if err != nil {
			code = -1
			if ee, ok := err.(*exec.ExitError); ok {
				code = ee.ExitCode()
			}
		}
		var res *ChildResult
		if rb, rerr := os.ReadFile(base + ".json"); rerr == nil {
			res = &ChildResult{}
			if json.Unmarshal(rb, res) != nil {
				res = nil
			}
		}
		if code == ExitOK && res != nil {
			b.res = append(b.res, res)
			return
		}
		if code == ExitRestart && res != nil {
			b.res = append(b.res, res)
			from = res.Next
			continue
		}
		// the child died
		next := from
		if res != nil {
			b.res = append(b.res, res)
			next = res.Next
		}
		crashed := next
		if cb, cerr := os.ReadFile(base + ".cur"); cerr == nil {
			if v, perr := strconv.Atoi(strings.TrimSpace(string(cb))); perr == nil && v >= next {
				crashed = v
			}
		}
		lb, _ := os.ReadFile(base + ".log")
		if timedOut {
			b.inconcl = append(b.inconcl, fmt.Sprintf("batch %d: child exceeded the 3 h safety limit at case %d", k, crashed))
		} else {
			b.crashes = append(b.crashes, crashFromLog(m.ID, string(lb), crashed))
		}
		skip = append(skip, crashed)
		from = next
	}
}

var raceBlockRe = regexp.MustCompile(`(?s)WARNING: DATA RACE\n(.*?)\n==================`)

// raceViolations parses race-detector logs into violations de-duplicated by
// the pair of innermost b6 frames of the two conflicting accesses.
func raceViolations(id string, glob string) (vs []Violation, reports int) {
	files, _ := filepath.Glob(glob + "*")
	seen := map[string]bool{}
	for _, f := range files {
		b, err := os.ReadFile(f)
		if err != nil {
			continue
		}
		for _, m := range raceBlockRe.FindAllStringSubmatch(string(b), -1) {
			reports++
			parts := regexp.MustCompile(`\n\n`).Split(m[1], -1)
			var frames []string
			for _, p := range parts {
				if strings.HasPrefix(p, "Goroutine ") {
					continue
				}
				if strings.HasPrefix(strings.TrimSpace(p), "Read at") || strings.HasPrefix(strings.TrimSpace(p), "Write at") ||
					strings.HasPrefix(strings.TrimSpace(p), "Previous ") || strings.HasPrefix(strings.TrimSpace(p), "Atomic ") {
					fr := "unknown"
					for _, l := range strings.Split(p, "\n") {
						l = strings.TrimSpace(l)
						if strings.HasPrefix(l, "diagonal.works/b6") {
							fr = TopB6Frame(l)
							break
						}
					}
					frames = append(frames, fr)
				}
			}
			sort.Strings(frames)
			sig := id + ":race:" + strings.Join(frames, "|")
			if seen[sig] {
				continue
			}
			seen[sig] = true
			vs = append(vs, Violation{Sig: sig, Case: -1, Detail: "data race reported by the race detector", Witness: clip(m[0], 6000)})
		}
	}
	return
}

type evidence struct {
	PropertyID  string         `json:"property_id"`
	Tier        string         `json:"tier"`
	Seed        int64          `json:"seed"`
	Level       string         `json:"level"`
	Coverage    map[string]any `json:"coverage"`
	Assumptions []string       `json:"assumptions"`
	WallS       float64        `json:"wall_s"`
	Violations  int            `json:"violations"`
}

// RunParent runs the whole check for one property and returns the exit code.
func RunParent(m *Monitor, o ParentOpts) int {
	t0 := time.Now()
	n := o.Cases
	if n == 0 {
		n = m.Cases(o.Tier)
	}
	par := o.Parallel
	if par == 0 {
		par = m.MaxParallel
	}
	if par == 0 {
		par = 16
	}
	bs := m.Batch
	if bs == 0 {
		bs = (n + par - 1) / par
	}
	if bs < 1 {
		bs = 1
	}
	work := filepath.Join(o.VerifDir, ".work", fmt.Sprintf("%s-%s-%d", m.ID, o.Tier, os.Getpid()))
	os.RemoveAll(work)
	os.MkdirAll(work, 0o755)
	raceLog := ""
	if m.WantsRace(o.Tier) {
		raceLog = filepath.Join(work, "race")
	}
	var batches []*batch
	for f := 0; f < n; f += bs {
		t := f + bs
		if t > n {
			t = n
		}
		batches = append(batches, &batch{from: f, to: t})
	}
	sem := make(chan struct{}, par)
	var wg sync.WaitGroup
	for k, b := range batches {
		wg.Add(1)
		sem <- struct{}{}
		go func(k int, b *batch) {
			defer wg.Done()
			defer func() { <-sem }()
			b.run(m, o, work, k, raceLog)
		}(k, b)
	}
	wg.Wait()

	// aggregate
	evals := 0
	keys := map[uint64]bool{}
	counters := map[string]int64{}
	maxes := map[string]int64{}
	sigCounts := map[string]int{}
	firstBySig := map[string]Violation{}
	var samples []any
	var inconcl []string
	var nanos []int64
	for _, b := range batches {
		for _, r := range b.res {
			evals += r.Evaluations
			for _, k := range r.Keys {
				keys[k] = true
			}
			for k, v := range r.Counters {
				counters[k] += v
			}
			for k, v := range r.Maxes {
				if old, ok := maxes[k]; !ok || v > old {
					maxes[k] = v
				}
			}
			for s, c := range r.SigCounts {
				sigCounts[s] += c
			}
			for _, v := range r.Violations {
				if _, ok := firstBySig[v.Sig]; !ok {
					firstBySig[v.Sig] = v
				}
			}
			if len(samples) < 3 {
				samples = append(samples, r.Samples...)
			}
			inconcl = append(inconcl, r.Inconclusive...)
			nanos = append(nanos, r.CaseNanos...)
		}
		for _, v := range b.crashes {
			evals++
			sigCounts[v.Sig]++
			if _, ok := firstBySig[v.Sig]; !ok {
				firstBySig[v.Sig] = v
			}
		}
		inconcl = append(inconcl, b.inconcl...)
	}
	raceReports := 0
	if raceLog != "" {
		vs, reports := raceViolations(m.ID, raceLog)
		raceReports = reports
		for _, v := range vs {
			sigCounts[v.Sig]++
			if _, ok := firstBySig[v.Sig]; !ok {
				firstBySig[v.Sig] = v
			}
		}
	}
	if len(samples) > 3 {
		samples = samples[:3]
	}
	for _, req := range m.Required {
		if counters[req] == 0 {
			inconcl = append(inconcl, "required mechanism counter '"+req+"' was never reached")
		}
	}
	if evals == 0 {
		inconcl = append(inconcl, "no case was evaluated")
	}

	// triage against the known findings
	findings := loadFindings(o.VerifDir)
	known := map[string]Finding{}
	for _, f := range findings {
		if f.Property == m.ID && f.Status == "known" {
			known[f.Signature] = f
		}
	}
	var sigs []string
	for s := range sigCounts {
		sigs = append(sigs, s)
	}
	sort.Strings(sigs)
	replayDir := filepath.Join(o.VerifDir, "evidence", "replay")
	os.MkdirAll(replayDir, 0o755)
	newViolations := 0
	knownSeen := map[string]int{}
	var lines []string
	for _, s := range sigs {
		v := firstBySig[s]
		if f, ok := known[s]; ok {
			knownSeen[s] = sigCounts[s]
			_ = f
			continue
		}
		newViolations++
		path := filepath.Join(replayDir, fmt.Sprintf("%s-%s-%016x.json", m.ID, o.Tier, HashString(s)))
		rb, _ := json.MarshalIndent(map[string]any{
			"property": m.ID, "signature": s, "count": sigCounts[s], "seed": o.Seed, "tier": o.Tier,
			"case": v.Case, "detail": v.Detail, "witness": v.Witness,
			"replay_cmd": fmt.Sprintf("./check %s replay %d  (VERIF_SEED=%d)", m.ID, v.Case, o.Seed),
		}, "", " ")
		os.WriteFile(path, rb, 0o644)
		lines = append(lines, fmt.Sprintf("VIOLATION property=%s replay=%s", m.ID, path))
		fmt.Printf("  signature %s (x%d) case %d: %s\n", s, sigCounts[s], v.Case, clip(v.Detail, 600))
	}
	var knownKeys []string
	for s := range known {
		knownKeys = append(knownKeys, s)
	}
	sort.Strings(knownKeys)
	for _, s := range knownKeys {
		f := known[s]
		obs := "not observed in this run"
		if c := knownSeen[s]; c > 0 {
			obs = fmt.Sprintf("observed %d times in this run", c)
		}
		lines = append(lines, fmt.Sprintf("KNOWN-FINDING: property=%s %s [%s; %s]", m.ID, f.What, s, obs))
	}

	sort.Slice(nanos, func(i, j int) bool { return nanos[i] < nanos[j] })
	cov := map[string]any{
		"evaluations":         evals,
		"distinct_nontrivial": len(keys),
		"rule":                m.Rule,
		"samples":             samples,
		"counters":            counters,
		"maxima":              maxes,
		"inconclusive":        len(inconcl),
		"signatures_seen":     sigCounts,
		"known_findings_seen": knownSeen,
		"children":            len(batches),
		"build":               map[bool]string{true: "race", false: "plain"}[raceLog != ""],
	}
	if len(nanos) > 0 {
		cov["median_case_ns"] = nanos[len(nanos)/2]
	}
	if raceLog != "" {
		cov["race_reports"] = raceReports
	}
	if len(inconcl) > 0 {
		if len(inconcl) > 10 {
			inconcl = inconcl[:10]
		}
		cov["inconclusive_reasons"] = inconcl
	}
	if len(samples) == 0 {
		cov["samples"] = []any{"(no sample recorded)"}
	}
	ev := evidence{PropertyID: m.ID, Tier: o.Tier, Seed: int64(o.Seed & 0x7fffffffffffffff), Level: m.Level, Coverage: cov,
		Assumptions: m.Assumptions, WallS: time.Since(t0).Seconds(), Violations: newViolations}
	eb, _ := json.MarshalIndent(ev, "", " ")
	os.MkdirAll(filepath.Join(o.VerifDir, "evidence"), 0o755)
	os.WriteFile(filepath.Join(o.VerifDir, "evidence", m.ID+".json"), append(eb, '\n'), 0o644)

	for _, l := range lines {
		fmt.Println(l)
	}
	fmt.Printf("%s %s seed=%d: %d evaluations, %d distinct non-trivial, %d new violation signatures, %d known, %d inconclusive, %.1fs\n",
		m.ID, o.Tier, o.Seed, evals, len(keys), newViolations, len(knownSeen), len(inconcl), time.Since(t0).Seconds())
	if newViolations == 0 && len(inconcl) == 0 {
		os.RemoveAll(work)
	} else {
		fmt.Printf("  work directory kept: %s\n", work)
		for _, s := range inconcl {
			fmt.Printf("  INCONCLUSIVE: %s\n", s)
		}
	}
	if newViolations > 0 {
		return 1
	}
	if len(inconcl) > 0 {
		return 2
	}
	return 0
}
