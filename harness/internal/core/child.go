package core

import (
	"fmt"
	"os"
	"runtime/debug"
	"strconv"
	"time"
)

type ChildOpts struct {
	From, To int
	Seed     uint64
	Tier     string
	Out      string // result file
	Cur      string // current-case file, written before each case
	Skip     map[int]bool
	Dump     bool // print the case result to stdout (replay of one case)
}

const (
	ExitOK      = 0
	ExitRestart = 3 // results flushed; parent continues from Next in a fresh child
)

func newResult(from, to int) *ChildResult {
	return &ChildResult{From: from, To: to, Next: from, Counters: map[string]int64{}, Maxes: map[string]int64{}, SigCounts: map[string]int{}}
}

func flush(res *ChildResult, keys map[uint64]bool, out string) {
	res.Keys = res.Keys[:0]
	for k := range keys {
		res.Keys = append(res.Keys, k)
	}
	if out == "" {
		return
	}
	tmp := out + ".tmp"
	if err := os.WriteFile(tmp, res.JSON(), 0o644); err == nil {
		os.Rename(tmp, out)
	}
}

// RunCase executes one case in isolation and returns its context.
func RunCase(m *Monitor, seed uint64, tier string, index int) *Ctx {
	c := &Ctx{ID: m.ID, Index: index, Seed: seed, Tier: tier, R: NewR(CaseSeed(seed, m.ID, index)),
		counters: map[string]int64{}, maxes: map[string]int64{}}
	panicked, class, frame, stack := Protect(func() { m.Run(c) })
	if panicked {
		c.Violate("panic@"+frame+":"+class, clip(stack, 6000), "panic while running the case: %s", class)
	}
	return c
}

func merge(res *ChildResult, keys map[uint64]bool, c *Ctx) {
	res.Evaluations++
	if c.nontrivial {
		k := c.key
		if k == "" {
			k = "case#" + strconv.Itoa(c.Index)
		}
		keys[HashString(k)] = true
	}
	for k, v := range c.counters {
		res.Counters[k] += v
	}
	for k, v := range c.maxes {
		if old, ok := res.Maxes[k]; !ok || v > old {
			res.Maxes[k] = v
		}
	}
	for _, v := range c.violations {
		res.SigCounts[v.Sig]++
		if res.SigCounts[v.Sig] <= 2 {
			res.Violations = append(res.Violations, v)
		}
	}
	if c.sample != nil && len(res.Samples) < 3 {
		res.Samples = append(res.Samples, c.sample)
	}
	for _, s := range c.inconcl {
		if len(res.Inconclusive) < 20 {
			res.Inconclusive = append(res.Inconclusive, fmt.Sprintf("case %d: %s", c.Index, s))
		}
	}
}

// RunChild runs cases [From,To) and returns the process exit code.
func RunChild(m *Monitor, o ChildOpts) int {
	res := newResult(o.From, o.To)
	keys := map[uint64]bool{}
	var cur *os.File
	if o.Cur != "" {
		cur, _ = os.OpenFile(o.Cur, os.O_CREATE|os.O_WRONLY|os.O_TRUNC, 0o644)
	}
	// Unbounded recursion ends in Go's fatal "stack exceeds limit"; with the
	// default 1 GB limit that takes half a minute on a loaded machine. Nothing in
	// the code under test legitimately needs more than this.
	debug.SetMaxStack(128 << 20)
	if m.Setup != nil {
		m.Setup(o.Tier)
	}
	capD := m.CaseCap
	if capD == 0 {
		capD = 10 * time.Minute
	}
	lastFlush := time.Now()
	timer := time.NewTimer(time.Hour)
	for i := o.From; i < o.To; i++ {
		if o.Skip[i] {
			res.Next = i + 1
			continue
		}
		if cur != nil {
			// one unbuffered write: a process-fatal event still leaves the case identified
			cur.WriteAt([]byte(fmt.Sprintf("%-12d\n", i)), 0)
		}
		before := map[int]bool(nil)
		done := make(chan *Ctx, 1)
		t0 := time.Now()
		go func(i int) { done <- RunCase(m, o.Seed, o.Tier, i) }(i)
		if !timer.Stop() {
			select {
			case <-timer.C:
			default:
			}
		}
		timer.Reset(capD)
		var c *Ctx
		select {
		case c = <-done:
		case <-timer.C:
			// Safety net. Decide structurally whether this is a hang.
			_ = before
			c = &Ctx{ID: m.ID, Index: i, counters: map[string]int64{}, maxes: map[string]int64{}}
			d1 := parseDump(allStacks())
			time.Sleep(time.Second)
			d2 := parseDump(allStacks())
			time.Sleep(time.Second)
			d3 := parseDump(allStacks())
			// goroutines other than this one: everything not main
			me := map[int]bool{1: true}
			if q, frame, dump := quiescentNow(me, []map[int]goroutineInfo{d1, d2, d3}); q {
				c.Violate("hang@"+frame, dump, "case did not return and every goroutine is parked (quiescent) after %s", capD)
			} else {
				c.Inconclusive(fmt.Sprintf("case exceeded the %s cap while goroutines were still running (top b6 frame %s)", capD, firstNewB6Frame(me, allStacks())))
			}
			merge(res, keys, c)
			res.Next = i + 1
			flush(res, keys, o.Out)
			return ExitRestart
		}
		if len(res.CaseNanos) < 200 {
			res.CaseNanos = append(res.CaseNanos, time.Since(t0).Nanoseconds())
		}
		merge(res, keys, c)
		res.Next = i + 1
		if o.Dump {
			b := (&ChildResult{Violations: c.violations, Samples: []any{c.sample}, Counters: c.counters}).JSON()
			fmt.Printf("case %d key=%q nontrivial=%v\n%s\n", i, c.key, c.nontrivial, b)
		}
		if c.restart {
			flush(res, keys, o.Out)
			return ExitRestart
		}
		if time.Since(lastFlush) > 2*time.Second {
			flush(res, keys, o.Out)
			lastFlush = time.Now()
		}
	}
	flush(res, keys, o.Out)
	return ExitOK
}
