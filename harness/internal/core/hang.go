package core

import (
	"regexp"
	"runtime"
	"sort"
	"strconv"
	"strings"
	"time"
)

// The hang detector decides "never returns" structurally, not by a stopwatch:
// an operation is reported as hung only if every goroutine created since it
// started is parked in a blocking operation, identically, in successive full
// goroutine dumps, so that no party is left that could wake another.

type goroutineInfo struct {
	id    int
	state string
	funcs string // function lines only (no addresses, no line numbers)
	b6    string // innermost b6 frame, or ""
}

var gHeader = regexp.MustCompile(`^goroutine (\d+) \[([^\]]*)\]:`)

func allStacks() string {
	n := 64 << 10
	for {
		buf := make([]byte, n)
		k := runtime.Stack(buf, true)
		if k < n {
			return string(buf[:k])
		}
		n *= 2
	}
}

func parseDump(d string) map[int]goroutineInfo {
	out := map[int]goroutineInfo{}
	for _, block := range strings.Split(d, "\n\n") {
		lines := strings.Split(strings.TrimSpace(block), "\n")
		if len(lines) == 0 {
			continue
		}
		m := gHeader.FindStringSubmatch(lines[0])
		if m == nil {
			continue
		}
		id, _ := strconv.Atoi(m[1])
		state := m[2]
		if i := strings.IndexByte(state, ','); i >= 0 {
			state = state[:i]
		}
		var fs []string
		for _, l := range lines[1:] {
			if strings.HasPrefix(l, "\t") || strings.HasPrefix(l, "created by") {
				continue
			}
			if i := strings.LastIndex(l, "("); i > 0 {
				l = l[:i]
			}
			fs = append(fs, l)
		}
		text := strings.Join(fs, "\n")
		b6 := ""
		for _, f := range fs {
			if strings.HasPrefix(f, "diagonal.works/b6") {
				b6 = TopB6Frame(f + "(")
				break
			}
		}
		out[id] = goroutineInfo{id: id, state: state, funcs: text, b6: b6}
	}
	return out
}

func blockedState(s string) bool {
	switch {
	case strings.HasPrefix(s, "chan receive"), strings.HasPrefix(s, "chan send"),
		strings.HasPrefix(s, "select"), strings.HasPrefix(s, "semacquire"),
		strings.HasPrefix(s, "sync."):
		return true
	}
	return false
}

// GoroutineIDs snapshots the goroutines that exist now.
func GoroutineIDs() map[int]bool {
	ids := map[int]bool{}
	for id := range parseDump(allStacks()) {
		ids[id] = true
	}
	return ids
}

// HangVerdict is the outcome of Watch.
type HangVerdict int

const (
	Completed HangVerdict = iota
	Quiescent             // violation: nothing can ever wake the operation
	CapHit                // inconclusive: still running at the hard cap
)

type HangReport struct {
	Verdict HangVerdict
	Frame   string // innermost b6 frame of a parked goroutine
	Dump    string // the parked goroutines
}

// quiescent inspects goroutines not in before, ignoring those in ignore.
func quiescentNow(before map[int]bool, dumps []map[int]goroutineInfo) (bool, string, string) {
	last := dumps[len(dumps)-1]
	var ids []int
	for id := range last {
		if !before[id] {
			ids = append(ids, id)
		}
	}
	sort.Ints(ids)
	if len(ids) == 0 {
		return false, "", ""
	}
	frame := ""
	var sb strings.Builder
	for _, id := range ids {
		g := last[id]
		if !blockedState(g.state) {
			return false, "", ""
		}
		for _, d := range dumps[:len(dumps)-1] {
			o, ok := d[id]
			if !ok || o.state != g.state || o.funcs != g.funcs {
				return false, "", ""
			}
		}
		if g.b6 != "" && frame == "" {
			frame = g.b6
		}
		sb.WriteString("goroutine [" + g.state + "]:\n" + g.funcs + "\n\n")
	}
	if frame == "" {
		return false, "", ""
	}
	return true, frame, sb.String()
}

// Watch runs f in a new goroutine. If f has not returned after grace it takes
// three goroutine dumps (0 s, +0.5 s, +1.5 s); if every goroutine created
// since the call is parked identically in all three and at least one is inside
// b6 code the verdict is Quiescent. Otherwise it keeps checking until cap.
// before may be nil (snapshot taken here).
func Watch(f func(), grace, cap time.Duration) HangReport {
	before := GoroutineIDs()
	done := make(chan struct{})
	go func() {
		defer close(done)
		f()
	}()
	start := time.Now()
	t := time.NewTimer(grace)
	defer t.Stop()
	select {
	case <-done:
		return HangReport{Verdict: Completed}
	case <-t.C:
	}
	for {
		var dumps []map[int]goroutineInfo
		for i, pause := range []time.Duration{0, 500 * time.Millisecond, time.Second} {
			if i > 0 {
				select {
				case <-done:
					return HangReport{Verdict: Completed}
				case <-time.After(pause):
				}
			}
			dumps = append(dumps, parseDump(allStacks()))
		}
		select {
		case <-done:
			return HangReport{Verdict: Completed}
		default:
		}
		if q, frame, dump := quiescentNow(before, dumps); q {
			return HangReport{Verdict: Quiescent, Frame: frame, Dump: dump}
		}
		if time.Since(start) > cap {
			d := allStacks()
			return HangReport{Verdict: CapHit, Frame: firstNewB6Frame(before, d), Dump: clip(d, 20000)}
		}
		select {
		case <-done:
			return HangReport{Verdict: Completed}
		case <-time.After(grace):
		}
	}
}

func firstNewB6Frame(before map[int]bool, dump string) string {
	p := parseDump(dump)
	var ids []int
	for id := range p {
		if !before[id] {
			ids = append(ids, id)
		}
	}
	sort.Ints(ids)
	for _, id := range ids {
		if p[id].b6 != "" {
			return p[id].b6
		}
	}
	return "unknown"
}
