// Package wm holds the feature-map reference model of a world ("world model"),
// the specs from which both the model and the real ingest features are built,
// and the shared generators (DESIGN.md sections 4 and 5).
package wm

import (
	"fmt"
	"sort"
	"strings"

	"diagonal.works/b6"
	"diagonal.works/b6/ingest"
	"github.com/golang/geo/s1"
	"github.com/golang/geo/s2"
)

// E7 returns a lat/lng on the 1e-7 degree grid, so that E7 quantisation in the
// compact index is the identity.
func E7(latE7, lngE7 int64) s2.LatLng {
	return s2.LatLng{Lat: s1.Angle(float64(latE7)/1e7) * s1.Degree, Lng: s1.Angle(float64(lngE7)/1e7) * s1.Degree}
}

type Elem struct {
	Ref b6.FeatureID // valid: a reference to a point feature
	LL  s2.LatLng    // otherwise: an inline lat/lng
}

func (e Elem) IsRef() bool { return e.Ref.IsValid() }

type Poly struct {
	PathIDs []b6.FeatureID // non-nil: polygon given by closed paths (first = outer)
	Loops   [][]s2.LatLng  // otherwise: explicit loops (first = outer), not closed (no repeated vertex)
}

// Spec is the model's description of one feature; the real ingest.Feature is
// derived from it by Ingest, so world and model are fed from the same source.
type Spec struct {
	ID      b6.FeatureID
	Tags    []b6.Tag // without the geometry tag
	LL      s2.LatLng
	Path    []Elem
	Polys   []Poly
	Members []b6.RelationMember
	Keys    []any
	Values  []any
}

func (s *Spec) Clone() *Spec {
	c := *s
	c.Tags = append([]b6.Tag(nil), s.Tags...)
	c.Path = append([]Elem(nil), s.Path...)
	c.Polys = nil
	for _, p := range s.Polys {
		q := Poly{}
		if p.PathIDs != nil {
			q.PathIDs = append([]b6.FeatureID{}, p.PathIDs...)
		}
		for _, l := range p.Loops {
			q.Loops = append(q.Loops, append([]s2.LatLng(nil), l...))
		}
		c.Polys = append(c.Polys, q)
	}
	c.Members = append([]b6.RelationMember(nil), s.Members...)
	c.Keys = append([]any(nil), s.Keys...)
	c.Values = append([]any(nil), s.Values...)
	return &c
}

// GeometryTag returns the geometry tag the real feature carries (point/path).
func (s *Spec) GeometryTag() (b6.Tag, bool) {
	switch s.ID.Type {
	case b6.FeatureTypePoint:
		return b6.Tag{Key: b6.PointTag, Value: b6.NewPointExpressionFromLatLng(s.LL)}, true
	case b6.FeatureTypePath:
		es := make([]b6.AnyExpression, len(s.Path))
		for i, e := range s.Path {
			if e.IsRef() {
				es[i] = b6.FeatureIDExpression(e.Ref)
			} else {
				es[i] = b6.PointExpression(e.LL)
			}
		}
		return b6.Tag{Key: b6.PathTag, Value: b6.NewExpressions(es)}, true
	}
	return b6.Tag{}, false
}

// AllTags returns the tags a reader of the world sees (geometry tag last).
func (s *Spec) AllTags() []b6.Tag {
	tags := append([]b6.Tag(nil), s.Tags...)
	if g, ok := s.GeometryTag(); ok {
		tags = append(tags, g)
	}
	return tags
}

func (s *Spec) Get(key string) (b6.Tag, bool) {
	for _, t := range s.AllTags() {
		if t.Key == key {
			return t, true
		}
	}
	return b6.Tag{}, false
}

// Refs returns the outgoing references of the feature.
func (s *Spec) Refs() []b6.FeatureID {
	var out []b6.FeatureID
	for _, e := range s.Path {
		if e.IsRef() {
			out = append(out, e.Ref)
		}
	}
	for _, p := range s.Polys {
		out = append(out, p.PathIDs...)
	}
	for _, m := range s.Members {
		out = append(out, m.ID)
	}
	for _, k := range s.Keys {
		if id, ok := k.(b6.FeatureID); ok {
			out = append(out, id)
		}
	}
	return out
}

func LoopToPolygonLoop(l []s2.LatLng) *s2.Loop {
	ps := make([]s2.Point, len(l))
	for i, ll := range l {
		ps[i] = s2.PointFromLatLng(ll)
	}
	return s2.LoopFromPoints(ps)
}

// Ingest builds a fresh real feature from the spec.
func (s *Spec) Ingest() ingest.Feature {
	tags := b6.Tags(s.AllTags())
	switch s.ID.Type {
	case b6.FeatureTypePoint, b6.FeatureTypePath:
		return &ingest.GenericFeature{ID: s.ID, Tags: tags}
	case b6.FeatureTypeArea:
		a := ingest.NewAreaFeature(len(s.Polys))
		a.AreaID = s.ID.ToAreaID()
		a.Tags = tags
		for i, p := range s.Polys {
			if p.PathIDs != nil {
				a.SetPathIDs(i, append([]b6.FeatureID{}, p.PathIDs...))
			} else {
				loops := make([]*s2.Loop, len(p.Loops))
				for j, l := range p.Loops {
					loops[j] = LoopToPolygonLoop(l)
				}
				a.SetPolygon(i, s2.PolygonFromLoops(loops))
			}
		}
		return a
	case b6.FeatureTypeRelation:
		r := ingest.NewRelationFeature(len(s.Members))
		r.RelationID = s.ID.ToRelationID()
		r.Tags = tags
		copy(r.Members, s.Members)
		return r
	case b6.FeatureTypeCollection:
		c := &ingest.CollectionFeature{CollectionID: s.ID.ToCollectionID(), Tags: tags}
		c.Keys = append([]any(nil), s.Keys...)
		c.Values = append([]any(nil), s.Values...)
		return c
	}
	panic("wm: cannot build ingest feature of type " + s.ID.Type.String())
}

func (s *Spec) String() string {
	var sb strings.Builder
	sb.WriteString(s.ID.String())
	for _, t := range s.Tags {
		sb.WriteString(" " + t.Key + "=" + t.Value.String())
	}
	switch s.ID.Type {
	case b6.FeatureTypePoint:
		sb.WriteString(fmt.Sprintf(" @%.7f,%.7f", s.LL.Lat.Degrees(), s.LL.Lng.Degrees()))
	case b6.FeatureTypePath:
		sb.WriteString(" path:")
		for _, e := range s.Path {
			if e.IsRef() {
				sb.WriteString(fmt.Sprintf(" %s/%d", e.Ref.Namespace, e.Ref.Value))
			} else {
				sb.WriteString(fmt.Sprintf(" (%.7f,%.7f)", e.LL.Lat.Degrees(), e.LL.Lng.Degrees()))
			}
		}
	case b6.FeatureTypeArea:
		for _, p := range s.Polys {
			if p.PathIDs != nil {
				sb.WriteString(fmt.Sprintf(" poly-paths%v", p.PathIDs))
			} else {
				sb.WriteString(fmt.Sprintf(" poly-loops(%d)", len(p.Loops)))
			}
		}
	case b6.FeatureTypeRelation:
		for _, m := range s.Members {
			sb.WriteString(fmt.Sprintf(" member(%s,%q)", m.ID, m.Role))
		}
	case b6.FeatureTypeCollection:
		for i := range s.Keys {
			sb.WriteString(fmt.Sprintf(" %v:%v", s.Keys[i], s.Values[i]))
		}
	}
	return sb.String()
}

// World is the feature-map model.
type World struct {
	F map[b6.FeatureID]*Spec
}

func NewWorld() *World { return &World{F: map[b6.FeatureID]*Spec{}} }

func (w *World) Clone() *World {
	c := NewWorld()
	for id, s := range w.F {
		c.F[id] = s.Clone()
	}
	return c
}

func (w *World) Add(s *Spec) { w.F[s.ID] = s.Clone() }

// AddTag sets key on the feature (replace or append), error if absent.
func (w *World) AddTag(id b6.FeatureID, tag b6.Tag) error {
	s, ok := w.F[id]
	if !ok {
		return fmt.Errorf("no feature %s", id)
	}
	for i := range s.Tags {
		if s.Tags[i].Key == tag.Key {
			s.Tags[i].Value = tag.Value
			return nil
		}
	}
	s.Tags = append(s.Tags, tag)
	return nil
}

func (w *World) RemoveTag(id b6.FeatureID, key string) {
	s, ok := w.F[id]
	if !ok {
		return
	}
	for i := range s.Tags {
		if s.Tags[i].Key == key {
			s.Tags = append(s.Tags[:i:i], s.Tags[i+1:]...)
			return
		}
	}
}

// IDs returns all ids in feature-ID order (own implementation of the order:
// type, then namespace, then value).
func (w *World) IDs() []b6.FeatureID {
	ids := make([]b6.FeatureID, 0, len(w.F))
	for id := range w.F {
		ids = append(ids, id)
	}
	SortIDs(ids)
	return ids
}

func IDLess(a, b b6.FeatureID) bool {
	if a.Type != b.Type {
		return a.Type < b.Type
	}
	if a.Namespace != b.Namespace {
		return a.Namespace < b.Namespace
	}
	return a.Value < b.Value
}

func SortIDs(ids []b6.FeatureID) {
	sort.Slice(ids, func(i, j int) bool { return IDLess(ids[i], ids[j]) })
}

// Matches is the brute-force definition of the tag queries of C03.
func Matches(s *Spec, q b6.Query) bool {
	switch q := q.(type) {
	case b6.All:
		return true
	case b6.Empty:
		return false
	case b6.Keyed:
		_, ok := s.Get(q.Key)
		return ok
	case b6.Tagged:
		t, ok := s.Get(q.Key)
		return ok && t.Value.String() == q.Value.String()
	case b6.Typed:
		return s.ID.Type == q.Type && Matches(s, q.Query)
	case b6.Intersection:
		for _, sub := range q {
			if !Matches(s, sub) {
				return false
			}
		}
		return true
	case b6.Union:
		for _, sub := range q {
			if Matches(s, sub) {
				return true
			}
		}
		return false
	}
	panic(fmt.Sprintf("wm.Matches: unsupported query %T", q))
}

// DontCare: a point whose only current tag is its geometry tag. Static worlds
// never index it; an edited world may still hold it in the base index. Both
// satisfy the property, so search oracles treat it as optional.
func (s *Spec) DontCare() bool {
	return s.ID.Type == b6.FeatureTypePoint && len(s.Tags) == 0
}

// Find returns (must, may): ids that must be in the result, in order, and the
// optional don't-care ids that may additionally appear.
func (w *World) Find(q b6.Query) (must []b6.FeatureID, may map[b6.FeatureID]bool) {
	may = map[b6.FeatureID]bool{}
	for _, id := range w.IDs() {
		s := w.F[id]
		if !Matches(s, q) {
			continue
		}
		if s.DontCare() {
			may[id] = true
		} else {
			must = append(must, id)
		}
	}
	return
}

// CheckFind compares an ordered result with the model. It returns "" or a
// description of the first discrepancy and its class.
func (w *World) CheckFind(q b6.Query, got []b6.FeatureID) (class, detail string) {
	must, may := w.Find(q)
	for i := 1; i < len(got); i++ {
		if !IDLess(got[i-1], got[i]) {
			if got[i-1] == got[i] {
				return "duplicate", fmt.Sprintf("%s returned twice", got[i])
			}
			return "order", fmt.Sprintf("%s returned before %s", got[i-1], got[i])
		}
	}
	gotSet := map[b6.FeatureID]bool{}
	for _, id := range got {
		gotSet[id] = true
	}
	for _, id := range must {
		if !gotSet[id] {
			return "missing", fmt.Sprintf("%s matches but was not returned", id)
		}
	}
	mustSet := map[b6.FeatureID]bool{}
	for _, id := range must {
		mustSet[id] = true
	}
	for _, id := range got {
		if !mustSet[id] && !may[id] {
			if _, ok := w.F[id]; !ok {
				return "phantom", fmt.Sprintf("%s returned but is not in the world", id)
			}
			return "extra", fmt.Sprintf("%s returned but does not match", id)
		}
	}
	return "", ""
}

// Referrers returns the transitive reverse-reference closure of id: every
// feature from which id is reachable by following references.
func (w *World) Referrers(id b6.FeatureID) map[b6.FeatureID]bool {
	rev := map[b6.FeatureID][]b6.FeatureID{}
	for fid, s := range w.F {
		for _, r := range s.Refs() {
			rev[r] = append(rev[r], fid)
		}
	}
	out := map[b6.FeatureID]bool{}
	stack := []b6.FeatureID{id}
	for len(stack) > 0 {
		x := stack[len(stack)-1]
		stack = stack[:len(stack)-1]
		for _, f := range rev[x] {
			if !out[f] {
				out[f] = true
				stack = append(stack, f)
			}
		}
	}
	return out
}

// DirectReferrers returns the features that reference id directly.
func (w *World) DirectReferrers(id b6.FeatureID) map[b6.FeatureID]bool {
	out := map[b6.FeatureID]bool{}
	for fid, s := range w.F {
		for _, r := range s.Refs() {
			if r == id {
				out[fid] = true
			}
		}
	}
	return out
}

// Location resolves a point id.
func (w *World) Location(id b6.FeatureID) (s2.LatLng, bool) {
	if s, ok := w.F[id]; ok && id.Type == b6.FeatureTypePoint {
		return s.LL, true
	}
	return s2.LatLng{}, false
}

// PathPoints resolves the points of a path (false if one is missing).
func (w *World) PathPoints(s *Spec) ([]s2.LatLng, bool) {
	out := make([]s2.LatLng, len(s.Path))
	for i, e := range s.Path {
		if e.IsRef() {
			ll, ok := w.Location(e.Ref)
			if !ok {
				return nil, false
			}
			out[i] = ll
		} else {
			out[i] = e.LL
		}
	}
	return out, true
}
