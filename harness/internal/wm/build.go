package wm

import (
	"fmt"

	"diagonal.works/b6"
	"diagonal.works/b6/ingest"
	"diagonal.works/b6/ingest/compact"
)

// Features converts specs to fresh ingest features.
func Features(specs []*Spec) []ingest.Feature {
	fs := make([]ingest.Feature, len(specs))
	for i, s := range specs {
		fs[i] = s.Ingest()
	}
	return fs
}

// ModelOf builds the model holding the specs.
func ModelOf(specs []*Spec) *World {
	w := NewWorld()
	for _, s := range specs {
		w.Add(s)
	}
	return w
}

// BasicMutable adds the specs one by one to a BasicMutableWorld.
func BasicMutable(specs []*Spec) (*ingest.BasicMutableWorld, error) {
	w := ingest.NewBasicMutableWorld()
	for _, s := range specs {
		if err := w.AddFeature(s.Ingest()); err != nil {
			return nil, fmt.Errorf("AddFeature(%s): %w", s.ID, err)
		}
	}
	return w, nil
}

// Basic builds the immutable in-memory world through BasicWorldBuilder.
func Basic(specs []*Spec, cores int) (b6.World, error) {
	o := &ingest.BuildOptions{Cores: cores}
	b := ingest.NewBasicWorldBuilder(o)
	for _, s := range specs {
		b.AddFeature(s.Ingest())
	}
	return b.Finish(o)
}

// CompactBytes builds a compact index in memory.
func CompactBytes(specs []*Spec, goroutines int) ([]byte, error) {
	o := compact.Options{Goroutines: goroutines, PointsScratchOutputType: compact.OutputTypeMemory}
	return compact.BuildInMemory(ingest.MemoryFeatureSource(Features(specs)), &o)
}

// Compact builds a compact index in memory and loads it.
func Compact(specs []*Spec, goroutines int) (*compact.World, error) {
	data, err := CompactBytes(specs, goroutines)
	if err != nil {
		return nil, err
	}
	return compact.NewWorldFromData(data)
}

// Apply applies an op to a real mutable world.
func Apply(w ingest.MutableWorld, op Op) error {
	switch op.Kind {
	case "add":
		return w.AddFeature(op.Spec.Ingest())
	case "addtag":
		return w.AddTag(op.ID, op.Tag)
	case "removetag":
		return w.RemoveTag(op.ID, op.Key)
	}
	panic("wm.Apply: " + op.Kind)
}

// ApplyModel applies an op to the model; it mirrors the documented semantics:
// AddFeature replaces, AddTag fails on an absent feature, RemoveTag of an absent
// key or feature is a no-op.
func ApplyModel(m *World, op Op) error {
	switch op.Kind {
	case "add":
		m.Add(op.Spec)
		return nil
	case "addtag":
		return m.AddTag(op.ID, op.Tag)
	case "removetag":
		m.RemoveTag(op.ID, op.Key)
		return nil
	}
	panic("wm.ApplyModel: " + op.Kind)
}
