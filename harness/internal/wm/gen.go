package wm

import (
	"fmt"
	"math"

	"diagonal.works/b6"
	"github.com/golang/geo/s2"
	"verif/internal/core"
)

// Tag palette: searchable (#, @) and plain keys, few values so that queries hit.
var (
	HashKeys  = []string{"#amenity", "#building", "#highway", "#shop"}
	AtKeys    = []string{"@wikidata", "@ref"}
	PlainKeys = []string{"name", "note", "oneway"}
	TagValues = []string{"yes", "no", "cafe", "primary", "a b", "1", "\U0001F600x"} // the last one sorts after U+FFFD (a 4-byte rune)
	AllKeys   = append(append(append([]string{}, HashKeys...), AtKeys...), PlainKeys...)
)

type GenOptions struct {
	MinPoints, MaxPoints int
	MaxPaths             int
	MaxRings             int
	MaxRelations         int
	MaxCollections       int
	Namespaces           []b6.Namespace // extra namespaces for points/paths besides the OSM ones
	InlinePathPoints     bool           // allow lat/lng elements in paths (mixed encodings)
	LatLngPolygons       bool           // allow areas given by explicit loops
	Holes                bool
	HostileIDs           bool // draw ID values from the boundary palette

	// Additions for C01/C17/C36. The zero values keep the behaviour (and the
	// random stream) of the options above unchanged.
	PointTags       bool    // some features also carry a point-valued plain tag
	TinyNamespaces  int     // up to this many extra namespaces that hold only 1..2 points (and sometimes one path over them)
	SpreadTypes     bool    // ring paths (with their areas) and relations may live in the extra Namespaces too
	ClockwiseP      float64 // probability that the path of a ring is listed clockwise
	LatLngOnlyAreaP float64 // probability of an extra area given only by explicit loops (no paths)
	MultiPolygonP   float64 // probability that an area gets a second polygon made of path references
}

func DefaultGen() GenOptions {
	return GenOptions{MinPoints: 4, MaxPoints: 14, MaxPaths: 4, MaxRings: 3, MaxRelations: 3, MaxCollections: 2, Holes: true}
}

var IDValuePalette = []uint64{0, 1, 2, 63, 64, 1<<31 - 1, 1 << 31, 1<<31 + 1, 1<<32 - 1, 1 << 32, 1<<32 + 1, 1 << 62, 1<<63 - 1, 1 << 63, 1<<63 + 1, 1<<64 - 1}

// Gen generates specs with unique ids.
type Gen struct {
	R    *core.R
	O    GenOptions
	used map[b6.FeatureID]bool
	next uint64
	cx   int64 // centre, E7
	cy   int64

	free      []b6.FeatureID            // points that may move anywhere (AddMovable)
	radial    map[b6.FeatureID][2]int64 // ring points that may move along the ray from this centre (E7)
	radialIDs []b6.FeatureID
}

func NewGen(r *core.R, o GenOptions) *Gen {
	return &Gen{R: r, O: o, used: map[b6.FeatureID]bool{}, next: 100, cx: 515300000 + int64(r.Intn(20000)), cy: -1200000 + int64(r.Intn(20000))}
}

func (g *Gen) value() uint64 {
	if g.O.HostileIDs && g.R.Chance(0.4) {
		return core.Pick(g.R, IDValuePalette)
	}
	if g.O.HostileIDs && g.R.Chance(0.2) {
		return g.R.U64()
	}
	g.next += uint64(1 + g.R.Intn(3))
	return g.next
}

func (g *Gen) NewID(t b6.FeatureType, ns b6.Namespace) b6.FeatureID {
	for {
		id := b6.FeatureID{Type: t, Namespace: ns, Value: g.value()}
		if !g.used[id] {
			g.used[id] = true
			return id
		}
	}
}

func (g *Gen) Reserve(id b6.FeatureID) { g.used[id] = true }

func (g *Gen) ns(def b6.Namespace) b6.Namespace {
	if len(g.O.Namespaces) > 0 && g.R.Chance(0.35) {
		return core.Pick(g.R, g.O.Namespaces)
	}
	return def
}

// RandomTags draws 0..3 tags with distinct keys.
func (g *Gen) RandomTags(pSome float64) []b6.Tag {
	if !g.R.Chance(pSome) {
		return nil
	}
	n := 1 + g.R.Intn(3)
	var tags []b6.Tag
	for _, i := range g.R.Perm(len(AllKeys))[:n] {
		tags = append(tags, b6.Tag{Key: AllKeys[i], Value: b6.NewStringExpression(core.Pick(g.R, TagValues))})
	}
	if g.O.PointTags && g.R.Chance(0.25) {
		tags = append(tags, g.PointTag())
	}
	return tags
}

// PointTagKeys are plain keys that carry point values (option PointTags).
var PointTagKeys = []string{"entrance", "label"}

// PointTag draws a tag whose value is a point on the E7 grid.
func (g *Gen) PointTag() b6.Tag {
	ll := g.Place(int64(g.R.Intn(200000))-100000, int64(g.R.Intn(200000))-100000)
	return b6.Tag{Key: core.Pick(g.R, PointTagKeys), Value: b6.NewPointExpressionFromLatLng(ll)}
}

func (g *Gen) RandomTag() b6.Tag {
	return b6.Tag{Key: core.Pick(g.R, AllKeys), Value: b6.NewStringExpression(core.Pick(g.R, TagValues))}
}

// Place returns a lat/lng near the world's centre: (dx,dy) in E7 units.
func (g *Gen) Place(dx, dy int64) s2.LatLng { return E7(g.cx+dx, g.cy+dy) }

func (g *Gen) Point(tagP float64) *Spec {
	return &Spec{ID: g.NewID(b6.FeatureTypePoint, g.ns(b6.NamespaceOSMNode)), Tags: g.RandomTags(tagP),
		LL: g.Place(int64(g.R.Intn(200000))-100000, int64(g.R.Intn(200000))-100000)}
}

// Ring creates k new points counter-clockwise around a centre and the closed
// path over them. radius in E7 units (1e-7 deg).
func (g *Gen) Ring(dx, dy int64, radius float64, k int, clockwise bool) (points []*Spec, path *Spec) {
	phase := g.R.Float() * 2 * math.Pi
	for i := 0; i < k; i++ {
		a := phase + 2*math.Pi*float64(i)/float64(k)
		rr := radius * (0.6 + 0.4*g.R.Float())
		// longitude grows eastwards, latitude northwards: (cos, sin) in (lng, lat) is counter-clockwise
		pns := b6.NamespaceOSMNode
		if g.O.SpreadTypes {
			pns = g.ns(pns)
		}
		p := &Spec{ID: g.NewID(b6.FeatureTypePoint, pns),
			LL: g.Place(dx+int64(rr*math.Sin(a)), dy+int64(rr*math.Cos(a)))}
		points = append(points, p)
	}
	wns := b6.NamespaceOSMWay
	if g.O.SpreadTypes {
		wns = g.ns(wns)
	}
	path = &Spec{ID: g.NewID(b6.FeatureTypePath, wns)}
	order := make([]int, k)
	for i := range order {
		order[i] = i
	}
	if clockwise {
		for i, j := 0, k-1; i < j; i, j = i+1, j-1 {
			order[i], order[j] = order[j], order[i]
		}
	}
	for _, i := range order {
		path.Path = append(path.Path, Elem{Ref: points[i].ID})
	}
	path.Path = append(path.Path, Elem{Ref: points[order[0]].ID})
	return
}

// World generates a set of features that is valid by construction.
// ExplicitArea draws an area that has no paths at all: 1..2 polygons of explicit
// loops, the first possibly with a hole.
func (g *Gen) ExplicitArea() *Spec {
	r := g.R
	ans := b6.NamespaceOSMWay
	if g.O.SpreadTypes {
		ans = g.ns(ans)
	}
	area := &Spec{ID: g.NewID(b6.FeatureTypeArea, ans), Tags: g.RandomTags(0.9)}
	dx, dy := int64(r.Intn(160000))-80000, int64(r.Intn(160000))-80000
	loop := func(cx, cy int64, radius float64, k int) []s2.LatLng {
		var l []s2.LatLng
		for j := 0; j < k; j++ {
			a := 2 * math.Pi * float64(j) / float64(k)
			l = append(l, g.Place(cx+int64(radius*math.Sin(a)), cy+int64(radius*math.Cos(a))))
		}
		return l
	}
	first := Poly{Loops: [][]s2.LatLng{loop(dx, dy, 3000, r.Range(3, 7))}}
	if g.O.Holes && r.Chance(0.4) {
		first.Loops = append(first.Loops, loop(dx, dy, 700, r.Range(3, 5)))
	}
	area.Polys = []Poly{first}
	if r.Chance(0.4) {
		area.Polys = append(area.Polys, Poly{Loops: [][]s2.LatLng{loop(dx+15000, dy-9000, 2000, r.Range(3, 6))}})
	}
	return area
}

func (g *Gen) World() []*Spec {
	r := g.R
	var out []*Spec
	var points, paths, rings, areas, rels []*Spec
	n := r.Range(g.O.MinPoints, g.O.MaxPoints)
	for i := 0; i < n; i++ {
		p := g.Point(0.45)
		points = append(points, p)
	}
	out = append(out, points...)
	if g.O.TinyNamespaces > 0 {
		// namespaces whose point block holds 1..2 points (bucketBitsForCount
		// regimes), with the top ID bit set half of the time
		nt := r.Intn(g.O.TinyNamespaces + 1)
		for i := 0; i < nt; i++ {
			tns := b6.Namespace(fmt.Sprintf("example.org/tiny/%d", i))
			var tiny []*Spec
			for j := r.Range(1, 2); j > 0; j-- {
				p := g.Point(0.6)
				p.ID = b6.FeatureID{Type: b6.FeatureTypePoint, Namespace: tns, Value: p.ID.Value}
				if r.Bool() {
					p.ID.Value |= 1 << 63
				}
				if g.used[p.ID] {
					continue
				}
				g.used[p.ID] = true
				tiny = append(tiny, p)
			}
			out = append(out, tiny...)
			if len(tiny) > 0 && r.Bool() {
				// one path over the tiny points (plus an ordinary one), in the tiny or the way namespace
				wns := b6.NamespaceOSMWay
				if r.Bool() {
					wns = tns
				}
				path := &Spec{ID: g.NewID(b6.FeatureTypePath, wns), Tags: g.RandomTags(0.8)}
				for _, p := range tiny {
					path.Path = append(path.Path, Elem{Ref: p.ID})
				}
				path.Path = append(path.Path, Elem{Ref: core.Pick(r, points).ID})
				paths = append(paths, path)
				out = append(out, path)
			}
			points = append(points, tiny...)
		}
	}
	np := r.Intn(g.O.MaxPaths + 1)
	for i := 0; i < np && len(points) >= 2; i++ {
		k := r.Range(2, min(6, len(points)))
		path := &Spec{ID: g.NewID(b6.FeatureTypePath, g.ns(b6.NamespaceOSMWay)), Tags: g.RandomTags(0.8)}
		allInline := g.O.InlinePathPoints && r.Chance(0.2)
		for _, j := range r.Perm(len(points))[:k] {
			if allInline || (g.O.InlinePathPoints && r.Chance(0.3)) {
				path.Path = append(path.Path, Elem{LL: g.Place(int64(r.Intn(200000))-100000, int64(r.Intn(200000))-100000)})
			} else {
				path.Path = append(path.Path, Elem{Ref: points[j].ID})
			}
		}
		paths = append(paths, path)
		out = append(out, path)
	}
	nr := r.Intn(g.O.MaxRings + 1)
	for i := 0; i < nr; i++ {
		dx, dy := int64(r.Intn(160000))-80000, int64(r.Intn(160000))-80000
		ps, ring := g.Ring(dx, dy, 3000+float64(r.Intn(3000)), r.Range(3, 7), g.O.ClockwiseP > 0 && r.Chance(g.O.ClockwiseP))
		out = append(out, ps...)
		points = append(points, ps...)
		out = append(out, ring)
		rings = append(rings, ring)
		area := &Spec{ID: b6.FeatureID{Type: b6.FeatureTypeArea, Namespace: ring.ID.Namespace, Value: ring.ID.Value}, Tags: g.RandomTags(0.9)}
		g.Reserve(area.ID)
		poly := Poly{PathIDs: []b6.FeatureID{ring.ID}}
		if g.O.Holes && r.Chance(0.3) {
			hps, hole := g.Ring(dx, dy, 800, r.Range(3, 5), false)
			out = append(out, hps...)
			points = append(points, hps...)
			out = append(out, hole)
			rings = append(rings, hole)
			poly.PathIDs = append(poly.PathIDs, hole.ID)
		}
		area.Polys = []Poly{poly}
		if g.O.MultiPolygonP > 0 && r.Chance(g.O.MultiPolygonP) {
			// a second polygon made of a path reference, away from the first
			ps2, ring2 := g.Ring(dx-30000, dy+25000, 2500, r.Range(3, 5), false)
			out = append(out, ps2...)
			points = append(points, ps2...)
			out = append(out, ring2)
			rings = append(rings, ring2)
			area.Polys = append(area.Polys, Poly{PathIDs: []b6.FeatureID{ring2.ID}})
		}
		if g.O.LatLngPolygons && r.Chance(0.3) {
			// a second polygon given by explicit loops, well away from the first
			var loop []s2.LatLng
			k := r.Range(3, 6)
			for j := 0; j < k; j++ {
				a := 2 * math.Pi * float64(j) / float64(k)
				loop = append(loop, g.Place(dx+20000+int64(2000*math.Sin(a)), dy+int64(2000*math.Cos(a))))
			}
			area.Polys = append(area.Polys, Poly{Loops: [][]s2.LatLng{loop}})
		}
		areas = append(areas, area)
		out = append(out, area)
	}
	if g.O.LatLngOnlyAreaP > 0 && r.Chance(g.O.LatLngOnlyAreaP) {
		area := g.ExplicitArea()
		areas = append(areas, area)
		out = append(out, area)
	}
	nrel := r.Intn(g.O.MaxRelations + 1)
	for i := 0; i < nrel; i++ {
		rns := b6.NamespaceOSMRelation
		if g.O.SpreadTypes {
			rns = g.ns(rns)
		}
		rel := &Spec{ID: g.NewID(b6.FeatureTypeRelation, rns), Tags: g.RandomTags(0.9)}
		pool := append(append(append(append([]*Spec{}, points...), paths...), areas...), rels...)
		pool = append(pool, rings...)
		k := r.Range(1, 4)
		for j := 0; j < k && len(pool) > 0; j++ {
			m := core.Pick(r, pool)
			rel.Members = append(rel.Members, b6.RelationMember{ID: m.ID, Role: core.Pick(r, []string{"", "outer", "inner", "stop"})})
		}
		rels = append(rels, rel)
		out = append(out, rel)
	}
	nc := r.Intn(g.O.MaxCollections + 1)
	for i := 0; i < nc; i++ {
		c := &Spec{ID: g.NewID(b6.FeatureTypeCollection, "diagonal.works/ns/test"), Tags: g.RandomTags(0.9)}
		k := r.Range(0, 4)
		for j := 0; j < k; j++ {
			if r.Bool() && len(out) > 0 {
				c.Keys = append(c.Keys, core.Pick(r, out).ID)
			} else {
				c.Keys = append(c.Keys, fmt.Sprintf("k%d", j))
			}
			c.Values = append(c.Values, j)
		}
		out = append(out, c)
	}
	return out
}

// AddMovable creates features whose points can be moved without invalidating
// anything: an open path over three new points (free moves) and a ring of k
// points with a known centre, its closed path and an area over it (radial
// moves keep the ring star-shaped, so the area stays valid and counter-
// clockwise). Once registered, NextOp also draws point moves. The specs are
// returned in dependency order and must be added to the world by the caller.
func (g *Gen) AddMovable() []*Spec {
	r := g.R
	a, b, c := g.Point(0.5), g.Point(0.5), g.Point(0)
	open := &Spec{ID: g.NewID(b6.FeatureTypePath, b6.NamespaceOSMWay), Tags: []b6.Tag{{Key: "#highway", Value: b6.NewStringExpression("primary")}},
		Path: []Elem{{Ref: a.ID}, {Ref: c.ID}, {Ref: b.ID}}}
	g.free = append(g.free, a.ID, b.ID, c.ID)
	dx, dy := int64(150000+r.Intn(20000)), int64(-150000-r.Intn(20000))
	ps, ring := g.Ring(dx, dy, 4000, r.Range(4, 6), false)
	area := &Spec{ID: b6.FeatureID{Type: b6.FeatureTypeArea, Namespace: ring.ID.Namespace, Value: ring.ID.Value},
		Tags: []b6.Tag{{Key: "#building", Value: b6.NewStringExpression("yes")}}, Polys: []Poly{{PathIDs: []b6.FeatureID{ring.ID}}}}
	g.Reserve(area.ID)
	if g.radial == nil {
		g.radial = map[b6.FeatureID][2]int64{}
	}
	for _, p := range ps {
		g.radial[p.ID] = [2]int64{g.cx + dx, g.cy + dy}
		g.radialIDs = append(g.radialIDs, p.ID)
	}
	out := []*Spec{a, b, c, open}
	out = append(out, ps...)
	return append(out, ring, area)
}

func roundE7(deg float64) int64 { return int64(math.Round(deg * 1e7)) }

// MoveOp draws a move of one of the movable points (see AddMovable).
func (g *Gen) MoveOp(m *World) (Op, bool) {
	r := g.R
	if len(g.free)+len(g.radialIDs) == 0 {
		return Op{}, false
	}
	if len(g.radialIDs) > 0 && (len(g.free) == 0 || r.Bool()) {
		id := core.Pick(r, g.radialIDs)
		s, ok := m.F[id]
		if !ok {
			return Op{}, false
		}
		c := g.radial[id]
		f := 0.85 + 0.3*r.Float()
		lat, lng := roundE7(s.LL.Lat.Degrees()), roundE7(s.LL.Lng.Degrees())
		moved := s.Clone()
		moved.LL = E7(c[0]+int64(math.Round(f*float64(lat-c[0]))), c[1]+int64(math.Round(f*float64(lng-c[1]))))
		return Op{Kind: "add", Spec: moved}, true
	}
	id := core.Pick(r, g.free)
	s, ok := m.F[id]
	if !ok {
		return Op{}, false
	}
	moved := s.Clone()
	moved.LL = g.Place(int64(r.Intn(200000))-100000, int64(r.Intn(200000))-100000)
	return Op{Kind: "add", Spec: moved}, true
}

// Op is one edit of a history.
type Op struct {
	Kind string // add | addtag | removetag
	Spec *Spec  // add
	ID   b6.FeatureID
	Tag  b6.Tag
	Key  string
}

func (o Op) String() string {
	switch o.Kind {
	case "add":
		return "AddFeature(" + o.Spec.String() + ")"
	case "addtag":
		return fmt.Sprintf("AddTag(%s, %s=%s)", o.ID, o.Tag.Key, o.Tag.Value.String())
	case "removetag":
		return fmt.Sprintf("RemoveTag(%s, %s)", o.ID, o.Key)
	}
	return o.Kind
}

// NextOp draws the next operation of an edit history against the current model.
// Replacements keep the geometry of features that others depend on, so that
// every generated AddFeature is valid (rejections are the subject of C13).
func (g *Gen) NextOp(m *World) Op {
	r := g.R
	if len(g.free)+len(g.radialIDs) > 0 && r.Chance(0.12) {
		if op, ok := g.MoveOp(m); ok {
			return op
		}
	}
	ids := m.IDs()
	switch k := r.Intn(10); {
	case k < 4 && len(ids) > 0: // addtag
		id := core.Pick(r, ids)
		return Op{Kind: "addtag", ID: id, Tag: g.RandomTag()}
	case k < 7 && len(ids) > 0: // removetag
		id := core.Pick(r, ids)
		s := m.F[id]
		if len(s.Tags) > 0 && r.Chance(0.8) {
			return Op{Kind: "removetag", ID: id, Key: core.Pick(r, s.Tags).Key}
		}
		return Op{Kind: "removetag", ID: id, Key: core.Pick(r, AllKeys)}
	case k < 9 && len(ids) > 0: // replace an existing feature: new tags, same geometry
		id := core.Pick(r, ids)
		s := m.F[id].Clone()
		s.Tags = g.RandomTags(0.8)
		return Op{Kind: "add", Spec: s}
	default: // a new point
		return Op{Kind: "add", Spec: g.Point(0.7)}
	}
}

func min(a, b int) int {
	if a < b {
		return a
	}
	return b
}
