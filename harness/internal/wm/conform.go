package wm

import (
	"fmt"
	"sort"
	"strings"
	"sync"

	"diagonal.works/b6"
	"github.com/golang/geo/s2"
	"verif/internal/core"
	"verif/internal/obs"
)

// Discrepancy between a real world and the model.
type Discrepancy struct {
	Class  string // stable class for signatures, e.g. "tags", "missing", "geometry:path"
	Detail string
}

// TagMap renders tags as key -> kind-tagged value (E7 for points); a repeated
// key is reported by the caller through the length check.
func TagMap(tags []b6.Tag) map[string]string {
	m := map[string]string{}
	for _, t := range tags {
		m[t.Key] = obs.RenderValue(t.Value)
	}
	return m
}

func renderTagMap(m map[string]string) string {
	keys := make([]string, 0, len(m))
	for k := range m {
		keys = append(keys, k)
	}
	sort.Strings(keys)
	var sb strings.Builder
	for _, k := range keys {
		sb.WriteString(k + "=" + m[k] + " ")
	}
	return "{" + strings.TrimSpace(sb.String()) + "}"
}

// canonRing: rotate to the smallest vertex and pick the lexicographically
// smaller direction, so that rings compare equal up to start and winding.
func canonRing(vs []string) string {
	if len(vs) > 1 && vs[0] == vs[len(vs)-1] {
		vs = vs[:len(vs)-1]
	}
	n := len(vs)
	if n == 0 {
		return "()"
	}
	best := ""
	for dir := 0; dir < 2; dir++ {
		for start := 0; start < n; start++ {
			parts := make([]string, n)
			for i := 0; i < n; i++ {
				j := (start + i) % n
				if dir == 1 {
					j = ((start-i)%n + n) % n
				}
				parts[i] = vs[j]
			}
			s := strings.Join(parts, " ")
			if best == "" || s < best {
				best = s
			}
		}
	}
	return "(" + best + ")"
}

func ringsOfPolygon(p *s2.Polygon) []string {
	var out []string
	for i := 0; i < p.NumLoops(); i++ {
		l := p.Loop(i)
		vs := make([]string, l.NumVertices())
		for j := range vs {
			vs[j] = obs.PointE7(l.Vertex(j))
		}
		out = append(out, canonRing(vs))
	}
	sort.Strings(out)
	return out
}

// expectedRings computes the rings of polygon i of an area spec in the model.
func (w *World) expectedRings(p Poly) ([]string, bool) {
	var out []string
	if p.PathIDs != nil {
		for _, id := range p.PathIDs {
			ps, ok := w.F[id]
			if !ok {
				return nil, false
			}
			lls, ok := w.PathPoints(ps)
			if !ok {
				return nil, false
			}
			vs := make([]string, len(lls))
			for i, ll := range lls {
				vs[i] = obs.LatLngE7(ll)
			}
			out = append(out, canonRing(vs))
		}
	} else {
		for _, l := range p.Loops {
			vs := make([]string, len(l))
			for i, ll := range l {
				vs[i] = obs.LatLngE7(ll)
			}
			out = append(out, canonRing(vs))
		}
	}
	sort.Strings(out)
	return out, true
}

// CheckFeature compares one real feature with its spec: tags (as a map with
// value kinds) and, if geometry is set, the geometry.
func (w *World) CheckFeature(f b6.Feature, s *Spec, geometry bool) []Discrepancy {
	var out []Discrepancy
	add := func(class, format string, args ...any) {
		out = append(out, Discrepancy{class, fmt.Sprintf(format, args...)})
	}
	panicked, class, frame, _ := core.Protect(func() {
		if f.FeatureID() != s.ID {
			add("id", "feature reports id %s, expected %s", f.FeatureID(), s.ID)
			return
		}
		got, want := TagMap(f.AllTags()), TagMap(s.AllTags())
		if len(f.AllTags()) != len(got) {
			add("tags:repeated-key", "%s: tag list has a repeated key: %s", s.ID, obs.RenderTags(f.AllTags()))
		}
		if renderTagMap(got) != renderTagMap(want) {
			add("tags", "%s: tags %s, model %s", s.ID, renderTagMap(got), renderTagMap(want))
		}
		for k, v := range want {
			if t := f.Get(k); !t.IsValid() || obs.RenderValue(t.Value) != v {
				add("tags:get", "%s: Get(%s) = %v, model %s", s.ID, k, t, v)
				break
			}
		}
		if !geometry {
			return
		}
		switch s.ID.Type {
		case b6.FeatureTypePoint:
			p, ok := f.(b6.PhysicalFeature)
			if !ok {
				add("geometry:point", "%s is not a PhysicalFeature (%T)", s.ID, f)
			} else if g, e := obs.PointE7(p.Point()), obs.LatLngE7(s.LL); g != e {
				add("geometry:point", "%s at %s, model %s", s.ID, g, e)
			}
		case b6.FeatureTypePath:
			p, ok := f.(b6.PhysicalFeature)
			if !ok {
				add("geometry:path", "%s is not a PhysicalFeature (%T)", s.ID, f)
				return
			}
			if p.GeometryLen() != len(s.Path) {
				add("geometry:path-len", "%s has %d points, model %d", s.ID, p.GeometryLen(), len(s.Path))
				return
			}
			lls, resolvable := w.PathPoints(s)
			for i, e := range s.Path {
				ref := p.Reference(i).Source()
				if e.IsRef() != ref.IsValid() || (e.IsRef() && ref != e.Ref) {
					add("geometry:path-ref", "%s point %d reference %s, model %v", s.ID, i, ref, e.Ref)
				}
				if resolvable {
					if g, x := obs.PointE7(p.PointAt(i)), obs.LatLngE7(lls[i]); g != x {
						add("geometry:path-point", "%s point %d at %s, model %s", s.ID, i, g, x)
					}
				}
			}
		case b6.FeatureTypeArea:
			a, ok := f.(b6.AreaFeature)
			if !ok {
				add("geometry:area", "%s is not an AreaFeature (%T)", s.ID, f)
				return
			}
			if a.Len() != len(s.Polys) {
				add("geometry:area-len", "%s has %d polygons, model %d", s.ID, a.Len(), len(s.Polys))
				return
			}
			for i, p := range s.Polys {
				paths := a.Feature(i)
				if p.PathIDs != nil {
					var ids []b6.FeatureID
					for _, pf := range paths {
						if pf != nil {
							ids = append(ids, pf.FeatureID())
						}
					}
					if fmt.Sprint(ids) != fmt.Sprint(p.PathIDs) {
						add("geometry:area-paths", "%s polygon %d paths %v, model %v", s.ID, i, ids, p.PathIDs)
					}
				} else if paths != nil {
					add("geometry:area-paths", "%s polygon %d reports paths for a lat/lng polygon", s.ID, i)
				}
				if want, ok := w.expectedRings(p); ok {
					if got := ringsOfPolygon(a.Polygon(i)); strings.Join(got, "") != strings.Join(want, "") {
						add("geometry:area-rings", "%s polygon %d rings %v, model %v", s.ID, i, got, want)
					}
				}
			}
		case b6.FeatureTypeRelation:
			r, ok := f.(b6.RelationFeature)
			if !ok {
				add("geometry:relation", "%s is not a RelationFeature (%T)", s.ID, f)
				return
			}
			var got, want []string
			for i := 0; i < r.Len(); i++ {
				m := r.Member(i)
				got = append(got, m.ID.String()+":"+m.Role)
			}
			for _, m := range s.Members {
				want = append(want, m.ID.String()+":"+m.Role)
			}
			if strings.Join(got, " ") != strings.Join(want, " ") {
				add("geometry:members", "%s members %v, model %v", s.ID, got, want)
			}
		case b6.FeatureTypeCollection:
			cf, ok := f.(b6.CollectionFeature)
			if !ok {
				add("geometry:collection", "%s is not a CollectionFeature (%T)", s.ID, f)
				return
			}
			var got, want []string
			it := cf.BeginUntyped()
			for {
				ok, err := it.Next()
				if err != nil || !ok {
					break
				}
				got = append(got, fmt.Sprintf("%v->%v", it.Key(), it.Value()))
			}
			for i := range s.Keys {
				want = append(want, fmt.Sprintf("%v->%v", s.Keys[i], s.Values[i]))
			}
			if strings.Join(got, " ") != strings.Join(want, " ") {
				add("geometry:items", "%s items %v, model %v", s.ID, got, want)
			}
		}
	})
	if panicked {
		add("panic@"+frame, "%s: reading the feature panicked: %s", s.ID, class)
	}
	return out
}

// Conform compares a real world with the model: lookups of every model id and
// of the given absent ids, existence, locations of points, enumeration (each id
// exactly once, with the model's tags) and the given queries.
func (w *World) Conform(real b6.World, absent []b6.FeatureID, queries []b6.Query, geometry bool) []Discrepancy {
	var out []Discrepancy
	add := func(class, format string, args ...any) {
		if len(out) < 12 {
			out = append(out, Discrepancy{class, fmt.Sprintf(format, args...)})
		}
	}
	for _, id := range w.IDs() {
		s := w.F[id]
		var f b6.Feature
		var has bool
		if p, cl, fr, _ := core.Protect(func() { f = real.FindFeatureByID(id); has = real.HasFeatureWithID(id) }); p {
			add("lookup:panic@"+fr, "lookup of %s panicked: %s", id, cl)
			continue
		}
		if !has {
			add("lookup:has-false", "HasFeatureWithID(%s) is false for a feature of the model", id)
		}
		if f == nil {
			add("lookup:missing", "FindFeatureByID(%s) is nil for a feature of the model", id)
			continue
		}
		for _, d := range w.CheckFeature(f, s, geometry) {
			add("lookup:"+d.Class, "%s", d.Detail)
		}
		if id.Type == b6.FeatureTypePoint {
			if ll, err := real.FindLocationByID(id); err != nil {
				add("location:error", "FindLocationByID(%s): %v", id, err)
			} else if g, e := obs.LatLngE7(ll), obs.LatLngE7(s.LL); g != e {
				add("location:wrong", "FindLocationByID(%s) = %s, model %s", id, g, e)
			}
		}
	}
	for _, id := range absent {
		if _, ok := w.F[id]; ok {
			continue
		}
		if p, cl, fr, _ := core.Protect(func() {
			if real.HasFeatureWithID(id) {
				add("lookup:has-true", "HasFeatureWithID(%s) is true for a feature not in the model", id)
			}
			if f := real.FindFeatureByID(id); f != nil {
				add("lookup:phantom", "FindFeatureByID(%s) returned a feature not in the model", id)
			}
		}); p {
			add("lookup:panic@"+fr, "lookup of absent %s panicked: %s", id, cl)
		}
	}
	// enumeration
	seen := map[b6.FeatureID]int{}
	var mu sync.Mutex
	var eachD []Discrepancy
	p, cl, fr, _ := core.Protect(func() {
		err := real.EachFeature(func(f b6.Feature, g int) error {
			mu.Lock()
			defer mu.Unlock()
			id := f.FeatureID()
			seen[id]++
			if s, ok := w.F[id]; ok {
				for _, d := range w.CheckFeature(f, s, geometry) {
					eachD = append(eachD, Discrepancy{"each:" + d.Class, d.Detail})
				}
			}
			return nil
		}, &b6.EachFeatureOptions{Goroutines: 1})
		if err != nil {
			add("each:error", "EachFeature returned %v", err)
		}
	})
	if p {
		add("each:panic@"+fr, "EachFeature panicked: %s", cl)
	} else {
		for _, d := range eachD {
			add(d.Class, "%s", d.Detail)
		}
		for _, id := range w.IDs() {
			if seen[id] == 0 {
				add("each:missing", "EachFeature never delivered %s", id)
			} else if seen[id] > 1 {
				add("each:duplicate", "EachFeature delivered %s %d times", id, seen[id])
			}
		}
		for id := range seen {
			if _, ok := w.F[id]; !ok {
				add("each:phantom", "EachFeature delivered %s which is not in the model", id)
			}
		}
	}
	for _, q := range queries {
		var got []b6.FeatureID
		if p, cl, fr, _ := core.Protect(func() { got = obs.FindIDs(real, q) }); p {
			add("find:panic@"+fr, "FindFeatures(%s) panicked: %s", q, cl)
			continue
		}
		if class, detail := w.CheckFind(q, got); class != "" {
			add("find:"+class, "FindFeatures(%s): %s (got %v)", q, detail, got)
		}
		// the features the iterator delivers must be the current versions
		if p, cl, fr, _ := core.Protect(func() {
			fs := real.FindFeatures(q)
			for fs.Next() {
				f := fs.Feature()
				if f == nil {
					add("find-feature:nil", "FindFeatures(%s) delivered a nil feature for %s", q, fs.FeatureID())
					continue
				}
				if s, ok := w.F[f.FeatureID()]; ok {
					for _, d := range w.CheckFeature(f, s, geometry) {
						add("find-feature:"+d.Class, "FindFeatures(%s) delivered %s", q, d.Detail)
					}
				}
			}
		}); p {
			add("find-feature:panic@"+fr, "reading the features delivered by FindFeatures(%s) panicked: %s", q, cl)
		}
	}
	return out
}

// StandardQueries is a fixed set of tag queries used by conformance checks.
func StandardQueries() []b6.Query {
	qs := []b6.Query{b6.All{}}
	for _, k := range HashKeys {
		qs = append(qs, b6.Keyed{Key: k})
		qs = append(qs, b6.Tagged{Key: k, Value: b6.NewStringExpression("yes")})
	}
	for _, k := range AtKeys {
		qs = append(qs, b6.Keyed{Key: k})
	}
	for _, t := range []b6.FeatureType{b6.FeatureTypePoint, b6.FeatureTypePath, b6.FeatureTypeArea, b6.FeatureTypeRelation} {
		qs = append(qs, b6.Typed{Type: t, Query: b6.All{}})
	}
	qs = append(qs, b6.Intersection{b6.Keyed{Key: "#building"}, b6.Keyed{Key: "#amenity"}})
	qs = append(qs, b6.Union{b6.Tagged{Key: "#highway", Value: b6.NewStringExpression("primary")}, b6.Keyed{Key: "@ref"}})
	return qs
}
