package mon

import (
	"fmt"
	"strings"
	"time"

	"diagonal.works/b6"
	"diagonal.works/b6/ingest"
	"diagonal.works/b6/ingest/compact"
	"verif/internal/core"
	"verif/internal/obs"
	"verif/internal/wm"
)

// C17 Worlds merged from several index files act as one world.
//
// Oracles: (1) the feature-map model holding the union of the features of all
// files (wm.Conform: lookups, tags, geometry, enumeration once each, searches
// in ID order without duplicates); (2) a differential twin: the compact world
// built from the same union in ONE file; the observation dumps of the merged
// world and of the single-file world must be equal.
//
// Partitions are made at the feature level; a feature is always stored with the
// features it references, except in the overlay kind, where overlay paths and
// relations reference points and features stored in the base (that is the
// documented purpose of BuildOverlay).

// c17Components partitions specs into the connected components of the
// reference graph, in order of first appearance.
func c17Components(specs []*wm.Spec) [][]*wm.Spec {
	parent := map[b6.FeatureID]b6.FeatureID{}
	var find func(x b6.FeatureID) b6.FeatureID
	find = func(x b6.FeatureID) b6.FeatureID {
		if p, ok := parent[x]; ok && p != x {
			parent[x] = find(p)
			return parent[x]
		}
		parent[x] = x
		return x
	}
	for _, s := range specs {
		find(s.ID)
	}
	for _, s := range specs {
		for _, ref := range s.Refs() {
			if _, ok := parent[ref]; ok {
				parent[find(s.ID)] = find(ref)
			}
		}
	}
	index := map[b6.FeatureID]int{}
	var out [][]*wm.Spec
	for _, s := range specs {
		root := find(s.ID)
		i, ok := index[root]
		if !ok {
			i = len(out)
			index[root] = i
			out = append(out, nil)
		}
		out[i] = append(out[i], s)
	}
	return out
}

// c17Remap clones specs, renaming namespaces (IDs and every reference).
func c17Remap(specs []*wm.Spec, rename func(b6.Namespace) b6.Namespace) []*wm.Spec {
	id := func(x b6.FeatureID) b6.FeatureID {
		if !x.IsValid() {
			return x
		}
		return b6.FeatureID{Type: x.Type, Namespace: rename(x.Namespace), Value: x.Value}
	}
	out := make([]*wm.Spec, len(specs))
	for i, s := range specs {
		c := s.Clone()
		c.ID = id(c.ID)
		for j := range c.Path {
			c.Path[j].Ref = id(c.Path[j].Ref)
		}
		for j := range c.Polys {
			for k := range c.Polys[j].PathIDs {
				c.Polys[j].PathIDs[k] = id(c.Polys[j].PathIDs[k])
			}
		}
		for j := range c.Members {
			c.Members[j].ID = id(c.Members[j].ID)
		}
		out[i] = c
	}
	return out
}

func c17GenOptions(r *core.R) wm.GenOptions {
	o := wm.DefaultGen()
	o.MaxCollections = 0
	o.MinPoints, o.MaxPoints = 3, 12
	o.InlinePathPoints = r.Chance(0.4)
	o.LatLngPolygons = r.Chance(0.3)
	o.PointTags = r.Chance(0.3)
	if r.Chance(0.4) {
		o.Namespaces = []b6.Namespace{"example.com/a", b6.NamespaceLatLng}
		o.SpreadTypes = r.Bool()
	}
	if r.Chance(0.3) {
		o.LatLngOnlyAreaP = 0.6
	}
	return o
}

// c17Overlay draws the features of an overlay file over the base: new points,
// open paths over base and overlay points, a ring with its area over overlay
// points, relations over base and overlay features.
func c17Overlay(c *core.Ctx, g *wm.Gen, r *core.R, base []*wm.Spec) []*wm.Spec {
	var basePoints, baseOthers, out, own []*wm.Spec
	for _, s := range base {
		if s.ID.Type == b6.FeatureTypePoint {
			basePoints = append(basePoints, s)
		} else {
			baseOthers = append(baseOthers, s)
		}
	}
	for i := r.Range(0, 4); i > 0; i-- {
		p := g.Point(0.6)
		own = append(own, p)
		out = append(out, p)
	}
	if r.Chance(0.4) {
		ps, ring := g.Ring(int64(r.Intn(100000))-50000, int64(r.Intn(100000))-50000, 3000, r.Range(3, 6), false)
		out = append(out, ps...)
		own = append(own, ps...)
		ring.Tags = g.RandomTags(0.5)
		out = append(out, ring)
		area := &wm.Spec{ID: b6.FeatureID{Type: b6.FeatureTypeArea, Namespace: ring.ID.Namespace, Value: ring.ID.Value}, Tags: g.RandomTags(0.9),
			Polys: []wm.Poly{{PathIDs: []b6.FeatureID{ring.ID}}}}
		g.Reserve(area.ID)
		out = append(out, area)
	}
	var paths []*wm.Spec
	for i := r.Range(1, 4); i > 0; i-- {
		wns := b6.NamespaceOSMWay
		if r.Chance(0.4) {
			wns = b6.NamespaceDiagonalAccessPoints
		}
		path := &wm.Spec{ID: g.NewID(b6.FeatureTypePath, wns), Tags: g.RandomTags(0.9)}
		k := r.Range(2, 5)
		usesBase := false
		for j := 0; j < k; j++ {
			switch {
			case len(own) > 0 && r.Chance(0.3):
				path.Path = append(path.Path, wm.Elem{Ref: core.Pick(r, own).ID})
			case g.O.InlinePathPoints && r.Chance(0.2):
				path.Path = append(path.Path, wm.Elem{LL: g.Place(int64(r.Intn(200000))-100000, int64(r.Intn(200000))-100000)})
			default:
				path.Path = append(path.Path, wm.Elem{Ref: core.Pick(r, basePoints).ID})
				usesBase = true
			}
		}
		// a path is closed iff its first and last references agree: keep overlay paths open
		for len(path.Path) >= 2 {
			first, last := path.Path[0], path.Path[len(path.Path)-1]
			if !(first.IsRef() && last.IsRef() && first.Ref == last.Ref) {
				break
			}
			path.Path = path.Path[:len(path.Path)-1]
		}
		if len(path.Path) < 2 {
			continue
		}
		if usesBase {
			c.Count("overlay_path_over_base_points")
		}
		paths = append(paths, path)
		out = append(out, path)
	}
	for i := r.Range(0, 2); i > 0; i-- {
		rel := &wm.Spec{ID: g.NewID(b6.FeatureTypeRelation, b6.NamespaceOSMRelation), Tags: g.RandomTags(0.9)}
		pool := append(append(append([]*wm.Spec{}, basePoints...), baseOthers...), paths...)
		pool = append(pool, own...)
		for j := r.Range(1, 3); j > 0; j-- {
			m := core.Pick(r, pool)
			rel.Members = append(rel.Members, b6.RelationMember{ID: m.ID, Role: core.Pick(r, []string{"", "outer", "stop"})})
		}
		out = append(out, rel)
	}
	// a relation over a base point whose namespace the overlay does not otherwise touch
	for _, p := range basePoints {
		if p.ID.Namespace != b6.NamespaceOSMNode && r.Chance(0.5) {
			out = append(out, &wm.Spec{ID: g.NewID(b6.FeatureTypeRelation, b6.NamespaceOSMRelation), Tags: g.RandomTags(0.9),
				Members: []b6.RelationMember{{ID: p.ID, Role: "stop"}}})
			c.Count("overlay_relation_over_base_point_in_other_namespace")
			break
		}
	}
	return out
}

func c17Render(files [][]*wm.Spec) [][]string {
	out := make([][]string, len(files))
	for i, f := range files {
		out[i] = make([]string, len(f))
		for j, s := range f {
			out[i][j] = s.String()
		}
	}
	return out
}

func init() {
	kinds := []string{"components", "interleaved", "distinct-namespaces", "overlay"}
	core.Register(&core.Monitor{
		ID:        "C17",
		Title:     "Worlds merged from several index files act as one world",
		Technique: "reference-model conformance of the merged world (union of the files' features) plus differential comparison of observation dumps with the single-file world over the same data",
		Rule: "case = (partition kind, generated feature set, assignment of features to 2-3 files, merge order); kinds: connected components assigned at random; " +
			"components dealt round-robin so that every namespace and ID range is interleaved over the files; one generated set per file in namespaces of its own " +
			"(different namespace tables); base + overlay built with BuildOverlayInMemory whose paths and relations use points and features of the base; " +
			"distinct = kind + files; non-trivial = at least two non-empty files and a search result that takes features from two files",
		Assumptions: []string{"a feature is stored in the file that holds everything it references, except overlay paths/relations, which reference the base",
			"no feature ID occurs in two files (shadowing is not promised by the property)"},
		Quick: 64, Thorough: 1600,
		// the cap is a safety net only: a case costs seconds, but the box may be shared and builds allocate ~80 MB per goroutine and stage
		CaseCap: 15 * time.Minute,
		Required: []string{"kind_components", "kind_interleaved", "kind_distinct-namespaces", "kind_overlay", "files_merged", "merged_in_reverse_order", "overlay_path_over_base_points",
			"overlay_path_resolves_base_point", "namespace_in_two_files", "search_spans_files", "search_interleaves_files", "distinct_namespace_tables"},
		Run: func(c *core.Ctx) {
			r := c.R
			kind := kinds[c.Index%len(kinds)]
			c.Count("kind_" + kind)
			o := c17GenOptions(r)
			g := wm.NewGen(r.Fork(), o)
			var files [][]*wm.Spec
			switch kind {
			case "components", "interleaved":
				specs := g.World()
				k := r.Range(2, 3)
				files = make([][]*wm.Spec, k)
				for i, comp := range c17Components(specs) {
					f := i % k
					if kind == "components" {
						f = r.Intn(k)
					}
					files[f] = append(files[f], comp...)
				}
			case "distinct-namespaces":
				k := r.Range(2, 3)
				for i := 0; i < k; i++ {
					gi := wm.NewGen(r.Fork(), o)
					specs := gi.World()
					if i > 0 || r.Bool() {
						i := i
						specs = c17Remap(specs, func(ns b6.Namespace) b6.Namespace {
							// names chosen so that the sorted namespace tables of the files differ in length and order
							return b6.Namespace(fmt.Sprintf("%c%d.example/%s", "zam"[i], i, strings.ReplaceAll(string(ns), "/", "_")))
						})
					}
					files = append(files, specs)
				}
			case "overlay":
				base := g.World()
				files = [][]*wm.Spec{base, c17Overlay(c, g, r, base)}
			}
			var nonEmpty [][]*wm.Spec
			for _, f := range files {
				if len(f) > 0 {
					nonEmpty = append(nonEmpty, f)
				}
			}
			files = nonEmpty
			if kind != "overlay" && r.Bool() {
				core.Shuffle(r, files) // merge order
			}
			witness := map[string]any{"kind": kind, "files": c17Render(files)}
			var keyb strings.Builder
			keyb.WriteString(kind)
			for _, f := range files {
				keyb.WriteString("\n##")
				for _, s := range f {
					keyb.WriteString(s.String() + "|")
				}
			}
			c.Key("%s", keyb.String())
			if c.Index < 4 {
				c.Sample(witness)
			}

			// the union and which file holds what
			var union []*wm.Spec
			fileOf := map[b6.FeatureID]int{}
			nsFiles := map[string]map[int]bool{}
			tables := map[string]bool{}
			for i, f := range files {
				nss := map[b6.Namespace]bool{}
				for _, s := range f {
					if j, dup := fileOf[s.ID]; dup {
						c.Inconclusive(fmt.Sprintf("generator put %s into files %d and %d", s.ID, j, i))
						return
					}
					fileOf[s.ID] = i
					union = append(union, s)
					k := fmt.Sprintf("%d/%s", s.ID.Type, s.ID.Namespace)
					if nsFiles[k] == nil {
						nsFiles[k] = map[int]bool{}
					}
					nsFiles[k][i] = true
					nss[s.ID.Namespace] = true
					for _, ref := range s.Refs() {
						nss[ref.Namespace] = true
					}
				}
				var l []string
				for ns := range nss {
					l = append(l, string(ns))
				}
				tables[fmt.Sprint(len(l))+strings.Join(sortedStrings(l), ",")] = true
			}
			for _, fs := range nsFiles {
				if len(fs) >= 2 {
					c.Count("namespace_in_two_files")
				}
			}
			if len(tables) >= 2 {
				c.Count("distinct_namespace_tables")
			}
			model := wm.ModelOf(union)

			// build and merge
			merged := compact.NewWorld()
			var datas [][]byte
			for i, f := range files {
				var data []byte
				var err error
				what := fmt.Sprintf("file %d", i)
				p, cl, fr, st := core.Protect(func() {
					if kind == "overlay" && i == 1 {
						what = "the overlay"
						opts := compact.Options{Goroutines: 1, PointsScratchOutputType: compact.OutputTypeMemory}
						data, err = compact.BuildOverlayInMemory(ingest.MemoryFeatureSource(wm.Features(f)), &opts, merged)
					} else {
						data, err = wm.CompactBytes(f, 1)
					}
					if err == nil {
						err = merged.Merge(data)
						datas = append(datas, data)
					}
				})
				if p {
					c.Violate("build:panic@"+fr+":"+kind, map[string]any{"kind": kind, "files": c17Render(files), "stack": st}, "building/merging %s panicked: %s", what, cl)
					return
				}
				if err != nil {
					c.Violate("build:error:"+kind, witness, "building/merging %s failed: %v", what, err)
					return
				}
				c.Count("files_merged")
			}
			single, err := wm.Compact(union, 1)
			if err != nil {
				c.Violate("build:error:single-file", witness, "building the single-file world failed: %v", err)
				return
			}

			// (1) the merged world against the model
			queries := wm.StandardQueries()
			absent := []b6.FeatureID{{Type: b6.FeatureTypePoint, Namespace: b6.NamespaceOSMNode, Value: 99999}, {Type: b6.FeatureTypePath, Namespace: "absent.example/ns", Value: 1}}
			for _, id := range model.IDs() {
				absent = append(absent, b6.FeatureID{Type: id.Type, Namespace: id.Namespace, Value: id.Value + 1})
			}
			for _, d := range model.Conform(merged, absent, queries, true) {
				c.Violate("merged:"+d.Class+":"+kind, witness, "merged world: %s", d.Detail)
			}
			// the same files loaded in the opposite order (files of a directory are loaded concurrently, so any
			// order occurs): a file that only mentions a point may come before the file that stores it
			if len(datas) >= 2 {
				reversed := compact.NewWorld()
				var rerr error
				p, cl, fr, st := core.Protect(func() {
					for i := len(datas) - 1; i >= 0 && rerr == nil; i-- {
						rerr = reversed.Merge(datas[i])
					}
				})
				if p {
					c.Violate("reversed-merge:panic@"+fr+":"+kind, map[string]any{"kind": kind, "files": c17Render(files), "stack": st}, "merging the files in reverse order panicked: %s", cl)
				} else if rerr != nil {
					c.Violate("reversed-merge:error:"+kind, witness, "merging the files in reverse order failed: %v", rerr)
				} else {
					c.Count("merged_in_reverse_order")
					for _, d := range model.Conform(reversed, absent, queries, true) {
						c.Violate("reversed-merge:"+d.Class+":"+kind, witness, "world merged in reverse file order: %s", d.Detail)
					}
				}
			}
			// what the searches did across files
			spans, interleaves := false, false
			for _, q := range queries {
				var got []b6.FeatureID
				if p, _, _, _ := core.Protect(func() { got = obs.FindIDs(merged, q) }); p {
					continue
				}
				seen := map[int]bool{}
				switches := 0
				for i, id := range got {
					f, ok := fileOf[id]
					if !ok {
						continue
					}
					seen[f] = true
					if i > 0 {
						if pf, ok := fileOf[got[i-1]]; ok && pf != f && got[i-1].Type == id.Type && got[i-1].Namespace == id.Namespace {
							switches++
						}
					}
				}
				if len(seen) >= 2 {
					spans = true
				}
				if switches >= 2 {
					interleaves = true
				}
			}
			if spans {
				c.Count("search_spans_files")
				if len(files) >= 2 {
					c.Nontrivial()
				}
			}
			if interleaves {
				c.Count("search_interleaves_files")
			}
			// overlay paths resolve base points
			if kind == "overlay" {
				for _, s := range files[1] {
					if s.ID.Type != b6.FeatureTypePath {
						continue
					}
					for i, e := range s.Path {
						if !e.IsRef() || fileOf[e.Ref] != 0 {
							continue
						}
						p, cl, fr, _ := core.Protect(func() {
							f, ok := merged.FindFeatureByID(s.ID).(b6.PhysicalFeature)
							if !ok {
								return // reported by Conform
							}
							if got, want := obs.PointE7(f.PointAt(i)), obs.LatLngE7(model.F[e.Ref].LL); got == want {
								c.Count("overlay_path_resolves_base_point")
							} else {
								c.Violate("overlay:base-point-wrong", witness, "overlay path %s point %d (%s, stored in the base) at %s, expected %s", s.ID, i, e.Ref, got, want)
							}
						})
						if p {
							c.Violate("overlay:panic@"+fr, witness, "resolving point %d of overlay path %s panicked: %s", i, s.ID, cl)
						}
					}
				}
			}

			// (2) merged world against the single-file world: equal dumps
			probes := obs.Probes{IDs: append(model.IDs(), absent[:2]...), What: obs.All}
			for _, q := range queries {
				probes.Queries = append(probes.Queries, obs.NamedQuery{Name: q.String(), Query: q})
			}
			dm, ds := obs.Take(merged, probes), obs.Take(single, probes)
			// labelled sub-case: an overlay relation whose member is a path, area or relation stored in the
			// base. The overlay format only keeps back-references for points, so the base feature cannot
			// know the overlay's relation; reference queries about that feature get their own signature.
			baseMember := map[string]bool{}
			if kind == "overlay" {
				for _, s := range files[1] {
					for _, m := range s.Members {
						if f, ok := fileOf[m.ID]; ok && f == 0 && m.ID.Type != b6.FeatureTypePoint {
							baseMember[m.ID.String()] = true
							c.Count("overlay_relation_over_base_non_point")
						}
					}
				}
			}
			reported := map[string]bool{}
			for _, d := range dm.Diff(ds) {
				parts := strings.SplitN(d.Key, " ", 3)
				section := parts[0]
				sig := "differs-from-single-file:" + section + ":" + kind
				if (section == "refs" || section == "relations") && len(parts) > 1 && baseMember[parts[1]] {
					sig = "overlay-relation-over-base-non-point:" + section
				}
				if reported[sig] {
					continue
				}
				reported[sig] = true
				c.Violate(sig, witness, "%s\n    merged:      %s\n    single file: %s", d.Key, d.A, d.B)
			}
		},
	})
}

func sortedStrings(l []string) []string {
	out := append([]string{}, l...)
	for i := 1; i < len(out); i++ {
		for j := i; j > 0 && out[j] < out[j-1]; j-- {
			out[j], out[j-1] = out[j-1], out[j]
		}
	}
	return out
}
