package mon

import (
	"math"

	"google.golang.org/protobuf/proto"
	"google.golang.org/protobuf/reflect/protoreflect"

	pb "diagonal.works/b6/proto"
)

// c19sibling returns a copy of p that differs from it by the smallest step the
// wire format can express in its caps (centre one E7 unit away, radius 1 mm
// longer), stand-alone points (one E7 unit) and float literals (one ulp), and
// the number of fields changed. Sending the sibling right after the original,
// in the same process, is what shows a decoder that remembers earlier requests
// at a coarser resolution than the wire's (a cache keyed by a printed form).
// Polygons and paths are left alone (moving single vertices could break the
// validity the generator guarantees).
func c19sibling(p *pb.NodeProto) (*pb.NodeProto, int) {
	out := proto.Clone(p).(*pb.NodeProto)
	n := 0
	bumpPoint := func(m protoreflect.Message) {
		fs := m.Descriptor().Fields()
		for _, name := range []protoreflect.Name{"lat_e7", "lng_e7"} {
			fd := fs.ByName(name)
			v := int32(m.Get(fd).Int())
			limit := int32(900000000)
			if name == "lng_e7" {
				limit = 1800000000
			}
			if v < limit {
				v++
			} else {
				v--
			}
			m.Set(fd, protoreflect.ValueOfInt32(v))
		}
		n++
	}
	var walk func(m protoreflect.Message)
	walk = func(m protoreflect.Message) {
		switch m.Descriptor().Name() {
		case "CapProto":
			fs := m.Descriptor().Fields()
			if c := fs.ByName("center"); m.Has(c) {
				bumpPoint(m.Mutable(c).Message())
			}
			r := fs.ByName("radiusMeters")
			m.Set(r, protoreflect.ValueOfFloat64(m.Get(r).Float()+0.001))
			n++
			return
		case "PolygonProto", "MultiPolygonProto", "PolylineProto", "LoopProto":
			return
		}
		m.Range(func(fd protoreflect.FieldDescriptor, v protoreflect.Value) bool {
			switch {
			case fd.IsMap():
			case fd.IsList():
				if fd.Kind() == protoreflect.MessageKind {
					l := v.List()
					for i := 0; i < l.Len(); i++ {
						walk(l.Get(i).Message())
					}
				}
			case fd.Kind() == protoreflect.MessageKind:
				if fd.Message().Name() == "PointProto" {
					bumpPoint(v.Message())
				} else {
					walk(v.Message())
				}
			case fd.Kind() == protoreflect.DoubleKind && fd.Name() == "floatValue":
				if f := v.Float(); !math.IsNaN(f) && !math.IsInf(f, 0) {
					m.Set(fd, protoreflect.ValueOfFloat64(math.Nextafter(f, math.Inf(1))))
					n++
				}
			}
			return true
		})
	}
	walk(out.ProtoReflect())
	return out, n
}
