package mon

import (
	"fmt"
	"math"
	"sort"
	"strings"
	"time"

	"diagonal.works/b6"
	"diagonal.works/b6/renderer"
	"github.com/golang/geo/r2"
	"github.com/golang/geo/s2"
	"google.golang.org/protobuf/proto"
	"verif/internal/core"
)

// C33 Vector tile geometry decodes to the projected feature.
//
// Geometry is generated in the pixel space of the tile (4096 units per tile at
// level z+12) with fractional parts well inside a pixel, unprojected to
// lat/lng with the textbook inverse web-mercator formula and handed to the
// encoder as S2 geometry. The expected integer coordinates are computed from
// the S2 points with the textbook forward formula (c33Project; nothing of
// b6.TileMercatorProjection or s2.MercatorProjection is used). The serialised
// tile is decoded with the MVT decoder of c33_mvt.go.
//
// Checked per feature: geometry type; decoded coordinates == expected integer
// coordinates (line strings and points exactly in order; polygon rings as
// cyclic sequences in either direction, since the property fixes only the
// relative winding); every hole's signed area has the opposite sign to the
// shells' signed areas; decoded tag pairs == the feature's tag map.
//
// Rings with more than 1000 vertices are simplified by the encoder
// (Douglas-Peucker, tolerance 5 units) before encoding; they are a labelled
// sub-case ("large-ring") whose expectation is the harness's own
// Douglas-Peucker (c34Reference) over the independently projected points.

const c33Extent = 4096

// c33Project maps a point of the unit sphere to absolute pixel coordinates at
// the given level (world width = 2^level pixels).
func c33Project(p s2.Point, level uint) (float64, float64) {
	w := math.Ldexp(1, int(level))
	lng := math.Atan2(p.Y, p.X)
	lat := math.Atan2(p.Z, math.Sqrt(p.X*p.X+p.Y*p.Y))
	x := (lng + math.Pi) / (2 * math.Pi) * w
	y := (1 - math.Asinh(math.Tan(lat))/math.Pi) / 2 * w
	return x, y
}

// c33Unproject maps absolute pixel coordinates to a point on the sphere.
func c33Unproject(x, y float64, level uint) s2.Point {
	w := math.Ldexp(1, int(level))
	lng := x/w*360 - 180
	lat := math.Atan(math.Sinh(math.Pi*(1-2*y/w))) * 180 / math.Pi
	return s2.PointFromLatLng(s2.LatLngFromDegrees(lat, lng))
}

type c33Tile struct {
	x, y, z uint
}

func (t c33Tile) level() uint { return t.z + 12 }

// point returns an S2 point whose projection is the local pixel position
// (lx,ly) of the tile, moved by at most 0.15 px so that it lies at least 0.05 px
// away from the pixel's edges, together with its independently projected
// absolute float coordinates.
func (t c33Tile) point(r *core.R, lx, ly float64) (s2.Point, r2.Point, bool) {
	nudge := func(v float64) float64 {
		f := math.Floor(v)
		switch d := v - f; {
		case d < 0.1:
			return f + 0.1 + 0.05*r.Float()
		case d > 0.9:
			return f + 0.9 - 0.05*r.Float()
		}
		return v
	}
	lx, ly = nudge(lx), nudge(ly)
	for try := 0; try < 4; try++ {
		ax := float64(int(t.x)*c33Extent) + lx
		ay := float64(int(t.y)*c33Extent) + ly
		p := c33Unproject(ax, ay, t.level())
		gx, gy := c33Project(p, t.level())
		if math.Floor(gx) == math.Floor(ax) && math.Floor(gy) == math.Floor(ay) {
			dx, dy := gx-math.Floor(gx), gy-math.Floor(gy)
			if dx > 0.05 && dx < 0.95 && dy > 0.05 && dy < 0.95 {
				return p, r2.Point{X: gx, Y: gy}, true
			}
		}
		lx, ly = math.Floor(lx)+0.5, math.Floor(ly)+0.5
	}
	return s2.Point{}, r2.Point{}, false
}

func (t c33Tile) local(abs r2.Point) c33XY {
	return c33XY{int64(math.Floor(abs.X)) - int64(t.x)*c33Extent, int64(math.Floor(abs.Y)) - int64(t.y)*c33Extent}
}

type c33Expect struct {
	kind  string // point | line | polygon
	tags  map[string]string
	parts [][]c33XY // point: one part of one; line: one part; polygon: one per loop, in loop order, in S2 vertex order
	holes []bool
	large bool
	// for large rings: ambiguous simplification decision
	ambiguous bool
	desc      string
}

var c33Keys = []string{"class", "name", "", "highway", "ß∂", "layer", "a", "b", "key with space", "日本語"}
var c33Vals = []string{"", "pedestrian", "fountain", "yes", "1", "ß∂ü", "a", "b", strings.Repeat("v", 200), "class"}

func c33Tags(r *core.R) map[string]string {
	n := 0
	switch r.Intn(6) {
	case 0:
		n = 0
	case 1, 2, 3:
		n = r.Range(1, 3)
	default:
		n = r.Range(1, len(c33Keys))
	}
	m := map[string]string{}
	for _, i := range r.Perm(len(c33Keys))[:n] {
		v := c33Vals[r.Intn(len(c33Vals))]
		if r.Chance(0.15) {
			v = fmt.Sprintf("v%d", r.Intn(1000))
		}
		m[c33Keys[i]] = v
	}
	return m
}

func c33RenderTags(m map[string]string) string {
	ks := make([]string, 0, len(m))
	for k := range m {
		ks = append(ks, k)
	}
	sort.Strings(ks)
	var sb strings.Builder
	for _, k := range ks {
		fmt.Fprintf(&sb, "%q=%q ", k, m[k])
	}
	return sb.String()
}

func c33RenderPts(p []c33XY) string {
	var sb strings.Builder
	for i, q := range p {
		if i >= 40 {
			fmt.Fprintf(&sb, " …(%d)", len(p))
			break
		}
		if i > 0 {
			sb.WriteByte(' ')
		}
		fmt.Fprintf(&sb, "%d,%d", q.x, q.y)
	}
	return sb.String()
}

// c33Ring generates a star-shaped ring around (cx,cy) (local pixels) with n
// vertices at strictly increasing angles (spacing jittered by +-jitter/2 of a
// step), radii in [0.7,1]*rad, counter-clockwise on the sphere (that is
// clockwise on a screen whose y axis points down).
func c33Ring(r *core.R, t c33Tile, cx, cy, rad float64, n int, jitter float64) ([]s2.Point, []r2.Point, bool) {
	pts := make([]s2.Point, 0, n)
	abs := make([]r2.Point, 0, n)
	start := r.Float() * 2 * math.Pi
	for k := 0; k < n; k++ {
		a := start + (float64(k)+jitter*(r.Float()-0.5))*2*math.Pi/float64(n)
		rr := rad * (0.7 + 0.3*r.Float())
		lx, ly := cx+rr*math.Cos(a), cy-rr*math.Sin(a)
		if lx < 0.2 || ly < 0.2 || lx > c33Extent-0.2 || ly > c33Extent-0.2 {
			return nil, nil, false
		}
		p, ab, ok := t.point(r, lx, ly)
		if !ok {
			return nil, nil, false
		}
		pts = append(pts, p)
		abs = append(abs, ab)
	}
	return pts, abs, true
}

func c33CyclicEqual(a, b []c33XY) (forward, backward bool) {
	n := len(a)
	if n != len(b) {
		return false, false
	}
	if n == 0 {
		return true, true
	}
	for s := 0; s < n; s++ {
		if b[s] != a[0] {
			continue
		}
		f, bk := true, true
		for i := 0; i < n && (f || bk); i++ {
			if b[(s+i)%n] != a[i] {
				f = false
			}
			if b[((s-i)%n+n)%n] != a[i] {
				bk = false
			}
		}
		forward = forward || f
		backward = backward || bk
	}
	return
}

func init() {
	core.Register(&core.Monitor{
		ID:        "C33",
		Title:     "Vector tile geometry decodes to the projected feature",
		Technique: "renderer.EncodeTile -> proto bytes -> own MVT 2.1 decoder, compared with an independent web-mercator projection of the input geometry; signed-area winding check; tag dictionary check",
		Rule: "case = (tile z 0..22 with x,y anywhere incl. the world's edge tiles, 1..3 layers, 0..6 features per layer): points, line strings of 2..60 vertices, polygons of 1..2 shells with " +
			"0..3 holes each and optionally a shell inside a hole, 3..60 vertices per ring; ~3% of cases contain a shell of 1001..2000 and/or a hole of 1001..1100 vertices (large-ring sub-case, z 4..8); " +
			"all vertices inside the tile, at least 0.05 px from a pixel edge; tag maps of 0..10 entries from a pool with empty, repeated, unicode and long strings; " +
			"distinct = distinct rendering of (tile, expected integer geometry, tags); non-trivial = a polygon with a hole or at least two features sharing a key or value",
		Assumptions: []string{
			"golang/geo s2 (PolygonFromLoops nesting, Loop.IsHole, vertex order) is trusted; the expectation reads the loop order and hole flags from the s2.Polygon that is handed to the encoder",
			"the property fixes only the relative winding of shells and holes, so a ring is accepted in either direction and any rotation as long as every hole's signed area is opposite to the shells'",
			"large rings: the expectation applies the harness Douglas-Peucker (same scheme as C34) to independently projected floats; a decision closer than 1e-6 relative is counted as ambiguous, not reported",
		},
		Quick: 24000, Thorough: 1600000,
		CaseCap: 60 * time.Second,
		Setup:   func(string) { c34LimitMemory() }, // the encoder calls the simplifier for large rings
		Required: []string{"point_feature", "line_feature", "polygon_feature", "polygon_with_hole", "hole_reversed_by_encoder", "shell_in_hole", "two_shells",
			"large_ring_simplified", "ring_of_1000_vertices_not_simplified", "ring_of_1001_vertices", "tag_pairs_checked", "shared_value_across_features", "negative_delta", "world_edge_tile", "high_zoom", "zoom_zero", "empty_layer_skipped"},
		Run: func(c *core.Ctx) {
			r := c.R
			var t c33Tile
			switch r.Intn(8) {
			case 0:
				t.z = uint(r.Intn(3))
			case 1:
				t.z = uint(r.Range(19, 22))
			default:
				t.z = uint(r.Range(0, 22))
			}
			largeCase := r.Chance(0.03)
			if largeCase {
				t.z = uint(r.Range(4, 8)) // rings of radius ~900 px stay small on the sphere and float noise stays far below the tolerance
			}
			n := 1 << t.z
			pick := func() uint {
				switch r.Intn(5) {
				case 0:
					return 0
				case 1:
					return uint(n - 1)
				default:
					return uint(r.Intn(n))
				}
			}
			t.x, t.y = pick(), pick()
			if t.x == 0 || t.y == 0 || int(t.x) == n-1 || int(t.y) == n-1 {
				c.Count("world_edge_tile")
			}
			if t.z >= 19 {
				c.Count("high_zoom")
			}
			if t.z == 0 {
				c.Count("zoom_zero")
			}
			// limit ring radii so that rings stay small on the sphere (<= ~5 degrees):
			// S2 edges are geodesics, not straight lines in mercator space
			maxRad := math.Min(900, 5.0/360*c33Extent*float64(n))

			content := &renderer.Tile{}
			var expect [][]c33Expect // per layer
			var names []string
			nlayers := r.Range(1, 3)
			bad := false
			for li := 0; li < nlayers && !bad; li++ {
				layer := renderer.NewLayer(fmt.Sprintf("layer%d", li))
				nf := r.Range(0, 6)
				if r.Chance(0.15) {
					nf = 0
				}
				var exps []c33Expect
				for fi := 0; fi < nf && !bad; fi++ {
					e := c33Expect{tags: c33Tags(r)}
					var geom renderer.Geometry
					switch k := r.Intn(10); {
					case k < 2: // point
						p, ab, ok := t.point(r, float64(r.Intn(c33Extent))+r.Float(), float64(r.Intn(c33Extent))+r.Float())
						if !ok {
							bad = true
							break
						}
						e.kind = "point"
						e.parts = [][]c33XY{{t.local(ab)}}
						geom = renderer.NewPoint(p)
					case k < 5: // line string
						m := r.Range(2, 12)
						if r.Chance(0.2) {
							m = r.Range(2, 60)
						}
						pl := make(s2.Polyline, 0, m)
						var part []c33XY
						px, py := r.Intn(c33Extent), r.Intn(c33Extent)
						for i := 0; i < m; i++ {
							p, ab, ok := t.point(r, float64(px)+r.Float(), float64(py)+r.Float())
							if !ok {
								bad = true
								break
							}
							pl = append(pl, p)
							part = append(part, t.local(ab))
							switch r.Intn(4) {
							case 0: // anywhere
								px, py = r.Intn(c33Extent), r.Intn(c33Extent)
							case 1: // same pixel again (zero delta)
							default: // a short step, also negative
								px = min(max(px+r.Range(-40, 40), 0), c33Extent-1)
								py = min(max(py+r.Range(-40, 40), 0), c33Extent-1)
							}
						}
						e.kind = "line"
						e.parts = [][]c33XY{part}
						geom = renderer.NewLineString(&pl)
					default: // polygon
						large := largeCase
						largeCase = false
						var loops []*s2.Loop
						absOf := map[*s2.Loop][]r2.Point{}
						add := func(cx, cy, rad float64, nv int) bool {
							jitter := 0.5
							if nv > 1000 {
								jitter = 0.2
							}
							pts, abs, ok := c33Ring(r, t, cx, cy, rad, nv, jitter)
							if !ok {
								return false
							}
							l := s2.LoopFromPoints(pts)
							loops = append(loops, l)
							absOf[l] = abs
							return true
						}
						shells := 1
						if r.Chance(0.25) && !large {
							shells = 2
						}
						largeShell, largeHole := false, false
						if large {
							switch r.Intn(3) {
							case 0:
								largeShell = true
							case 1:
								largeHole = true
							default:
								largeShell, largeHole = true, true
							}
						}
						for s := 0; s < shells && !bad; s++ {
							// with two shells each lives in its own half of the tile
							rad := math.Max(12, math.Min(maxRad, 20+r.Float()*880))
							if large {
								rad = 850 + 50*r.Float() // vertex spacing stays well above the sub-pixel adjustments
							}
							if shells == 2 {
								rad = math.Min(rad, 500)
							}
							lox, hix := rad+1, float64(c33Extent)-rad-1
							if shells == 2 {
								if s == 0 {
									hix = c33Extent/2 - rad - 1
								} else {
									lox = c33Extent/2 + rad + 1
								}
							}
							cx := lox + r.Float()*(hix-lox)
							cy := rad + 1 + r.Float()*(float64(c33Extent)-2*rad-2)
							nholes := 0
							if rad >= 60 && r.Chance(0.6) {
								nholes = r.Range(1, 3)
							}
							if largeHole {
								nholes = r.Range(1, 3)
							}
							nv := r.Range(3, 12)
							if r.Chance(0.2) {
								nv = r.Range(3, 60)
							}
							if nholes > 0 && nv < 8 {
								nv = r.Range(8, 20)
							}
							if largeShell {
								// 1000 is the last size the encoder leaves alone, 1001 the first it simplifies
								nv = core.Pick(r, []int{1000, 1001, 1002, r.Range(1001, 2000), r.Range(1001, 2000)})
							}
							if !add(cx, cy, rad, nv) {
								bad = true
								break
							}
							h0 := r.Float() * 2 * math.Pi
							for h := 0; h < nholes && !bad; h++ {
								a := h0 + float64(h)*2*math.Pi/3
								hx, hy := cx+0.28*rad*math.Cos(a), cy-0.28*rad*math.Sin(a)
								hr := 0.17 * rad * (0.6 + 0.4*r.Float())
								hv := r.Range(3, 10)
								if largeHole && h == 0 {
									hr = 0.17 * rad
									hv = r.Range(1001, 1100) // a large hole: simplified, then reversed
								}
								wantIsland := hr >= 40 && r.Chance(0.3)
								if wantIsland && hv < 8 {
									hv = r.Range(8, 16)
								}
								if !add(hx, hy, hr, hv) {
									bad = true
									break
								}
								if wantIsland {
									if !add(hx, hy, 0.3*hr, r.Range(3, 8)) {
										bad = true
										break
									}
									c.Count("shell_in_hole")
								}
							}
						}
						if bad {
							break
						}
						if shells == 2 {
							c.Count("two_shells")
						}
						poly := s2.PolygonFromLoops(loops)
						e.kind = "polygon"
						e.large = large
						for _, l := range poly.Loops() {
							abs := absOf[l]
							if abs == nil || len(abs) != l.NumVertices() {
								c.Inconclusive("s2.PolygonFromLoops did not keep the loops it was given")
								return
							}
							if len(abs) > 1000 {
								// the encoder simplifies this ring with tolerance 5 before truncating
								st := c34Stats{tieTol: 1e-6}
								idx := c34Reference(abs, 5.0, &st)
								kept := make([]r2.Point, len(idx))
								for i, j := range idx {
									kept[i] = abs[j]
								}
								if st.nearTie {
									e.ambiguous = true
								}
								c.Count("large_ring_simplified")
								if len(absOf[l]) == 1001 {
									c.Count("ring_of_1001_vertices")
								}
								c.Max("large_ring_vertices", int64(len(abs)))
								c.Max("large_ring_kept", int64(len(kept)))
								abs = kept
							}
							if len(abs) == 1000 && e.large {
								c.Count("ring_of_1000_vertices_not_simplified")
							}
							part := make([]c33XY, len(abs))
							for i, ab := range abs {
								part[i] = t.local(ab)
							}
							e.parts = append(e.parts, part)
							e.holes = append(e.holes, l.IsHole())
						}
						geom = renderer.NewPolygon(poly)
					}
					if bad {
						break
					}
					f := renderer.NewFeature(geom)
					for k, v := range e.tags {
						f.Tags[k] = v
					}
					if r.Bool() {
						f.ID = r.U64()
					}
					layer.AddFeature(f)
					exps = append(exps, e)
				}
				content.Layers = append(content.Layers, layer)
				if len(layer.Features) > 0 {
					expect = append(expect, exps)
					names = append(names, layer.Name)
				} else {
					c.Count("empty_layer_skipped")
				}
			}
			if bad {
				c.Inconclusive("could not place a vertex safely inside a pixel")
				return
			}

			// canonical rendering of the case
			var key strings.Builder
			fmt.Fprintf(&key, "%d/%d/%d", t.z, t.x, t.y)
			nontrivial := false
			seenKV := map[string]bool{}
			for li, exps := range expect {
				fmt.Fprintf(&key, " L%d:", li)
				localKV := map[string]int{}
				for _, e := range exps {
					fmt.Fprintf(&key, "[%s %s", e.kind, c33RenderTags(e.tags))
					for pi, p := range e.parts {
						hole := false
						if e.kind == "polygon" {
							hole = e.holes[pi]
						}
						fmt.Fprintf(&key, "(%v", hole)
						for _, q := range p {
							fmt.Fprintf(&key, " %d,%d", q.x, q.y)
						}
						key.WriteByte(')')
						if hole {
							nontrivial = true
						}
					}
					key.WriteByte(']')
					for k, v := range e.tags {
						localKV["k:"+k]++
						localKV["v:"+v]++
						seenKV[k] = true
					}
				}
				for kv, n := range localKV {
					if n >= 2 {
						nontrivial = true
						if strings.HasPrefix(kv, "v:") {
							c.Count("shared_value_across_features")
						}
					}
				}
			}
			c.Key("%s", key.String())
			if nontrivial {
				c.Nontrivial()
			}
			if c.Index < 3 {
				s := key.String()
				if len(s) > 1500 {
					s = s[:1500] + "…"
				}
				c.Sample(s)
			}

			// encode, serialise, decode
			location := b6.Tile{X: t.x, Y: t.y, Z: t.z}
			var raw []byte
			var merr error
			if p, cl, fr, _ := core.Protect(func() {
				enc := renderer.EncodeTile(location, content)
				raw, merr = proto.Marshal(enc)
			}); p {
				c.Violate("EncodeTile:panic@"+fr, key.String(), "EncodeTile panicked: %s", cl)
				return
			}
			if merr != nil {
				c.Violate("EncodeTile:unmarshallable", key.String(), "the encoded tile cannot be serialised: %v", merr)
				return
			}
			layers, err := c33DecodeTile(raw)
			if err != nil {
				c.Violate("decode:malformed-tile", key.String(), "the serialised tile does not parse as a vector tile: %v", err)
				return
			}
			// the encoder prepends its own background layer
			if len(layers) > 0 && layers[0].name == "background" {
				layers = layers[1:]
			}
			if len(layers) != len(expect) {
				c.Violate("layers:count", key.String(), "expected %d non-empty layers, the tile has %d", len(expect), len(layers))
				return
			}
			for li, l := range layers {
				if l.name != names[li] {
					c.Violate("layers:name", key.String(), "layer %d is named %q, expected %q", li, l.name, names[li])
				}
				if l.extent != c33Extent {
					c.Violate("layers:extent", key.String(), "layer %q has extent %d", l.name, l.extent)
				}
				if len(l.features) != len(expect[li]) {
					c.Violate("features:count", key.String(), "layer %q has %d features, expected %d", l.name, len(l.features), len(expect[li]))
					continue
				}
				for fi, f := range l.features {
					e := expect[li][fi]
					wit := func(extra map[string]any) map[string]any {
						w := map[string]any{"tile": fmt.Sprintf("%d/%d/%d", t.z, t.x, t.y), "layer": l.name, "feature": fi, "kind": e.kind, "geometry_words": len(f.geometry)}
						if len(f.geometry) <= 200 {
							w["geometry"] = fmt.Sprint(f.geometry)
						}
						for pi, p := range e.parts {
							if pi < 6 {
								w[fmt.Sprintf("expected_part_%d", pi)] = c33RenderPts(p)
							}
						}
						for k, v := range extra {
							w[k] = v
						}
						return w
					}
					pre := e.kind
					if e.large {
						pre = "large-ring"
					}

					// tags
					c.Count("tag_pairs_checked")
					if len(f.tags)%2 != 0 {
						c.Violate("tags:odd-length", wit(nil), "the feature's tag array has odd length %d", len(f.tags))
					} else {
						got := map[string]string{}
						okTags := true
						for i := 0; i+1 < len(f.tags); i += 2 {
							ki, vi := int(f.tags[i]), int(f.tags[i+1])
							if ki >= len(l.keys) || vi >= len(l.values) {
								c.Violate("tags:index-out-of-range", wit(nil), "tag pair (%d,%d) outside the layer's %d keys / %d values", ki, vi, len(l.keys), len(l.values))
								okTags = false
								break
							}
							if l.values[vi].kind != "string" {
								c.Violate("tags:value-not-a-string", wit(nil), "value %d of key %q has kind %s", vi, l.keys[ki], l.values[vi].kind)
								okTags = false
								break
							}
							if _, dup := got[l.keys[ki]]; dup {
								c.Violate("tags:duplicate-key", wit(nil), "key %q occurs twice on one feature", l.keys[ki])
								okTags = false
								break
							}
							got[l.keys[ki]] = l.values[vi].s
						}
						if okTags && c33RenderTags(got) != c33RenderTags(e.tags) {
							c.Violate("tags:differ", wit(map[string]any{"decoded_tags": c33RenderTags(got), "feature_tags": c33RenderTags(e.tags)}),
								"decoded tags %s, the feature has %s", c33RenderTags(got), c33RenderTags(e.tags))
						}
					}

					// geometry
					wantType := map[string]int{"point": 1, "line": 2, "polygon": 3}[e.kind]
					if f.typ != wantType {
						c.Violate(pre+":geometry-type", wit(nil), "geometry type %d, expected %d", f.typ, wantType)
					}
					parts, err := c33DecodeGeometry(f.geometry)
					if err != nil {
						c.Violate(pre+":malformed-command-stream", wit(nil), "command stream does not decode: %v", err)
						continue
					}
					for _, p := range parts {
						for i := 1; i < len(p.pts); i++ {
							if p.pts[i].x < p.pts[i-1].x || p.pts[i].y < p.pts[i-1].y {
								c.Count("negative_delta")
								break
							}
						}
					}
					if len(parts) != len(e.parts) {
						c.Violate(pre+":part-count", wit(map[string]any{"decoded_parts": len(parts)}), "decoded %d parts, expected %d", len(parts), len(e.parts))
						continue
					}
					switch e.kind {
					case "point":
						c.Count("point_feature")
						if parts[0].closed || len(parts[0].pts) != 1 || parts[0].pts[0] != e.parts[0][0] {
							c.Violate("point:coordinates", wit(map[string]any{"decoded": c33RenderPts(parts[0].pts)}), "decoded %s, expected %s", c33RenderPts(parts[0].pts), c33RenderPts(e.parts[0]))
						}
					case "line":
						c.Count("line_feature")
						same := !parts[0].closed && len(parts[0].pts) == len(e.parts[0])
						for i := 0; same && i < len(e.parts[0]); i++ {
							same = parts[0].pts[i] == e.parts[0][i]
						}
						if !same {
							c.Violate("line:coordinates", wit(map[string]any{"decoded": c33RenderPts(parts[0].pts)}), "decoded %s, expected %s", c33RenderPts(parts[0].pts), c33RenderPts(e.parts[0]))
						}
					case "polygon":
						c.Count("polygon_feature")
						if e.ambiguous {
							c.Count("large_ring_ambiguous_skipped")
							continue
						}
						shellSign, holeChecked := int64(0), false
						okRings := true
						for pi, want := range e.parts {
							got := parts[pi]
							if !got.closed {
								c.Violate(pre+":ring-not-closed", wit(map[string]any{"ring": pi}), "ring %d has no ClosePath", pi)
								okRings = false
								continue
							}
							fw, bw := c33CyclicEqual(want, got.pts)
							if !fw && !bw {
								c.Violate(pre+":ring-coordinates", wit(map[string]any{"ring": pi, "hole": e.holes[pi], "decoded": c33RenderPts(got.pts)}),
									"ring %d (hole=%v): decoded %d vertices %s, expected %d vertices %s", pi, e.holes[pi], len(got.pts), c33RenderPts(got.pts), len(want), c33RenderPts(want))
								okRings = false
								continue
							}
							if e.holes[pi] && bw && !fw {
								c.Count("hole_reversed_by_encoder")
							}
						}
						if !okRings {
							continue
						}
						for pi := range e.parts {
							a := c33Area2(parts[pi].pts)
							if a == 0 {
								c.Count("degenerate_ring_area_skipped")
								continue
							}
							s := int64(1)
							if a < 0 {
								s = -1
							}
							if !e.holes[pi] {
								if shellSign == 0 {
									shellSign = s
									if s > 0 {
										c.Count("exterior_positive_area_as_in_spec")
									} else {
										c.Count("exterior_negative_area")
									}
								} else if s != shellSign {
									c.Violate(pre+":shells-wind-differently", wit(map[string]any{"ring": pi}), "shell ring %d winds opposite to the first shell", pi)
								}
							} else {
								holeChecked = true
								if shellSign != 0 && s == shellSign {
									c.Violate(pre+":hole-winding-not-opposite", wit(map[string]any{"ring": pi, "decoded": c33RenderPts(parts[pi].pts)}),
										"hole ring %d has the same winding as the shells (signed area*2 = %d)", pi, a)
								}
							}
						}
						if holeChecked {
							c.Count("polygon_with_hole")
						}
					}
				}
			}
		},
	})
}
