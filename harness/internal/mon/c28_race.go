//go:build race

package mon

// c28raceBuild: the monitor binary was built with -race.
const c28raceBuild = true
