package mon

import (
	"fmt"
	"math"
	"sort"
	"strconv"
	"strings"
	"unicode"
	"unicode/utf8"

	"diagonal.works/b6"
	"diagonal.works/b6/api"
	"github.com/golang/geo/s2"
	"verif/internal/core"
)

// C20 Printed shell expressions parse back to the same expression.
//
//   text  = UnparseExpression(e)                       (must succeed for the printable subset)
//   text' = text with extra white space between tokens (own tokeniser; tokens are never split)
//   e'    = ParseExpression(text')
// Violations: text' does not parse; e' is not structurally equivalent to e
// (own comparison; Name/Begin/End ignored); a position rule fails on e':
//   (1) 0 <= Begin <= End <= len(text') and every node lies inside its parent,
//   (2) so every composite contains its children,
//   (3) a leaf (symbol, string, int, float, feature id) covers exactly one token
//       and that token is the leaf's text; a tag covers key = value, a lat,lng
//       covers float , float; composites begin and end on token boundaries.
// Nodes the parser synthesises without source text (the `collection` and `pair`
// symbols and the implicit integer keys of a collection literal) are exempt when
// their span is [0,0).
//
// ParseExpression writes a package-level variable: cases run one at a time.

// ---------------------------------------------------------------------------
// Own tokeniser of printed text (only used to know where white space may go and
// where tokens begin and end).

type c20tok struct {
	text       string
	begin, end int // in the perturbed text, filled by c20join
}

func c20isPunct(c byte, colon bool) bool {
	switch c {
	case ',', '(', ')', '{', '}', '[', ']', '|', '=', '&':
		return true
	case ':':
		return colon
	}
	return false
}

// c20tokenise splits printed text. Strings run from a quote to the next quote
// that is not escaped by a backslash (the printer uses Go's %q).
func c20tokenise(s string, colon bool) []c20tok {
	var toks []c20tok
	i := 0
	for i < len(s) {
		r, w := utf8.DecodeRuneInString(s[i:])
		switch {
		case unicode.IsSpace(r):
			i += w
		case s[i] == '"':
			j := i + 1
			for j < len(s) {
				if s[j] == '\\' && j+1 < len(s) {
					j += 2
					continue
				}
				if s[j] == '"' {
					j++
					break
				}
				j++
			}
			toks = append(toks, c20tok{text: s[i:j]})
			i = j
		case c20isPunct(s[i], colon):
			toks = append(toks, c20tok{text: s[i : i+1]})
			i++
		default:
			j := i
			for j < len(s) {
				r, w := utf8.DecodeRuneInString(s[j:])
				if unicode.IsSpace(r) || s[j] == '"' || c20isPunct(s[j], colon) {
					break
				}
				j += w
			}
			toks = append(toks, c20tok{text: s[i:j]})
			i = j
		}
	}
	return toks
}

var c20spaces = []string{" ", "  ", "\t", "\n", "\r\n", " ", " ", "\u0085", " \n\t "}

// c20gaps records, for the original text, whether white space separated
// consecutive tokens (it must be kept).
func c20join(r *core.R, original string, toks []c20tok, perturb bool) string {
	var sb strings.Builder
	pos := 0
	extra := func() {
		if perturb && r.Chance(0.35) {
			sb.WriteString(core.Pick(r, c20spaces))
		}
	}
	extra()
	for i := range toks {
		// the white space the printer put before this token
		idx := strings.Index(original[pos:], toks[i].text)
		gap := original[pos : pos+idx]
		pos += idx + len(toks[i].text)
		if i > 0 {
			sb.WriteString(gap)
			extra()
		}
		toks[i].begin = sb.Len()
		sb.WriteString(toks[i].text)
		toks[i].end = sb.Len()
	}
	extra()
	return sb.String()
}

// ---------------------------------------------------------------------------
// Own structural comparison; returns "" or the class of the first difference.

func c20kind(e b6.Expression) string {
	switch v := e.AnyExpression.(type) {
	case nil:
		return "empty"
	case b6.SymbolExpression:
		return "symbol"
	case b6.IntExpression:
		return "int"
	case b6.FloatExpression:
		return "float"
	case b6.StringExpression:
		return "string"
	case b6.FeatureIDExpression:
		return "feature-id"
	case b6.TagExpression:
		return "tag"
	case b6.PointExpression:
		return "latlng"
	case b6.QueryExpression:
		return "query"
	case b6.LambdaExpression:
		return "lambda"
	case b6.CallExpression:
		if v.Pipelined {
			return "pipeline"
		}
		return "call"
	}
	return fmt.Sprintf("%T", e.AnyExpression)
}

func c20diff(a, b b6.Expression) (string, string) {
	ka, kb := c20kind(a), c20kind(b)
	if ka != kb {
		return "kind:" + ka + "->" + kb, fmt.Sprintf("a %s became a %s", ka, kb)
	}
	switch x := a.AnyExpression.(type) {
	case b6.SymbolExpression:
		if y := b.AnyExpression.(b6.SymbolExpression); x != y {
			return "symbol", fmt.Sprintf("symbol %q became %q", x, y)
		}
	case b6.IntExpression:
		if y := b.AnyExpression.(b6.IntExpression); x != y {
			return "int", fmt.Sprintf("int %d became %d", x, y)
		}
	case b6.FloatExpression:
		y := b.AnyExpression.(b6.FloatExpression)
		fx, fy := float64(x), float64(y)
		if math.Float64bits(fx) != math.Float64bits(fy) && !(fx == fy) {
			if math.IsNaN(fx) || math.IsInf(fx, 0) {
				return "float-nonfinite", fmt.Sprintf("float %v became %v", fx, fy)
			}
			if math.Abs(fx-fy) <= 0.005*(1+1e-9)+math.Abs(fx)*1e-15 {
				return "float-precision", fmt.Sprintf("float %v became %v (printed with two decimals)", fx, fy)
			}
			return "float", fmt.Sprintf("float %v became %v", fx, fy)
		}
	case b6.StringExpression:
		if y := b.AnyExpression.(b6.StringExpression); x != y {
			return "string", fmt.Sprintf("string %q became %q", string(x), string(y))
		}
	case b6.FeatureIDExpression:
		if y := b.AnyExpression.(b6.FeatureIDExpression); x != y {
			return "feature-id", fmt.Sprintf("id %v became %v", b6.FeatureID(x), b6.FeatureID(y))
		}
	case b6.TagExpression:
		y := b.AnyExpression.(b6.TagExpression)
		if x.Key != y.Key {
			return "tag-key", fmt.Sprintf("tag key %q became %q", x.Key, y.Key)
		}
		if c, d := c20diff(x.Value, y.Value); c != "" {
			return "tag-value:" + c, d
		}
	case b6.PointExpression:
		y := b.AnyExpression.(b6.PointExpression)
		dlat, dlng := math.Abs(x.Lat.Degrees()-y.Lat.Degrees()), math.Abs(x.Lng.Degrees()-y.Lng.Degrees())
		if d := math.Max(dlat, dlng); d > 1e-9 {
			if d <= 5.1e-7 {
				return "latlng-precision", fmt.Sprintf("point %v became %v (printed with six decimals)", s2.LatLng(x), s2.LatLng(y))
			}
			return "latlng", fmt.Sprintf("point %v became %v", s2.LatLng(x), s2.LatLng(y))
		}
	case b6.QueryExpression:
		return c20diffQuery(x.Query, b.AnyExpression.(b6.QueryExpression).Query)
	case b6.LambdaExpression:
		y := b.AnyExpression.(b6.LambdaExpression)
		if strings.Join(x.Args, ",") != strings.Join(y.Args, ",") || len(x.Args) != len(y.Args) {
			return "lambda-args", fmt.Sprintf("lambda arguments %q became %q", x.Args, y.Args)
		}
		return c20diff(x.Expression, y.Expression)
	case b6.CallExpression:
		y := b.AnyExpression.(b6.CallExpression)
		if c, d := c20diff(x.Function, y.Function); c != "" {
			return c, d
		}
		if len(x.Args) != len(y.Args) {
			return "arg-count", fmt.Sprintf("a call with %d arguments became one with %d", len(x.Args), len(y.Args))
		}
		for i := range x.Args {
			if c, d := c20diff(x.Args[i], y.Args[i]); c != "" {
				return c, d
			}
		}
	default:
		return "monitor:unknown-kind", ka
	}
	return "", ""
}

func c20queryKind(q b6.Query) string {
	switch q.(type) {
	case b6.Keyed:
		return "keyed"
	case b6.Tagged:
		return "tagged"
	case b6.Intersection:
		return "and"
	case b6.Union:
		return "or"
	}
	return fmt.Sprintf("%T", q)
}

func c20diffQuery(a, b b6.Query) (string, string) {
	ka, kb := c20queryKind(a), c20queryKind(b)
	if ka != kb {
		return "query-shape", fmt.Sprintf("query %s became %s", a, b)
	}
	children := func(q b6.Query) []b6.Query {
		switch v := q.(type) {
		case b6.Intersection:
			return v
		case b6.Union:
			return v
		}
		return nil
	}
	switch x := a.(type) {
	case b6.Keyed:
		if y := b.(b6.Keyed); x.Key != y.Key {
			return "query-key", fmt.Sprintf("key %q became %q", x.Key, y.Key)
		}
	case b6.Tagged:
		y := b.(b6.Tagged)
		if x.Key != y.Key {
			return "query-key", fmt.Sprintf("key %q became %q", x.Key, y.Key)
		}
		if c, d := c20diff(x.Value, y.Value); c != "" {
			return "query-value:" + c, d
		}
	case b6.Intersection, b6.Union:
		ca, cb := children(a), children(b)
		if len(ca) != len(cb) {
			return "query-shape", fmt.Sprintf("query %s became %s", a, b)
		}
		for i := range ca {
			if c, d := c20diffQuery(ca[i], cb[i]); c != "" {
				return c, d
			}
		}
	default:
		return "monitor:unknown-query", ka
	}
	return "", ""
}

// c20flatten applies associativity: and(a, and(b, c)) = and(a, b, c).
func c20flatten(q b6.Query) b6.Query {
	switch v := q.(type) {
	case b6.Intersection:
		var out b6.Intersection
		for _, c := range v {
			c = c20flatten(c)
			if cc, ok := c.(b6.Intersection); ok {
				out = append(out, cc...)
			} else {
				out = append(out, c)
			}
		}
		return out
	case b6.Union:
		var out b6.Union
		for _, c := range v {
			c = c20flatten(c)
			if cc, ok := c.(b6.Union); ok {
				out = append(out, cc...)
			} else {
				out = append(out, c)
			}
		}
		return out
	}
	return q
}

func c20flattenQueries(e b6.Expression) b6.Expression {
	switch v := e.AnyExpression.(type) {
	case b6.QueryExpression:
		e.AnyExpression = b6.QueryExpression{Query: c20flatten(v.Query)}
	case b6.LambdaExpression:
		v.Expression = c20flattenQueries(v.Expression)
		e.AnyExpression = v
	case b6.CallExpression:
		args := make([]b6.Expression, len(v.Args))
		for i := range v.Args {
			args[i] = c20flattenQueries(v.Args[i])
		}
		e.AnyExpression = b6.CallExpression{Function: c20flattenQueries(v.Function), Args: args, Pipelined: v.Pipelined}
	}
	return e
}

// ---------------------------------------------------------------------------
// Positions.

func c20allZero(e b6.Expression) bool {
	if e.Begin != 0 || e.End != 0 {
		return false
	}
	switch v := e.AnyExpression.(type) {
	case b6.CallExpression:
		if !c20allZero(v.Function) {
			return false
		}
		for _, a := range v.Args {
			if !c20allZero(a) {
				return false
			}
		}
	case b6.LambdaExpression:
		return c20allZero(v.Expression)
	}
	return true
}

type c20posChecker struct {
	text                  string
	starts                map[int]int // token begin -> index
	ends                  map[int]int
	toks                  []c20tok
	nodes                 int
	synth                 int
	knownSig, knownDetail string
}

func (p *c20posChecker) tokensIn(b, e int) ([]c20tok, bool) {
	i, ok1 := p.starts[b]
	j, ok2 := p.ends[e]
	if !ok1 || !ok2 || j < i {
		return nil, false
	}
	return p.toks[i : j+1], true
}

// check returns (signature, detail) of the first broken rule under e.
func (p *c20posChecker) check(e b6.Expression, parentB, parentE int, synthOK bool) (string, string) {
	kind := c20kind(e)
	if e.Begin == 0 && e.End == 0 && synthOK && c20allZero(e) {
		p.synth++
		return "", ""
	}
	p.nodes++
	show := func() string {
		if e.Begin >= 0 && e.Begin <= e.End && e.End <= len(p.text) {
			return fmt.Sprintf("[%d,%d)=%q", e.Begin, e.End, p.text[e.Begin:e.End])
		}
		return fmt.Sprintf("[%d,%d)", e.Begin, e.End)
	}
	// Two shapes the repository's own tests pin (TestParseExpression/LiteralLatLng,
	// /CollectionLiteral): a lat,lng literal and the calls a collection literal
	// stands for have no span. They are recorded (once per case, own signatures)
	// and the walk goes on below them with the bounds of the enclosing node, so
	// that every other node is still checked. A node whose End (Begin) is 0
	// because it was copied from a trailing (leading) lat,lng is the same defect.
	if e.Begin == 0 && e.End == 0 && kind == "latlng" {
		p.known("latlng:no-span", fmt.Sprintf("a lat,lng literal has the span [0,0) in %q", p.text))
		return "", ""
	}
	if call, ok := e.AnyExpression.(b6.CallExpression); ok && e.Begin == 0 && e.End == 0 && c20isCollectionSymbol(call.Function) {
		p.known("collection-literal:no-span", fmt.Sprintf("the %s call of a collection literal has the span [0,0) although its items have spans, in %q", call.Function.String(), p.text))
		for i, a := range call.Args {
			_, isInt := a.AnyExpression.(b6.IntExpression)
			if sig, d := p.check(a, parentB, parentE, i == 0 && isInt); sig != "" {
				return sig, d
			}
		}
		return "", ""
	}
	if (e.End == 0 && c20edgeIsSpanlessLatLng(e, false)) || (e.Begin == 0 && e.End != 0 && c20edgeIsSpanlessLatLng(e, true)) {
		p.known("latlng:no-span", fmt.Sprintf("a %s node [%d,%d) took its begin or end from a lat,lng literal without a span, in %q", kind, e.Begin, e.End, p.text))
		for _, ch := range c20subExpressions(e) {
			if _, isQuery := e.AnyExpression.(b6.QueryExpression); isQuery {
				break
			}
			if sig, d := p.check(ch, parentB, parentE, false); sig != "" {
				return sig, d
			}
		}
		return "", ""
	}
	if e.Begin == 0 && e.End == 0 {
		return kind + ":no-span", fmt.Sprintf("a %s node has the span [0,0) although it, or a node below it, comes from the text %q", kind, p.text)
	}
	if e.Begin < 0 || e.Begin > e.End || e.End > len(p.text) {
		return kind + ":bad-span", fmt.Sprintf("a %s node has the span %s in a text of %d bytes: %q", kind, show(), len(p.text), p.text)
	}
	if e.Begin < parentB || e.End > parentE {
		return kind + ":outside-parent", fmt.Sprintf("a %s node %s lies outside its parent's span [%d,%d) in %q", kind, show(), parentB, parentE, p.text)
	}
	toks, aligned := p.tokensIn(e.Begin, e.End)
	if !aligned {
		return kind + ":not-on-token-boundary", fmt.Sprintf("a %s node %s does not begin and end on token boundaries in %q", kind, show(), p.text)
	}
	wrong := func(why string) (string, string) {
		return kind + ":wrong-text", fmt.Sprintf("a %s node %s does not cover the text it came from (%s) in %q", kind, show(), why, p.text)
	}
	switch v := e.AnyExpression.(type) {
	case b6.SymbolExpression:
		if len(toks) != 1 || toks[0].text != string(v) {
			return wrong("symbol " + string(v))
		}
	case b6.IntExpression:
		if n, err := strconv.ParseInt(toks[0].text, 10, 64); len(toks) != 1 || err != nil || n != int64(v) {
			return wrong(fmt.Sprintf("int %d", int64(v)))
		}
	case b6.FloatExpression:
		if f, err := strconv.ParseFloat(toks[0].text, 64); len(toks) != 1 || err != nil || !strings.Contains(toks[0].text, ".") || f != float64(v) {
			return wrong(fmt.Sprintf("float %v", float64(v)))
		}
	case b6.StringExpression:
		t := toks[0].text
		if len(toks) != 1 || len(t) < 2 || t[0] != '"' || t[len(t)-1] != '"' {
			return wrong("a quoted string")
		}
		if u, err := strconv.Unquote(t); !(err == nil && u == string(v)) && t[1:len(t)-1] != string(v) {
			return wrong(fmt.Sprintf("string %q", string(v)))
		}
	case b6.FeatureIDExpression:
		if len(toks) != 1 || !strings.HasPrefix(toks[0].text, "/") {
			return wrong("a feature id token")
		}
	case b6.TagExpression:
		if len(toks) != 3 || toks[1].text != "=" {
			return wrong("key = value")
		}
	case b6.PointExpression:
		if len(toks) != 3 || toks[1].text != "," {
			return wrong("lat , lng")
		}
	case b6.QueryExpression:
		// begins at a key, ends at a key or value (the outer brackets are delimiters)
	case b6.LambdaExpression:
		return p.check(v.Expression, e.Begin, e.End, false)
	case b6.CallExpression:
		// the symbols of a collection literal are synthesised
		synth := false
		if s, ok := v.Function.AnyExpression.(b6.SymbolExpression); ok && (s == "collection" || s == "pair") {
			synth = true
		}
		if sig, d := p.check(v.Function, e.Begin, e.End, synth); sig != "" {
			return sig, d
		}
		for i, a := range v.Args {
			// an implicit key of a collection literal
			_, isInt := a.AnyExpression.(b6.IntExpression)
			if sig, d := p.check(a, e.Begin, e.End, synth && i == 0 && isInt); sig != "" {
				return sig, d
			}
		}
	}
	return "", ""
}

func (p *c20posChecker) known(sig, detail string) {
	if p.knownSig == "" || sig < p.knownSig {
		p.knownSig, p.knownDetail = sig, detail
	}
}

func c20isCollectionSymbol(f b6.Expression) bool {
	s, ok := f.AnyExpression.(b6.SymbolExpression)
	return ok && (s == "collection" || s == "pair") && f.Begin == 0 && f.End == 0
}

// c20edgeIsSpanlessLatLng: does the node take its End (or Begin, if leading)
// from a lat,lng literal that has no span? (a call ends where its last argument
// ends, a pipeline where its right side ends, a lambda where its body ends)
func c20edgeIsSpanlessLatLng(e b6.Expression, leading bool) bool {
	for depth := 0; depth < 64; depth++ {
		switch v := e.AnyExpression.(type) {
		case b6.PointExpression:
			return e.Begin == 0 && e.End == 0
		case b6.LambdaExpression:
			if leading && len(v.Args) > 0 {
				return false
			}
			e = v.Expression
		case b6.CallExpression:
			switch {
			case v.Pipelined && leading:
				e = v.Args[0]
			case v.Pipelined:
				e = v.Function
			case leading:
				e = v.Function
			case len(v.Args) > 0:
				e = v.Args[len(v.Args)-1]
			default:
				return false
			}
		default:
			return false
		}
	}
	return false
}

// c20checkPositions returns the first broken rule; if there is none, the
// recorded known shape (lat,lng / collection literal without span), if any.
func c20checkPositions(text string, toks []c20tok, e b6.Expression) (string, string, int, int) {
	p := &c20posChecker{text: text, toks: toks, starts: map[int]int{}, ends: map[int]int{}}
	for i, t := range toks {
		p.starts[t.begin] = i
		p.ends[t.end] = i
	}
	sig, d := p.check(e, 0, len(text), false)
	if sig == "" {
		sig, d = p.knownSig, p.knownDetail
	}
	return sig, d, p.nodes, p.synth
}

// ---------------------------------------------------------------------------
// The monitor's own printer of collection literals: {k: v, ...} / {v, ...}.

func c20printCollection(r *core.R, e b6.Expression, implicit bool) (string, bool) {
	call := e.AnyExpression.(b6.CallExpression)
	item := func(x b6.Expression, key bool) (string, bool) {
		s, ok := api.UnparseExpression(x)
		switch x.AnyExpression.(type) {
		case b6.StringExpression, b6.IntExpression, b6.FeatureIDExpression, b6.TagExpression:
			return s, ok
		case b6.FloatExpression:
			if !key {
				return s, ok
			}
		}
		return "(" + s + ")", ok // a group
	}
	parts := make([]string, len(call.Args))
	for i, p := range call.Args {
		pair := p.AnyExpression.(b6.CallExpression)
		v, ok := item(pair.Args[1], false)
		if !ok {
			return "", false
		}
		if implicit {
			parts[i] = v
			continue
		}
		k, ok := item(pair.Args[0], true)
		if !ok {
			return "", false
		}
		parts[i] = k + " : " + v
		if r.Bool() && (strings.HasSuffix(k, "\"") || strings.HasSuffix(k, ")") || unicode.IsDigit(rune(k[len(k)-1]))) {
			if _, isTag := pair.Args[0].AnyExpression.(b6.TagExpression); !isTag {
				if _, isID := pair.Args[0].AnyExpression.(b6.FeatureIDExpression); !isID {
					parts[i] = k + ": " + v
				}
			}
		}
	}
	return "{" + strings.Join(parts, ", ") + "}", true
}

// ---------------------------------------------------------------------------
// Classification of a failing expression: the kind of a minimal failing
// sub-expression plus the features of its value that matter to the printer.

func c20stringFeatures(s string) string {
	// what makes the printer (%q) write an escape sequence
	if strings.ContainsAny(s, "\"\\") || !utf8.ValidString(s) {
		return "needs-escapes"
	}
	for _, r := range s {
		if !strconv.IsPrint(r) {
			return "needs-escapes"
		}
	}
	return "plain"
}

func c20symbolLike(s string, lead string) bool {
	if s == "" {
		return false
	}
	for i, r := range s {
		letter := (r >= 'a' && r <= 'z') || (r >= 'A' && r <= 'Z')
		if i == 0 {
			if !letter && !strings.ContainsRune(lead, r) {
				return false
			}
			continue
		}
		if !(letter || (r >= '0' && r <= '9') || r == '-' || r == ':' || r == '_') {
			return false
		}
	}
	return true
}

func c20keyClass(k string) string {
	if c20symbolLike(k, "#@") {
		return "plain-key"
	}
	return "odd-key"
}

func c20valueClass(v string) string {
	switch {
	case v == "":
		return "empty-value"
	case c20symbolLike(v, ""):
		return "symbol-value"
	case c20symbolLike("a"+v, ""):
		return "value-leading-nonletter"
	}
	return "quoted-value(" + c20stringFeatures(v) + ")"
}

func c20classify(e b6.Expression) string {
	switch v := e.AnyExpression.(type) {
	case b6.StringExpression:
		return "string(" + c20stringFeatures(string(v)) + ")"
	case b6.FloatExpression:
		f := float64(v)
		if math.IsNaN(f) || math.IsInf(f, 0) {
			return "float(nonfinite)"
		}
		if g, _ := strconv.ParseFloat(strconv.FormatFloat(f, 'f', 2, 64), 64); g != f {
			return "float(more-than-2-decimals)"
		}
		return "float"
	case b6.TagExpression:
		return "tag(" + c20keyClass(v.Key) + "," + c20valueClass(v.Value.String()) + ")"
	case b6.QueryExpression:
		return "query(" + c20queryClass(v.Query) + ")"
	case b6.CallExpression:
		k := "call"
		if v.Pipelined {
			k = "pipeline"
			if c, ok := v.Function.AnyExpression.(b6.CallExpression); ok && c.Pipelined {
				k += "(rhs-is-pipeline)"
			}
		}
		switch v.Function.AnyExpression.(type) {
		case b6.SymbolExpression:
		case b6.LambdaExpression:
			if !v.Pipelined {
				k += "(function-is-lambda)"
			}
		case b6.CallExpression:
			if !v.Pipelined {
				k += "(function-is-call)"
			}
		}
		return k
	}
	return c20kind(e)
}

func c20queryClass(q b6.Query) string {
	switch v := q.(type) {
	case b6.Keyed:
		return "keyed:" + c20keyClass(v.Key)
	case b6.Tagged:
		return "tagged:" + c20keyClass(v.Key) + "," + c20valueClass(v.Value.String())
	case b6.Intersection, b6.Union:
		var cs []b6.Query
		if i, ok := v.(b6.Intersection); ok {
			cs = i
		} else {
			cs = v.(b6.Union)
		}
		if len(cs) != 2 {
			return fmt.Sprintf("%s:%d-ary", c20queryKind(q), len(cs))
		}
		switch cs[0].(type) {
		case b6.Intersection, b6.Union:
			return "composite-left-operand"
		}
		return "binary"
	}
	return fmt.Sprintf("%T", q)
}

// c20subExpressions: the direct sub-expressions that can be printed on their own.
func c20subExpressions(e b6.Expression) []b6.Expression {
	var out []b6.Expression
	switch v := e.AnyExpression.(type) {
	case b6.CallExpression:
		out = append(out, v.Function)
		out = append(out, v.Args...)
	case b6.LambdaExpression:
		out = append(out, v.Expression)
	case b6.QueryExpression:
		var cs []b6.Query
		switch q := v.Query.(type) {
		case b6.Intersection:
			cs = q
		case b6.Union:
			cs = q
		}
		for _, c := range cs {
			out = append(out, b6.NewQueryExpression(c))
		}
	}
	return out
}

type c20result struct {
	sig, detail string
	text        string
	nodes       int
	synth       int
	equivalent  bool // printed, parsed and compared equal (positions are judged separately)
}

// c20try prints, perturbs, parses and checks one expression. r may be nil (no
// perturbation). ownPrinter: "" | "collection" | "collection-implicit".
func c20try(r *core.R, e b6.Expression, ownPrinter string, flatten bool) c20result {
	var text string
	var ok bool
	colon := false
	var res c20result
	panicked, class, frame, _ := core.Protect(func() {
		switch ownPrinter {
		case "collection":
			text, ok = c20printCollection(r, e, false)
			colon = true
		case "collection-implicit":
			text, ok = c20printCollection(r, e, true)
			colon = true
		default:
			text, ok = api.UnparseExpression(e)
		}
	})
	if panicked {
		return c20result{sig: "unparse:panic@" + frame, detail: "UnparseExpression panicked: " + class}
	}
	if !ok {
		return c20result{sig: "unparse:refused", detail: "UnparseExpression returned false for an expression of the printable subset"}
	}
	toks := c20tokenise(text, colon)
	perturbed := c20join(r, text, toks, r != nil)
	res.text = perturbed
	var parsed b6.Expression
	var err error
	panicked, class, frame, _ = core.Protect(func() { parsed, err = api.ParseExpression(perturbed) })
	if panicked {
		res.sig, res.detail = "parse:panic@"+frame, fmt.Sprintf("ParseExpression(%q) panicked: %s", perturbed, class)
		return res
	}
	if err != nil {
		res.sig, res.detail = "parse:error", fmt.Sprintf("printed %q, which does not parse: %s", perturbed, err)
		return res
	}
	want, got := e, parsed
	if flatten {
		want, got = c20flattenQueries(e), c20flattenQueries(parsed)
	}
	if c, d := c20diff(want, got); c != "" {
		res.sig, res.detail = "not-equivalent:"+c, fmt.Sprintf("printed %q, which parses to a different expression: %s", perturbed, d)
		return res
	}
	res.equivalent = true
	sig, d, nodes, synth := c20checkPositions(perturbed, toks, parsed)
	res.nodes, res.synth = nodes, synth
	if sig != "" {
		res.sig, res.detail = "position:"+sig, d
	}
	return res
}

var c20subCases = []string{"float-arbitrary", "point-arbitrary", "string-escapes", "tag-value-leading-nonletter", "tag-empty-value", "tag-key-odd",
	"query-nary", "non-symbol-function", "collection-literal", "collection-literal-implicit"}

func init() {
	required := []string{"ok_call_no_args", "ok_call_with_args", "ok_symbol_arg", "ok_pipeline_stage", "ok_pipeline_rhs_is_pipeline", "ok_lambda", "ok_lambda_no_args", "ok_group",
		"ok_string", "ok_int", "ok_float", "ok_feature_id", "ok_id_alias_osm", "ok_id_alias_ons", "ok_id_alias_codepoint", "ok_id_full", "ok_latlng", "ok_tag",
		"ok_query", "ok_query_keyed", "ok_query_tagged", "ok_query_and", "ok_query_or", "ok_query_composite_left",
		"perturbed_texts", "position_nodes_checked", "sub_string-escapes_ok", "sub_collection-literal_ok", "sub_collection-literal-implicit_ok", "sub_query-nary_ok", "sub_tag-value-leading-nonletter_ok"}
	sort.Strings(required)
	core.Register(&core.Monitor{
		ID:        "C20",
		Title:     "Printed shell expressions parse back to the same expression",
		Technique: "unparse -> white-space perturbation between tokens -> parse; own structural comparison ignoring positions; span containment, token-boundary and leaf-text checks on every parsed node; failing trees reduced to a minimal failing sub-expression",
		Rule: "case = random expression in the parser's normal form (depth <= 3: calls, pipelines incl. a bracketed pipeline on the right, lambdas with 0-2 parameters, groups, strings, ints, exact 2-decimal floats, exact 6-decimal lat/lngs, " +
			"feature ids with and without aliases, tags, binary tag queries incl. bracketed left operands), printed by UnparseExpression; 1 case in 4 is a labelled sub-case (arbitrary floats / points, strings with quotes, backslashes and unprintable runes, " +
			"tag values with a leading non-letter, empty tag values, odd tag keys, n-ary queries, calls of a non-symbol, collection literals printed by the monitor in {k: v} and {v} syntax); " +
			"distinct = distinct perturbed text; non-trivial = at least 3 tokens",
		Assumptions: []string{
			"the printable subset is the range of the parser: a bare symbol at the top level is the call of that symbol, the function of a non-pipelined call is a symbol",
			"equivalence = same structure and values; Name/Begin/End ignored; lat/lngs equal within 1e-9 degrees; n-ary and/or queries (sub-case) compared after flattening by associativity",
			"white space is only added between the tokens of the monitor's own tokeniser, never inside a token",
			"synthesised nodes without source text (collection/pair symbols, implicit integer keys of collection literals) may have the span [0,0)",
			"bool, nil, path, area, collection, route, feature and GeoJSON literals print as (broken-value ...) and are outside the printable subset",
		},
		Quick: 20000, Thorough: 2000000,
		Required: required,
		Run:      c20run,
	})
}

func c20run(c *core.Ctx) {
	r := c.R
	g := &c20gen{r: r, kinds: map[string]int{}, colon: true}
	if r.Intn(4) == 0 {
		g.sub = core.Pick(r, c20subCases)
	}
	printer, flatten := "", false
	var e b6.Expression
	switch g.sub {
	case "collection-literal":
		g.colon = false
		e, printer = g.collectionCall(false), "collection"
	case "collection-literal-implicit":
		g.colon = false
		e, printer = g.collectionCall(true), "collection-implicit"
	case "query-nary":
		flatten = true
		e = g.pipeline(3)
	default:
		e = g.pipeline(3)
	}
	c.Count("cases_" + map[bool]string{true: "main", false: "sub_" + g.sub}[g.sub == ""])
	pr := r.Fork()
	res := c20try(pr, e, printer, flatten)
	c.Key("%s|%s", g.sub, res.text)
	if len(c20tokenise(res.text, false)) >= 3 {
		c.Nontrivial()
	}
	if c.Index < 3 {
		c.Sample(map[string]any{"sub_case": g.sub, "text": res.text})
	}
	if res.equivalent {
		// printed, perturbed, parsed and compared equal
		c.Count("perturbed_texts")
		c.Add("position_nodes_checked", res.nodes)
		c.Add("synthesised_nodes_exempt", res.synth)
		for k, n := range g.kinds {
			c.Add("ok_"+k, n)
		}
		if g.sub != "" {
			c.Count("sub_" + g.sub + "_ok")
		}
	}
	if res.sig == "" {
		c.Count("positions_all_hold")
		return
	}
	if strings.HasPrefix(res.sig, "position:latlng:no-span") || strings.HasPrefix(res.sig, "position:collection-literal:no-span") {
		// the two span-less shapes pinned by the repository's tests; every
		// other node of the case was checked
		c.Violate(res.sig, map[string]any{"text": res.text, "sub_case": g.sub}, "%s", res.detail)
		return
	}
	// reduce to a minimal failing sub-expression (printed without perturbation;
	// if only the perturbed text fails, keep the whole case)
	fails := func(x b6.Expression) c20result {
		if _, ok := x.AnyExpression.(b6.SymbolExpression); ok {
			return c20result{} // alone, a symbol prints as the call of itself
		}
		xr := c20try(nil, x, "", flatten)
		if strings.HasPrefix(xr.sig, "position:latlng:no-span") || strings.HasPrefix(xr.sig, "position:collection-literal:no-span") {
			return c20result{} // reported on their own; not what made the whole case fail
		}
		return xr
	}
	minimal, mres := e, res
	if printer == "" {
		if plain := fails(e); plain.sig != "" {
			mres = plain
			for depth := 0; depth < 64; depth++ {
				descended := false
				for _, ch := range c20subExpressions(minimal) {
					if cr := fails(ch); cr.sig != "" {
						minimal, mres, descended = ch, cr, true
						break
					}
				}
				if !descended {
					break
				}
			}
		} else {
			mres.sig = res.sig + ":only-with-extra-white-space"
		}
	}
	class := c20classify(minimal)
	if printer != "" {
		class = printer
	}
	sig := mres.sig + ":" + class
	// input classes outside what the grammar can express: one signature each,
	// whichever way they fail to read back
	switch {
	case class == "float(nonfinite)":
		sig = "does-not-read-back:float(nonfinite)"
	case strings.Contains(class, "odd-key"):
		sig = "does-not-read-back:odd-key"
	case strings.HasPrefix(class, "call(function-is-"):
		sig = "does-not-read-back:call(function-is-not-a-symbol)"
	}
	c.Violate(sig, map[string]any{"text": res.text, "sub_case": g.sub, "minimal_text": mres.text},
		"%s [sub-case %q; whole text %q]", mres.detail, g.sub, res.text)
}
