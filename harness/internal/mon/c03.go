package mon

import (
	"fmt"
	"strings"

	"diagonal.works/b6"
	"diagonal.works/b6/ingest"
	"diagonal.works/b6/ingest/compact"
	"verif/internal/core"
	"verif/internal/obs"
	"verif/internal/wm"
)

// C03 Tag search returns exactly the matching features in ID order.
//
// Oracle: brute force over the feature-map model (wm.World.CheckFind): a
// result must be strictly increasing in feature-ID order, contain every
// matching feature that is not a don't-care point, and nothing that does not
// match. The model replays the same edit history as the real world.

func c03Query(r *core.R, depth int) b6.Query {
	leaf := func() b6.Query {
		switch r.Intn(7) {
		case 0:
			return b6.All{}
		case 1:
			if r.Chance(0.3) {
				return b6.Empty{}
			}
			return b6.All{}
		case 2, 3:
			return b6.Tagged{Key: core.Pick(r, wm.HashKeys), Value: b6.NewStringExpression(core.Pick(r, wm.TagValues))}
		case 4:
			return b6.Keyed{Key: core.Pick(r, wm.HashKeys)}
		case 5:
			return b6.Keyed{Key: core.Pick(r, wm.AtKeys)}
		default:
			if r.Chance(0.15) {
				return b6.Keyed{Key: "#absent"}
			}
			return b6.Tagged{Key: core.Pick(r, wm.HashKeys), Value: b6.NewStringExpression("absent")}
		}
	}
	if depth == 0 || r.Chance(0.3) {
		return leaf()
	}
	switch r.Intn(4) {
	case 0:
		return b6.Typed{Type: core.Pick(r, []b6.FeatureType{b6.FeatureTypePoint, b6.FeatureTypePath, b6.FeatureTypeArea, b6.FeatureTypeRelation}), Query: c03Query(r, depth-1)}
	case 1:
		n := r.Range(1, 3)
		q := b6.Intersection{}
		for i := 0; i < n; i++ {
			q = append(q, c03Query(r, depth-1))
		}
		return q
	default:
		n := r.Range(0, 3)
		if n == 0 && !r.Chance(0.2) {
			n = 2
		}
		q := b6.Union{}
		for i := 0; i < n; i++ {
			q = append(q, c03Query(r, depth-1))
		}
		return q
	}
}

// c03Split partitions specs into k files at the feature level by connected
// component of the reference graph (cross-file references are C17's subject).
func c03Split(r *core.R, specs []*wm.Spec, k int) [][]*wm.Spec {
	// connected components of the reference graph (union-find): a feature is
	// always stored with everything it references and everything that references it
	parent := map[b6.FeatureID]b6.FeatureID{}
	var find func(x b6.FeatureID) b6.FeatureID
	find = func(x b6.FeatureID) b6.FeatureID {
		if p, ok := parent[x]; ok && p != x {
			parent[x] = find(p)
			return parent[x]
		}
		parent[x] = x
		return x
	}
	for _, s := range specs {
		find(s.ID)
	}
	for _, s := range specs {
		for _, ref := range s.Refs() {
			if _, ok := parent[ref]; ok {
				parent[find(s.ID)] = find(ref)
			}
		}
	}
	compFile := map[b6.FeatureID]int{}
	group := map[b6.FeatureID]int{}
	for _, s := range specs {
		root := find(s.ID)
		if _, ok := compFile[root]; !ok {
			compFile[root] = r.Intn(k)
		}
		group[s.ID] = compFile[root]
	}
	out := make([][]*wm.Spec, k)
	for _, s := range specs {
		out[group[s.ID]] = append(out[group[s.ID]], s)
	}
	return out
}

func init() {
	kinds := []string{"basic", "basic-mutable", "mutable-overlay", "overlay", "mutable-overlay-on-overlay", "compact", "compact-merged", "mutable-overlay-on-compact"}
	core.Register(&core.Monitor{
		ID:        "C03",
		Title:     "Tag search returns exactly the matching features in ID order",
		Technique: "brute-force reference search over a feature-map model that replays the same edit history",
		Rule: "case = (world kind, generated feature set, edit history for mutable kinds, 40 random query trees of depth <= 3 over " +
			"all/empty/tagged/keyed/typed/and/or on searchable keys); distinct = world kind + feature set + history; non-trivial = at least one " +
			"query returned >= 2 features and at least one returned none",
		Assumptions: []string{"points whose only tag is their geometry tag are optional in results (never indexed statically, possibly still indexed after edits)",
			"Tagged is generated for #keys in the main list; Tagged on an @key is a labelled sub-case"},
		Quick: 320, Thorough: 6000,
		Required: []string{"kind_basic", "kind_basic-mutable", "kind_mutable-overlay", "kind_overlay", "kind_compact", "kind_compact-merged",
			"results_nonempty", "typed_queries", "keyed_at", "history_ops"},
		Run: func(c *core.Ctx) {
			r := c.R
			// compact builds cost ~0.6 s: use them in 1 of 8 cases
			kind := kinds[0]
			switch k := c.Index % 16; {
			case k == 5:
				kind = "compact"
			case k == 11:
				kind = "compact-merged"
			case k == 14:
				kind = "mutable-overlay-on-compact"
			default:
				kind = kinds[[]int{0, 1, 2, 3, 4}[r.Intn(5)]]
			}
			c.Count("kind_" + kind)
			o := wm.DefaultGen()
			isCompact := strings.Contains(kind, "compact")
			if isCompact {
				o.MaxCollections = 0
			}
			if r.Chance(0.3) {
				o.Namespaces = []b6.Namespace{"example.com/a", "example.com/a/b/c", b6.NamespaceLatLng}
			}
			g := wm.NewGen(r.Fork(), o)
			specs := g.World()
			model := wm.ModelOf(specs)
			var world b6.World
			var mutable ingest.MutableWorld
			var err error
			var script []string
			switch kind {
			case "basic":
				world, err = wm.Basic(specs, 1+r.Intn(3))
			case "basic-mutable":
				var bm *ingest.BasicMutableWorld
				bm, err = wm.BasicMutable(specs)
				world, mutable = bm, bm
			case "mutable-overlay":
				var base b6.World
				base, err = wm.Basic(specs, 1)
				if err == nil {
					mo := ingest.NewMutableOverlayWorld(base)
					world, mutable = mo, mo
				}
			case "mutable-overlay-on-compact":
				var base *compact.World
				base, err = wm.Compact(specs, 1)
				if err == nil {
					mo := ingest.NewMutableOverlayWorld(base)
					world, mutable = mo, mo
				}
			case "overlay", "mutable-overlay-on-overlay":
				// upper: re-tagged versions of some points/relations/collections plus new points
				var upper []*wm.Spec
				for _, s := range specs {
					if (s.ID.Type == b6.FeatureTypePoint || s.ID.Type == b6.FeatureTypeRelation || s.ID.Type == b6.FeatureTypeCollection) && r.Chance(0.3) {
						u := s.Clone()
						u.Tags = g.RandomTags(0.8)
						upper = append(upper, u)
					}
				}
				for i := r.Intn(4); i > 0; i-- {
					upper = append(upper, g.Point(0.8))
				}
				var base, up b6.World
				base, err = wm.Basic(specs, 1)
				if err == nil {
					up, err = wm.Basic(upper, 1)
				}
				if err == nil {
					world = ingest.NewOverlayWorld(up, base)
					for _, u := range upper {
						model.Add(u)
					}
					c.Add("overlay_shadowed", len(upper))
					if kind == "mutable-overlay-on-overlay" {
						mo := ingest.NewMutableOverlayWorld(world)
						world, mutable = mo, mo
					}
				}
			case "compact":
				world, err = wm.Compact(specs, 1)
			case "compact-merged":
				parts := c03Split(r, specs, r.Range(2, 3))
				cw := compact.NewWorld()
				for _, p := range parts {
					if len(p) == 0 {
						continue
					}
					var data []byte
					data, err = wm.CompactBytes(p, 1)
					if err != nil {
						break
					}
					if err = cw.Merge(data); err != nil {
						break
					}
					c.Count("merged_files")
				}
				world = cw
			}
			if err != nil {
				c.Violate("build-failed:"+kind, nil, "building a %s world from a valid feature set failed: %v", kind, err)
				return
			}
			if mutable != nil {
				n := r.Range(0, 25)
				for i := 0; i < n; i++ {
					op := g.NextOp(model)
					if isCompact && op.Kind == "add" && op.Spec.ID.Type == b6.FeatureTypeCollection {
						continue
					}
					script = append(script, op.String())
					errW := wm.Apply(mutable, op)
					errM := wm.ApplyModel(model, op)
					if (errW != nil) != (errM != nil) {
						c.Violate("history:error-mismatch:"+op.Kind, script, "%s: world error %v, model error %v", op, errW, errM)
						return
					}
					c.Count("history_ops")
				}
			}
			// queries
			nonEmpty, empty, big := 0, 0, 0
			for qi := 0; qi < 40; qi++ {
				q := c03Query(r, 3)
				if strings.Contains(q.String(), "feature-type") {
					c.Count("typed_queries")
				}
				if strings.Contains(q.String(), "(key @") {
					c.Count("keyed_at")
				}
				var got []b6.FeatureID
				panicked, class, frame, _ := core.Protect(func() { got = obs.FindIDs(world, q) })
				if panicked {
					c.Violate("find:panic@"+frame+":"+kind, map[string]any{"query": q.String(), "history": script}, "FindFeatures(%s) on a %s world panicked: %s", q, kind, class)
					continue
				}
				if len(got) > 0 {
					nonEmpty++
					c.Count("results_nonempty")
				} else {
					empty++
				}
				if len(got) >= 2 {
					big++
				}
				if class, detail := model.CheckFind(q, got); class != "" {
					c.Violate("find:"+class+":"+kind, map[string]any{"query": q.String(), "history": script, "got": fmt.Sprint(got)},
						"FindFeatures(%s) on a %s world: %s", q, kind, detail)
				}
			}
			// labelled sub-case: Tagged on an @key (Matches is true, the compiled query is empty)
			for _, k := range wm.AtKeys {
				for _, v := range wm.TagValues[:3] {
					q := b6.Tagged{Key: k, Value: b6.NewStringExpression(v)}
					var got []b6.FeatureID
					if panicked, _, _, _ := core.Protect(func() { got = obs.FindIDs(world, q) }); panicked {
						continue
					}
					if class, detail := model.CheckFind(q, got); class != "" {
						c.Count("tagged_at_mismatch")
						c.Violate("tagged-on-@key:"+class, map[string]any{"query": q.String()}, "FindFeatures(%s): %s", q, detail)
						break
					}
				}
			}
			var sb strings.Builder
			for _, s := range specs {
				sb.WriteString(s.String() + "|")
			}
			c.Key("%s/%s/%s", kind, sb.String(), strings.Join(script, ";"))
			if big > 0 && empty > 0 {
				c.Nontrivial()
			}
			if c.Index < 2 {
				c.Sample(map[string]any{"kind": kind, "features": len(specs), "first_features": strings.SplitN(sb.String(), "|", 6)[:min(5, len(specs))], "history": script})
			}
		},
	})
}

func min(a, b int) int {
	if a < b {
		return a
	}
	return b
}
