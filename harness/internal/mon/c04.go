package mon

import (
	"fmt"
	"math"
	"sort"
	"strings"
	"time"

	"diagonal.works/b6"
	"diagonal.works/b6/search"
	"github.com/golang/geo/s1"
	"github.com/golang/geo/s2"
	"verif/internal/core"
)

// C04 Spatial search never misses or invents a feature its query accepts.
//
// Oracle: the query's own Matches, applied by the monitor to every feature
// that EachFeature reports. FindFeatures(q) must contain every matching
// feature that is not a don't-care point (a point whose only tag is its
// geometry is never indexed) and nothing that does not match.

// c04Spec is a query that is instantiated per world (a point query on a vertex
// must use the coordinates that world reports).
type c04Spec struct {
	Kind  string // cap | cells | point | polyline | multipolygon | feature | feature-nongeometric
	Wrap  string
	Desc  string
	Make  func(b *c04Built) b6.Query // the bare spatial query
	Cover func(b *c04Built) s2.CellUnion
	Outer func(q b6.Query) b6.Query
}

func c04CellsDesc(ids []s2.CellID) string {
	ts := make([]string, len(ids))
	for i, id := range ids {
		ts[i] = fmt.Sprintf("%s/L%d", id.ToToken(), id.Level())
	}
	return strings.Join(ts, ",")
}

func c04RegionCovering(region s2.Region) s2.CellUnion {
	coverer := search.MakeCoverer()
	return coverer.Covering(region)
}

func c04FromC05(q c05Query) *c04Spec {
	sp := &c04Spec{Kind: q.Kind, Desc: q.Desc, Make: func(*c04Built) b6.Query { return q.Q }}
	switch qq := q.Q.(type) {
	case *b6.IntersectsCap:
		sp.Cover = func(*c04Built) s2.CellUnion {
			return c04RegionCovering(s2.CapFromCenterAngle(q.centre, s1.Angle(q.radius)))
		}
	case b6.IntersectsCells:
		sp.Cover = func(*c04Built) s2.CellUnion {
			u := make(s2.CellUnion, len(qq.Cells))
			for i, cell := range qq.Cells {
				u[i] = cell.ID()
			}
			u.Normalize()
			return c04RegionCovering(&u)
		}
	case b6.IntersectsPoint:
		sp.Cover = func(*c04Built) s2.CellUnion { return c04RegionCovering(qq.Point) }
	case b6.IntersectsPolyline:
		sp.Cover = func(*c04Built) s2.CellUnion { return c04RegionCovering(qq.Polyline) }
	case b6.IntersectsMultiPolygon:
		sp.Cover = func(*c04Built) s2.CellUnion {
			var u s2.CellUnion
			for _, p := range qq.MultiPolygon {
				u = s2.CellUnionFromUnion(u, c04RegionCovering(p))
			}
			return u
		}
	}
	return sp
}

func c04FeatureSpec(id b6.FeatureID, kind string) *c04Spec {
	return &c04Spec{Kind: kind, Desc: fmt.Sprintf("%s(%s)", kind, id),
		Make: func(*c04Built) b6.Query { return b6.IntersectsFeature{ID: id} },
		Cover: func(b *c04Built) s2.CellUnion {
			if i, ok := b.ByID[id]; ok {
				return b.Feats[i].Covering
			}
			return nil
		}}
}

func c04GenSpec(r *core.R, w *c04World) *c04Spec {
	sc := w.Scene
	geometric := func() []c04Item {
		var out []c04Item
		for _, it := range sc.Items {
			if it.Kind != "relation" {
				out = append(out, it)
			}
		}
		return out
	}
	for attempt := 0; attempt < 8; attempt++ {
		switch k := r.Intn(20); {
		case k < 2: // the cells around a point feature: the cell it falls in, or cells that merely touch it
			if len(w.Built) == 0 {
				continue
			}
			b := w.Built[0]
			var cands []int
			for i, f := range b.Feats {
				if f.ID.Type == b6.FeatureTypePoint && !f.DontCare {
					cands = append(cands, i)
				}
			}
			if len(cands) == 0 {
				continue
			}
			f := b.Feats[core.Pick(r, cands)]
			g, ok := f.F.(b6.Geometry)
			if !ok {
				continue
			}
			cell := s2.CellFromPoint(g.Point()).ID().Parent(r.Range(6, 22))
			var ids []s2.CellID
			how := "around"
			switch r.Intn(3) {
			case 0:
				ids = []s2.CellID{cell.EdgeNeighbors()[r.Intn(4)]}
				how = "an edge neighbour of the cell"
			case 1:
				for _, n := range cell.AllNeighbors(cell.Level()) {
					ids = append(ids, n)
				}
				how = "all neighbours of the cell"
			default:
				ids = []s2.CellID{cell}
				how = "the cell"
			}
			cells := make([]s2.Cell, len(ids))
			for i, id := range ids {
				cells[i] = s2.CellFromCellID(id)
			}
			q := c05Query{Kind: "cells", Desc: fmt.Sprintf("cells(%s: %s of %s)", c04CellsDesc(ids), how, f.ID), Q: b6.IntersectsCells{Cells: cells}, cells: cells}
			return c04FromC05(q)
		case k < 11: // a region anchored at a site
			site := core.Pick(r, sc.Sites)
			qs := c05GenOneQuery(r, site.Scene, site.Gens, site.Gens)
			if len(qs) == 1 {
				return c04FromC05(qs[0])
			}
		case k < 13: // intersects-feature of a point, path or area
			it := core.Pick(r, geometric())
			return c04FeatureSpec(it.FID, "feature")
		case k < 16: // cells related to a feature's covering: equal, ancestor, descendant
			if len(w.Built) == 0 {
				continue
			}
			b := w.Built[0]
			var cands []int
			for i, f := range b.Feats {
				if len(f.Covering) > 0 && !f.DontCare {
					cands = append(cands, i)
				}
			}
			if len(cands) == 0 {
				continue
			}
			f := b.Feats[core.Pick(r, cands)]
			cell := core.Pick(r, []s2.CellID(f.Covering))
			how := "equal"
			switch r.Intn(3) {
			case 0:
			case 1:
				if cell.Level() > 0 {
					cell = cell.Parent(r.Intn(cell.Level()))
					how = "ancestor"
				}
			default:
				if cell.Level() < 30 {
					l := r.Range(cell.Level()+1, 30)
					n := int64(1) << uint(2*min(l-cell.Level(), 10))
					cell = cell.ChildBeginAtLevel(l).Advance(int64(r.Intn(int(n))))
					how = "descendant"
				}
			}
			ids := []s2.CellID{cell}
			if r.Chance(0.3) {
				ids = append(ids, cell.EdgeNeighbors()[r.Intn(4)])
			}
			cells := make([]s2.Cell, len(ids))
			for i, id := range ids {
				cells[i] = s2.CellFromCellID(id)
			}
			q := c05Query{Kind: "cells", Desc: fmt.Sprintf("cells(%s %s of a covering cell of %s)", c04CellsDesc(ids), how, f.ID), Q: b6.IntersectsCells{Cells: cells}, cells: cells}
			return c04FromC05(q)
		case k < 18: // a point on a vertex of a feature, with the coordinates the world reports
			it := core.Pick(r, geometric())
			j := r.Intn(64)
			id := it.FID
			sp := &c04Spec{Kind: "point", Desc: fmt.Sprintf("point(vertex %d of %s)", j, id)}
			at := func(b *c04Built) (s2.Point, bool) {
				i, ok := b.ByID[id]
				if !ok {
					return s2.Point{}, false
				}
				g, ok := b.Feats[i].F.(b6.Geometry)
				if !ok {
					return s2.Point{}, false
				}
				switch g.GeometryType() {
				case b6.GeometryTypePoint:
					return g.Point(), true
				case b6.GeometryTypePath:
					pl := *g.Polyline()
					return pl[j%len(pl)], true
				case b6.GeometryTypeArea:
					vs := b.Feats[i].F.(b6.AreaFeature).Polygon(0).Loop(0).Vertices()
					return vs[j%len(vs)], true
				}
				return s2.Point{}, false
			}
			sp.Make = func(b *c04Built) b6.Query {
				if p, ok := at(b); ok {
					return b6.IntersectsPoint{Point: p}
				}
				return nil
			}
			sp.Cover = func(b *c04Built) s2.CellUnion {
				if p, ok := at(b); ok {
					return c04RegionCovering(p)
				}
				return nil
			}
			return sp
		default: // very large regions
			c, _ := c05Centre(r)
			switch r.Intn(3) {
			case 0:
				radius := (15 + 70*r.Float()) * math.Pi / 180
				capq := s2.CapFromCenterAngle(c.Point(), s1.Angle(radius))
				return c04FromC05(c05Query{Kind: "cap", Desc: fmt.Sprintf("cap(%s r=%.4g rad huge)", c, radius), Q: b6.NewIntersectsCap(capq), centre: c.Point(), radius: capq.Radius().Radians()})
			case 1:
				id := c05CellID(c.Point()).Parent(r.Intn(4))
				cells := []s2.Cell{s2.CellFromCellID(id)}
				return c04FromC05(c05Query{Kind: "cells", Desc: fmt.Sprintf("cells(%s huge)", c04CellsDesc([]s2.CellID{id})), Q: b6.IntersectsCells{Cells: cells}, cells: cells})
			default:
				line := c05GenLine(r, c.Point(), 0.3+0.6*r.Float(), r.Range(2, 6))
				if line != nil {
					pl := s2.Polyline(c05Points(line))
					return c04FromC05(c05Query{Kind: "polyline", Desc: fmt.Sprintf("polyline(huge %s)", c05LLs(line)), Q: b6.IntersectsPolyline{Polyline: &pl}, line: c05Points(line)})
				}
			}
		}
	}
	return nil
}

func c04Wrap(r *core.R, w *c04World, sp *c04Spec) {
	tagq := func() (b6.Query, string) {
		switch r.Intn(4) {
		case 0:
			return b6.Keyed{Key: "#building"}, "keyed(#building)"
		case 1:
			return b6.Keyed{Key: "#highway"}, "keyed(#highway)"
		case 2:
			return b6.Tagged{Key: "#amenity", Value: b6.NewStringExpression("bench")}, "tagged(#amenity=bench)"
		}
		return b6.Keyed{Key: "#landuse"}, "keyed(#landuse)"
	}
	switch k := r.Intn(20); {
	case k < 11:
		sp.Wrap = "bare"
		sp.Outer = func(q b6.Query) b6.Query { return q }
	case k < 14:
		t, d := tagq()
		sp.Wrap = "and(tag,spatial)"
		sp.Desc = "and(" + d + "," + sp.Desc + ")"
		sp.Outer = func(q b6.Query) b6.Query { return b6.Intersection{t, q} }
	case k < 17:
		t, d := tagq()
		sp.Wrap = "and(spatial,tag)"
		sp.Desc = "and(" + sp.Desc + "," + d + ")"
		sp.Outer = func(q b6.Query) b6.Query { return b6.Intersection{q, t} }
	default:
		// a second spatial query: a large cap around a site
		site := core.Pick(r, w.Scene.Sites)
		radius := math.Min(site.Rad*(1+3*r.Float()), 1.4)
		capq := s2.CapFromCenterAngle(site.C.Point(), s1.Angle(radius))
		other := b6.NewIntersectsCap(capq)
		d := fmt.Sprintf("cap(%s r=%.6g rad)", site.C, radius)
		if k < 19 {
			sp.Wrap = "and(spatial,spatial)"
			sp.Desc = "and(" + sp.Desc + "," + d + ")"
			sp.Outer = func(q b6.Query) b6.Query { return b6.Intersection{q, other} }
		} else {
			sp.Wrap = "or(spatial,spatial)"
			sp.Desc = "or(" + sp.Desc + "," + d + ")"
			sp.Outer = func(q b6.Query) b6.Query { return b6.Union{q, other} }
		}
	}
}

type c04Diff struct {
	shape string // missed | invented | phantom | panic
	class string
	id    b6.FeatureID
	world string
	text  string
}

func c04HasFaceCell(u s2.CellUnion) bool {
	for _, id := range u {
		if id.Level() == 0 {
			return true
		}
	}
	return false
}

// c04Related reports how the query covering meets the feature covering when
// cells of level 0 on the feature side are ignored or not.
func c04Related(qc, fc s2.CellUnion, skipFaceCells bool) (equal, qAncestor, qDescendant bool) {
	for _, f := range fc {
		if skipFaceCells && f.Level() == 0 {
			continue
		}
		for _, q := range qc {
			switch {
			case q == f:
				equal = true
			case q.Contains(f):
				qAncestor = true
			case f.Contains(q):
				qDescendant = true
			}
		}
	}
	return
}

// c04RelationClass names how the covering of the (inner) query relates to the
// covering of a feature that was missed: it is the input class of the miss.
func c04RelationClass(qc, fc s2.CellUnion) string {
	if c04HasFaceCell(fc) {
		if eq, anc, desc := c04Related(qc, fc, true); !eq && !anc && !desc {
			return "feature-covering-has-face-cell"
		}
	}
	eq, anc, desc := c04Related(qc, fc, false)
	switch {
	case !eq && !anc && !desc:
		return "unrelated-coverings"
	case eq && !anc && !desc:
		return "equal-cells"
	case anc && !eq && !desc:
		return "query-cell-is-ancestor"
	case desc && !eq && !anc:
		return "query-cell-is-descendant"
	}
	return "several-cell-relations"
}

func c04Check(c *core.Ctx, w *c04World, b *c04Built, sp *c04Spec, countMechanisms bool) (diffs []c04Diff, matched, unmatched int) {
	inner := sp.Make(b)
	if inner == nil {
		c.Count("query_not_instantiable_in_" + b.Name)
		return nil, 0, 0
	}
	q := sp.Outer(inner)
	got := map[b6.FeatureID]int{}
	var order []b6.FeatureID
	panicked, class, frame, _ := core.Protect(func() {
		it := b.W.FindFeatures(q)
		for it.Next() {
			id := it.FeatureID()
			if got[id] == 0 {
				order = append(order, id)
			}
			got[id]++
			if _, ok := b.ByID[id]; !ok {
				f := it.Feature()
				m := f != nil && q.Matches(f, b.W)
				shape := "phantom"
				diffs = append(diffs, c04Diff{shape: shape, id: id, world: b.Name,
					text: fmt.Sprintf("FindFeatures returned %s, which EachFeature does not report (Matches=%v)", id, m)})
			}
		}
	})
	if panicked {
		return append(diffs, c04Diff{shape: "panic", class: "@" + frame + ":" + class, world: b.Name, text: "FindFeatures panicked: " + class}), 0, 0
	}
	for _, n := range got {
		if n > 1 {
			c.Count("duplicate_results")
			break
		}
	}
	qc := sp.Cover(b)
	for _, f := range b.Feats {
		var want bool
		panicked, class, frame, _ := core.Protect(func() { want = q.Matches(f.F, b.W) })
		if panicked {
			diffs = append(diffs, c04Diff{shape: "panic", class: "@" + frame + ":" + class, id: f.ID, world: b.Name, text: "Matches panicked: " + class})
			continue
		}
		n := got[f.ID]
		if want && f.DontCare {
			c.Count("dont_care_point_matching")
			continue
		}
		if want {
			matched++
		} else if !f.DontCare {
			unmatched++
		}
		if countMechanisms && len(f.Covering) > 0 && len(qc) > 0 {
			eq, anc, desc := c04Related(qc, f.Covering, false)
			if want {
				if eq {
					c.Count("match_with_equal_cells")
				}
				if anc {
					c.Count("match_with_query_cell_ancestor_of_feature_cell")
				}
				if desc {
					c.Count("match_with_query_cell_descendant_of_feature_cell")
				}
				if c04HasFaceCell(f.Covering) {
					c.Count("match_of_feature_whose_covering_has_a_face_cell")
				}
				for _, id := range f.Covering {
					if id.Level() >= 1 && id.Level() <= 4 {
						c.Count("match_of_feature_with_covering_cell_level_1_to_4")
						break
					}
				}
				if f.Faces >= 2 {
					c.Count("match_of_cross_face_feature")
				}
				if len(f.Covering) >= 2 {
					c.Count("match_of_feature_with_several_covering_cells")
					switch w.Labels[f.ID] {
					case "cell-vertex", "cell-edge":
						c.Count("match_of_feature_straddling_a_cell_boundary_level_8_20")
					case "face-edge", "face-corner":
						c.Count("match_of_feature_on_a_cube_face_boundary")
					}
				}
			} else if eq || anc || desc {
				c.Count("candidate_rejected_by_matches")
			}
		}
		if want && n == 0 {
			class := ":" + c04RelationClass(qc, f.Covering)
			if sp.Kind == "feature-nongeometric" && f.ID == inner.(b6.IntersectsFeature).ID {
				class = ":non-geometric-feature-matches-itself"
			}
			diffs = append(diffs, c04Diff{shape: "missed", class: class, id: f.ID, world: b.Name,
				text: fmt.Sprintf("%s matches %s (covering %s) but FindFeatures does not return it", sp.Desc, f.ID, c04CellsDesc(f.Covering))})
		}
		if !want && n > 0 {
			diffs = append(diffs, c04Diff{shape: "invented", id: f.ID, world: b.Name,
				text: fmt.Sprintf("FindFeatures(%s) returns %s, which the query's own Matches rejects", sp.Desc, f.ID)})
		}
	}
	return diffs, matched, unmatched
}

func init() {
	core.Register(&core.Monitor{
		ID:        "C04",
		Title:     "Spatial search never misses or invents a feature its query accepts",
		Technique: "differential check of World.FindFeatures against the query's own Matches applied to every feature of EachFeature, on basic, mutable and compact worlds built from the same generated OSM data",
		Rule: fmt.Sprintf("a world = 2-3 sites (London, S2 cell boundaries at levels 8..20, cube-face boundaries, poles, antimeridian, anywhere; extent 1 m..3800 km) each with closed ways, multipolygons with holes / several outers, "+
			"open ways sharing nodes, tagged and untagged nodes, plus paths that visit many cube faces, rings of 50-80 degrees radius and a plain relation, all on the E7 grid; each world is built as basic and mutable world, every third one also as compact world, and serves %d consecutive cases; "+
			"case = one query (cap 1 m..85 degrees, cell lists of levels 0..30 incl. equal / ancestor / descendant cells of a feature covering, point on a vertex, polyline, multipolygon, intersects-feature), bare or wrapped in Intersection/Union with a tag or a second spatial query; "+
			"distinct = distinct world and query; non-trivial = some indexed feature matches and some indexed feature does not", c04PerWorld),
		Assumptions: []string{
			"the oracle is the query's own Matches (C05 checks Matches against geometry)",
			"points whose only tag is their geometry are don't-care (never indexed in static worlds)",
			"FeatureID order and duplicates in the result are not judged",
		},
		Quick: 48 * c04PerWorld, Thorough: 1536 * c04PerWorld,
		Batch:   c04CompactEvery * c04PerWorld,
		CaseCap: 20 * time.Minute, // a compact build is ~1 s on an idle machine but clears ~600 MB: minutes under heavy load
		Required: []string{
			"queries", "features_matched", "match_with_equal_cells", "match_with_query_cell_ancestor_of_feature_cell", "match_with_query_cell_descendant_of_feature_cell",
			"match_of_feature_whose_covering_has_a_face_cell", "match_of_feature_with_covering_cell_level_1_to_4", "match_of_cross_face_feature",
			"match_of_feature_with_several_covering_cells", "match_of_feature_straddling_a_cell_boundary_level_8_20", "match_of_feature_on_a_cube_face_boundary", "candidate_rejected_by_matches", "query_covering_has_a_face_cell",
			"wrapped_and(tag,spatial)", "wrapped_and(spatial,tag)", "wrapped_and(spatial,spatial)", "wrapped_or(spatial,spatial)",
			"kind_cap", "kind_cells", "kind_point", "kind_polyline", "kind_multipolygon", "kind_feature", "kind_feature-nongeometric",
			"world_basic", "world_mutable", "world_compact", "site_cell-vertex", "site_cell-edge", "site_face-edge", "site_pole", "dont_care_point_matching",
			"query_cells_level_0_to_7", "query_cells_level_17_to_30",
		},
		Run: c04Run,
	})
}

func c04Run(c *core.Ctx) {
	widx := c.Index / c04PerWorld
	first := c.Index%c04PerWorld == 0
	w := c04GetWorld(c.Seed, widx)
	if w == nil {
		c.Count("world_generation_failed")
		c.Key("nogen#%d", c.Index)
		return
	}
	if len(w.Errors) > 0 && first {
		c.Inconclusive("world build: " + strings.Join(w.Errors, "; "))
	}
	if first {
		for _, b := range w.Built {
			c.Count("world_" + b.Name)
		}
		for _, s := range w.Scene.Sites {
			c.Count("site_" + s.Label)
		}
		for _, it := range w.Scene.Items {
			c.Count("item_" + it.Kind)
			for _, b := range w.Built {
				if _, ok := b.ByID[it.FID]; !ok {
					c.Count("item_absent_from_" + b.Name + "_" + it.Kind)
				}
			}
		}
	}
	if len(w.Built) == 0 {
		c.Key("nobuild#%d", c.Index)
		return
	}
	r := c.R
	var sp *c04Spec
	if c.Index%c04PerWorld == 1 {
		// labelled sub-case: intersects-feature of a feature without geometry
		sp = c04FeatureSpec(w.Scene.PlainRel, "feature-nongeometric")
		sp.Wrap = "bare"
		sp.Outer = func(q b6.Query) b6.Query { return q }
	} else {
		sp = c04GenSpec(r, w)
		if sp == nil {
			c.Count("query_generation_failed")
			c.Key("noquery#%d", c.Index)
			return
		}
		c04Wrap(r, w, sp)
	}
	c.Count("queries")
	c.Count("kind_" + sp.Kind)
	if sp.Wrap != "bare" {
		c.Count("wrapped_" + sp.Wrap)
	}
	c.Key("world %d (%016x) %s", widx, core.HashString(w.Scene.String()), sp.Desc)
	if c.Index < 3 {
		c.Sample(map[string]any{"world": w.Scene.String(), "query": sp.Desc})
	}
	if qc := sp.Cover(w.Built[0]); len(qc) > 0 {
		if c04HasFaceCell(qc) {
			c.Count("query_covering_has_a_face_cell")
		}
	}
	if inner, ok := sp.Make(w.Built[0]).(b6.IntersectsCells); ok {
		for _, cell := range inner.Cells {
			if cell.Level() <= 7 {
				c.Count("query_cells_level_0_to_7")
			}
			if cell.Level() >= 17 {
				c.Count("query_cells_level_17_to_30")
			}
		}
	}

	// run on every world, then merge differences that all worlds share
	bySig := map[string][]c04Diff{}
	nontrivial := false
	for i, b := range w.Built {
		diffs, matched, unmatched := c04Check(c, w, b, sp, i == 0)
		if i == 0 {
			c.Add("features_matched", matched)
		}
		if matched > 0 && unmatched > 0 {
			nontrivial = true
		}
		for _, d := range diffs {
			var sig string
			switch {
			case d.shape == "panic":
				sig = "panic" + d.class
			case d.shape == "missed":
				// the query kind and how its covering cells relate to the feature's
				sig = sp.Kind + ":missed" + d.class
			default:
				sig = sp.Kind + "/" + sp.Wrap + ":" + d.shape
			}
			bySig[sig] = append(bySig[sig], d)
		}
	}
	if nontrivial {
		c.Nontrivial()
	}
	var sigs []string
	for s := range bySig {
		sigs = append(sigs, s)
	}
	sort.Strings(sigs)
	for _, s := range sigs {
		ds := bySig[s]
		worlds := map[string]bool{}
		for _, d := range ds {
			worlds[d.world] = true
		}
		sig := s
		if len(worlds) != len(w.Built) {
			var ws []string
			for name := range worlds {
				ws = append(ws, name)
			}
			sort.Strings(ws)
			sig += "@" + strings.Join(ws, "+")
		}
		var texts []string
		for _, d := range ds {
			if len(texts) < 4 {
				texts = append(texts, "["+d.world+"] "+d.text)
			}
		}
		c.Violate(sig, map[string]any{"world_index": widx, "query": sp.Desc, "differences": texts, "scene": w.Scene.String()},
			"%s", strings.Join(texts, " | "))
	}
}
