package mon

import (
	"fmt"
	"sort"
	"strings"

	"github.com/anishathalye/porcupine"
)

// Sequential model for C40: worldID -> feature -> tags, one partition per world.
//
// Each tracked world has four tracked features (two that exist in the base
// world, two points that only exist once a client has added them) and two
// tracked tag keys. Every write uses a value that is unique within the history.
//
// One Evaluate request appears in the history as two operations with the same
// [call, return] interval: "touch" (FindOrCreateWorld makes the world exist) and
// the access itself (read / change). This is the atomic-step structure of the
// service (the world object is looked up once, under the worlds mutex, and used
// later under the service lock), and it keeps the model sound when a DeleteWorld
// runs between the two steps: the access then acts on the deleted world object,
// which linearizes before the delete. The access requires the world to exist,
// which the request's own touch guarantees.

const (
	c40nFeatures = 4
	c40nKeys     = 2
)

type c40state struct {
	exists  bool
	present [c40nFeatures]bool
	val     [c40nFeatures][c40nKeys]string
}

func c40baseState() c40state {
	var s c40state
	s.present[0], s.present[1] = true, true
	return s
}

type c40edit struct {
	Kind    string // add-tag | remove-tag | add-point | copy
	Feature int
	Key     int
	Value   string
	Src     int // copy: source feature (value of the same key)
}

type c40in struct {
	Kind  string // touch | read | change | delete | list
	World int
	Edits []c40edit
}

type c40snapshot struct {
	Present [c40nFeatures]bool
	Val     [c40nFeatures][c40nKeys]string
}

type c40out struct {
	Err       bool
	ErrText   string
	Snapshot  c40snapshot // read
	IDs       []int       // change: modified feature indices, sorted, de-duplicated
	Listed    bool        // list
	Malformed string      // the reply could not be interpreted
}

func (e c40edit) String() string {
	switch e.Kind {
	case "add-tag":
		return fmt.Sprintf("add-tag f%d k%d=%s", e.Feature, e.Key, e.Value)
	case "remove-tag":
		return fmt.Sprintf("remove-tag f%d k%d", e.Feature, e.Key)
	case "add-point":
		return fmt.Sprintf("add-point f%d k%d=%s", e.Feature, e.Key, e.Value)
	case "copy":
		return fmt.Sprintf("add-tag f%d k%d=(get f%d k%d)", e.Feature, e.Key, e.Src, e.Key)
	}
	return e.Kind
}

func (in c40in) String() string {
	s := fmt.Sprintf("%s w%d", in.Kind, in.World)
	for _, e := range in.Edits {
		s += " [" + e.String() + "]"
	}
	return s
}

func (o c40out) String(kind string) string {
	if o.Malformed != "" {
		return "malformed reply: " + o.Malformed
	}
	if o.Err {
		return "error(" + o.ErrText + ")"
	}
	switch kind {
	case "read":
		var parts []string
		for f := 0; f < c40nFeatures; f++ {
			if !o.Snapshot.Present[f] {
				parts = append(parts, fmt.Sprintf("f%d:absent", f))
				continue
			}
			parts = append(parts, fmt.Sprintf("f%d:{%s,%s}", f, o.Snapshot.Val[f][0], o.Snapshot.Val[f][1]))
		}
		return strings.Join(parts, " ")
	case "change":
		return fmt.Sprintf("ok ids=%v", o.IDs)
	case "list":
		return fmt.Sprintf("listed=%v", o.Listed)
	}
	return "ok"
}

// c40apply runs the edits of one change on s as the service does: in order, stopping at the first failing edit.
func c40apply(s c40state, edits []c40edit) (c40state, bool, []int) {
	ids := map[int]bool{}
	for _, e := range edits {
		switch e.Kind {
		case "add-tag":
			if !s.present[e.Feature] {
				return s, false, nil
			}
			s.val[e.Feature][e.Key] = e.Value
		case "copy":
			if !s.present[e.Feature] {
				return s, false, nil
			}
			if s.present[e.Src] {
				s.val[e.Feature][e.Key] = s.val[e.Src][e.Key]
			} else {
				s.val[e.Feature][e.Key] = ""
			}
		case "remove-tag":
			if !s.present[e.Feature] {
				return s, false, nil
			}
			s.val[e.Feature][e.Key] = ""
		case "add-point":
			s.present[e.Feature] = true
			s.val[e.Feature] = [c40nKeys]string{}
			s.val[e.Feature][e.Key] = e.Value
		}
		ids[e.Feature] = true
	}
	var out []int
	for id := range ids {
		out = append(out, id)
	}
	sort.Ints(out)
	return s, true, out
}

func c40step(state interface{}, input interface{}, output interface{}) (bool, interface{}) {
	s := state.(c40state)
	in := input.(c40in)
	out := output.(c40out)
	if out.Malformed != "" {
		return false, s
	}
	switch in.Kind {
	case "touch":
		s.exists = true
		return true, s
	case "delete":
		return !out.Err, c40baseState()
	case "list":
		return !out.Err && out.Listed == s.exists, s
	case "read":
		if !s.exists || out.Err {
			return false, s
		}
		return out.Snapshot.Present == s.present && out.Snapshot.Val == s.val, s
	case "change":
		if !s.exists {
			return false, s
		}
		// an empty value in the model stands for "no such tag": a copied empty value
		// is written as an empty tag value, which reads back as "" as well
		ns, ok, ids := c40apply(s, in.Edits)
		if !ok {
			// the service applies the edits before the failing one; the generator only
			// produces failing changes with a single edit, so nothing was applied
			return out.Err, s
		}
		if out.Err {
			return false, s
		}
		if fmt.Sprint(ids) != fmt.Sprint(out.IDs) {
			return false, s
		}
		return true, ns
	}
	return false, s
}

var c40model = porcupine.Model{
	Partition: func(history []porcupine.Operation) [][]porcupine.Operation {
		m := map[int][]porcupine.Operation{}
		var worlds []int
		for _, op := range history {
			w := op.Input.(c40in).World
			if _, ok := m[w]; !ok {
				worlds = append(worlds, w)
			}
			m[w] = append(m[w], op)
		}
		sort.Ints(worlds)
		var out [][]porcupine.Operation
		for _, w := range worlds {
			out = append(out, m[w])
		}
		return out
	},
	Init: func() interface{} { return c40baseState() },
	Step: c40step,
	Equal: func(a, b interface{}) bool {
		return a.(c40state) == b.(c40state)
	},
	DescribeOperation: func(input interface{}, output interface{}) string {
		in := input.(c40in)
		return in.String() + " -> " + output.(c40out).String(in.Kind)
	},
}
