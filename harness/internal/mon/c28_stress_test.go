package mon

import (
	"os"
	"strconv"
	"testing"

	"verif/internal/core"
)

// Development aid: repeats the C28 cases of one subject (C28_STRESS=<label>)
// with goroutines=2 over many seeds and reports the violations seen.
func TestC28Stress(t *testing.T) {
	label := os.Getenv("C28_STRESS")
	if label == "" {
		t.Skip("set C28_STRESS=<subject label>")
	}
	seeds, _ := strconv.Atoi(os.Getenv("C28_STRESS_SEEDS"))
	if seeds == 0 {
		seeds = 20
	}
	m := core.Lookup("C28")
	sigs := map[string]int{}
	runs := 0
	for seed := 1; seed <= seeds; seed++ {
		for idx := 0; idx < m.Quick; idx++ {
			_, a, g, _, _, k := c28decode(idx)
			if a.label != label || g < 2 || g > 3 || k > 16 {
				continue
			}
			c := core.RunCase(m, uint64(seed), "quick", idx)
			runs++
			if c.Violations() > 0 {
				sigs[strconv.Itoa(g)]++
			}
		}
	}
	t.Logf("%s: %d runs, violations by goroutine count: %v", label, runs, sigs)
}
