package mon

import (
	"context"
	"errors"
	"testing"
	"time"

	"diagonal.works/b6"
	"diagonal.works/b6/ingest"
	"verif/internal/core"
)

// Self-test of the hang detector used by C28/C25 (core.Watch): a deliberately
// deadlocked operation inside b6 code must be Quiescent, deliberately slow
// ones (sleeping callbacks, also with other goroutines parked on the sleeper)
// must be Completed.

func c28testFeatures(n int) ingest.MemoryFeatureSource {
	var fs []ingest.Feature
	for i := 0; i < n; i++ {
		f := &ingest.GenericFeature{}
		f.SetFeatureID(b6.FeatureID{Type: b6.FeatureTypePoint, Namespace: "diagonal.works/verif", Value: uint64(i + 1)})
		fs = append(fs, f)
	}
	return ingest.MemoryFeatureSource(fs)
}

func TestC28WatchDeadlocked(t *testing.T) {
	block := make(chan struct{})
	src := c28testFeatures(6)
	t0 := time.Now()
	rep := core.Watch(func() {
		src.Read(ingest.ReadOptions{Goroutines: 2}, func(f ingest.Feature, g int) error {
			<-block // never released: every party parks for ever
			return nil
		}, context.Background())
	}, 300*time.Millisecond, 20*time.Second)
	if rep.Verdict != core.Quiescent {
		t.Fatalf("deadlocked Read: verdict %v, want Quiescent", rep.Verdict)
	}
	if rep.Frame == "" || rep.Frame == "unknown" {
		t.Errorf("no b6 frame: %q", rep.Frame)
	}
	t.Logf("deadlock decided after %s at %s\n%s", time.Since(t0), rep.Frame, rep.Dump)
	close(block)
}

func TestC28WatchSlow(t *testing.T) {
	src := c28testFeatures(8)
	n := 0
	rep := core.Watch(func() {
		src.Read(ingest.ReadOptions{Goroutines: 1}, func(f ingest.Feature, g int) error {
			time.Sleep(400 * time.Millisecond)
			n++
			return nil
		}, context.Background())
	}, 200*time.Millisecond, 30*time.Second)
	if rep.Verdict != core.Completed {
		t.Fatalf("slow Read: verdict %v (frame %s), want Completed\n%s", rep.Verdict, rep.Frame, rep.Dump)
	}
	if n != 8 {
		t.Errorf("callbacks: %d", n)
	}
}

// Every goroutine but one is parked for several seconds on the one that sleeps.
func TestC28WatchSlowOthersParked(t *testing.T) {
	src := c28testFeatures(4)
	stop := errors.New("stop")
	gate := make(chan struct{})
	rep := core.Watch(func() {
		src.Read(ingest.ReadOptions{Goroutines: 4}, func(f ingest.Feature, g int) error {
			if f.FeatureID().Value == 1 {
				time.Sleep(3 * time.Second)
				close(gate)
				return nil
			}
			<-gate
			return nil
		}, context.Background())
	}, 200*time.Millisecond, 30*time.Second)
	_ = stop
	if rep.Verdict != core.Completed {
		t.Fatalf("verdict %v (frame %s), want Completed\n%s", rep.Verdict, rep.Frame, rep.Dump)
	}
}

// CPU-bound spinning is not quiescent: CapHit (inconclusive), never Quiescent.
func TestC28WatchSpin(t *testing.T) {
	src := c28testFeatures(1)
	var stop bool
	done := make(chan struct{})
	rep := core.Watch(func() {
		src.Read(ingest.ReadOptions{Goroutines: 1}, func(f ingest.Feature, g int) error {
			for {
				select {
				case <-done:
					return nil
				default:
				}
				if stop {
					return nil
				}
			}
		}, context.Background())
	}, 100*time.Millisecond, 3*time.Second)
	close(done)
	if rep.Verdict != core.CapHit {
		t.Fatalf("verdict %v, want CapHit", rep.Verdict)
	}
}
