package mon

import (
	"context"
	"fmt"
	"math"
	"sort"
	"strings"
	"sync"

	"diagonal.works/b6"
	"diagonal.works/b6/ingest"
	"diagonal.works/b6/ingest/compact"
	"diagonal.works/b6/osm"
	"github.com/golang/geo/s2"
	"verif/internal/core"
)

// World generator of C04: an OSM-shaped scene (nodes, ways, multipolygon and
// plain relations) on the E7 grid, built three times: as a basic world
// (BasicWorldBuilder), as a BasicMutableWorld and as a compact world.

type c04Item struct {
	Kind  string // point | path | area | multipolygon | relation
	Site  int
	Label string // placement of the site, or huge-*
	FID   b6.FeatureID
	Feat  c05Feature // geometry as generated (Kind point|path|area)
}

type c04Site struct {
	C     c05LL
	Rad   float64
	Label string
	Scene *c05Scene // view used by the query generator
	Gens  []c05G
}

type c04Scene struct {
	Items     []c04Item
	Sites     []*c04Site
	Nodes     []osm.Node
	Ways      []osm.Way
	Relations []osm.Relation
	PlainRel  b6.FeatureID
	nodeIDs   map[c05LL]osm.NodeID
	nextWay   osm.WayID
	nextRel   osm.RelationID
}

func (s *c04Scene) node(l c05LL) osm.NodeID {
	if id, ok := s.nodeIDs[l]; ok {
		return id
	}
	id := osm.NodeID(len(s.Nodes) + 1)
	s.nodeIDs[l] = id
	s.Nodes = append(s.Nodes, osm.Node{ID: id, Location: osm.LatLng{Lat: float64(l.Lat) / 1e7, Lng: float64(l.Lng) / 1e7}})
	return id
}

func (s *c04Scene) tagNode(id osm.NodeID, tags ...osm.Tag) {
	s.Nodes[int(id)-1].Tags = append(s.Nodes[int(id)-1].Tags, tags...)
}

func (s *c04Scene) way(line []c05LL, closed bool, tags ...osm.Tag) osm.WayID {
	s.nextWay++
	w := osm.Way{ID: s.nextWay, Tags: tags}
	for _, l := range line {
		w.Nodes = append(w.Nodes, s.node(l))
	}
	if closed {
		w.Nodes = append(w.Nodes, w.Nodes[0])
	}
	s.Ways = append(s.Ways, w)
	return w.ID
}

func c04LineOK(line []c05LL) bool {
	if len(line) < 2 {
		return false
	}
	for i := 1; i < len(line); i++ {
		d := c05Dist(line[i].Point(), line[i-1].Point())
		if d < c05MinSep || d > 2.9 {
			return false
		}
	}
	return true
}

func (s *c04Scene) addPoint(site int, label string, l c05LL, tagged bool) {
	id := s.node(l)
	if tagged {
		if len(s.Nodes[int(id)-1].Tags) == 0 {
			s.tagNode(id, osm.Tag{Key: "amenity", Value: "bench"})
		}
	}
	fid := ingest.FromOSMNodeID(id)
	for _, it := range s.Items {
		if it.FID == fid {
			return
		}
	}
	s.Items = append(s.Items, c04Item{Kind: "point", Site: site, Label: label, FID: fid, Feat: c05Feature{ID: fid, Kind: "point", Pt: l}})
}

func (s *c04Scene) addPath(site int, label string, line []c05LL) bool {
	if !c04LineOK(line) || line[0] == line[len(line)-1] {
		return false
	}
	id := s.way(line, false, osm.Tag{Key: "highway", Value: "path"})
	fid := ingest.FromOSMWayID(id)
	s.Items = append(s.Items, c04Item{Kind: "path", Site: site, Label: label, FID: fid, Feat: c05Feature{ID: fid, Kind: "path", Line: line}})
	return true
}

func (s *c04Scene) addArea(site int, label string, p c05Poly, key string) {
	if len(p.Rings) == 1 {
		id := s.way(p.Rings[0], true, osm.Tag{Key: key, Value: "yes"})
		fid := ingest.AreaIDFromOSMWayID(id).FeatureID()
		s.Items = append(s.Items, c04Item{Kind: "area", Site: site, Label: label, FID: fid, Feat: c05Feature{ID: fid, Kind: "area", Polys: []c05Poly{p}}})
		return
	}
	s.addMultiPolygon(site, label, []c05Poly{p}, key)
}

func (s *c04Scene) addMultiPolygon(site int, label string, polys []c05Poly, key string) {
	s.nextRel++
	rel := osm.Relation{ID: s.nextRel, Tags: []osm.Tag{{Key: "type", Value: "multipolygon"}, {Key: key, Value: "yes"}}}
	for _, p := range polys {
		for i, ring := range p.Rings {
			role := "outer"
			if i > 0 {
				role = "inner"
			}
			rel.Members = append(rel.Members, osm.Member{Type: osm.ElementTypeWay, ID: osm.AnyID(s.way(ring, true)), Role: role})
		}
	}
	s.Relations = append(s.Relations, rel)
	fid := ingest.AreaIDFromOSMRelationID(rel.ID).FeatureID()
	s.Items = append(s.Items, c04Item{Kind: "multipolygon", Site: site, Label: label, FID: fid, Feat: c05Feature{ID: fid, Kind: "area", Polys: polys}})
}

func c04GenScene(r *core.R) *c04Scene {
	s := &c04Scene{nodeIDs: map[c05LL]osm.NodeID{}, nextWay: 1000, nextRel: 5000}
	nsites := r.Range(2, 3)
	for si := 0; si < nsites; si++ {
		site := &c04Site{}
		site.C, site.Label = c05Centre(r)
		if r.Chance(0.85) {
			site.Rad = c05Radius(r, 2e5)
		} else {
			site.Rad = math.Min(c05Radius(r, 5e6), 0.6)
		}
		c := site.C.Point()
		rad := site.Rad
		first := len(s.Items)
		// areas
		nareas := r.Range(2, 3)
		for k := 0; k < nareas; k++ {
			ac := c
			if k > 0 {
				ac = c05Offset(c, rad*2.5*r.Float(), r.Float()*2*math.Pi)
			}
			arad := rad * (0.3 + 0.7*r.Float())
			if k == 0 {
				arad = rad
			}
			n := c05PickVertexCount(r, arad)
			holes := 0
			if k == 0 && r.Chance(0.5) {
				holes = r.Range(1, 2)
			}
			if p, ok := c05GenPoly(r, ac, arad, n, n >= 6 && r.Chance(0.5), holes); ok {
				s.addArea(si, site.Label, p, core.Pick(r, []string{"building", "building", "landuse"}))
			}
		}
		if r.Chance(0.4) && rad < 0.2 { // several outers
			var polys []c05Poly
			th := r.Float() * 2 * math.Pi
			mc := c05Offset(c, rad*3*r.Float(), r.Float()*2*math.Pi)
			for k := 0; k < r.Range(2, 3); k++ {
				pc := c05Offset(mc, rad*(0.9+0.4*r.Float()), th+float64(k)*2*math.Pi/3)
				if p, ok := c05GenPoly(r, pc, rad*0.3, r.Range(3, 8), false, core.Pick(r, []int{0, 0, 1})); ok {
					polys = append(polys, p)
				}
			}
			if len(polys) >= 2 {
				s.addMultiPolygon(si, site.Label, polys, "building")
			}
		}
		if len(s.Items) == first {
			continue // nothing could be built at this size
		}
		// the site view for the query generator: strategic positions
		sc := &c05Scene{Label: site.Label, C: site.C, Rad: rad}
		for _, it := range s.Items[first:] {
			sc.Feats = append(sc.Feats, it.Feat)
		}
		for fi, f := range sc.Feats {
			for pi, p := range f.Polys {
				shell := c05Points(p.Rings[0])
				pc := p.Centre.Point()
				tag := fmt.Sprintf("a%d.%d", fi, pi)
				sc.strategic(tag+".centre", p.Centre)
				k := r.Intn(len(shell))
				if p.Star {
					k &^= 1
				}
				sc.strategic(tag+".arm", c05Quantise(c05Lerp(pc, shell[k], 0.55+0.2*r.Float())))
				sc.strategic(tag+".vertex", p.Rings[0][k])
				mid := c05Lerp(shell[k], shell[(k+1)%len(shell)], 0.5)
				sc.strategic(tag+".outside", c05Quantise(c05Lerp(pc, mid, 1.1+0.4*r.Float())))
				for _, h := range p.Holes {
					sc.strategic(tag+".hole", h.Centre)
				}
			}
		}
		sc.strategic("near", c05Quantise(c05Offset(c, rad*2*r.Float(), r.Float()*2*math.Pi)))
		// paths
		npaths := r.Range(2, 3)
		for k := 0; k < npaths; k++ {
			start := core.Pick(r, sc.S).Point()
			line := c05GenLine(r, start, rad*(0.1+0.9*r.Float()), r.Range(2, 10))
			if line == nil {
				continue
			}
			if k > 0 && r.Chance(0.4) { // a junction with an earlier path
				for _, it := range s.Items[first:] {
					if it.Kind == "path" {
						line[r.Intn(len(line))] = it.Feat.Line[r.Intn(len(it.Feat.Line))]
						break
					}
				}
			}
			if s.addPath(si, site.Label, line) {
				sc.Feats = append(sc.Feats, s.Items[len(s.Items)-1].Feat)
				j := r.Intn(len(line) - 1)
				sc.strategic(fmt.Sprintf("l%d.vertex", k), line[j])
				sc.strategic(fmt.Sprintf("l%d.mid", k), c05Quantise(c05Lerp(line[j].Point(), line[j+1].Point(), 0.5)))
			}
		}
		// points: tagged ones, and a couple of untagged stand-alone nodes (never indexed)
		npoints := r.Range(3, 6)
		for k := 0; k < npoints; k++ {
			before := len(s.Items)
			s.addPoint(si, site.Label, core.Pick(r, sc.S), true)
			if len(s.Items) > before {
				sc.Feats = append(sc.Feats, s.Items[len(s.Items)-1].Feat)
			}
		}
		for k := 0; k < 2; k++ {
			s.node(c05Quantise(c05Offset(c, rad*2*r.Float(), r.Float()*2*math.Pi)))
		}
		site.Scene = sc
		for _, f := range sc.Feats {
			site.Gens = append(site.Gens, c05GenGeom(f))
		}
		s.Sites = append(s.Sites, site)
	}
	if len(s.Sites) == 0 {
		return nil
	}
	// tagged points exactly on S2 cell boundaries of every level: the prime
	// meridian and the equator are cell edges on their cube faces and, unlike a
	// quantised cell vertex, survive the E7 grid exactly
	if r.Chance(0.6) {
		for k, n := 0, r.Range(2, 4); k < n; k++ {
			var l c05LL
			switch r.Intn(4) {
			case 0:
				l = c05LL{514500000 + int64(r.Intn(1500000)), 0}
			case 1:
				l = c05LL{-800000000 + int64(r.Intn(1600000000)), 0}
			case 2:
				l = c05LL{0, -400000000 + int64(r.Intn(800000000))}
			default:
				l = c05LL{0, 0}
			}
			s.addPoint(-1, "on-cell-boundary", l, true)
		}
	}
	// very large extents
	if r.Chance(0.6) { // a path that visits many cube faces
		var line []c05LL
		lat := int64(-300000000 + r.Intn(600000000))
		lng := int64(-1800000000 + 1 + r.Intn(3600000000))
		n := r.Range(3, 7)
		for k := 0; k < n; k++ {
			line = append(line, c05LL{lat, lng})
			lng += int64(600000000 + r.Intn(500000000))
			if lng > 1800000000 {
				lng -= 3600000000
			}
			lat = int64(-800000000 + r.Intn(1600000000))
		}
		s.addPath(-1, "huge-path", line)
	}
	if r.Chance(0.4) { // a ring with a radius of 50..80 degrees
		c, _ := c05Centre(r)
		n := r.Range(4, 12)
		if p, ok := c05GenPoly(r, c.Point(), (50+30*r.Float())*math.Pi/180, n, n >= 6 && r.Bool(), 0); ok {
			s.addArea(-1, "huge-area", p, "landuse")
		}
	}
	if r.Chance(0.4) { // a long path (2000..9000 km)
		c, _ := c05Centre(r)
		if line := c05GenLine(r, c.Point(), 0.1+0.4*r.Float(), r.Range(2, 5)); line != nil {
			s.addPath(-1, "huge-long-path", line)
		}
	}
	// a plain relation (no geometry)
	s.nextRel++
	rel := osm.Relation{ID: s.nextRel, Tags: []osm.Tag{{Key: "type", Value: "route"}, {Key: "highway", Value: "route"}}}
	rel.Members = append(rel.Members, osm.Member{Type: osm.ElementTypeNode, ID: osm.AnyID(1), Role: "stop"})
	for _, w := range s.Ways {
		if len(w.Tags) > 0 && w.Nodes[0] != w.Nodes[len(w.Nodes)-1] {
			rel.Members = append(rel.Members, osm.Member{Type: osm.ElementTypeWay, ID: osm.AnyID(w.ID), Role: ""})
			break
		}
	}
	s.Relations = append(s.Relations, rel)
	s.PlainRel = ingest.FromOSMRelationID(rel.ID).FeatureID()
	s.Items = append(s.Items, c04Item{Kind: "relation", Site: -1, Label: "relation", FID: s.PlainRel})
	return s
}

func (s *c04Scene) String() string {
	var sb strings.Builder
	for _, it := range s.Items {
		fmt.Fprintf(&sb, "%s[%s] %s;", it.Kind, it.Label, it.Feat.String())
	}
	return sb.String()
}

// ---- built worlds --------------------------------------------------------------

type c04Listed struct {
	ID       b6.FeatureID
	F        b6.Feature
	DontCare bool // a point whose only tag is its geometry: never indexed
	Covering s2.CellUnion
	Faces    int
}

type c04Built struct {
	Name  string
	W     b6.World
	Feats []c04Listed
	ByID  map[b6.FeatureID]int
}

type c04World struct {
	Index  int
	Scene  *c04Scene
	Labels map[b6.FeatureID]string // placement label of the generated item
	Built  []*c04Built
	Errors []string
}

func c04List(name string, w b6.World) (*c04Built, error) {
	b := &c04Built{Name: name, W: w, ByID: map[b6.FeatureID]int{}}
	var ids []b6.FeatureID
	var mu sync.Mutex
	err := w.EachFeature(func(f b6.Feature, goroutine int) error {
		mu.Lock()
		ids = append(ids, f.FeatureID())
		mu.Unlock()
		return nil
	}, &b6.EachFeatureOptions{Goroutines: 1})
	if err != nil {
		return nil, err
	}
	sort.Slice(ids, func(i, j int) bool { return ids[i].Less(ids[j]) })
	coverer := s2.RegionCoverer{MaxLevel: 16, MaxCells: 5}
	for _, id := range ids {
		if _, dup := b.ByID[id]; dup {
			continue
		}
		f := w.FindFeatureByID(id)
		if f == nil {
			return nil, fmt.Errorf("%s: EachFeature reported %s but FindFeatureByID does not find it", name, id)
		}
		l := c04Listed{ID: id, F: f, DontCare: id.Type == b6.FeatureTypePoint && len(f.AllTags()) == 1}
		if g, ok := f.(b6.Geometry); ok {
			l.Covering = b6.Covering(g, coverer)
			switch g.GeometryType() {
			case b6.GeometryTypePoint:
				l.Faces = 1
			case b6.GeometryTypePath:
				l.Faces = c05Faces(*g.Polyline())
			case b6.GeometryTypeArea:
				var ps []s2.Point
				a := f.(b6.AreaFeature)
				for i := 0; i < a.Len(); i++ {
					for _, loop := range a.Polygon(i).Loops() {
						ps = append(ps, loop.Vertices()...)
					}
				}
				l.Faces = c05Faces(ps)
			}
		}
		b.ByID[id] = len(b.Feats)
		b.Feats = append(b.Feats, l)
	}
	return b, nil
}

func c04Build(idx int, sc *c04Scene) *c04World {
	out := &c04World{Index: idx, Scene: sc, Labels: map[b6.FeatureID]string{}}
	for _, it := range sc.Items {
		out.Labels[it.FID] = it.Label
	}
	o := &ingest.BuildOptions{Cores: 1}
	add := func(name string, w b6.World, err error) {
		if err != nil || w == nil {
			out.Errors = append(out.Errors, fmt.Sprintf("%s: %v", name, err))
			return
		}
		b, err := c04List(name, w)
		if err != nil {
			out.Errors = append(out.Errors, err.Error())
			return
		}
		out.Built = append(out.Built, b)
	}
	basic, err := ingest.BuildWorldFromOSM(sc.Nodes, sc.Ways, sc.Relations, o)
	add("basic", basic, err)

	src := ingest.MemoryOSMSource{Nodes: sc.Nodes, Ways: sc.Ways, Relations: sc.Relations}
	fs, err := ingest.NewFeatureSourceFromPBF(&src, o, context.Background())
	if err != nil {
		out.Errors = append(out.Errors, "mutable: "+err.Error())
	} else {
		m, err := ingest.NewMutableWorldFromSource(o, fs)
		add("mutable", m, err)
	}

	// The compact builder allocates and clears ~600 MB per build whatever the
	// input size (seconds when the machine is busy), so only every third
	// world is also built as a compact world.
	if idx%c04CompactEvery != 0 {
		return out
	}
	src2 := ingest.MemoryOSMSource{Nodes: sc.Nodes, Ways: sc.Ways, Relations: sc.Relations}
	fs2, err := ingest.NewFeatureSourceFromPBF(&src2, o, context.Background())
	if err != nil {
		out.Errors = append(out.Errors, "compact: "+err.Error())
	} else {
		data, err := compact.BuildInMemory(fs2, &compact.Options{Goroutines: 1, PointsScratchOutputType: compact.OutputTypeMemory})
		if err != nil {
			out.Errors = append(out.Errors, "compact: "+err.Error())
		} else {
			cw, err := compact.NewWorldFromData(data)
			add("compact", cw, err)
		}
	}
	return out
}

// one world per group of c04PerWorld consecutive cases; a child runs its cases
// in order, so the last world is cached.
const c04PerWorld = 64
const c04CompactEvery = 3

var c04Cache struct {
	sync.Mutex
	seed  uint64
	index int
	world *c04World
}

func c04GetWorld(seed uint64, index int) *c04World {
	c04Cache.Lock()
	defer c04Cache.Unlock()
	if c04Cache.world != nil && c04Cache.seed == seed && c04Cache.index == index {
		return c04Cache.world
	}
	r := core.NewR(core.CaseSeed(seed, "C04/world", index))
	var sc *c04Scene
	for attempt := 0; attempt < 5 && sc == nil; attempt++ {
		sc = c04GenScene(r.Fork())
	}
	if sc == nil {
		return nil
	}
	w := c04Build(index, sc)
	c04Cache.seed, c04Cache.index, c04Cache.world = seed, index, w
	return w
}
