package mon

import (
	"runtime"
	"sync"
	"sync/atomic"
	"time"

	"diagonal.works/b6"
	"diagonal.works/b6/ingest"
)

// Delay injection and lock-state observation from outside the code under test:
// the service is given a c40worlds, which wraps the real ingest.MutableWorlds
// and hands out wrapped worlds. Every wrapped method first takes the next entry
// of the case's delay script (nothing, Gosched, a short or a longer sleep), so
// the existing suspension points of the service are stretched without touching
// the source. Mutating methods also record whether the service lock was held
// exclusively at that moment (lock.TryRLock() fails exactly when a writer holds
// or awaits the lock); that is the anchored mechanism (the read-to-write upgrade
// around change application) observed directly.

type c40probe struct {
	script []uint8
	next   atomic.Uint64
	lock   *sync.RWMutex

	boundaries          atomic.Int64 // wrapped calls
	delays              atomic.Int64 // wrapped calls that slept or yielded
	mutateExclusive     atomic.Int64 // mutations seen while the lock was held for writing
	mutateShared        atomic.Int64 // mutations seen while the lock could be taken for reading
	readUnlocked        atomic.Int64 // reads seen while the lock could be taken for writing (nobody held it)
	readLocked          atomic.Int64
	firstSharedMutation atomic.Value // string: which method
}

func (p *c40probe) pause() {
	p.boundaries.Add(1)
	if len(p.script) == 0 {
		return
	}
	switch p.script[int(p.next.Add(1))%len(p.script)] {
	case 1:
		p.delays.Add(1)
		runtime.Gosched()
	case 2:
		p.delays.Add(1)
		time.Sleep(30 * time.Microsecond)
	case 3:
		p.delays.Add(1)
		time.Sleep(300 * time.Microsecond)
	}
}

func (p *c40probe) mutation(method string) {
	if p.lock.TryRLock() {
		p.lock.RUnlock()
		p.mutateShared.Add(1)
		p.firstSharedMutation.CompareAndSwap(nil, method)
	} else {
		p.mutateExclusive.Add(1)
	}
	p.pause()
}

func (p *c40probe) read() {
	if p.lock.TryLock() {
		p.lock.Unlock()
		p.readUnlocked.Add(1)
	} else {
		p.readLocked.Add(1)
	}
	p.pause()
}

type c40worlds struct {
	inner ingest.Worlds
	p     *c40probe
}

func (w *c40worlds) FindOrCreateWorld(id b6.FeatureID) ingest.MutableWorld {
	w.p.pause()
	m := w.inner.FindOrCreateWorld(id)
	w.p.pause()
	return &c40world{MutableWorld: m, p: w.p}
}

func (w *c40worlds) ListWorlds() []b6.FeatureID {
	w.p.pause()
	ids := w.inner.ListWorlds()
	w.p.pause()
	return ids
}

func (w *c40worlds) DeleteWorld(id b6.FeatureID) {
	w.p.pause()
	w.inner.DeleteWorld(id)
	w.p.pause()
}

// c40world wraps the methods the workload's requests go through; everything
// else is delegated untouched by embedding.
type c40world struct {
	ingest.MutableWorld
	p *c40probe
}

func (w *c40world) FindFeatureByID(id b6.FeatureID) b6.Feature {
	w.p.read()
	return w.MutableWorld.FindFeatureByID(id)
}

// FindFeatures probes every step of the iteration: a search result is consumed
// lazily, possibly from goroutines other than the request's own.
func (w *c40world) FindFeatures(q b6.Query) b6.Features {
	w.p.read()
	return &c40features{Features: w.MutableWorld.FindFeatures(q), p: w.p}
}

type c40features struct {
	b6.Features
	p *c40probe
}

func (f *c40features) Next() bool {
	f.p.read()
	return f.Features.Next()
}

func (w *c40world) HasFeatureWithID(id b6.FeatureID) bool {
	w.p.read()
	return w.MutableWorld.HasFeatureWithID(id)
}

func (w *c40world) AddTag(id b6.FeatureID, tag b6.Tag) error {
	w.p.mutation("AddTag")
	return w.MutableWorld.AddTag(id, tag)
}

func (w *c40world) RemoveTag(id b6.FeatureID, key string) error {
	w.p.mutation("RemoveTag")
	return w.MutableWorld.RemoveTag(id, key)
}

func (w *c40world) AddFeature(f ingest.Feature) error {
	w.p.mutation("AddFeature")
	return w.MutableWorld.AddFeature(f)
}
