package mon

import (
	"fmt"
	"math"
	"sort"
	"strconv"

	"diagonal.works/b6"
	"diagonal.works/b6/graph"
	"verif/internal/wm"
)

// The oracle of C30: a point-level directed graph read from the world through
// EachFeature (never through Traverse), Bellman-Ford over it.

// c30Hops is the harness Weights: every edge of a way costs the way's integer
// "hw" tag, so that all distances are exact integers in float64 and a limit
// equal to a node's distance is an exact boundary. Usability: hu=no closes the
// way, hd=fwd / hd=rev make it one-way along / against its point order.
type c30Hops struct{}

func (c30Hops) IsUseable(s b6.Segment) bool {
	if s.Feature.Get("hu").Value.String() == "no" || !s.Feature.Get("hw").IsValid() {
		return false
	}
	switch s.Feature.Get("hd").Value.String() {
	case "fwd":
		return s.Last >= s.First
	case "rev":
		return s.Last <= s.First
	}
	return true
}

func (c30Hops) Weight(s b6.Segment) float64 {
	hw, _ := strconv.Atoi(s.Feature.Get("hw").Value.String())
	d := s.Last - s.First
	if d < 0 {
		d = -d
	}
	return float64(hw * d)
}

type c30Weighting struct {
	name  string
	w     graph.Weights
	exact bool // integer weights: no tolerance band around the limit
}

var c30Weightings = []c30Weighting{
	{"simple-highway", graph.SimpleHighwayWeights{}, false},
	{"car", graph.CarWeights{}, false},
	{"bus", graph.BusWeights{}, false},
	{"simple", graph.SimpleWeights{}, false},
	{"hops", c30Hops{}, true},
}

type c30Edge struct {
	to     int
	w      float64
	path   int
	from   int // index on the path
	toIdx  int
	usable bool
}

type c30Path struct {
	id  b6.FeatureID
	ids []b6.FeatureID
	// fwd[i]: edge i -> i+1 usable; rev[i]: edge i+1 -> i usable; w[i]: weight of edge i
	fwd, rev []bool
	w        []float64
}

type c30Graph struct {
	index   map[b6.FeatureID]int
	ids     []b6.FeatureID
	out     [][]c30Edge
	paths   []c30Path
	pathIx  map[b6.FeatureID]int
	isNode  []bool                          // graph node by the property's definition
	onPaths []int                           // occurrences on paths
	areas   map[b6.FeatureID][]b6.FeatureID // area -> its boundary points
}

func (g *c30Graph) vertex(id b6.FeatureID) int {
	if i, ok := g.index[id]; ok {
		return i
	}
	i := len(g.ids)
	g.index[id] = i
	g.ids = append(g.ids, id)
	g.out = append(g.out, nil)
	g.isNode = append(g.isNode, false)
	g.onPaths = append(g.onPaths, 0)
	return i
}

// c30Read builds the graph from the world. Edge length is the great-circle
// distance between consecutive path points; the factor is the way's
// diagonal:weight tag when it parses as a float (hops: the hw tag per edge).
func c30Read(w b6.World, wt c30Weighting) (*c30Graph, error) {
	g := &c30Graph{index: map[b6.FeatureID]int{}, pathIx: map[b6.FeatureID]int{}, areas: map[b6.FeatureID][]b6.FeatureID{}}
	tagged := map[b6.FeatureID]bool{}
	var problem error
	err := w.EachFeature(func(f b6.Feature, _ int) error {
		switch f.FeatureID().Type {
		case b6.FeatureTypePoint:
			if len(f.AllTags()) > 1 {
				tagged[f.FeatureID()] = true
			}
		case b6.FeatureTypeArea:
			a, ok := f.(b6.AreaFeature)
			if !ok {
				return nil
			}
			var pts []b6.FeatureID
			for i := 0; i < a.Len(); i++ {
				for _, p := range a.Feature(i) {
					for j := 0; j < p.GeometryLen(); j++ {
						if id := p.Reference(j).Source(); id.IsValid() {
							pts = append(pts, id)
						}
					}
				}
			}
			g.areas[f.FeatureID()] = pts
		case b6.FeatureTypePath:
			p, ok := f.(b6.PhysicalFeature)
			if !ok {
				problem = fmt.Errorf("path %s is not a PhysicalFeature", f.FeatureID())
				return nil
			}
			n := p.GeometryLen()
			cp := c30Path{id: f.FeatureID()}
			factor := 1.0
			if wt.exact {
				hw, _ := strconv.Atoi(p.Get("hw").Value.String())
				factor = float64(hw)
			} else if t := p.Get("diagonal:weight"); t.IsValid() {
				if v, err := strconv.ParseFloat(t.Value.String(), 64); err == nil {
					factor = v
				}
			}
			for i := 0; i < n; i++ {
				id := p.Reference(i).Source()
				if !id.IsValid() {
					problem = fmt.Errorf("path %s has an inline point", f.FeatureID())
					return nil
				}
				cp.ids = append(cp.ids, id)
			}
			for i := 0; i+1 < n; i++ {
				length := 1.0
				if !wt.exact {
					length = b6.AngleToMeters(p.PointAt(i).Distance(p.PointAt(i + 1)))
				}
				cp.w = append(cp.w, length*factor)
				cp.fwd = append(cp.fwd, wt.w.IsUseable(b6.Segment{Feature: p, First: i, Last: i + 1}))
				cp.rev = append(cp.rev, wt.w.IsUseable(b6.Segment{Feature: p, First: i + 1, Last: i}))
			}
			g.pathIx[cp.id] = len(g.paths)
			g.paths = append(g.paths, cp)
		}
		return nil
	}, &b6.EachFeatureOptions{Goroutines: 1})
	if err != nil {
		return nil, err
	}
	if problem != nil {
		return nil, problem
	}
	// deterministic vertex numbering
	sort.Slice(g.paths, func(i, j int) bool { return wm.IDLess(g.paths[i].id, g.paths[j].id) })
	for i := range g.paths {
		g.pathIx[g.paths[i].id] = i
	}
	for pi, p := range g.paths {
		for i, id := range p.ids {
			v := g.vertex(id)
			g.onPaths[v]++
			if i == 0 || i == len(p.ids)-1 {
				g.isNode[v] = true
			}
		}
		for i := 0; i+1 < len(p.ids); i++ {
			a, b := g.vertex(p.ids[i]), g.vertex(p.ids[i+1])
			if p.fwd[i] {
				g.out[a] = append(g.out[a], c30Edge{to: b, w: p.w[i], path: pi, from: i, toIdx: i + 1})
			}
			if p.rev[i] {
				g.out[b] = append(g.out[b], c30Edge{to: a, w: p.w[i], path: pi, from: i + 1, toIdx: i})
			}
		}
	}
	for v, id := range g.ids {
		if g.onPaths[v] >= 2 || tagged[id] {
			g.isNode[v] = true
		}
	}
	return g, nil
}

// bellmanFord returns the true distances from the origins (at distance 0).
// undirected relaxes every edge both ways (used only for mechanism counters).
func (g *c30Graph) bellmanFord(origins []int, undirected bool) []float64 {
	d := make([]float64, len(g.ids))
	for i := range d {
		d[i] = math.Inf(1)
	}
	for _, o := range origins {
		d[o] = 0
	}
	for round := 0; round <= len(g.ids)+1; round++ {
		changed := false
		for u := range g.out {
			if math.IsInf(d[u], 1) {
				continue
			}
			for _, e := range g.out[u] {
				if nd := d[u] + e.w; nd < d[e.to] {
					d[e.to] = nd
					changed = true
				}
			}
		}
		if undirected {
			for u := range g.out {
				for _, e := range g.out[u] {
					if !math.IsInf(d[e.to], 1) {
						if nd := d[e.to] + e.w; nd < d[u] {
							d[u] = nd
							changed = true
						}
					}
				}
			}
		}
		if !changed {
			break
		}
	}
	return d
}

// dijkstraImprovements runs an array-scan Dijkstra and returns its distances
// and how many times a finite tentative distance was improved (the situations
// in which the search under test needs its decrease-key).
func (g *c30Graph) dijkstra(origins []int) (d []float64, improvements int) {
	d = make([]float64, len(g.ids))
	done := make([]bool, len(g.ids))
	for i := range d {
		d[i] = math.Inf(1)
	}
	for _, o := range origins {
		d[o] = 0
	}
	for {
		u := -1
		for v := range d {
			if !done[v] && !math.IsInf(d[v], 1) && (u < 0 || d[v] < d[u]) {
				u = v
			}
		}
		if u < 0 {
			return
		}
		done[u] = true
		for _, e := range g.out[u] {
			if nd := d[u] + e.w; nd < d[e.to] {
				if !math.IsInf(d[e.to], 1) {
					improvements++
				}
				d[e.to] = nd
			}
		}
	}
}

// traversable returns the cost of moving along path pi from index i to index
// j, and whether every edge on the way is usable in that direction.
func (g *c30Graph) traversable(pi, i, j int) (float64, bool) {
	p := g.paths[pi]
	if i < 0 || j < 0 || i >= len(p.ids) || j >= len(p.ids) || i == j {
		return 0, false
	}
	cost := 0.0
	if i < j {
		for k := i; k < j; k++ {
			if !p.fwd[k] {
				return 0, false
			}
			cost += p.w[k]
		}
	} else {
		for k := i - 1; k >= j; k-- {
			if !p.rev[k] {
				return 0, false
			}
			cost += p.w[k]
		}
	}
	return cost, true
}

func c30Close(got, want float64) bool {
	if got == want {
		return true
	}
	return math.Abs(got-want) <= 1e-9*math.Max(math.Abs(want), 1e-6)
}
