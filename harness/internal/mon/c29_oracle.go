package mon

import (
	"fmt"
	"sort"
	"strconv"
	"strings"

	"diagonal.works/b6"
	"diagonal.works/b6/ingest"
	"diagonal.works/b6/osm"
	"github.com/golang/geo/s2"
	"verif/internal/obs"
)

// The C29 rule oracle: an independent implementation of the mapping rules of
// the property, from OSM elements to expected features. Nothing in here calls
// the ingest package to compute an expectation.

// c29MapKey is the documented key table (ingest/osm.go, KeyForOSMKey), written
// out again: these keys become #-searchable, three become @-searchable, every
// other key is kept verbatim.
func c29MapKey(k string) string {
	switch k {
	case "amenity", "barrier", "boundary", "bridge", "building", "highway", "landuse", "leisure", "natural", "network",
		"place", "railway", "route", "shop", "tourism", "water", "waterway":
		return "#" + k
	case "fhrs:id", "wikidata", "wikipedia":
		return "@" + k
	}
	return k
}

func c29PointID(id osm.NodeID) b6.FeatureID {
	return b6.FeatureID{Type: b6.FeatureTypePoint, Namespace: "openstreetmap.org/node", Value: uint64(id)}
}
func c29PathID(id osm.WayID) b6.FeatureID {
	return b6.FeatureID{Type: b6.FeatureTypePath, Namespace: "openstreetmap.org/way", Value: uint64(id)}
}
func c29WayAreaID(id osm.WayID) b6.FeatureID {
	return b6.FeatureID{Type: b6.FeatureTypeArea, Namespace: "openstreetmap.org/way", Value: uint64(id)}
}
func c29RelAreaID(id osm.RelationID) b6.FeatureID {
	return b6.FeatureID{Type: b6.FeatureTypeArea, Namespace: "openstreetmap.org/relation", Value: uint64(id)}
}
func c29RelID(id osm.RelationID) b6.FeatureID {
	return b6.FeatureID{Type: b6.FeatureTypeRelation, Namespace: "openstreetmap.org/relation", Value: uint64(id)}
}

// c29Feat is the normal form of a feature: what the oracle expects and what was observed.
type c29Feat struct {
	ID      b6.FeatureID
	Kind    string   // point | open-path | closed-path | way-area | multipolygon-area | relation
	Tags    []string // sorted "key"=kind:"value", without the geometry tag
	At      string   // point: E7
	Nodes   []b6.FeatureID
	NodeAt  []string         // observed only: PointAt(i) at E7 ("" when unresolved)
	Polys   [][]b6.FeatureID // area: path IDs per polygon, outer first
	Loops   [][][]string     // observed only (built world): per polygon, per loop, the E7 vertices
	Members []b6.RelationMember
	// expectation only:
	MemberAlt   []b6.FeatureID // per member: a second acceptable ID (members that are not in the input), else invalid
	MemberClass []string       // per member: node | open-way | closed-way | multipolygon | relation | missing-*
	Broken      bool           // multipolygon whose assembly is documented to give up: may be absent; only ID and tags are checked when present
	CW          bool           // closed path listed clockwise: a built world may hold it reversed
	// observed only:
	Problem string // accessor panic or wrong Go type
}

type c29Model struct {
	F        map[b6.FeatureID]*c29Feat
	IDs      []b6.FeatureID
	NodeLoc  map[b6.FeatureID]string
	Closed   map[osm.WayID]bool
	IsMP     map[osm.RelationID]bool
	BrokenMP map[osm.RelationID]bool
}

func c29Tags(t osm.Tags) []string { return c29TagsExcept(t, "") }

// c29TagsExcept leaves out the OSM tag whose key is the feature's geometry key:
// the geometry tag of a point / path is decided by the node's location / the
// way's nodes, whatever the OSM element says under that key.
func c29TagsExcept(t osm.Tags, geometryKey string) []string {
	out := make([]string, 0, len(t))
	for _, tag := range t {
		if geometryKey != "" && tag.Key == geometryKey {
			continue
		}
		out = append(out, strconv.Quote(c29MapKey(tag.Key))+"=s:"+strconv.Quote(tag.Value))
	}
	sort.Strings(out)
	return out
}

func c29IsMultipolygon(r *osm.Relation) bool {
	for _, t := range r.Tags {
		if t.Key == "type" {
			return t.Value == "multipolygon"
		}
	}
	return false
}

// c29Expect applies the rules of the property to an input.
func c29Expect(in *c29Input) *c29Model {
	m := &c29Model{F: map[b6.FeatureID]*c29Feat{}, NodeLoc: map[b6.FeatureID]string{}, Closed: map[osm.WayID]bool{}, IsMP: map[osm.RelationID]bool{}, BrokenMP: map[osm.RelationID]bool{}}
	add := func(f *c29Feat) {
		m.F[f.ID] = f
		m.IDs = append(m.IDs, f.ID)
	}
	hasNode := map[osm.NodeID]bool{}
	hasWay := map[osm.WayID]bool{}
	hasRel := map[osm.RelationID]bool{}
	// rule: node -> point
	for _, n := range in.Nodes {
		at := strconv.FormatInt(c29E7(n.Location.Lat), 10) + "," + strconv.FormatInt(c29E7(n.Location.Lng), 10)
		add(&c29Feat{ID: c29PointID(n.ID), Kind: "point", Tags: c29TagsExcept(n.Tags, b6.PointTag), At: at})
		m.NodeLoc[c29PointID(n.ID)] = at
		hasNode[n.ID] = true
	}
	// rule: way -> path over its nodes in order; closed way -> untagged path + area with the way's tags
	for _, w := range in.Ways {
		hasWay[w.ID] = true
		nodes := make([]b6.FeatureID, len(w.Nodes))
		for i, n := range w.Nodes {
			nodes[i] = c29PointID(n)
		}
		if len(w.Nodes) > 1 && w.Nodes[0] == w.Nodes[len(w.Nodes)-1] {
			m.Closed[w.ID] = true
			add(&c29Feat{ID: c29PathID(w.ID), Kind: "closed-path", Tags: []string{}, Nodes: nodes, CW: in.CW[w.ID]})
			add(&c29Feat{ID: c29WayAreaID(w.ID), Kind: "way-area", Tags: c29Tags(w.Tags), Polys: [][]b6.FeatureID{{c29PathID(w.ID)}}})
		} else {
			add(&c29Feat{ID: c29PathID(w.ID), Kind: "open-path", Tags: c29TagsExcept(w.Tags, b6.PathTag), Nodes: nodes})
		}
	}
	for i := range in.Relations {
		r := &in.Relations[i]
		hasRel[r.ID] = true
		if c29IsMultipolygon(r) {
			m.IsMP[r.ID] = true
		}
	}
	for i := range in.Relations {
		r := &in.Relations[i]
		if m.IsMP[r.ID] {
			// rule: multipolygon -> area; every outer (or role-less) way starts a polygon, the ways
			// that follow it are its holes; node and relation members contribute nothing
			f := &c29Feat{ID: c29RelAreaID(r.ID), Kind: "multipolygon-area", Tags: c29Tags(r.Tags)}
			for _, mem := range r.Members {
				if mem.Type != osm.ElementTypeWay {
					continue
				}
				if !m.Closed[osm.WayID(mem.ID)] {
					f.Broken = true
					continue
				}
				if mem.Role == "outer" || mem.Role == "" || len(f.Polys) == 0 {
					f.Polys = append(f.Polys, nil)
				}
				f.Polys[len(f.Polys)-1] = append(f.Polys[len(f.Polys)-1], c29PathID(osm.WayID(mem.ID)))
			}
			if f.Broken {
				m.BrokenMP[r.ID] = true
			}
			add(f)
			continue
		}
		// rule: any other relation -> relation whose members are the features the elements became
		f := &c29Feat{ID: c29RelID(r.ID), Kind: "relation", Tags: c29Tags(r.Tags)}
		for _, mem := range r.Members {
			var id, alt b6.FeatureID
			var class string
			switch mem.Type {
			case osm.ElementTypeNode:
				id, class = c29PointID(osm.NodeID(mem.ID)), "node"
				if !hasNode[osm.NodeID(mem.ID)] {
					class = "missing-node"
				}
			case osm.ElementTypeWay:
				switch w := osm.WayID(mem.ID); {
				case m.Closed[w]:
					id, class = c29WayAreaID(w), "closed-way"
				case hasWay[w]:
					id, class = c29PathID(w), "open-way"
				default: // not in the input: nobody can know what it is
					id, alt, class = c29PathID(w), c29WayAreaID(w), "missing-way"
				}
			case osm.ElementTypeRelation:
				switch rr := osm.RelationID(mem.ID); {
				case m.IsMP[rr]:
					id, class = c29RelAreaID(rr), "multipolygon"
				case hasRel[rr]:
					id, class = c29RelID(rr), "relation"
				default:
					id, alt, class = c29RelID(rr), c29RelAreaID(rr), "missing-relation"
				}
			}
			f.Members = append(f.Members, b6.RelationMember{ID: id, Role: mem.Role})
			f.MemberAlt = append(f.MemberAlt, alt)
			f.MemberClass = append(f.MemberClass, class)
		}
		add(f)
	}
	return m
}

// ---- observation ----------------------------------------------------------

func c29ObsTags(tags b6.Tags, geometryKey string) []string {
	out := make([]string, 0, len(tags))
	for _, t := range tags {
		if geometryKey != "" && t.Key == geometryKey {
			continue
		}
		out = append(out, strconv.Quote(t.Key)+"="+obs.RenderValue(t.Value))
	}
	sort.Strings(out)
	return out
}

func c29ObsPhysical(f b6.Feature, out *c29Feat, resolve bool) {
	p, ok := f.(b6.PhysicalFeature)
	if !ok {
		out.Problem = fmt.Sprintf("%T is not a b6.PhysicalFeature", f)
		return
	}
	if out.ID.Type == b6.FeatureTypePoint {
		out.Tags = c29ObsTags(f.AllTags(), b6.PointTag)
		out.At = obs.PointE7(p.Point())
		return
	}
	out.Tags = c29ObsTags(f.AllTags(), b6.PathTag)
	n := p.GeometryLen()
	for i := 0; i < n; i++ {
		out.Nodes = append(out.Nodes, p.Reference(i).Source())
		if resolve {
			out.NodeAt = append(out.NodeAt, obs.PointE7(p.PointAt(i)))
		}
	}
}

// c29ObserveIngest normalises a feature as emitted by a FeatureSource.
func c29ObserveIngest(f ingest.Feature) *c29Feat {
	out := &c29Feat{ID: f.FeatureID()}
	switch f := f.(type) {
	case *ingest.GenericFeature:
		if out.ID.Type != b6.FeatureTypePoint && out.ID.Type != b6.FeatureTypePath {
			out.Problem = "GenericFeature with ID type " + out.ID.Type.String()
			return out
		}
		c29ObsPhysical(f, out, false)
	case *ingest.AreaFeature:
		out.Tags = c29ObsTags(f.Tags, "")
		for i := 0; i < f.Len(); i++ {
			ids, ok := f.PathIDs(i)
			if !ok {
				out.Problem = fmt.Sprintf("polygon %d is not given by path IDs", i)
			}
			out.Polys = append(out.Polys, append([]b6.FeatureID{}, ids...))
		}
	case *ingest.RelationFeature:
		out.Tags = c29ObsTags(f.Tags, "")
		for i := 0; i < f.Len(); i++ {
			out.Members = append(out.Members, f.Member(i))
		}
	default:
		out.Problem = fmt.Sprintf("unexpected feature type %T", f)
	}
	return out
}

// c29ObserveWorld normalises a feature found in a world.
func c29ObserveWorld(f b6.Feature) *c29Feat {
	out := &c29Feat{ID: f.FeatureID()}
	switch out.ID.Type {
	case b6.FeatureTypePoint, b6.FeatureTypePath:
		c29ObsPhysical(f, out, true)
	case b6.FeatureTypeArea:
		a, ok := f.(b6.AreaFeature)
		if !ok {
			out.Problem = fmt.Sprintf("%T is not a b6.AreaFeature", f)
			return out
		}
		out.Tags = c29ObsTags(f.AllTags(), "")
		for i := 0; i < a.Len(); i++ {
			var ids []b6.FeatureID
			for _, p := range a.Feature(i) {
				if p == nil {
					ids = append(ids, b6.FeatureIDInvalid)
				} else {
					ids = append(ids, p.FeatureID())
				}
			}
			out.Polys = append(out.Polys, ids)
			var loops [][]string
			if poly := a.Polygon(i); poly != nil {
				for j := 0; j < poly.NumLoops(); j++ {
					l := poly.Loop(j)
					vs := make([]string, l.NumVertices())
					for k := range vs {
						vs[k] = obs.PointE7(l.Vertex(k))
					}
					loops = append(loops, vs)
				}
			}
			out.Loops = append(out.Loops, loops)
		}
	case b6.FeatureTypeRelation:
		r, ok := f.(b6.RelationFeature)
		if !ok {
			out.Problem = fmt.Sprintf("%T is not a b6.RelationFeature", f)
			return out
		}
		out.Tags = c29ObsTags(f.AllTags(), "")
		for i := 0; i < r.Len(); i++ {
			out.Members = append(out.Members, r.Member(i))
		}
	default:
		out.Problem = "unexpected feature type " + out.ID.Type.String()
	}
	return out
}

// ---- comparison -----------------------------------------------------------

func c29IDs(ids []b6.FeatureID) string {
	parts := make([]string, len(ids))
	for i, id := range ids {
		parts[i] = id.String()
	}
	return "[" + strings.Join(parts, " ") + "]"
}

func c29SameIDs(a, b []b6.FeatureID) bool {
	if len(a) != len(b) {
		return false
	}
	for i := range a {
		if a[i] != b[i] {
			return false
		}
	}
	return true
}

func c29Reversed(a []b6.FeatureID) []b6.FeatureID {
	out := make([]b6.FeatureID, len(a))
	for i := range a {
		out[len(a)-1-i] = a[i]
	}
	return out
}

// c29CycleKey is a canonical text of a cyclic vertex sequence, up to rotation and direction.
func c29CycleKey(vs []string) string {
	if len(vs) == 0 {
		return ""
	}
	best := ""
	n := len(vs)
	for dir := 0; dir < 2; dir++ {
		for s := 0; s < n; s++ {
			parts := make([]string, n)
			for i := 0; i < n; i++ {
				if dir == 0 {
					parts[i] = vs[(s+i)%n]
				} else {
					parts[i] = vs[((s-i)%n+n)%n]
				}
			}
			k := strings.Join(parts, " ")
			if best == "" || k < best {
				best = k
			}
		}
	}
	return best
}

type c29Mismatch struct {
	Field  string // triage class: names the rule that failed, never a value
	Detail string
}

// c29Compare checks an observed feature against the expectation. built says
// whether the observation comes from a built world (geometry is resolved and
// clockwise closed paths may have been reversed) or from the feature source.
func c29Compare(m *c29Model, exp, got *c29Feat, built bool) []c29Mismatch {
	var out []c29Mismatch
	bad := func(field, format string, args ...any) {
		out = append(out, c29Mismatch{field, fmt.Sprintf(format, args...)})
	}
	if got.Problem != "" {
		bad("unreadable", "%s: %s", got.ID, got.Problem)
		return out
	}
	if strings.Join(exp.Tags, " ") != strings.Join(got.Tags, " ") {
		field := "tags"
		if exp.Kind == "closed-path" {
			field = "tags-on-closed-path"
		}
		bad(field, "%s (%s): tags {%s}, the rules give {%s}", got.ID, exp.Kind, strings.Join(got.Tags, " "), strings.Join(exp.Tags, " "))
	}
	if exp.Broken {
		return out
	}
	switch exp.Kind {
	case "point":
		if got.At != exp.At {
			bad("location", "%s is at %s, the node is at %s", got.ID, got.At, exp.At)
		}
	case "open-path", "closed-path":
		want := exp.Nodes
		if !c29SameIDs(got.Nodes, want) {
			if built && exp.CW && c29SameIDs(got.Nodes, c29Reversed(want)) {
				want = c29Reversed(want) // the documented inversion of clockwise closed paths
			} else {
				bad("node-order", "%s (%s) runs over %s, the way lists %s", got.ID, exp.Kind, c29IDs(got.Nodes), c29IDs(exp.Nodes))
				break
			}
		}
		if built {
			for i, id := range want {
				if i < len(got.NodeAt) && got.NodeAt[i] != m.NodeLoc[id] {
					bad("node-location", "%s: point %d is at %s, node %s is at %s", got.ID, i, got.NodeAt[i], id, m.NodeLoc[id])
					break
				}
			}
		}
	case "way-area", "multipolygon-area":
		same := len(got.Polys) == len(exp.Polys)
		for i := 0; same && i < len(exp.Polys); i++ {
			same = c29SameIDs(got.Polys[i], exp.Polys[i])
		}
		if !same {
			var g, w []string
			for _, p := range got.Polys {
				g = append(g, c29IDs(p))
			}
			for _, p := range exp.Polys {
				w = append(w, c29IDs(p))
			}
			bad("polygons", "%s (%s) has polygons %s, outer/inner members give %s", got.ID, exp.Kind, strings.Join(g, ""), strings.Join(w, ""))
			break
		}
		if built {
			for i, paths := range exp.Polys {
				var want []string
				for _, pid := range paths {
					p := m.F[pid]
					var vs []string
					for _, n := range p.Nodes[:len(p.Nodes)-1] {
						vs = append(vs, m.NodeLoc[n])
					}
					want = append(want, c29CycleKey(vs))
				}
				var have []string
				if i < len(got.Loops) {
					for _, l := range got.Loops[i] {
						have = append(have, c29CycleKey(l))
					}
				}
				sort.Strings(want)
				sort.Strings(have)
				if strings.Join(want, "|") != strings.Join(have, "|") {
					bad("polygon-geometry", "%s polygon %d has loops %v, its member ways give %v", got.ID, i, have, want)
					break
				}
			}
		}
	case "relation":
		if len(got.Members) != len(exp.Members) {
			bad("member-count", "%s has %d members, the relation lists %d", got.ID, len(got.Members), len(exp.Members))
			break
		}
		for i, em := range exp.Members {
			gm := got.Members[i]
			if gm.ID != em.ID && !(exp.MemberAlt[i].IsValid() && gm.ID == exp.MemberAlt[i]) {
				bad("member-id:"+exp.MemberClass[i], "%s member %d (a %s) is %s, the rules give %s", got.ID, i, exp.MemberClass[i], gm.ID, em.ID)
			}
			if gm.Role != em.Role {
				bad("member-role", "%s member %d has role %q, the relation says %q", got.ID, i, gm.Role, em.Role)
			}
		}
	}
	return out
}

var _ = s2.Point{}
