package mon

import (
	"fmt"
	"math"
	"strings"

	"diagonal.works/b6"
	"diagonal.works/b6/geometry"
	"diagonal.works/b6/ingest"
	"github.com/golang/geo/s1"
	"github.com/golang/geo/s2"
	"verif/internal/core"
)

// C05 Spatial predicates agree with exact geometry.
//
// A case is a small scene (one or two areas with several parts / holes, a few
// points and paths) in a basic world, and a list of query regions placed at
// strategic positions of the scene. For every (region, feature) pair the
// query's Matches is compared with the three-valued oracle of c05_oracle.go.

type c05Feature struct {
	ID    b6.FeatureID
	Kind  string // point | path | area
	Pt    c05LL
	Line  []c05LL
	Polys []c05Poly
}

func (f c05Feature) String() string {
	switch f.Kind {
	case "point":
		return fmt.Sprintf("%s point(%s)", f.ID, f.Pt)
	case "path":
		return fmt.Sprintf("%s path(%s)", f.ID, c05LLs(f.Line))
	}
	var parts []string
	for _, p := range f.Polys {
		parts = append(parts, p.String())
	}
	return fmt.Sprintf("%s area{%s}", f.ID, strings.Join(parts, " "))
}

type c05Query struct {
	Kind string // cap | cells | point | polyline | multipolygon | feature
	Desc string
	Q    b6.Query

	centre s2.Point
	radius float64
	cells  []s2.Cell
	pt     s2.Point
	line   []s2.Point
	polys  []c05GPoly
	fid    b6.FeatureID
}

const c05NS = b6.Namespace("example.com/c05")

var c05VertexCounts = []int{3, 4, 5, 6, 6, 8, 8, 10, 12, 15, 16, 17, 18, 24, 31, 32, 33, 40}

func c05Lerp(a, b s2.Point, t float64) s2.Point {
	return s2.Point{Vector: a.Vector.Mul(1 - t).Add(b.Vector.Mul(t)).Normalize()}
}

func c05PickVertexCount(r *core.R, rad float64) int {
	n := core.Pick(r, c05VertexCounts)
	if rad < 5e-6 && n > 12 {
		n = 4 + n%9
	}
	return n
}

type c05Scene struct {
	Label  string
	C      c05LL
	Rad    float64
	Feats  []c05Feature
	S      []c05LL // strategic positions
	SNames []string
}

func (s *c05Scene) strategic(name string, l c05LL) {
	s.S = append(s.S, l)
	s.SNames = append(s.SNames, name)
}

func c05GenScene(r *core.R) *c05Scene {
	sc := &c05Scene{}
	sc.C, sc.Label = c05Centre(r)
	c := sc.C.Point()
	rad := c05Radius(r, 5e6)
	nextID := uint64(1)
	id := func(t b6.FeatureType) b6.FeatureID {
		nextID++
		return b6.FeatureID{Type: t, Namespace: c05NS, Value: nextID}
	}

	// area A: 1..3 parts
	var a c05Feature
	for attempt := 0; attempt < 4 && len(a.Polys) == 0; attempt++ {
		n := c05PickVertexCount(r, rad)
		star := n >= 6 && r.Chance(0.6)
		p, ok := c05GenPoly(r, c, rad, n, star, core.Pick(r, []int{0, 0, 1, 2}))
		if ok {
			a.Polys = append(a.Polys, p)
		} else {
			rad *= 4
		}
	}
	if len(a.Polys) == 0 {
		return nil
	}
	if rad > 1.39 {
		rad = 1.39
	}
	sc.Rad = rad
	parts := core.Pick(r, []int{1, 1, 2, 3})
	if rad > 0.25 {
		parts = 1
	}
	th0 := r.Float() * 2 * math.Pi
	for k := 1; k < parts; k++ {
		pc := c05Offset(c, rad*(2.6+r.Float()), th0+float64(k)*2*math.Pi/3)
		n := c05PickVertexCount(r, rad)
		if p, ok := c05GenPoly(r, pc, rad*(0.4+0.6*r.Float()), n, n >= 6 && r.Bool(), core.Pick(r, []int{0, 0, 1})); ok {
			a.Polys = append(a.Polys, p)
		}
	}
	a.ID, a.Kind = id(b6.FeatureTypeArea), "area"
	sc.Feats = append(sc.Feats, a)

	// area B, usually overlapping A in part
	if r.Chance(0.6) {
		bc := c05Offset(c, rad*2.2*r.Float(), r.Float()*2*math.Pi)
		brad := math.Min(rad*(0.2+1.3*r.Float()), 1.39)
		n := c05PickVertexCount(r, brad)
		if p, ok := c05GenPoly(r, bc, brad, n, n >= 6 && r.Bool(), core.Pick(r, []int{0, 0, 1})); ok {
			sc.Feats = append(sc.Feats, c05Feature{ID: id(b6.FeatureTypeArea), Kind: "area", Polys: []c05Poly{p}})
		}
	}

	// strategic positions derived from the areas
	for fi, f := range sc.Feats {
		for pi, p := range f.Polys {
			shell := c05Points(p.Rings[0])
			pc := p.Centre.Point()
			tag := fmt.Sprintf("a%d.%d", fi, pi)
			sc.strategic(tag+".centre", p.Centre)
			k := r.Intn(len(shell))
			if p.Star {
				k &^= 1 // an arm (even vertices are the long ones)
			}
			sc.strategic(tag+".arm", c05Quantise(c05Lerp(pc, shell[k], 0.55+0.2*r.Float())))
			sc.strategic(tag+".vertex", p.Rings[0][k])
			mid := c05Lerp(shell[k], shell[(k+1)%len(shell)], 0.5)
			sc.strategic(tag+".outside", c05Quantise(c05Lerp(pc, mid, 1.1+0.4*r.Float())))
			sc.strategic(tag+".justinside", c05Quantise(c05Lerp(pc, mid, 0.9)))
			for _, h := range p.Holes {
				sc.strategic(tag+".hole", h.Centre)
			}
		}
	}
	sc.strategic("near", c05Quantise(c05Offset(c, rad*2*r.Float(), r.Float()*2*math.Pi)))
	sc.strategic("far", c05Quantise(c05Offset(c, math.Min(rad*(6+3*r.Float()), 2.5), r.Float()*2*math.Pi)))

	// paths
	npaths := r.Range(1, 2)
	for k := 0; k < npaths; k++ {
		start := core.Pick(r, sc.S).Point()
		if k == 1 && r.Bool() {
			start = c05Offset(c, rad*3*r.Float(), r.Float()*2*math.Pi)
		}
		line := c05GenLine(r, start, rad*(0.1+0.9*r.Float()), r.Range(2, 12))
		if line == nil {
			continue
		}
		if k == 1 && r.Chance(0.3) && len(sc.Feats[len(sc.Feats)-1].Line) > 0 {
			// share a vertex with the previous path
			prev := sc.Feats[len(sc.Feats)-1].Line
			line[r.Intn(len(line))] = prev[r.Intn(len(prev))]
			okLine := true
			for i := 1; i < len(line); i++ {
				if c05Dist(line[i].Point(), line[i-1].Point()) < c05MinSep {
					okLine = false
				}
			}
			if !okLine {
				continue
			}
		}
		sc.Feats = append(sc.Feats, c05Feature{ID: id(b6.FeatureTypePath), Kind: "path", Line: line})
		tag := fmt.Sprintf("l%d", k)
		j := r.Intn(len(line) - 1)
		sc.strategic(tag+".vertex", line[j])
		sc.strategic(tag+".mid", c05Quantise(c05Lerp(line[j].Point(), line[j+1].Point(), 0.5)))
	}

	// points at strategic positions
	npoints := r.Range(3, 6)
	for k := 0; k < npoints; k++ {
		l := core.Pick(r, sc.S)
		dup := false
		for _, f := range sc.Feats {
			if f.Kind == "point" && f.Pt == l {
				dup = true
			}
		}
		if dup {
			continue
		}
		sc.Feats = append(sc.Feats, c05Feature{ID: id(b6.FeatureTypePoint), Kind: "point", Pt: l})
	}
	return sc
}

func c05BuildWorld(sc *c05Scene) (b6.World, error) {
	b := ingest.NewBasicWorldBuilder(&ingest.BuildOptions{Cores: 1})
	for _, f := range sc.Feats {
		switch f.Kind {
		case "point":
			g := &ingest.GenericFeature{ID: f.ID}
			g.AddTag(b6.Tag{Key: b6.PointTag, Value: b6.NewPointExpressionFromLatLng(f.Pt.LatLng())})
			g.AddTag(b6.Tag{Key: "#amenity", Value: b6.NewStringExpression("bench")})
			b.AddFeature(g)
		case "path":
			g := &ingest.GenericFeature{ID: f.ID}
			ps := make([]b6.AnyExpression, len(f.Line))
			for i, l := range f.Line {
				ps[i] = b6.PointExpression(l.LatLng())
			}
			g.AddTag(b6.Tag{Key: b6.PathTag, Value: b6.NewExpressions(ps)})
			g.AddTag(b6.Tag{Key: "#highway", Value: b6.NewStringExpression("path")})
			b.AddFeature(g)
		case "area":
			a := ingest.NewAreaFeature(len(f.Polys))
			a.AreaID = b6.AreaID{Namespace: f.ID.Namespace, Value: f.ID.Value}
			for i, p := range f.Polys {
				a.SetPolygon(i, p.S2())
			}
			a.AddTag(b6.Tag{Key: "#building", Value: b6.NewStringExpression("yes")})
			b.AddFeature(a)
		}
	}
	return b.Finish(&ingest.BuildOptions{Cores: 1})
}

// c05GenGeom is the oracle-side geometry computed from the generated
// coordinates (used only to calibrate query regions).
func c05GenGeom(f c05Feature) c05G {
	switch f.Kind {
	case "point":
		return c05G{kind: b6.GeometryTypePoint, pt: f.Pt.Point()}
	case "path":
		return c05G{kind: b6.GeometryTypePath, line: c05Points(f.Line)}
	}
	g := c05G{kind: b6.GeometryTypeArea}
	for _, p := range f.Polys {
		var rings [][]s2.Point
		for _, ring := range p.Rings {
			rings = append(rings, c05Points(ring))
		}
		g.polys = append(g.polys, c05GPolyFromRings(rings))
	}
	return g
}

func c05DistTo(p s2.Point, g c05G) float64 {
	switch g.kind {
	case b6.GeometryTypePoint:
		return c05Dist(p, g.pt)
	case b6.GeometryTypePath:
		return c05LineDist(p, g.line)
	}
	d := 10.0
	for _, poly := range g.polys {
		d = math.Min(d, poly.boundaryDist(p))
	}
	return d
}

func c05GenQueries(r *core.R, sc *c05Scene, gens []c05G, read []c05G) []c05Query {
	var qs []c05Query
	nq := r.Range(9, 13)
	for k := 0; k < nq; k++ {
		qs = append(qs, c05GenOneQuery(r, sc, gens, read)...)
	}
	// intersects-feature for a few features
	for _, i := range r.Perm(len(sc.Feats))[:min(3, len(sc.Feats))] {
		qs = append(qs, c05Query{Kind: "feature", Desc: fmt.Sprintf("feature(%s)", sc.Feats[i].ID), Q: b6.IntersectsFeature{ID: sc.Feats[i].ID}, fid: sc.Feats[i].ID})
	}
	return qs
}

// c05GenOneQuery draws one region (no region when the draw produced a
// degenerate shape). gens[i] / read[i] are the geometries of sc.Feats[i] as
// generated / as reported by the world.
func c05GenOneQuery(r *core.R, sc *c05Scene, gens []c05G, read []c05G) []c05Query {
	c := sc.C.Point()
	rad := sc.Rad
	oneMeter := float64(b6.MetersToAngle(1))
	var qs []c05Query
	pickS := func() (c05LL, string) {
		i := r.Intn(len(sc.S))
		return sc.S[i], sc.SNames[i]
	}
	{
		switch r.Intn(10) {
		case 0, 1, 2: // cap
			l, name := pickS()
			if r.Chance(0.15) {
				l, name = c05Quantise(c05Offset(c, rad*2.5*r.Float(), r.Float()*2*math.Pi)), "random"
			}
			centre := l.Point()
			var radius float64
			how := ""
			switch r.Intn(7) {
			case 0:
				radius, how = oneMeter, "1m"
			case 1:
				radius, how = math.Max(rad*0.05, oneMeter), "0.05R"
			case 2:
				radius, how = math.Max(rad*(0.2+r.Float()), oneMeter), "~R"
			case 3:
				radius, how = math.Min(rad*3, 1.4), "3R"
			default:
				ti := r.Intn(len(gens))
				d := c05DistTo(centre, gens[ti])
				f := core.Pick(r, []float64{0.3, 0.5, 0.9, 0.99, 1.01, 1.1, 2})
				radius, how = math.Max(d*f, oneMeter/2), fmt.Sprintf("%gxdist(f%d)", f, ti)
				if radius > 1.5 {
					radius = 1.5
				}
			}
			capq := s2.CapFromCenterAngle(centre, s1.Angle(radius))
			qs = append(qs, c05Query{Kind: "cap", Desc: fmt.Sprintf("cap(%s@%s r=%.6g rad %s)", l, name, radius, how),
				Q: b6.NewIntersectsCap(capq), centre: centre, radius: capq.Radius().Radians()})
		case 3, 4: // cells
			l, name := pickS()
			level := r.Intn(31)
			if r.Bool() {
				level = s2.AvgEdgeMetric.ClosestLevel(rad) + r.Range(-3, 3)
				if level < 0 {
					level = 0
				}
				if level > 30 {
					level = 30
				}
			}
			id := c05CellID(l.Point()).Parent(level)
			var ids []s2.CellID
			switch r.Intn(4) {
			case 0:
				ids = []s2.CellID{id}
			case 1:
				ids = []s2.CellID{id.EdgeNeighbors()[r.Intn(4)]}
			case 2:
				n := id.EdgeNeighbors()
				ids = []s2.CellID{n[r.Intn(4)], id}
			default:
				n := id.EdgeNeighbors()
				far := c05CellID(c05Offset(c, 2.0, r.Float()*6.28)).Parent(level)
				ids = []s2.CellID{far, n[r.Intn(4)], id}
			}
			cells := make([]s2.Cell, len(ids))
			toks := make([]string, len(ids))
			for i, x := range ids {
				cells[i] = s2.CellFromCellID(x)
				toks[i] = x.ToToken()
			}
			qs = append(qs, c05Query{Kind: "cells", Desc: fmt.Sprintf("cells(%s near %s@%s)", strings.Join(toks, ","), l, name),
				Q: b6.IntersectsCells{Cells: cells}, cells: cells})
		case 5: // point
			l, name := pickS()
			pt := l.Point()
			// points that are features: use the coordinates the world reports
			for i, f := range sc.Feats {
				if f.Kind == "point" && f.Pt == l && read[i].kind == b6.GeometryTypePoint {
					pt = read[i].pt
					name += "=feature"
				}
			}
			qs = append(qs, c05Query{Kind: "point", Desc: fmt.Sprintf("point(%s@%s)", l, name), Q: b6.IntersectsPoint{Point: pt}, pt: pt})
		case 6, 7: // polyline
			var line []c05LL
			how := ""
			switch r.Intn(5) {
			case 0: // a chord through an area: no vertex inside
				p := sc.Feats[0].Polys[r.Intn(len(sc.Feats[0].Polys))]
				pc := p.Centre.Point()
				v := p.Rings[0][r.Intn(len(p.Rings[0]))].Point()
				a := c05Quantise(c05Lerp(pc, v, 1.5))
				b := c05Quantise(c05Offset(pc, 1.5*c05Dist(pc, v), math.Pi+c05Bearing(pc, v)))
				line, how = []c05LL{a, b}, "chord"
				if r.Bool() {
					line, how = []c05LL{a, c05Quantise(c05Lerp(pc, v, 0.5)), b}, "chord+inside"
				}
			case 1: // shares a vertex with a path feature
				for _, f := range sc.Feats {
					if f.Kind == "path" {
						v := f.Line[r.Intn(len(f.Line))]
						line = c05GenLine(r, v.Point(), rad*(0.1+r.Float()), r.Range(2, 5))
						how = "from-path-vertex"
						break
					}
				}
			case 2: // crosses a path feature's edge
				for _, f := range sc.Feats {
					if f.Kind == "path" {
						j := r.Intn(len(f.Line) - 1)
						a, b := f.Line[j].Point(), f.Line[j+1].Point()
						mid := c05Lerp(a, b, 0.2+0.6*r.Float())
						d := c05Dist(a, b) * (0.2 + r.Float())
						th := c05Bearing(mid, b) + math.Pi/2 + (r.Float()-0.5)*0.8
						p1 := c05Quantise(c05Offset(mid, d, th))
						p2 := c05Quantise(c05Offset(mid, d*(0.5+r.Float()), th+math.Pi))
						if r.Chance(0.3) { // stop short: no crossing
							p2 = c05Quantise(c05Offset(mid, d*0.4, th))
						}
						line, how = []c05LL{p1, p2}, "across-path-edge"
						break
					}
				}
			default:
				l, name := pickS()
				line = c05GenLine(r, l.Point(), rad*(0.05+r.Float()), r.Range(2, 9))
				how = "from-" + name
			}
			if len(line) >= 2 {
				ok := true
				for i := 1; i < len(line); i++ {
					if c05Dist(line[i].Point(), line[i-1].Point()) < c05MinSep {
						ok = false
					}
				}
				if ok {
					pl := s2.Polyline(c05Points(line))
					qs = append(qs, c05Query{Kind: "polyline", Desc: fmt.Sprintf("polyline(%s %s)", how, c05LLs(line)), Q: b6.IntersectsPolyline{Polyline: &pl}, line: c05Points(line)})
				}
			}
		default: // multipolygon
			var parts []c05Poly
			var how []string
			mk := func(centre s2.Point, prad float64, tag string) {
				n := core.Pick(r, []int{3, 4, 5, 6, 8, 10, 17, 33})
				if prad < 2e-6 {
					n = r.Range(3, 6)
				}
				if p, ok := c05GenPoly(r, centre, math.Max(prad, 3*oneMeter), n, n >= 6 && r.Bool(), core.Pick(r, []int{0, 0, 0, 1})); ok {
					parts = append(parts, p)
					how = append(how, tag)
				}
			}
			if r.Chance(0.6) { // first part far away from everything
				mk(c05Offset(c, math.Min(rad*(5+2*r.Float()), 2.2), r.Float()*2*math.Pi), rad*0.3, "far")
			}
			np := r.Range(1, 2)
			for j := 0; j < np; j++ {
				l, name := pickS()
				off := c05Offset(l.Point(), rad*0.1*r.Float(), r.Float()*2*math.Pi)
				mk(off, math.Min(rad*(0.05+0.6*r.Float()), 1.2), name)
			}
			if len(parts) > 0 {
				mp := make(geometry.MultiPolygon, len(parts))
				gp := make([]c05GPoly, len(parts))
				var descs []string
				for i, p := range parts {
					mp[i] = p.S2()
					var rings [][]s2.Point
					for _, ring := range p.Rings {
						rings = append(rings, c05Points(ring))
					}
					gp[i] = c05GPolyFromRings(rings)
					descs = append(descs, how[i]+p.String())
				}
				qs = append(qs, c05Query{Kind: "multipolygon", Desc: "multipolygon(" + strings.Join(descs, " ") + ")",
					Q: b6.IntersectsMultiPolygon{MultiPolygon: mp}, polys: gp})
			}
		}
	}
	return qs
}

// c05Bearing is the bearing (as used by c05Offset) from a towards b.
func c05Bearing(a, b s2.Point) float64 {
	e, n := c05Frame(a)
	return math.Atan2(b.Vector.Dot(n), b.Vector.Dot(e))
}

// c05LeftOfAllEdges is the convex-only inside test (used to label cases only).
func c05LeftOfAllEdges(p s2.Point, vs []s2.Point) bool {
	for i := range vs {
		if !s2.Sign(p, vs[i], vs[(i+1)%len(vs)]) {
			return false
		}
	}
	return true
}

var c05QKinds = []string{"cap", "cells", "point", "polyline", "multipolygon", "feature"}
var c05FKinds = []string{"point", "path", "area"}

func init() {
	required := []string{
		"pairs_decided", "skipped_near_edge", "approximation_allowed",
		"mp_point_only_in_later_part", "mp_area_only_in_later_part",
		"cap_centre_in_concave_pocket_clear_of_edges", "cap_inside_hole_clear_of_edges",
		"cap_vs_shell_above_16_vertices", "cap_vs_shell_up_to_16_vertices", "polygon_32_or_more_vertices",
		"polygon_with_holes", "cells_level_0_to_4", "cells_level_25_to_30", "point_query_on_path_vertex",
		"polyline_shares_vertex_with_path", "placement_face-edge", "placement_pole", "placement_cell-vertex",
	}
	for _, q := range c05QKinds {
		for _, f := range c05FKinds {
			required = append(required, "true_"+q+"/"+f, "false_"+q+"/"+f)
		}
	}
	core.Register(&core.Monitor{
		ID:        "C05",
		Title:     "Spatial predicates agree with exact geometry",
		Technique: "differential check of Query.Matches against a three-valued geometric oracle built on S2 primitives (Loop.ContainsPoint, CrossingSign, cell containment, own point-segment distance)",
		Rule: "case = scene of 1-2 areas (1-3 parts, star-shaped or convex rings of 3..40 vertices, 0-2 holes), 1-2 paths and 3-6 points on the E7 grid, placed in London, on S2 cell boundaries, " +
			"cube-face boundaries, poles, the antimeridian or anywhere, extent 1 m..5000 km, plus 9-16 regions (caps, cell lists of levels 0..30, points, polylines, multipolygons of 1-3 parts, intersects-feature) " +
			"anchored at strategic positions of the scene (arm of a star, hole centre, vertex, just inside/outside an edge); every (region, feature) pair is compared; " +
			"distinct = distinct scene and region list; non-trivial = at least one decided pair expected true and one expected false",
		Assumptions: []string{
			"golang/geo primitives are trusted: Loop.ContainsPoint, CrossingSign, Cell.ContainsPoint, Cell.BoundaryDistance",
			"pairs whose decision depends on a distance within 1e-9 rad of its threshold are skipped (counter skipped_near_edge)",
			"polyline-versus-polygon: where the vertex-inside approximation says no while the boundaries cross, either answer is accepted (counter approximation_allowed)",
		},
		Quick: 6000, Thorough: 200000,
		Required: required,
		Run:      c05Run,
	})
}

func c05Run(c *core.Ctx) {
	r := c.R
	sc := c05GenScene(r.Fork())
	if sc == nil {
		c.Count("scene_generation_failed")
		c.Key("failed#%d", c.Index)
		return
	}
	c.Count("placement_" + sc.Label)
	w, err := c05BuildWorld(sc)
	if err != nil {
		c.Inconclusive("world build failed: " + err.Error())
		return
	}
	gens := make([]c05G, len(sc.Feats))
	read := make([]c05G, len(sc.Feats))
	feats := make([]b6.Feature, len(sc.Feats))
	for i, f := range sc.Feats {
		gens[i] = c05GenGeom(f)
		feats[i] = w.FindFeatureByID(f.ID)
		if feats[i] == nil {
			c.Count("feature_dropped_by_builder")
			continue
		}
		read[i] = c05GeomOf(feats[i])
		if f.Kind == "area" {
			for _, p := range f.Polys {
				if len(p.Rings) > 1 {
					c.Count("polygon_with_holes")
				}
				nv := 0
				for _, ring := range p.Rings {
					nv += len(ring)
				}
				if nv >= 32 {
					c.Count("polygon_32_or_more_vertices")
				}
			}
		}
	}
	qs := c05GenQueries(r.Fork(), sc, gens, read)

	var key strings.Builder
	fmt.Fprintf(&key, "%s R=%.6g;", sc.Label, sc.Rad)
	for _, f := range sc.Feats {
		key.WriteString(f.String())
		key.WriteByte(';')
	}
	for _, q := range qs {
		key.WriteString(q.Desc)
		key.WriteByte(';')
	}
	c.Key("%s", key.String())
	if c.Index < 3 {
		var fs, qd []string
		for _, f := range sc.Feats {
			fs = append(fs, f.String())
		}
		for _, q := range qs {
			qd = append(qd, q.Desc)
		}
		c.Sample(map[string]any{"placement": sc.Label, "radius_rad": sc.Rad, "features": fs, "regions": qd})
	}

	sawTrue, sawFalse := false, false
	for _, q := range qs {
		if q.Kind == "cells" {
			for _, cell := range q.cells {
				if cell.Level() <= 4 {
					c.Count("cells_level_0_to_4")
				}
				if cell.Level() >= 25 {
					c.Count("cells_level_25_to_30")
				}
			}
		}
		var qg c05G
		if q.Kind == "feature" {
			for i, f := range sc.Feats {
				if f.ID == q.fid {
					qg = read[i]
				}
			}
			if qg.kind == b6.GeometryTypeInvalid {
				continue // dropped feature
			}
		}
		for i, f := range sc.Feats {
			if feats[i] == nil {
				continue
			}
			g := read[i]
			var exp c05Tri
			switch q.Kind {
			case "cap":
				exp = c05OracleCap(q.centre, q.radius, g)
			case "cells":
				exp = c05OracleCells(q.cells, g)
			case "point":
				exp = c05OraclePoint(q.pt, g)
			case "polyline":
				exp = c05OracleLine(q.line, g)
			case "multipolygon":
				exp = c05OracleMultiPolygon(q.polys, g)
			case "feature":
				if q.fid == f.ID {
					exp = c05T // a geometry meets itself
				} else {
					exp = c05OracleGeom(qg, g)
				}
			}
			pair := q.Kind + "/" + f.Kind
			var got bool
			panicked, class, frame, _ := core.Protect(func() { got = q.Q.Matches(feats[i], w) })
			if panicked {
				c.Violate(pair+":panic@"+frame, map[string]any{"region": q.Desc, "feature": f.String()}, "Matches panicked (%s) for %s against %s", class, q.Desc, f.String())
				continue
			}
			switch exp {
			case c05U:
				c.Count("skipped_near_edge")
				continue
			case c05Either:
				c.Count("approximation_allowed")
				continue
			}
			c.Count("pairs_decided")
			if exp == c05T {
				sawTrue = true
				c.Count("true_" + pair)
			} else {
				sawFalse = true
				c.Count("false_" + pair)
			}
			c05Label(c, q, f, g, exp)
			if got != (exp == c05T) {
				shape := "missed"
				if got {
					shape = "invented"
				}
				c.Violate(pair+":"+shape, map[string]any{"region": q.Desc, "feature": f.String(), "matches": got, "exact_geometry": exp.String(), "placement": sc.Label},
					"%s.Matches = %v but exact geometry says %v; region %s; feature %s", q.Kind, got, exp, q.Desc, f.String())
			}
		}
	}
	if sawTrue && sawFalse {
		c.Nontrivial()
	}
}

// c05Label counts the anchored mechanisms a decided pair went through.
func c05Label(c *core.Ctx, q c05Query, f c05Feature, g c05G, exp c05Tri) {
	switch {
	case q.Kind == "cap" && f.Kind == "area":
		for _, p := range g.polys {
			if len(p.verts[0]) > 16 {
				c.Count("cap_vs_shell_above_16_vertices")
			} else {
				c.Count("cap_vs_shell_up_to_16_vertices")
			}
		}
		clear := true
		for _, p := range g.polys {
			if p.boundaryDist(q.centre) <= q.radius+c05Eps {
				clear = false
			}
		}
		if !clear {
			return
		}
		for _, p := range g.polys {
			in := p.contains(q.centre)
			if exp == c05T && in == c05T {
				c.Count("cap_strictly_inside_polygon")
				convexInside := 0
				for _, vs := range p.verts {
					if c05LeftOfAllEdges(q.centre, vs) {
						convexInside++
					}
				}
				if convexInside%2 == 0 {
					c.Count("cap_centre_in_concave_pocket_clear_of_edges")
				}
			}
			if exp == c05F && len(p.loops) > 1 && p.loops[0].ContainsPoint(q.centre) {
				c.Count("cap_inside_hole_clear_of_edges")
			}
		}
	case q.Kind == "multipolygon" && exp == c05T && len(q.polys) >= 2:
		first := []c05GPoly{q.polys[0]}
		if f.Kind == "point" && c05OracleMultiPolygon(first, g) == c05F {
			c.Count("mp_point_only_in_later_part")
		}
		if f.Kind == "area" && c05OracleMultiPolygon(first, g) == c05F {
			c.Count("mp_area_only_in_later_part")
		}
	case q.Kind == "point" && f.Kind == "path" && exp == c05T:
		c.Count("point_query_on_path_vertex")
	case q.Kind == "polyline" && f.Kind == "path" && exp == c05T:
		if c05SharedVertex(q.line, g.line) {
			c.Count("polyline_shares_vertex_with_path")
		}
	}
}
