package mon

import (
	"bytes"
	"fmt"
	"sort"
	"strings"
	"time"

	"diagonal.works/b6"
	"diagonal.works/b6/encoding"
	"diagonal.works/b6/ingest/compact"
	pb "diagonal.works/b6/proto"
	"github.com/golang/geo/s2"
	"verif/internal/core"
)

// C11 Every compact record kind round-trips through its codec.
//
// Oracle: the record value that was marshalled, rendered to canonical text
// before marshalling (Marshal of some records sorts its argument in place).
// The marshalled bytes are unmarshalled twice: from a slice that ends exactly
// where Marshal stopped (reading further panics) and from a copy followed by
// 0xff bytes (reading further changes the result). Both must give the rendered
// value back and report exactly the number of bytes written. Record kinds whose
// receivers the library reuses between features are also unmarshalled into a
// receiver that held a different record before.
//
// Case i exercises record kind i % c11kinds.

const c11kinds = 15

// --------------------------------------------------------------------------
// generators

func c11u64(r *core.R) uint64 {
	switch r.Intn(12) {
	case 0:
		return 0
	case 1:
		return ^uint64(0)
	case 2:
		return 1 << 63
	case 3:
		return 1 << 62
	case 4:
		return 1<<63 - 1
	case 5:
		return 1<<63 | uint64(r.Intn(100))
	case 6:
		return 1 << uint(r.Intn(64))
	case 7, 8, 9:
		return uint64(r.Intn(5000)) // OSM-like small IDs, small deltas
	default:
		return r.U64()
	}
}

func c11i32(r *core.R) int32 {
	switch r.Intn(8) {
	case 0:
		return 0
	case 1:
		return 1<<31 - 1
	case 2:
		return -1 << 31
	case 3:
		return -1
	case 4:
		return int32(r.Range(-1800000000, 1800000000))
	default:
		return int32(515000000 + r.Range(-200000, 200000))
	}
}

type c11gen struct {
	r   *core.R
	nss compact.Namespaces
	nt  *compact.NamespaceTable
	max compact.Namespace // encoded namespaces 1..max exist in nt
	big bool              // some generated list has a delta of magnitude >= 2^62 between primary references
}

// noteDeltas records whether delta coding rs against primary meets a delta of
// magnitude >= 2^62, in the given or in sorted order (some records sort first).
func (g *c11gen) noteDeltas(rs compact.References, primary compact.TypeAndNamespace) {
	for _, list := range []compact.References{rs, c11sortedRefs(rs)} {
		last := uint64(0)
		for _, r := range list {
			if r.TypeAndNamespace != primary {
				continue
			}
			if d := int64(r.Value - last); d >= 1<<62 || d < -(1<<62) {
				g.big = true
			}
			last = r.Value
		}
	}
}

var c11namespaces = []b6.Namespace{b6.NamespaceOSMNode, b6.NamespaceOSMWay, b6.NamespaceOSMRelation, "diagonal.works/ns/a", "diagonal.works/ns/b", b6.NamespaceLatLng}

func c11new(r *core.R) *c11gen {
	g := &c11gen{r: r, nt: &compact.NamespaceTable{}}
	g.nt.FillFromNamespaces(c11namespaces)
	g.max = compact.Namespace(len(c11namespaces))
	for t := range g.nss {
		g.nss[t] = compact.Namespace(r.Range(1, int(g.max)))
	}
	return g
}

func (g *c11gen) tns(t b6.FeatureType) compact.TypeAndNamespace {
	return compact.CombineTypeAndNamespace(t, compact.Namespace(g.r.Range(1, int(g.max))))
}

func (g *c11gen) anyTns() compact.TypeAndNamespace {
	return g.tns(b6.FeatureType(g.r.Intn(int(b6.FeatureTypeEnd))))
}

func (g *c11gen) primary(t b6.FeatureType) compact.TypeAndNamespace {
	return compact.CombineTypeAndNamespace(t, g.nss[t])
}

// ref generates a reference that is in the primary namespace about half of the time.
func (g *c11gen) ref(primary compact.TypeAndNamespace) compact.Reference {
	ref := compact.Reference{TypeAndNamespace: primary, Value: c11u64(g.r)}
	if primary == compact.TypeAndNamespaceInvalid || g.r.Chance(0.4) {
		ref.TypeAndNamespace = g.anyTns()
	}
	return ref
}

func (g *c11gen) refs(primary compact.TypeAndNamespace, max int) compact.References {
	n := g.r.ExpInt(max)
	if g.r.Chance(0.1) {
		n = 0
	}
	rs := make(compact.References, n)
	for i := range rs {
		rs[i] = g.ref(primary)
		if i > 0 && g.r.Chance(0.3) { // small steps, duplicates
			rs[i] = compact.Reference{TypeAndNamespace: rs[i-1].TypeAndNamespace, Value: rs[i-1].Value + uint64(int64(g.r.Range(-3, 3)))}
		}
	}
	g.noteDeltas(rs, primary)
	return rs
}

func (g *c11gen) latlng() compact.LatLng {
	return compact.LatLng{LatE7: c11i32(g.r), LngE7: c11i32(g.r)}
}

func (g *c11gen) latlngs(max int) compact.LatLngs {
	n := g.r.ExpInt(max)
	lls := make(compact.LatLngs, n)
	for i := range lls {
		lls[i] = g.latlng()
	}
	return lls
}

func (g *c11gen) mixed(primary compact.TypeAndNamespace, max int) compact.ReferencesAndLatLngs {
	n := g.r.ExpInt(max)
	m := make(compact.ReferencesAndLatLngs, n)
	for i := range m {
		if g.r.Bool() {
			m[i].Reference = g.ref(primary)
		} else {
			m[i].LatLng = g.latlng()
		}
	}
	var rs compact.References
	for _, e := range m {
		if e.Reference != compact.ReferenceInvald {
			rs = append(rs, e.Reference)
		}
	}
	g.noteDeltas(rs, primary)
	return m
}

func (g *c11gen) value(primary compact.TypeAndNamespace) compact.Value {
	switch g.r.Intn(8) {
	case 0:
		ll := g.latlng()
		return &ll
	case 1:
		lls := g.latlngs(12)
		return &lls
	case 2:
		rs := g.refs(primary, 12)
		return &rs
	case 3:
		m := g.mixed(primary, 12)
		return &m
	default:
		var i compact.Int
		switch g.r.Intn(4) {
		case 0:
			i = compact.Int(g.r.Intn(4))
		case 1:
			i = compact.Int(1<<62 - 1 - g.r.Intn(2))
		default:
			i = compact.Int(g.r.Intn(100000))
		}
		return &i
	}
}

func (g *c11gen) tags(primary compact.TypeAndNamespace, max int) compact.Tags {
	n := g.r.ExpInt(max)
	ts := make(compact.Tags, n)
	for i := range ts {
		ts[i].Key = g.r.Intn(200)
		if g.r.Chance(0.1) {
			ts[i].Key = 1<<31 + g.r.Intn(100)
		}
		ts[i].Value = g.value(primary)
	}
	return ts
}

func (g *c11gen) ints(max int, sorted bool) []int {
	n := g.r.ExpInt(max)
	is := make([]int, n)
	for i := range is {
		is[i] = g.r.Intn(200)
		if !sorted && g.r.Chance(0.2) {
			is[i] = int(c11u64(g.r))
		}
	}
	if sorted {
		sort.Ints(is)
	}
	return is
}

func (g *c11gen) polygonLatLngs() compact.PolygonGeometryLatLngs {
	return compact.PolygonGeometryLatLngs{Loops: g.ints(3, g.r.Chance(0.8)), Points: g.latlngs(10)}
}

func (g *c11gen) areaGeometry(paths compact.TypeAndNamespace) compact.AreaGeometry {
	switch g.r.Intn(3) {
	case 0:
		return &compact.AreaGeometryReferences{Polygons: g.ints(4, g.r.Chance(0.8)), Paths: g.refs(paths, 10)}
	case 1:
		a := &compact.AreaGeometryLatLngs{}
		for n := g.r.ExpInt(4); n > 0; n-- {
			a.Polygons = append(a.Polygons, g.polygonLatLngs())
		}
		return a
	default:
		a := &compact.AreaGeometryMixed{}
		for n := g.r.ExpInt(9); n > 0; n-- {
			var p compact.PolygonGeometryMixed
			if g.r.Bool() {
				p.References.Paths = g.refs(paths, 6)
				if len(p.References.Paths) == 0 {
					p.References.Paths = compact.References{g.ref(paths)}
				}
			} else {
				p.LatLngs = g.polygonLatLngs()
			}
			a.Polygons = append(a.Polygons, p)
		}
		return a
	}
}

func (g *c11gen) members(primary compact.TypeAndNamespace, max int) compact.Members {
	n := g.r.ExpInt(max)
	ms := make(compact.Members, n)
	for i := range ms {
		ms[i] = compact.Member{Type: b6.FeatureType(g.r.Intn(int(b6.FeatureTypeEnd))), Role: g.r.Intn(50), ID: g.ref(primary)}
		if g.r.Chance(0.1) {
			ms[i].Role = 1<<40 + g.r.Intn(5)
		}
	}
	return ms
}

func c11string(r *core.R) string {
	switch r.Intn(8) {
	case 0:
		return ""
	case 1:
		return string([]byte{byte(r.Intn(256))})
	case 2:
		return string(c11bytes(r, r.Range(128, 700))) // two-byte length varint, arbitrary bytes
	case 3:
		return "\xff\x00\x80"
	default:
		return core.Pick(r, []string{"highway=primary", "amenity=cafe", "building", "#boundary=administrative", "a", "name:latin"}) + fmt.Sprint(r.Intn(20))
	}
}

// --------------------------------------------------------------------------
// rendering (the canonical text that is compared)

func c11renderRef(r compact.Reference) string {
	t, ns := r.TypeAndNamespace.Split()
	return fmt.Sprintf("%d/%d/%d", int(t), int(ns), r.Value)
}

func c11renderRefs(rs compact.References) string {
	parts := make([]string, len(rs))
	for i, r := range rs {
		parts[i] = c11renderRef(r)
	}
	return "[" + strings.Join(parts, " ") + "]"
}

func c11sortedRefs(rs compact.References) compact.References {
	out := append(compact.References(nil), rs...)
	sort.SliceStable(out, func(i, j int) bool {
		if out[i].TypeAndNamespace != out[j].TypeAndNamespace {
			return out[i].TypeAndNamespace < out[j].TypeAndNamespace
		}
		return out[i].Value < out[j].Value
	})
	return out
}

func c11renderLatLngs(lls compact.LatLngs) string {
	parts := make([]string, len(lls))
	for i, ll := range lls {
		parts[i] = fmt.Sprintf("%d,%d", ll.LatE7, ll.LngE7)
	}
	return "[" + strings.Join(parts, " ") + "]"
}

func c11renderMixed(m compact.ReferencesAndLatLngs) string {
	parts := make([]string, len(m))
	for i, e := range m {
		if e.Reference != compact.ReferenceInvald {
			parts[i] = "ref:" + c11renderRef(e.Reference)
			if e.LatLng != (compact.LatLng{}) {
				parts[i] += fmt.Sprintf("+stray-latlng:%d,%d", e.LatLng.LatE7, e.LatLng.LngE7)
			}
		} else {
			parts[i] = fmt.Sprintf("ll:%d,%d", e.LatLng.LatE7, e.LatLng.LngE7)
		}
	}
	return "[" + strings.Join(parts, " ") + "]"
}

func c11renderValue(v compact.Value) string {
	switch v := v.(type) {
	case *compact.Int:
		return fmt.Sprintf("int:%d", int(*v))
	case *compact.LatLng:
		return fmt.Sprintf("latlng:%d,%d", v.LatE7, v.LngE7)
	case *compact.LatLngs:
		return "latlngs:" + c11renderLatLngs(*v)
	case *compact.References:
		return "refs:" + c11renderRefs(*v)
	case *compact.ReferencesAndLatLngs:
		return "mixed:" + c11renderMixed(*v)
	case nil:
		return "<nil>"
	}
	return fmt.Sprintf("?%T", v)
}

func c11renderTags(ts compact.Tags) string {
	parts := make([]string, len(ts))
	for i, t := range ts {
		parts[i] = fmt.Sprintf("%d=%s", t.Key, c11renderValue(t.Value))
	}
	return "{" + strings.Join(parts, "; ") + "}"
}

func c11renderPolygonLatLngs(p compact.PolygonGeometryLatLngs) string {
	return fmt.Sprintf("loops%v points%s", append([]int{}, p.Loops...), c11renderLatLngs(p.Points))
}

func c11renderGeometry(a compact.AreaGeometry) string {
	switch a := a.(type) {
	case *compact.AreaGeometryReferences:
		return fmt.Sprintf("references polygons%v paths%s", append([]int{}, a.Polygons...), c11renderRefs(a.Paths))
	case *compact.AreaGeometryLatLngs:
		parts := make([]string, len(a.Polygons))
		for i, p := range a.Polygons {
			parts[i] = c11renderPolygonLatLngs(p)
		}
		return "latlngs (" + strings.Join(parts, ") (") + ")"
	case *compact.AreaGeometryMixed:
		parts := make([]string, len(a.Polygons))
		for i, p := range a.Polygons {
			if len(p.References.Paths) > 0 {
				parts[i] = "paths" + c11renderRefs(p.References.Paths)
			} else {
				parts[i] = c11renderPolygonLatLngs(p.LatLngs)
			}
		}
		return "mixed (" + strings.Join(parts, ") (") + ")"
	case nil:
		return "<nil>"
	}
	return fmt.Sprintf("?%T", a)
}

func c11renderMembers(ms compact.Members) string {
	parts := make([]string, len(ms))
	for i, m := range ms {
		parts[i] = fmt.Sprintf("%d:%d:%s", int(m.Type), m.Role, c11renderRef(m.ID))
	}
	return "[" + strings.Join(parts, " ") + "]"
}

func c11renderExpression(e b6.AnyExpression) string {
	switch e := e.(type) {
	case nil:
		return "<nil>"
	case b6.StringExpression:
		return fmt.Sprintf("string:%q", string(e))
	case b6.PointExpression:
		return fmt.Sprintf("point:%d,%d", e.Lat.E7(), e.Lng.E7())
	case b6.FeatureIDExpression:
		return fmt.Sprintf("id:%d/%s/%d", int(e.Type), e.Namespace, e.Value)
	case b6.Expressions:
		parts := make([]string, len(e))
		for i, x := range e {
			parts[i] = c11renderExpression(x)
		}
		return "[" + strings.Join(parts, " ") + "]"
	}
	return fmt.Sprintf("?%T", e)
}

// --------------------------------------------------------------------------
// the round trip

type c11codec struct {
	kind      string
	want      string
	marshal   func(buffer []byte) int
	unmarshal func(buffer []byte) (string, int) // into a fresh receiver
	// optional: unmarshal into a receiver that decoded `other` before
	dirty func(other, buffer []byte) (string, int)
	other func(buffer []byte) int // marshals a different record of the same kind
	class string                  // input class, appended to the signature
}

func c11check(c *core.Ctx, k c11codec) []byte {
	buffer := bytes.Repeat([]byte{0xa5}, 1<<14)
	var n int
	if panicked, class, frame, _ := core.Protect(func() { n = k.marshal(buffer) }); panicked {
		c.Violate(k.kind+".Marshal:panic@"+frame+k.class, k.want, "marshalling %s panicked: %s", c11clip(k.want), class)
		return nil
	}
	c.Count("roundtrips_" + k.kind)
	exact := append(make([]byte, 0, n), buffer[:n]...)
	padded := append(append(make([]byte, 0, n+32), buffer[:n]...), bytes.Repeat([]byte{0xff}, 32)...)
	try := func(how string, f func() (string, int)) {
		var got string
		var consumed int
		if panicked, class, frame, _ := core.Protect(func() { got, consumed = f() }); panicked {
			c.Violate(k.kind+".Unmarshal:panic@"+frame+k.class, map[string]any{"value": k.want, "bytes": fmt.Sprintf("%x", c11clipBytes(exact))},
				"unmarshalling (%s) the %d bytes of %s panicked: %s", how, n, c11clip(k.want), class)
			return
		}
		if got != k.want {
			c.Violate(k.kind+":value-differs"+k.class, map[string]any{"marshalled": k.want, "unmarshalled": got, "bytes": fmt.Sprintf("%x", c11clipBytes(exact)), "how": how},
				"%s (%s): marshalled %s, unmarshalled %s", k.kind, how, c11clip(k.want), c11clip(got))
		}
		if consumed != n {
			c.Violate(k.kind+":consumed-differs"+k.class, map[string]any{"value": k.want, "written": n, "consumed": consumed, "how": how},
				"%s (%s): Marshal wrote %d bytes, Unmarshal reports %d for %s", k.kind, how, n, consumed, c11clip(k.want))
		}
	}
	try("exact slice", func() (string, int) { return k.unmarshal(exact) })
	try("followed by 0xff", func() (string, int) { return k.unmarshal(padded) })
	if k.dirty != nil && k.other != nil {
		obuf := make([]byte, 1<<14)
		var on int
		if panicked, _, _, _ := core.Protect(func() { on = k.other(obuf) }); !panicked {
			c.Count("reused_receivers")
			try("reused receiver", func() (string, int) { return k.dirty(obuf[:on:on], exact) })
		}
	}
	return exact
}

func c11clip(s string) string {
	if len(s) > 600 {
		return s[:600] + "…"
	}
	return s
}

// --------------------------------------------------------------------------
// the kinds

func c11run(c *core.Ctx) {
	r := c.R
	g := c11new(r)
	kind := c.Index % c11kinds
	var keys []string
	note := func(k c11codec) { keys = append(keys, k.kind+k.class+" "+k.want) }
	run := func(k c11codec) []byte {
		if g.big && !strings.Contains(k.class, "|delta|") {
			k.class += ":|delta|>=2^62"
		}
		note(k)
		return c11check(c, k)
	}
	nontrivial := false

	switch kind {
	case 0: // Reference
		primary := g.anyTns()
		for i := 0; i < 4; i++ {
			ref := g.ref(primary)
			p := primary
			if r.Chance(0.2) {
				p = compact.TypeAndNamespaceInvalid
			}
			if ref.TypeAndNamespace == p {
				c.Count("reference_primary")
				if ref.Value>>63 == 1 {
					c.Count("reference_primary_bit63")
				}
			} else {
				c.Count("reference_explicit")
			}
			exact := run(c11codec{kind: "Reference", want: c11renderRef(ref),
				marshal: func(b []byte) int { return ref.Marshal(p, b) },
				unmarshal: func(b []byte) (string, int) {
					var x compact.Reference
					n := x.Unmarshal(p, b)
					return c11renderRef(x), n
				},
			})
			if exact != nil {
				if l := compact.MarshalledReference(exact).Length(); l != len(exact) {
					c.Violate("MarshalledReference.Length:wrong", nil, "reference %s was marshalled in %d bytes, Length() = %d", c11renderRef(ref), len(exact), l)
				}
			}
			nontrivial = true
		}
	case 1: // References
		primary := g.anyTns()
		rs, other := g.refs(primary, 24), g.refs(primary, 24)
		class := c11deltaClass(c, rs, primary)
		want := c11renderRefs(rs)
		exact := run(c11codec{kind: "References", want: want, class: class,
			marshal: func(b []byte) int { return rs.Marshal(primary, b) },
			unmarshal: func(b []byte) (string, int) {
				var x compact.References
				n := x.Unmarshal(primary, b)
				return c11renderRefs(x), n
			},
			other: func(b []byte) int { return other.Marshal(primary, b) },
			dirty: func(o, b []byte) (string, int) {
				var x compact.References
				x.Unmarshal(primary, o)
				n := x.Unmarshal(primary, b)
				return c11renderRefs(x), n
			},
		})
		if exact != nil {
			if l := compact.MarshalledReferences(exact).Len(); l != len(rs) {
				c.Violate("MarshalledReferences.Len:wrong", nil, "%d references, Len() = %d", len(rs), l)
			}
		}
		run(c11codec{kind: "References.WithoutLength", want: want, class: class,
			marshal: func(b []byte) int { return rs.MarshalWithoutLength(primary, b) },
			unmarshal: func(b []byte) (string, int) {
				var x compact.References
				n := x.UnmarshalWithoutLength(len(rs), primary, b)
				return c11renderRefs(x), n
			},
		})
		nontrivial = len(rs) >= 2
	case 2: // LatLng, LatLngs
		ll := g.latlng()
		run(c11codec{kind: "LatLng", want: fmt.Sprintf("%d,%d", ll.LatE7, ll.LngE7),
			marshal: func(b []byte) int { return ll.Marshal(compact.TypeAndNamespaceInvalid, b) },
			unmarshal: func(b []byte) (string, int) {
				var x compact.LatLng
				n := x.Unmarshal(compact.TypeAndNamespaceInvalid, b)
				return fmt.Sprintf("%d,%d", x.LatE7, x.LngE7), n
			},
		})
		lls, other := g.latlngs(24), g.latlngs(24)
		for i := 1; i < len(lls); i++ {
			if d := int64(lls[i].LatE7) - int64(lls[i-1].LatE7); d > 1<<31-1 || d < -1<<31 {
				c.Count("latlngs_delta_wraps_int32")
			}
		}
		exact := run(c11codec{kind: "LatLngs", want: c11renderLatLngs(lls),
			marshal: func(b []byte) int { return lls.Marshal(compact.TypeAndNamespaceInvalid, b) },
			unmarshal: func(b []byte) (string, int) {
				var x compact.LatLngs
				n := x.Unmarshal(compact.TypeAndNamespaceInvalid, b)
				return c11renderLatLngs(x), n
			},
			other: func(b []byte) int { return other.Marshal(compact.TypeAndNamespaceInvalid, b) },
			dirty: func(o, b []byte) (string, int) {
				var x compact.LatLngs
				x.Unmarshal(compact.TypeAndNamespaceInvalid, o)
				n := x.Unmarshal(compact.TypeAndNamespaceInvalid, b)
				return c11renderLatLngs(x), n
			},
		})
		if exact != nil {
			if l := compact.MarshalledReferences(exact).Len(); l != len(lls) {
				c.Violate("MarshalledReferences.Len:wrong-for-latlngs", nil, "%d lat/lngs, Len() = %d", len(lls), l)
			}
		}
		nontrivial = len(lls) >= 2
	case 3: // ReferencesAndLatLngs
		primary := g.anyTns()
		m := g.mixed(primary, 24)
		var onlyRefs compact.References
		for _, e := range m {
			if e.Reference != compact.ReferenceInvald {
				onlyRefs = append(onlyRefs, e.Reference)
			}
		}
		class := c11deltaClass(c, onlyRefs, primary)
		if len(m)%8 == 0 && len(m) > 0 {
			c.Count("mixed_length_multiple_of_8")
		}
		run(c11codec{kind: "ReferencesAndLatLngs", want: c11renderMixed(m), class: class,
			marshal: func(b []byte) int { return m.Marshal(primary, b) },
			unmarshal: func(b []byte) (string, int) {
				var x compact.ReferencesAndLatLngs
				n := x.Unmarshal(primary, b)
				return c11renderMixed(x), n
			},
		})
		nontrivial = len(onlyRefs) >= 1 && len(onlyRefs) < len(m)
	case 4: // Bits
		n := r.ExpInt(80)
		if r.Chance(0.3) {
			n = 8 * r.Intn(6)
		}
		bits, other := make(compact.Bits, n), make(compact.Bits, r.Intn(90))
		for i := range bits {
			bits[i] = r.Bool()
		}
		for i := range other {
			other[i] = true
		}
		if n%8 == 0 {
			c.Count("bits_length_multiple_of_8")
		} else {
			c.Count("bits_length_partial_byte")
		}
		run(c11codec{kind: "Bits", want: fmt.Sprint([]bool(bits)),
			marshal:   func(b []byte) int { return bits.Marshal(b) },
			unmarshal: func(b []byte) (string, int) { var x compact.Bits; n := x.Unmarshal(b); return fmt.Sprint([]bool(x)), n },
			other:     func(b []byte) int { return other.Marshal(b) },
			dirty: func(o, b []byte) (string, int) {
				var x compact.Bits
				x.Unmarshal(o)
				n := x.Unmarshal(b)
				return fmt.Sprint([]bool(x)), n
			},
		})
		nontrivial = n >= 2
	case 5: // Tags, and their view through MarshalledTags
		primary := g.anyTns()
		if r.Chance(0.3) {
			primary = compact.TypeAndNamespaceInvalid
		}
		ts, other := g.tags(primary, 10), g.tags(primary, 10)
		for _, t := range ts {
			c.Count("tag_value_" + strings.SplitN(c11renderValue(t.Value), ":", 2)[0])
		}
		exact := run(c11codec{kind: "Tags", want: c11renderTags(ts),
			marshal: func(b []byte) int { return ts.Marshal(primary, b) },
			unmarshal: func(b []byte) (string, int) {
				var x compact.Tags
				n := x.Unmarshal(primary, b)
				return c11renderTags(x), n
			},
			other: func(b []byte) int { return other.Marshal(primary, b) },
			dirty: func(o, b []byte) (string, int) {
				var x compact.Tags
				x.Unmarshal(primary, o)
				n := x.Unmarshal(primary, b)
				return c11renderTags(x), n
			},
		})
		if exact != nil {
			c11marshalledTags(c, g, ts, primary, exact)
		}
		nontrivial = len(ts) >= 2
	case 6: // Members
		primary := g.anyTns()
		ms, other := g.members(primary, 16), g.members(primary, 16)
		exact := run(c11codec{kind: "Members", want: c11renderMembers(ms),
			marshal: func(b []byte) int { return ms.Marshal(primary, b) },
			unmarshal: func(b []byte) (string, int) {
				var x compact.Members
				n := x.Unmarshal(primary, b)
				return c11renderMembers(x), n
			},
			other: func(b []byte) int { return other.Marshal(primary, b) },
			dirty: func(o, b []byte) (string, int) {
				var x compact.Members
				x.Unmarshal(primary, o)
				n := x.Unmarshal(primary, b)
				return c11renderMembers(x), n
			},
		})
		if exact != nil {
			if l := compact.MarshalledMembers(exact).Len(); l != len(ms) {
				c.Violate("MarshalledMembers.Len:wrong", nil, "%d members, Len() = %d", len(ms), l)
			}
		}
		nontrivial = len(ms) >= 2
	case 7: // area geometries
		paths := g.primary(b6.FeatureTypePath)
		a := g.areaGeometry(paths)
		want := c11renderGeometry(a)
		name := strings.SplitN(want, " ", 2)[0]
		c.Count("area_geometry_" + name)
		if ar, ok := a.(*compact.AreaGeometryReferences); ok {
			if len(ar.Polygons) == 0 {
				c.Count("area_geometry_references_single_polygon")
			} else if len(ar.Polygons) >= 2 {
				c.Count("area_geometry_references_3_or_more_polygons")
			}
		}
		// through the dispatching reader the Area record uses
		run(c11codec{kind: "AreaGeometry(" + name + ")", want: want,
			marshal: func(b []byte) int { return a.Marshal(paths, b) },
			unmarshal: func(b []byte) (string, int) {
				x, n := compact.UnmarshalAreaGeometry(paths, b)
				return c11renderGeometry(x), n
			},
		})
		// through the type's own Unmarshal
		k := c11codec{kind: "AreaGeometry(" + name + ").Unmarshal", want: want, marshal: func(b []byte) int { return a.Marshal(paths, b) }}
		switch a.(type) {
		case *compact.AreaGeometryReferences:
			k.unmarshal = func(b []byte) (string, int) {
				var x compact.AreaGeometryReferences
				n := x.Unmarshal(paths, b)
				return c11renderGeometry(&x), n
			}
		case *compact.AreaGeometryLatLngs:
			k.unmarshal = func(b []byte) (string, int) {
				var x compact.AreaGeometryLatLngs
				n := x.Unmarshal(paths, b)
				return c11renderGeometry(&x), n
			}
		case *compact.AreaGeometryMixed:
			k.unmarshal = func(b []byte) (string, int) {
				var x compact.AreaGeometryMixed
				n := x.Unmarshal(paths, b)
				return c11renderGeometry(&x), n
			}
		}
		run(k)
		// the polygon records on their own
		pl := g.polygonLatLngs()
		run(c11codec{kind: "PolygonGeometryLatLngs", want: c11renderPolygonLatLngs(pl),
			marshal: func(b []byte) int { return pl.Marshal(b) },
			unmarshal: func(b []byte) (string, int) {
				var x compact.PolygonGeometryLatLngs
				n := x.Unmarshal(b)
				return c11renderPolygonLatLngs(x), n
			},
		})
		pr := compact.PolygonGeometryReferences{Paths: g.refs(paths, 8)}
		run(c11codec{kind: "PolygonGeometryReferences", want: c11renderRefs(pr.Paths),
			marshal: func(b []byte) int { return pr.Marshal(paths, b) },
			unmarshal: func(b []byte) (string, int) {
				var x compact.PolygonGeometryReferences
				n := x.Unmarshal(paths, b)
				return c11renderRefs(x.Paths), n
			},
		})
		nontrivial = a.Len() >= 1
	case 8: // point records
		pathNs := g.primary(b6.FeatureTypePath)
		relNs := g.primary(b6.FeatureTypeRelation)
		ts := g.tags(compact.TypeAndNamespaceInvalid, 5)
		path := g.ref(pathNs)
		cp := compact.CommonPoint{Tags: ts, Path: path}
		wantCP := c11renderTags(ts) + " path " + c11renderRef(path)
		readCP := func(b []byte) (string, int) {
			var x compact.CommonPoint
			n := x.Unmarshal(&g.nss, b)
			return c11renderTags(x.Tags) + " path " + c11renderRef(x.Path), n
		}
		exactCP := run(c11codec{kind: "CommonPoint", want: wantCP, marshal: func(b []byte) int { return cp.Marshal(&g.nss, b) }, unmarshal: readCP})
		// the builder's way of making the same record from an already marshalled point
		pointBytes := make([]byte, 1<<14)
		pointBytes = pointBytes[:ts.Marshal(compact.TypeAndNamespaceInvalid, pointBytes)]
		if exactCP != nil {
			combined := make([]byte, 1<<14)
			n := compact.CombinePointAndPath(pointBytes, &g.nss, path, combined)
			if !bytes.Equal(combined[:n], exactCP) {
				c.Violate("CombinePointAndPath:differs-from-CommonPoint.Marshal", nil, "%s: CommonPoint.Marshal wrote %x, CombinePointAndPath %x", c11clip(wantCP), c11clipBytes(exactCP), c11clipBytes(combined[:n]))
			}
		}
		paths, relations := g.refs(pathNs, 10), g.refs(relNs, 10)
		wantPR := "paths " + c11renderRefs(c11sortedRefs(paths)) + " relations " + c11renderRefs(c11sortedRefs(relations))
		renderPR := func(p compact.PointReferences) string {
			return "paths " + c11renderRefs(c11sortedRefs(p.Paths)) + " relations " + c11renderRefs(c11sortedRefs(p.Relations))
		}
		copyPR := func() compact.PointReferences {
			return compact.PointReferences{Paths: append(compact.References(nil), paths...), Relations: append(compact.References(nil), relations...)}
		}
		classPR := c11deltaClass(c, c11sortedRefs(paths), pathNs) + c11deltaClass(c, c11sortedRefs(relations), relNs)
		if classPR != "" {
			classPR = ":|delta|>=2^62"
		}
		otherPR := compact.PointReferences{Paths: g.refs(pathNs, 10), Relations: g.refs(relNs, 10)}
		run(c11codec{kind: "PointReferences", want: wantPR, class: classPR,
			marshal: func(b []byte) int { p := copyPR(); return p.Marshal(&g.nss, b) },
			unmarshal: func(b []byte) (string, int) {
				var x compact.PointReferences
				n := x.Unmarshal(&g.nss, b)
				return renderPR(x), n
			},
			other: func(b []byte) int { return otherPR.Marshal(&g.nss, b) },
			dirty: func(o, b []byte) (string, int) {
				var x compact.PointReferences
				x.Unmarshal(&g.nss, o)
				n := x.Unmarshal(&g.nss, b)
				return renderPR(x), n
			},
		})
		wantFP := c11renderTags(ts) + " " + wantPR
		readFP := func(b []byte) (string, int) {
			var x compact.FullPoint
			n := x.Unmarshal(&g.nss, b)
			return c11renderTags(x.Tags) + " " + renderPR(x.PointReferences), n
		}
		exactFP := run(c11codec{kind: "FullPoint", want: wantFP, class: classPR,
			marshal: func(b []byte) int {
				p := compact.FullPoint{Tags: ts, PointReferences: copyPR()}
				return p.Marshal(&g.nss, b)
			},
			unmarshal: readFP,
		})
		if exactFP != nil {
			combined := make([]byte, 1<<14)
			n := compact.CombinePointAndReferences(pointBytes, copyPR(), &g.nss, combined)
			if !bytes.Equal(combined[:n], exactFP) {
				c.Violate("CombinePointAndReferences:differs-from-FullPoint.Marshal", nil, "%s: FullPoint.Marshal wrote %x, CombinePointAndReferences %x", c11clip(wantFP), c11clipBytes(exactFP), c11clipBytes(combined[:n]))
			}
		}
		nontrivial = len(paths)+len(relations) >= 2
	case 9: // Path
		pointNs := g.primary(b6.FeatureTypePoint)
		areaNs := g.primary(b6.FeatureTypeArea)
		relNs := g.primary(b6.FeatureTypeRelation)
		mk := func() (compact.Path, string, string) {
			ts := g.tags(pointNs, 6)
			areas, relations := g.refs(areaNs, 8), g.refs(relNs, 8)
			p := compact.Path{Tags: ts, Areas: areas, Relations: relations}
			class := c11deltaClass(c, c11sortedRefs(areas), areaNs) + c11deltaClass(c, relations, relNs)
			if class != "" {
				class = ":|delta|>=2^62"
			}
			return p, c11renderTags(ts) + " areas " + c11renderRefs(c11sortedRefs(areas)) + " relations " + c11renderRefs(relations), class
		}
		render := func(x compact.Path) string {
			return c11renderTags(x.Tags) + " areas " + c11renderRefs(c11sortedRefs(x.Areas)) + " relations " + c11renderRefs(x.Relations)
		}
		p, want, class := mk()
		o, _, _ := mk()
		run(c11codec{kind: "Path", want: want, class: class,
			marshal: func(b []byte) int {
				q := p
				q.Areas = append(compact.References(nil), p.Areas...)
				return q.Marshal(&g.nss, b)
			},
			unmarshal: func(b []byte) (string, int) { var x compact.Path; n := x.Unmarshal(&g.nss, b); return render(x), n },
			other:     func(b []byte) int { return o.Marshal(&g.nss, b) },
			dirty: func(ob, b []byte) (string, int) {
				var x compact.Path
				x.Unmarshal(&g.nss, ob)
				n := x.Unmarshal(&g.nss, b)
				return render(x), n
			},
		})
		nontrivial = len(p.Tags)+len(p.Areas)+len(p.Relations) >= 2
	case 10: // Area
		pathNs := g.primary(b6.FeatureTypePath)
		relNs := g.primary(b6.FeatureTypeRelation)
		ts := g.tags(compact.TypeAndNamespaceInvalid, 6)
		geometry := g.areaGeometry(pathNs)
		relations := g.refs(relNs, 8)
		class := ""
		for _, rel := range relations {
			if rel.TypeAndNamespace == relNs {
				c.Count("area_relation_in_relation_namespace")
				class = ":relations-in-the-relation-namespace"
			}
		}
		if class == "" {
			for _, rel := range relations {
				if rel.TypeAndNamespace == pathNs {
					class = ":relations-in-the-path-namespace"
				}
			}
		}
		if dc := c11deltaClass(c, relations, relNs); dc != "" {
			class += dc
		}
		a := compact.Area{Tags: ts, Polygons: geometry, Relations: relations}
		want := c11renderTags(ts) + " geometry " + c11renderGeometry(geometry) + " relations " + c11renderRefs(relations)
		exact := run(c11codec{kind: "Area", want: want, class: class,
			marshal: func(b []byte) int { return a.Marshal(&g.nss, b) },
			unmarshal: func(b []byte) (string, int) {
				var x compact.Area
				n := x.Unmarshal(&g.nss, b)
				return c11renderTags(x.Tags) + " geometry " + c11renderGeometry(x.Polygons) + " relations " + c11renderRefs(x.Relations), n
			},
		})
		if exact != nil {
			if panicked, pclass, frame, _ := core.Protect(func() {
				if l := compact.MarshalledArea(exact).Len(); l != geometry.Len() {
					c.Violate("MarshalledArea.Len:wrong", nil, "%s has %d polygons, Len() = %d", c11clip(want), geometry.Len(), l)
				}
				if got := c11renderGeometry(compact.MarshalledArea(exact).UnmarshalPolygons(pathNs)); got != c11renderGeometry(geometry) {
					c.Violate("MarshalledArea.UnmarshalPolygons:differs", nil, "marshalled geometry %s, UnmarshalPolygons gives %s", c11clip(c11renderGeometry(geometry)), c11clip(got))
				}
			}); panicked {
				c.Violate("MarshalledArea:panic@"+frame, want, "reading the marshalled area %s panicked: %s", c11clip(want), pclass)
			}
		}
		nontrivial = len(relations) >= 1
	case 11: // Relation
		primaryType := b6.FeatureType(r.Intn(int(b6.FeatureTypeEnd)))
		primary := g.primary(primaryType)
		relNs := g.primary(b6.FeatureTypeRelation)
		mk := func() (compact.Relation, string, string) {
			ts := g.tags(compact.TypeAndNamespaceInvalid, 6)
			ms := g.members(primary, 10)
			relations := g.refs(relNs, 6)
			return compact.Relation{Tags: ts, Members: ms, Relations: relations},
				c11renderTags(ts) + " members " + c11renderMembers(ms) + " relations " + c11renderRefs(relations), c11deltaClass(c, relations, relNs)
		}
		render := func(x compact.Relation) string {
			return c11renderTags(x.Tags) + " members " + c11renderMembers(x.Members) + " relations " + c11renderRefs(x.Relations)
		}
		rel, want, class := mk()
		o, _, _ := mk()
		for _, m := range rel.Members {
			t, _ := m.ID.TypeAndNamespace.Split()
			c.Count(fmt.Sprintf("relation_member_type_%d", int(t)))
		}
		exact := run(c11codec{kind: "Relation", want: want, class: class,
			marshal: func(b []byte) int { return rel.Marshal(primaryType, &g.nss, b) },
			unmarshal: func(b []byte) (string, int) {
				var x compact.Relation
				n := x.Unmarshal(primaryType, &g.nss, b)
				return render(x), n
			},
			other: func(b []byte) int { return o.Marshal(primaryType, &g.nss, b) },
			dirty: func(ob, b []byte) (string, int) {
				var x compact.Relation
				x.Unmarshal(primaryType, &g.nss, ob)
				n := x.Unmarshal(primaryType, &g.nss, b)
				return render(x), n
			},
		})
		if exact != nil {
			if panicked, pclass, frame, _ := core.Protect(func() {
				if l := compact.MarshalledRelation(exact).Len(); l != len(rel.Members) {
					c.Violate("MarshalledRelation.Len:wrong", nil, "%d members, Len() = %d", len(rel.Members), l)
				}
				var ms compact.Members
				compact.MarshalledRelation(exact).UnmarshalMembers(primaryType, &g.nss, &ms)
				if got := c11renderMembers(ms); got != c11renderMembers(rel.Members) {
					c.Violate("MarshalledRelation.UnmarshalMembers:differs", nil, "marshalled members %s, UnmarshalMembers gives %s", c11clip(c11renderMembers(rel.Members)), c11clip(got))
				}
			}); panicked {
				c.Violate("MarshalledRelation:panic@"+frame, want, "reading the marshalled relation %s panicked: %s", c11clip(want), pclass)
			}
		}
		nontrivial = len(rel.Members) >= 1
	case 12: // namespaces, headers
		run(c11codec{kind: "Namespaces", want: fmt.Sprint(g.nss),
			marshal:   func(b []byte) int { return g.nss.Marshal(b) },
			unmarshal: func(b []byte) (string, int) { var x compact.Namespaces; n := x.Unmarshal(b); return fmt.Sprint(x), n },
		})
		var big compact.Namespaces
		for t := range big {
			big[t] = compact.Namespace(1<<13 - 1 - r.Intn(3))
		}
		fh := compact.FeatureBlockHeader{FeatureType: b6.FeatureType(r.Intn(int(b6.FeatureTypeEnd))), Namespaces: big}
		renderFH := func(x compact.FeatureBlockHeader) string {
			return fmt.Sprintf("%d %v", int(x.FeatureType), x.Namespaces)
		}
		run(c11codec{kind: "FeatureBlockHeader", want: renderFH(fh),
			marshal: func(b []byte) int { return fh.Marshal(b) },
			unmarshal: func(b []byte) (string, int) {
				var x compact.FeatureBlockHeader
				n := x.Unmarshal(b)
				return renderFH(x), n
			},
		})
		h := compact.Header{Magic: c11u64(r), VersionOffset: encoding.Offset(c11u64(r)), HeaderProtoOffset: encoding.Offset(r.Intn(1 << 20)), StringsOffset: encoding.Offset(c11u64(r) >> 1), BlockOffset: encoding.Offset(-1 - r.Intn(3))}
		run(c11codec{kind: "Header", want: fmt.Sprintf("%+v", h),
			marshal: func(b []byte) int { return h.Marshal(b) },
			unmarshal: func(b []byte) (string, int) {
				var x compact.Header
				n := x.Unmarshal(b)
				return fmt.Sprintf("%+v", x), n
			},
		})
		bh := compact.BlockHeader{Length: c11u64(r), Type: compact.BlockType(r.Intn(2))}
		run(c11codec{kind: "BlockHeader", want: fmt.Sprintf("%+v", bh),
			marshal: func(b []byte) int { return bh.Marshal(b) },
			unmarshal: func(b []byte) (string, int) {
				var x compact.BlockHeader
				n := x.Unmarshal(b)
				return fmt.Sprintf("%+v", x), n
			},
		})
		c11namespaceTable(c, r)
		nontrivial = true
	case 13: // token map
		nontrivial = c11tokenMap(c, r, &keys)
	case 14: // posting list header, namespace indices, strings
		var nis compact.NamespaceIndicies
		for n := r.ExpInt(8); n > 0; n-- {
			ni := compact.NamespaceIndex{TypeAndNamespace: g.anyTns(), Index: 64 * r.Intn(1000)}
			if r.Chance(0.1) {
				ni.Index = 1<<40 + r.Intn(64)
			}
			nis = append(nis, ni)
		}
		other := compact.NamespaceIndicies{{TypeAndNamespace: 9, Index: 9}, {TypeAndNamespace: 9, Index: 9}, {TypeAndNamespace: 9, Index: 9}}
		run(c11codec{kind: "NamespaceIndicies", want: fmt.Sprint([]compact.NamespaceIndex(nis)),
			marshal: func(b []byte) int { return nis.Marshal(b) },
			unmarshal: func(b []byte) (string, int) {
				var x compact.NamespaceIndicies
				n := x.Unmarshal(b)
				return fmt.Sprint([]compact.NamespaceIndex(x)), n
			},
			other: func(b []byte) int { return other.Marshal(b) },
			dirty: func(o, b []byte) (string, int) {
				var x compact.NamespaceIndicies
				x.Unmarshal(o)
				n := x.Unmarshal(b)
				return fmt.Sprint([]compact.NamespaceIndex(x)), n
			},
		})
		plh := compact.PostingListHeader{Token: c11string(r), Features: r.Intn(1 << 30), Namespaces: nis}
		renderPLH := func(p compact.PostingListHeader) string {
			return fmt.Sprintf("%q %d %v", p.Token, p.Features, []compact.NamespaceIndex(p.Namespaces))
		}
		exact := run(c11codec{kind: "PostingListHeader", want: renderPLH(plh),
			marshal: func(b []byte) int { return plh.Marshal(b) },
			unmarshal: func(b []byte) (string, int) {
				var x compact.PostingListHeader
				n := x.Unmarshal(b)
				return renderPLH(x), n
			},
			other: func(b []byte) int {
				o := compact.PostingListHeader{Token: "other", Features: 3, Namespaces: other}
				return o.Marshal(b)
			},
			dirty: func(o, b []byte) (string, int) {
				var x compact.PostingListHeader
				x.Unmarshal(o)
				n := x.Unmarshal(b)
				return renderPLH(x), n
			},
		})
		if exact != nil {
			if got := compact.PostingListHeaderToken(exact); got != plh.Token {
				c.Violate("PostingListHeaderToken:differs", nil, "token %q reads back as %q", c11clipString(plh.Token), c11clipString(got))
			}
			c11stringEquals(c, "PostingListHeaderTokenEquals", compact.PostingListHeaderTokenEquals, exact, plh.Token)
		}
		for i := 0; i < 3; i++ {
			s := c11string(r)
			if len(s) == 0 {
				c.Count("string_empty")
			} else if len(s) >= 128 {
				c.Count("string_long")
			}
			exact := run(c11codec{kind: "String", want: fmt.Sprintf("%q", s),
				marshal:   func(b []byte) int { return compact.MarshalString(s, b) },
				unmarshal: func(b []byte) (string, int) { x, n := compact.UnmarshalString(b); return fmt.Sprintf("%q", x), n },
			})
			if exact != nil {
				c11stringEquals(c, "MarshalledStringEquals", compact.MarshalledStringEquals, exact, s)
			}
		}
		nontrivial = true
	}
	if nontrivial {
		c.Nontrivial()
	}
	c.Key("%s", strings.Join(keys, " | "))
	if c.Index < c11kinds {
		c.Sample(map[string]any{"kind": kind, "records": c11clip(strings.Join(keys, " | "))})
	}
}

// c11deltaClass counts (and names) the delta-coding extremes in a reference list.
func c11deltaClass(c *core.Ctx, rs compact.References, primary compact.TypeAndNamespace) string {
	class := ""
	last := uint64(0)
	for _, r := range rs {
		if r.TypeAndNamespace != primary {
			continue
		}
		c.Count("references_delta_coded")
		d := int64(r.Value - last)
		if d >= 1<<62 || d < -(1<<62) {
			c.Count("references_delta_ge_2_62")
			class = ":|delta|>=2^62"
		}
		if r.Value>>63 == 1 {
			c.Count("references_value_bit63")
		}
		last = r.Value
	}
	return class
}

func c11stringEquals(c *core.Ctx, name string, f func([]byte, string) bool, marshalled []byte, s string) {
	c.Count("string_equals")
	if !f(marshalled, s) {
		c.Violate(name+":false-for-marshalled-string", nil, "%s(marshalled %q, %q) is false", name, c11clipString(s), c11clipString(s))
	}
	var others []string
	if len(s) > 0 {
		b := []byte(s)
		b[len(b)-1] ^= 1
		others = append(others, string(b), s[:len(s)-1])
		b = []byte(s)
		b[0] ^= 0x80
		others = append(others, string(b))
	}
	others = append(others, s+"x")
	for _, o := range others {
		if f(marshalled, o) {
			c.Violate(name+":true-for-different-string", nil, "%s(marshalled %q, %q) is true", name, c11clipString(s), c11clipString(o))
		}
	}
}

// c11marshalledTags checks the read-only view of marshalled tags against the
// b6 tags the compact values stand for.
func c11marshalledTags(c *core.Ctx, g *c11gen, ts compact.Tags, primary compact.TypeAndNamespace, marshalled []byte) {
	strs := encoding.StringMap{}
	str := func(i int) string {
		if _, ok := strs[i]; !ok {
			strs[i] = fmt.Sprintf("s%d", i%7) // several indices share a text, as duplicate values do
			if i < 200 {
				strs[i] = fmt.Sprintf("k%d", i)
			}
		}
		return strs[i]
	}
	expression := func(v compact.Value) string {
		id := func(r compact.Reference) string {
			t, ns := r.TypeAndNamespace.Split()
			return fmt.Sprintf("id:%d/%s/%d", int(t), g.nt.Decode(ns), r.Value)
		}
		point := func(ll compact.LatLng) string {
			return c11renderExpression(b6.PointExpression(s2.LatLngFromDegrees(float64(ll.LatE7)/1e7, float64(ll.LngE7)/1e7)))
		}
		switch v := v.(type) {
		case *compact.Int:
			return fmt.Sprintf("string:%q", str(int(*v)))
		case *compact.LatLng:
			return point(*v)
		case *compact.LatLngs:
			parts := make([]string, len(*v))
			for i, ll := range *v {
				parts[i] = point(ll)
			}
			return "[" + strings.Join(parts, " ") + "]"
		case *compact.References:
			parts := make([]string, len(*v))
			for i, r := range *v {
				parts[i] = id(r)
			}
			return "[" + strings.Join(parts, " ") + "]"
		case *compact.ReferencesAndLatLngs:
			parts := make([]string, len(*v))
			for i, e := range *v {
				if e.Reference != compact.ReferenceInvald {
					parts[i] = id(e.Reference)
				} else {
					parts[i] = point(e.LatLng)
				}
			}
			return "[" + strings.Join(parts, " ") + "]"
		}
		return "?"
	}
	var want []string
	first := map[string]string{}
	class := map[string]string{}
	for _, t := range ts {
		k, e := str(t.Key), expression(t.Value)
		want = append(want, k+"="+e)
		if _, ok := first[k]; !ok {
			first[k] = e
			if m, ok := t.Value.(*compact.ReferencesAndLatLngs); ok {
				for _, x := range *m {
					if x.Reference == compact.ReferenceInvald {
						class[k] = ":mixed-path-with-latlng"
						c.Count("marshalledtags_mixed_with_latlng")
					}
				}
			}
		}
	}
	m := compact.MarshalledTags{Tags: marshalled, Strings: strs, Nt: g.nt, Tns: primary}
	var got []string
	if panicked, pclass, frame, _ := core.Protect(func() {
		for _, t := range m.AllTags() {
			got = append(got, t.Key+"="+c11renderExpression(t.Value.AnyExpression))
		}
	}); panicked {
		c.Violate("MarshalledTags.AllTags:panic@"+frame, nil, "AllTags of %s panicked: %s", c11clip(c11renderTags(ts)), pclass)
		return
	}
	c.Count("marshalledtags_alltags")
	if len(got) != len(want) {
		c.Violate("MarshalledTags.AllTags:wrong-number-of-tags", nil, "marshalled %d tags, AllTags returns %d", len(want), len(got))
	} else {
		for i := range want {
			if got[i] != want[i] {
				cls := ""
				if m, ok := ts[i].Value.(*compact.ReferencesAndLatLngs); ok {
					for _, x := range *m {
						if x.Reference == compact.ReferenceInvald {
							cls = ":mixed-path-with-latlng"
						}
					}
				}
				c.Violate("MarshalledTags.AllTags:tag-differs"+cls, map[string]any{"marshalled": want[i], "read": got[i]}, "tag %d: marshalled %s, AllTags gives %s", i, c11clip(want[i]), c11clip(got[i]))
				break
			}
		}
	}
	keys := make([]string, 0, len(first)+1)
	for k := range first {
		keys = append(keys, k)
	}
	sort.Strings(keys)
	keys = append(keys, "absent-key")
	for _, k := range keys {
		var gotE string
		var valid bool
		if panicked, pclass, frame, _ := core.Protect(func() {
			t := m.Get(k)
			valid = t.IsValid()
			if valid {
				gotE = c11renderExpression(t.Value.AnyExpression)
			}
		}); panicked {
			c.Violate("MarshalledTags.Get:panic@"+frame, nil, "Get(%q) of %s panicked: %s", k, c11clip(c11renderTags(ts)), pclass)
			continue
		}
		c.Count("marshalledtags_get")
		wantE, present := first[k]
		switch {
		case present && !valid:
			c.Violate("MarshalledTags.Get:missing", nil, "Get(%q) found nothing, the marshalled tags are %s", k, c11clip(strings.Join(want, "; ")))
		case !present && valid:
			c.Violate("MarshalledTags.Get:found-absent-key", nil, "Get(%q) = %s, the marshalled tags are %s", k, c11clip(gotE), c11clip(strings.Join(want, "; ")))
		case present && gotE != wantE:
			c.Violate("MarshalledTags.Get:value-differs"+class[k], map[string]any{"marshalled": wantE, "read": gotE}, "Get(%q): marshalled %s, got %s", k, c11clip(wantE), c11clip(gotE))
		}
	}
}

func c11namespaceTable(c *core.Ctx, r *core.R) {
	pool := []b6.Namespace{b6.NamespaceOSMNode, b6.NamespaceOSMWay, b6.NamespaceOSMRelation, b6.NamespaceLatLng, b6.NamespaceGBCodePoint, b6.NamespaceUKONSBoundaries,
		"diagonal.works/ns/a", "diagonal.works/ns/b", "a", "z", "diagonal.works/ns/a/b", "Z.example/x", "0"}
	var nss []b6.Namespace
	for _, i := range r.Perm(len(pool))[:r.Range(1, len(pool))] {
		nss = append(nss, pool[i])
	}
	var nt compact.NamespaceTable
	if r.Chance(0.3) { // a table that was filled before, with another set
		var earlier []b6.Namespace
		for _, i := range r.Perm(len(pool))[:r.Range(1, len(pool))] {
			earlier = append(earlier, pool[i])
		}
		nt.FillFromNamespaces(earlier)
		c.Count("namespace_tables_refilled")
	}
	nt.FillFromNamespaces(append([]b6.Namespace(nil), nss...))
	c.Count("namespace_tables")
	check := func(what string, nt *compact.NamespaceTable) bool {
		seen := map[compact.Namespace]b6.Namespace{}
		for _, ns := range nss {
			e, ok := nt.MaybeEncode(ns)
			if !ok {
				c.Violate("NamespaceTable:"+what+":namespace-lost", nil, "%v: %q cannot be encoded", nss, ns)
				return false
			}
			if e == compact.NamespaceInvalid {
				c.Violate("NamespaceTable:"+what+":encoded-as-invalid", nil, "%v: %q is encoded as the invalid namespace 0", nss, ns)
			}
			if o, ok := seen[e]; ok {
				c.Violate("NamespaceTable:"+what+":code-shared", nil, "%v: %q and %q are both encoded as %d", nss, ns, o, e)
			}
			seen[e] = ns
			if d := nt.Decode(e); d != ns {
				c.Violate("NamespaceTable:"+what+":decode(encode)-differs", nil, "%v: %q is encoded as %d, which decodes to %q", nss, ns, e, d)
			}
			if int(e) >= 1<<13 {
				c.Violate("NamespaceTable:"+what+":code-exceeds-13-bits", nil, "%q is encoded as %d", ns, e)
			}
		}
		// encoded namespaces order as the namespaces do (feature IDs are compared through them)
		for _, a := range nss {
			for _, b := range nss {
				if (a < b) != (nt.Encode(a) < nt.Encode(b)) {
					c.Violate("NamespaceTable:"+what+":order-differs", nil, "%v: %q < %q is %v, their codes are %d and %d", nss, a, b, a < b, nt.Encode(a), nt.Encode(b))
					return false
				}
			}
		}
		return true
	}
	if !check("FillFromNamespaces", &nt) {
		return
	}
	// through the header proto, as written to and read from an index file
	header := &pb.CompactHeaderProto{}
	nt.FillProto(header)
	buffer := encoding.NewBufferWithData(nil)
	offset := encoding.Offset(r.Intn(20))
	end, err := compact.WriteProto(buffer, header, offset)
	if err != nil {
		c.Violate("WriteProto:error", nil, "WriteProto: %v", err)
		return
	}
	if int(end) != buffer.Len() {
		c.Violate("WriteProto:end-offset-differs-from-written", nil, "WriteProto returned end %d, the buffer holds %d bytes", end, buffer.Len())
	}
	var read pb.CompactHeaderProto
	if err := compact.UnmarshalProto(buffer.Bytes()[offset:], &read); err != nil {
		c.Violate("UnmarshalProto:error", nil, "UnmarshalProto: %v", err)
		return
	}
	var back compact.NamespaceTable
	back.FillFromProto(&read)
	for _, ns := range nss {
		if a, b := nt.Encode(ns), back.Encode(ns); a != b {
			c.Violate("NamespaceTable:proto:code-differs", nil, "%q is encoded as %d, after the proto round trip as %d", ns, a, b)
		}
	}
	check("proto", &back)
}

func c11tokenMap(c *core.Ctx, r *core.R, keys *[]string) bool {
	n := r.ExpInt(60)
	if n < 2 && r.Chance(0.8) {
		n = r.Range(2, 10)
	}
	type add struct {
		token string
		index int
	}
	adds := make([]add, n)
	want := map[string][]int{}
	for i := range adds {
		adds[i] = add{c11string(r), r.Intn(1 << 20)}
		if r.Chance(0.1) {
			adds[i].index = 1<<40 + r.Intn(10)
		}
		if i > 0 && r.Chance(0.1) {
			adds[i].token = adds[i-1].token // the same token twice
		}
		want[adds[i].token] = append(want[adds[i].token], adds[i].index)
	}
	{
		var sb strings.Builder
		for _, a := range adds {
			fmt.Fprintf(&sb, "%q:%d ", a.token, a.index)
		}
		*keys = append(*keys, "TokenMap "+sb.String())
	}
	enc := compact.NewTokenMapEncoder()
	for _, a := range adds {
		enc.Add(a.token, a.index)
	}
	if r.Bool() {
		enc.FinishAdds()
	}
	offset := encoding.Offset(r.Intn(30))
	buffer := encoding.NewBufferWithData(nil)
	length := enc.Length()
	end, err := enc.Write(buffer, offset)
	if err != nil {
		c.Violate("TokenMapEncoder.Write:error", nil, "Write: %v", err)
		return false
	}
	if end.Difference(offset) != length {
		c.Violate("TokenMapEncoder.Length:differs-from-written", nil, "Length() = %d, Write advanced by %d", length, end.Difference(offset))
	}
	data := buffer.Bytes()
	if len(data) < int(end) {
		data = append(data, make([]byte, int(end)-len(data))...)
	} else if len(data) > int(end) {
		c.Violate("TokenMapEncoder:writes-beyond-end", nil, "wrote %d bytes, the end offset is %d", len(data), end)
	}
	var tm compact.TokenMap
	if consumed := tm.Unmarshal(data[offset:int(end):int(end)]); consumed != length {
		c.Violate("TokenMap:consumed-differs", nil, "wrote %d bytes, Unmarshal reports %d", length, consumed)
	}
	c.Count("token_maps")
	all := map[int]bool{}
	for _, a := range adds {
		all[a.index] = true
	}
	tokens := make([]string, 0, len(want))
	for t := range want {
		tokens = append(tokens, t)
	}
	sort.Strings(tokens)
	for _, token := range tokens {
		got := map[int]int{}
		it := tm.FindPossibleIndices(token)
		for steps := 0; ; steps++ {
			i, ok := it.Next()
			if !ok {
				break
			}
			got[i]++
			if !all[i] {
				c.Violate("TokenMap.FindPossibleIndices:index-never-added", nil, "FindPossibleIndices(%q) yields %d, which was never added", c11clipString(token), i)
			}
			if steps > 10*n+10 {
				c.Violate("TokenMap.FindPossibleIndices:does-not-end", nil, "more than %d indices from a map of %d", steps, n)
				break
			}
		}
		c.Count("token_lookups")
		for _, i := range want[token] {
			if got[i] == 0 {
				c.Violate("TokenMap.FindPossibleIndices:index-missing", map[string]any{"token": token, "index": i},
					"FindPossibleIndices(%q) does not yield %d, which was added under that token (%d tokens in the map)", c11clipString(token), i, n)
			}
		}
	}
	return n >= 2
}

func init() {
	core.Register(&core.Monitor{
		ID:        "C11",
		Title:     "Every compact record kind round-trips through its codec",
		Technique: "marshal/unmarshal differential per record kind against a canonical rendering of the marshalled value, with byte accounting (exact-length and 0xff-padded inputs), under checkptr in the thorough tier",
		Rule: "case i generates records of kind i%15 (Reference; References; LatLng(s); ReferencesAndLatLngs; Bits; Tags + MarshalledTags; Members; area geometries; point records; Path; Area; Relation; " +
			"namespaces/headers/namespace table; token map; posting-list header/namespace indices/strings) with hostile values: references with bit 63 set, deltas >= 2^62, empty lists, every primary namespace, " +
			"references inside and outside the primary namespace, int32 extremes, list lengths that are multiples of 8; distinct = distinct rendered records; non-trivial = the record has at least two elements (or one of each branch for mixed records)",
		Assumptions: []string{
			"records that sort on marshal (PointReferences, Path.Areas) are compared sorted; everything else in order",
			"ReferencesAndLatLngs is only unmarshalled into fresh receivers (as Tag.Unmarshal does); the other list records also into reused ones",
			"tag values are Int/LatLng/LatLngs/References/ReferencesAndLatLngs (feature-ID valued tags have no compact value type and are out of the property's list)",
			"a mixed entry is a reference or a lat/lng, never both; the invalid reference {0,0} stands for 'no reference'",
			"TokenMap.FindPossibleIndices may return indices of other tokens in the same bucket; it must return every index added under the token and nothing that was never added",
			"namespaces in a NamespaceTable are distinct, non-empty, valid UTF-8",
		},
		Quick: 6000, Thorough: 600000,
		RaceThorough: true,
		CaseCap:      30 * time.Second,
		Setup:        func(string) { c11memoryWatchdog(3 << 30) },
		Required: []string{
			"reference_primary", "reference_explicit", "references_delta_ge_2_62", "references_value_bit63", "latlngs_delta_wraps_int32",
			"mixed_length_multiple_of_8", "bits_length_multiple_of_8", "bits_length_partial_byte",
			"tag_value_int", "tag_value_latlng", "tag_value_latlngs", "tag_value_refs", "tag_value_mixed", "marshalledtags_alltags", "marshalledtags_get", "marshalledtags_mixed_with_latlng",
			"area_geometry_references", "area_geometry_latlngs", "area_geometry_mixed", "area_geometry_references_single_polygon", "area_geometry_references_3_or_more_polygons",
			"area_relation_in_relation_namespace", "relation_member_type_0", "relation_member_type_1", "relation_member_type_2", "relation_member_type_3",
			"roundtrips_CommonPoint", "roundtrips_FullPoint", "roundtrips_PointReferences", "roundtrips_Path", "roundtrips_Area", "roundtrips_Relation", "roundtrips_Members",
			"roundtrips_Namespaces", "roundtrips_Header", "roundtrips_BlockHeader", "roundtrips_FeatureBlockHeader", "roundtrips_PostingListHeader", "roundtrips_NamespaceIndicies", "roundtrips_String",
			"namespace_tables", "token_maps", "token_lookups", "string_equals", "string_empty", "string_long", "reused_receivers",
		},
		Run: c11run,
	})
}
