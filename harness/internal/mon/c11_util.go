package mon

import (
	"fmt"
	"os"
	"runtime"
	"strings"
	"sync"
	"time"

	"verif/internal/core"
)

// Helpers of C11. They repeat a few small helpers of C09 so that either monitor
// builds without the other (VERIF_ONLY).

var c11watchdog sync.Once

// c11memoryWatchdog ends the child process when its heap passes limit bytes. A
// decoder that has lost its place in the bytes (a broken codec) can read a
// garbage length and allocate without bound; the cases of C09 and C11 are a few
// kilobytes, so a heap of gigabytes is never legitimate. The message has the
// shape of a runtime fatal error, so the parent reports the case that was
// running as crash@<innermost b6 frame>.
func c11memoryWatchdog(limit uint64) {
	c11watchdog.Do(func() {
		go func() {
			var ms runtime.MemStats
			for {
				time.Sleep(200 * time.Millisecond)
				runtime.ReadMemStats(&ms)
				if ms.HeapAlloc > limit {
					stacks := make([]byte, 1<<20)
					stacks = stacks[:runtime.Stack(stacks, true)]
					// the goroutine doing the allocating comes first for the parent's frame search
					fmt.Fprintf(os.Stderr, "fatal error: memory watchdog: heap of %d MiB while handling a record of a few kilobytes\n\n%s\n", ms.HeapAlloc>>20, c11runningFirst(string(stacks)))
					os.Exit(2)
				}
			}
		}()
	})
}

// c11runningFirst moves the goroutines that have a b6 frame and are not this
// watchdog to the front of a goroutine dump.
func c11runningFirst(dump string) string {
	blocks := strings.Split(dump, "\n\n")
	var first, rest []string
	for _, b := range blocks {
		if strings.Contains(b, "diagonal.works/b6") {
			first = append(first, b)
		} else {
			rest = append(rest, b)
		}
	}
	return strings.Join(append(first, rest...), "\n\n")
}

func c11bytes(r *core.R, n int) []byte {
	b := make([]byte, n)
	for i := 0; i < n; i += 8 {
		v := r.U64()
		for j := 0; j < 8 && i+j < n; j++ {
			b[i+j] = byte(v >> (8 * uint(j)))
		}
	}
	return b
}

func c11clipBytes(b []byte) []byte {
	if len(b) > 64 {
		return b[:64]
	}
	return b
}

func c11clipString(s string) string {
	if len(s) > 48 {
		return s[:48] + "…"
	}
	return s
}
