package mon

import (
	"strings"
	"sync"

	"diagonal.works/b6"
	"diagonal.works/b6/ingest"
	"verif/internal/core"
	"verif/internal/wm"
)

// C16 Overlay worlds shadow the base consistently.
//
// Oracle: the model union with upper precedence. The real overlay world must
// conform to it: lookup, existence, locations, search (ID order, no duplicates,
// the delivered feature is the upper version) and enumeration (each ID once,
// with the upper version).

func init() {
	shapes := []string{"overlapping", "disjoint", "upper-subset-of-base", "upper-superset-of-base", "three-layers"}
	core.Register(&core.Monitor{
		ID:        "C16",
		Title:     "Overlay worlds shadow the base consistently",
		Technique: "reference-model monitor: model union with upper precedence versus ingest.NewOverlayWorld, full conformance check",
		Rule: "case = (shape of the ID sets: overlapping / disjoint / nested either way / three layers, generated base, upper = re-tagged versions of base features " +
			"(with the features they depend on) and/or new features; half of the bases also hold features whose ids differ from another feature's only in the namespace; one case in three repeats the two-layer conformance over a mutable upper layer that is empty at first, half filled, then full); distinct = shape + both feature sets; non-trivial = at least one shared ID whose upper version has different tags",
		Assumptions: []string{"upper versions keep the geometry of the base version (each layer is a self-contained valid world)"},
		Quick:       400, Thorough: 40000,
		Required: []string{"ids_differing_only_in_namespace", "growing_upper_layer", "shape_overlapping", "shape_disjoint", "shape_upper-subset-of-base", "shape_upper-superset-of-base", "shape_three-layers",
			"shared_ids", "shared_id_differs", "restricted_enumerations", "shared_upper_matches_query_base_does_not", "shared_base_matches_query_upper_does_not"},
		Run: func(c *core.Ctx) {
			r := c.R
			shape := shapes[c.Index%len(shapes)]
			c.Count("shape_" + shape)
			g := wm.NewGen(r.Fork(), wm.DefaultGen())
			baseSpecs := g.World()
			// ids that differ from another feature's only in the namespace (way 42 and relation 42
			// both give an area 42; a node and a UPRN share numbers): free-standing tagged points and
			// relations with the type and value of an existing feature, in another namespace
			if r.Chance(0.5) {
				var twins []*wm.Spec
				for _, s := range baseSpecs {
					if len(twins) >= 3 || !r.Chance(0.3) {
						continue
					}
					id := b6.FeatureID{Type: s.ID.Type, Namespace: "example.com/twin", Value: s.ID.Value}
					switch s.ID.Type {
					case b6.FeatureTypePoint:
						t := g.Point(1)
						t.ID = id
						twins = append(twins, t)
					case b6.FeatureTypeRelation:
						twins = append(twins, &wm.Spec{ID: id, Tags: g.RandomTags(1), Members: []b6.RelationMember{{ID: baseSpecs[0].ID, Role: "twin"}}})
					}
				}
				for _, t := range twins {
					g.Reserve(t.ID)
					baseSpecs = append(baseSpecs, t)
				}
				if len(twins) > 0 {
					c.Count("ids_differing_only_in_namespace")
				}
			}
			byID := map[b6.FeatureID]*wm.Spec{}
			for _, s := range baseSpecs {
				byID[s.ID] = s
			}
			// closure of dependencies so that a layer is self-contained
			var withDeps func(s *wm.Spec, into map[b6.FeatureID]*wm.Spec)
			withDeps = func(s *wm.Spec, into map[b6.FeatureID]*wm.Spec) {
				if _, ok := into[s.ID]; ok {
					return
				}
				into[s.ID] = s
				if s.ID.Type == b6.FeatureTypeRelation || s.ID.Type == b6.FeatureTypeCollection {
					return
				}
				for _, ref := range s.Refs() {
					if t, ok := byID[ref]; ok {
						withDeps(t, into)
					}
				}
			}
			makeUpper := func(p float64, extra int) []*wm.Spec {
				set := map[b6.FeatureID]*wm.Spec{}
				for _, s := range baseSpecs {
					if r.Chance(p) {
						withDeps(s, set)
					}
				}
				var out []*wm.Spec
				for _, s := range baseSpecs { // keep dependency order
					if t, ok := set[s.ID]; ok {
						u := t.Clone()
						if r.Chance(0.7) {
							u.Tags = g.RandomTags(0.85)
						}
						out = append(out, u)
					}
				}
				for i := 0; i < extra; i++ {
					out = append(out, g.Point(0.9))
				}
				return out
			}
			var layers [][]*wm.Spec // lowest first
			switch shape {
			case "overlapping":
				layers = [][]*wm.Spec{baseSpecs, makeUpper(0.3, r.Range(1, 4))}
			case "disjoint":
				g2 := wm.NewGen(r.Fork(), wm.DefaultGen())
				up := g2.World()
				// make ids disjoint by moving the second world into other namespaces
				for _, s := range up {
					g.Reserve(s.ID)
				}
				var filtered []*wm.Spec
				clash := false
				for _, s := range up {
					if _, ok := byID[s.ID]; ok {
						clash = true
					}
				}
				if clash {
					// same generator start values: shift into a private namespace by regenerating with extra points only
					for i := r.Range(2, 8); i > 0; i-- {
						filtered = append(filtered, g.Point(0.9))
					}
					up = filtered
				}
				layers = [][]*wm.Spec{baseSpecs, up}
			case "upper-subset-of-base":
				layers = [][]*wm.Spec{baseSpecs, makeUpper(0.4, 0)}
			case "upper-superset-of-base":
				layers = [][]*wm.Spec{baseSpecs, makeUpper(1.1, r.Range(1, 5))}
			case "three-layers":
				layers = [][]*wm.Spec{baseSpecs, makeUpper(0.3, 1), makeUpper(0.3, 2)}
			}
			model := wm.NewWorld()
			var world b6.World
			shared, differs := 0, 0
			for li, l := range layers {
				w, err := wm.Basic(l, 1)
				if err != nil {
					c.Violate("setup-failed", nil, "building layer %d failed: %v", li, err)
					return
				}
				for _, s := range l {
					if old, ok := model.F[s.ID]; ok {
						shared++
						if old.String() != s.String() {
							differs++
							for _, q := range wm.StandardQueries() {
								mo, mn := wm.Matches(old, q), wm.Matches(s, q)
								if mn && !mo {
									c.Count("shared_upper_matches_query_base_does_not")
								} else if mo && !mn {
									c.Count("shared_base_matches_query_upper_does_not")
								}
							}
						}
					}
					model.Add(s)
				}
				if world == nil {
					world = w
				} else {
					world = ingest.NewOverlayWorld(w, world)
				}
			}
			c.Add("shared_ids", shared)
			c.Add("shared_id_differs", differs)
			absent := []b6.FeatureID{{Type: b6.FeatureTypePoint, Namespace: b6.NamespaceOSMNode, Value: 990001}, {Type: b6.FeatureTypeRelation, Namespace: b6.NamespaceOSMRelation, Value: 990002}}
			// restricted enumerations first (the same world object is then enumerated again without
			// restrictions by Conform): each must deliver exactly the model's ids of the types not skipped
			optionSets := []b6.EachFeatureOptions{
				{SkipPoints: true}, {SkipPaths: true, SkipAreas: true}, {SkipRelations: true, SkipCollections: true},
				{SkipPoints: true, SkipPaths: true, SkipAreas: true, SkipRelations: true, SkipCollections: true, SkipExpressions: true},
				{SkipAreas: true, SkipRelations: true, Goroutines: 2},
			}
			for n := r.Range(1, 3); n > 0; n-- {
				o := core.Pick(r, optionSets)
				seen := map[b6.FeatureID]int{}
				var mu sync.Mutex
				err := world.EachFeature(func(f b6.Feature, g int) error {
					mu.Lock()
					seen[f.FeatureID()]++
					mu.Unlock()
					return nil
				}, &o)
				c.Count("restricted_enumerations")
				if err != nil {
					c.Violate("each-with-options:error", nil, "EachFeature(%+v) returned %v", o, err)
				}
				for _, id := range model.IDs() {
					want := 1
					if o.IsSkipped(id.Type) {
						want = 0
					}
					if seen[id] != want {
						c.Violate("each-with-options:wrong-count", map[string]any{"shape": shape}, "EachFeature(%+v) delivered %s %d times, expected %d", o, id, seen[id], want)
						break
					}
				}
				for id := range seen {
					if _, ok := model.F[id]; !ok {
						c.Violate("each-with-options:phantom", nil, "EachFeature(%+v) delivered %s which is not in the model", o, id)
						break
					}
				}
			}
			for _, d := range model.Conform(world, absent, wm.StandardQueries(), true) {
				c.Violate(d.Class, map[string]any{"shape": shape}, "%s overlay: %s", shape, d.Detail)
			}
			// the same two layers with an upper layer that is still being filled: an
			// overlay over a mutable world is queried before, while and after it gains
			// features, and has to follow it
			if len(layers) == 2 && c.Index%3 == 0 {
				baseWorld, err := wm.Basic(layers[0], 1)
				upper := ingest.NewBasicMutableWorld()
				if err != nil {
					c.Violate("setup-failed", nil, "building the base layer failed: %v", err)
					return
				}
				growing := ingest.NewOverlayWorld(upper, baseWorld)
				gm := wm.ModelOf(layers[0])
				for _, d := range gm.Conform(growing, absent, wm.StandardQueries(), true) {
					c.Violate("growing-upper:empty:"+d.Class, map[string]any{"shape": shape}, "%s overlay with a still empty upper layer: %s", shape, d.Detail)
				}
				half := len(layers[1]) / 2
				for i, sp := range layers[1] {
					if err := upper.AddFeature(sp.Ingest()); err != nil {
						c.Violate("setup-failed", nil, "adding %s to the upper layer failed: %v", sp.ID, err)
						return
					}
					gm.Add(sp)
					if i+1 == half || i+1 == len(layers[1]) {
						for _, d := range gm.Conform(growing, absent, wm.StandardQueries(), true) {
							c.Violate("growing-upper:"+d.Class, map[string]any{"shape": shape, "upper_features_added": i + 1}, "%s overlay after its upper layer gained %d features: %s", shape, i+1, d.Detail)
						}
					}
				}
				c.Count("growing_upper_layer")
			}
			var sb strings.Builder
			for _, l := range layers {
				for _, s := range l {
					sb.WriteString(s.String() + "|")
				}
				sb.WriteString("//")
			}
			c.Key("%s/%s", shape, sb.String())
			if differs > 0 {
				c.Nontrivial()
			}
			if c.Index < 2 {
				c.Sample(map[string]any{"shape": shape, "layer_sizes": []int{len(layers[0]), len(layers[len(layers)-1])}, "shared": shared, "differs": differs})
			}
		},
	})
}
