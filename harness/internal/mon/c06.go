package mon

import (
	"fmt"
	"math"
	"runtime/debug"
	"sort"
	"strings"

	"diagonal.works/b6"
	"diagonal.works/b6/ingest/compact"
	"diagonal.works/b6/search"
	"verif/internal/core"
)

// C06 Search iterators implement sorted-set algebra under any call sequence.
//
// Oracle: every query denotes a sorted set of *ranks* (indices into the sorted
// list of all points of the case: the universe values plus key-only points);
// the model iterator is a position in that slice: Next -> next element,
// Advance(k) -> first element >= k at or after the current position, never
// backwards; the contract ends with the first false.
//
// The same (lists, query tree, call script) is run against search.ArrayIndex,
// search.TreeIndex and - for feature-ID values - compact posting lists behind a
// thin harness search.Index. Every posting-list iterator handed out by an index
// is additionally wrapped by a checking proxy that compares each *internal*
// call (the ones union / intersection / key-range make) with the model of that
// one list, so that a disagreement is attributed to the leaf or to the
// combinator.

// ---- the model ------------------------------------------------------------

type c06query struct {
	kind     string // all | empty | union | intersection | keyrange | prefix
	token    string // all, prefix
	children []*c06query
	begin    int // keyrange (ranks)
	end      int
	den      []int // cached denotation
	denOK    bool
}

func (q *c06query) render(e *c06env) string {
	switch q.kind {
	case "all":
		return fmt.Sprintf("(all %q)", q.token)
	case "empty":
		return "(empty)"
	case "prefix":
		return fmt.Sprintf("(token-prefix %q)", q.token)
	case "keyrange":
		return fmt.Sprintf("(key-range %s %s %s)", e.renderRank(q.begin), e.renderRank(q.end), q.children[0].render(e))
	}
	var parts []string
	for _, ch := range q.children {
		parts = append(parts, ch.render(e))
	}
	return "(" + q.kind + " " + strings.Join(parts, " ") + ")"
}

func c06union(a, b []int) []int {
	out := make([]int, 0, len(a)+len(b))
	i, j := 0, 0
	for i < len(a) || j < len(b) {
		switch {
		case j == len(b) || (i < len(a) && a[i] < b[j]):
			out = append(out, a[i])
			i++
		case i == len(a) || b[j] < a[i]:
			out = append(out, b[j])
			j++
		default:
			out = append(out, a[i])
			i++
			j++
		}
	}
	return out
}

func c06intersect(a, b []int) []int {
	out := []int{}
	i, j := 0, 0
	for i < len(a) && j < len(b) {
		switch {
		case a[i] < b[j]:
			i++
		case b[j] < a[i]:
			j++
		default:
			out = append(out, a[i])
			i++
			j++
		}
	}
	return out
}

func (q *c06query) denote(e *c06env, count bool) []int {
	if q.denOK && !count {
		return q.den
	}
	d := q.denote1(e, count)
	q.den, q.denOK = d, true
	return d
}

func (q *c06query) denote1(e *c06env, count bool) []int {
	switch q.kind {
	case "all":
		return e.lists[q.token]
	case "empty":
		return nil
	case "prefix":
		var out []int
		n := 0
		for _, t := range e.tokens {
			if strings.HasPrefix(t, q.token) {
				out = c06union(out, e.lists[t])
				n++
			}
		}
		if n >= 2 && count {
			e.c.Count("token_prefix_multi")
		}
		return out
	case "union":
		var out []int
		total := 0
		for _, ch := range q.children {
			d := ch.denote(e, count)
			total += len(d)
			out = c06union(out, d)
		}
		if total > len(out) && count {
			e.c.Count("union_equal_heads")
		}
		return out
	case "intersection":
		var out []int
		nonEmpty := 0
		for i, ch := range q.children {
			d := ch.denote(e, count)
			if len(d) > 0 {
				nonEmpty++
			}
			if i == 0 {
				out = d
			} else {
				out = c06intersect(out, d)
			}
		}
		if nonEmpty >= 3 && nonEmpty == len(q.children) && count {
			e.c.Count("intersection_3plus")
			if len(out) > 0 {
				e.c.Count("intersection_3plus_nonempty_result")
			}
		}
		return out
	case "keyrange":
		d := q.children[0].denote(e, count)
		out := []int{}
		for _, v := range d {
			if v >= q.begin && v < q.end {
				out = append(out, v)
			}
		}
		return out
	}
	panic("bad query kind")
}

func (q *c06query) real(e *c06env) search.Query {
	switch q.kind {
	case "all":
		return search.All{Token: q.token}
	case "empty":
		return search.Empty{}
	case "prefix":
		return c06probeQuery{q: q, e: e, inner: search.TokenPrefix{Prefix: q.token}}
	case "keyrange":
		return c06probeQuery{q: q, e: e, inner: search.KeyRange{Begin: e.realKey(q.begin), End: e.realKey(q.end), Query: q.children[0].real(e)}}
	case "union":
		u := make(search.Union, len(q.children))
		for i, ch := range q.children {
			u[i] = ch.real(e)
		}
		return c06probeQuery{q: q, e: e, inner: u}
	case "intersection":
		u := make(search.Intersection, len(q.children))
		for i, ch := range q.children {
			u[i] = ch.real(e)
		}
		return c06probeQuery{q: q, e: e, inner: u}
	}
	panic("bad query kind")
}

type c06op struct {
	advance bool
	key     int  // rank
	ok      bool // model result
	val     int  // model value (rank) when ok
}

// ---- the environment of one case -------------------------------------------

type c06env struct {
	c       *core.Ctx
	intKind bool
	npoints int
	points  []c08id       // id kind: rank -> id
	rankOf  map[c08id]int // id kind
	tokens  []string      // sorted, the tokens that exist in the indices
	lists   map[string][]int
	groups  map[string]map[[2]string]bool // id kind: token -> set of (type,ns) present in its list
	tableNS map[string]bool

	// per run (one index kind)
	index       string
	leafBad     bool
	caseWitness map[string]any
	blockFirst  map[string][]bool // compact: per token, per element: first of its block
}

const c06intScale, c06intOff = 3, 100

func (e *c06env) realKey(rank int) search.Key {
	if e.intKind {
		return rank*c06intScale - c06intOff
	}
	return e.points[rank].real()
}

func (e *c06env) realValue(rank int) search.Value { return e.realKey(rank) }

// rankOfReal maps a value or key of the real index back to its rank (-1: not a point of this case).
func (e *c06env) rankOfReal(v interface{}) int {
	if e.intKind {
		i, ok := v.(int)
		if !ok || (i+c06intOff)%c06intScale != 0 {
			return -1
		}
		r := (i + c06intOff) / c06intScale
		if r < 0 || r >= e.npoints {
			return -1
		}
		return r
	}
	id, ok := v.(b6.FeatureID)
	if !ok {
		return -1
	}
	if r, ok := e.rankOf[c08fromReal(id)]; ok {
		return r
	}
	return -1
}

func (e *c06env) renderRank(r int) string {
	if r < 0 || r >= e.npoints {
		return fmt.Sprintf("?%d", r)
	}
	if e.intKind {
		return fmt.Sprint(r*c06intScale - c06intOff)
	}
	return e.points[r].String()
}

func (e *c06env) renderReal(v interface{}) string {
	if id, ok := v.(b6.FeatureID); ok {
		return c08fromReal(id).String()
	}
	return fmt.Sprint(v)
}

func (e *c06env) renderList(l []int) string {
	var sb strings.Builder
	sb.WriteByte('[')
	for i, r := range l {
		if i > 0 {
			sb.WriteByte(' ')
		}
		sb.WriteString(e.renderRank(r))
	}
	sb.WriteByte(']')
	return sb.String()
}

// ---- Values implementations (harness code) ---------------------------------

type c06intValues struct{}

func c06cmpInt(a, b int) search.Comparison {
	if a < b {
		return search.ComparisonLess
	} else if a > b {
		return search.ComparisonGreater
	}
	return search.ComparisonEqual
}
func (c06intValues) Compare(a, b search.Value) search.Comparison { return c06cmpInt(a.(int), b.(int)) }
func (c06intValues) CompareKey(v search.Value, k search.Key) search.Comparison {
	return c06cmpInt(v.(int), k.(int))
}
func (c06intValues) Key(v search.Value) search.Key { return v }

type c06idValues struct{}

func (c06idValues) Compare(a, b search.Value) search.Comparison {
	return search.Comparison(c08cmp(c08fromReal(a.(b6.FeatureID)), c08fromReal(b.(b6.FeatureID))))
}
func (c06idValues) CompareKey(v search.Value, k search.Key) search.Comparison {
	return search.Comparison(c08cmp(c08fromReal(v.(b6.FeatureID)), c08fromReal(k.(b6.FeatureID))))
}
func (c06idValues) Key(v search.Value) search.Key { return v }

// ---- the compact posting lists behind a search.Index ------------------------

type c06tokIter struct {
	tokens []string
	i      int
}

func (t *c06tokIter) Token() string { return t.tokens[t.i] }
func (t *c06tokIter) Next() bool    { t.i++; return t.i < len(t.tokens) }
func (t *c06tokIter) Advance(token string) bool {
	if t.i < 0 {
		t.i = 0
	}
	for t.i < len(t.tokens) && t.tokens[t.i] < token {
		t.i++
	}
	return t.i < len(t.tokens)
}

type c06compactIndex struct {
	bufs   map[string][]byte
	tokens []string
	nt     *compact.NamespaceTable
}

func (x *c06compactIndex) Begin(token string) search.Iterator {
	if b, ok := x.bufs[token]; ok {
		return compact.NewIterator(b, x.nt)
	}
	return search.NewEmptyIterator()
}
func (x *c06compactIndex) Tokens() search.TokenIterator { return &c06tokIter{tokens: x.tokens, i: -1} }
func (x *c06compactIndex) Values() search.Values        { return c06idValues{} }
func (x *c06compactIndex) NumTokens() int               { return len(x.tokens) }

// ---- the checking proxy around every leaf iterator --------------------------

type c06abort struct{}

type c06probeIndex struct {
	inner search.Index
	e     *c06env
}

func (p *c06probeIndex) Tokens() search.TokenIterator { return p.inner.Tokens() }
func (p *c06probeIndex) Values() search.Values        { return p.inner.Values() }
func (p *c06probeIndex) NumTokens() int               { return p.inner.NumTokens() }
func (p *c06probeIndex) Begin(token string) search.Iterator {
	return &c06leaf{e: p.e, it: p.inner.Begin(token), token: token, list: p.e.lists[token], pos: -1}
}

// c06probeQuery wraps a combinator query so that the iterator it compiles to is checked, call by
// call, against the denotation of that sub-tree: a disagreement is attributed to the innermost node
// whose own answers are wrong while all of its inputs behaved.
type c06probeQuery struct {
	q     *c06query
	inner search.Query
	e     *c06env
}

func (p c06probeQuery) String() string { return p.inner.String() }
func (p c06probeQuery) Compile(index search.Index) search.Iterator {
	return &c06leaf{e: p.e, it: p.inner.Compile(index), node: p.q.kind, token: p.q.render(p.e), list: p.q.denote(p.e, false), pos: -1}
}

// c06leaf is the checking proxy: around a posting-list iterator (node == "") or around the iterator
// of a combinator (node = its kind; token = its text).
type c06leaf struct {
	e       *c06env
	it      search.Iterator
	node    string
	token   string
	list    []int
	pos     int
	started bool
	ended   bool
	trace   []string
	// what the previous call was, for the duplicate-after-Advance mechanisms
	prevAdvanceAbsentNS   bool
	prevAdvanceBlockFirst bool
	prevAdvanceMoved      bool
}

func (l *c06leaf) EstimateLength() int { return l.it.EstimateLength() }
func (l *c06leaf) Value() search.Value { return l.it.Value() }

func (l *c06leaf) count(name string) {
	if l.node == "" {
		l.e.c.Count(name)
	}
}

func (l *c06leaf) violate(op, class string, format string, args ...any) {
	e := l.e
	l.ended = true
	if e.leafBad {
		return // a consequence of what was already reported further in
	}
	e.leafBad = true
	if l.node == "" {
		w := map[string]any{"index": e.index, "token": l.token, "list": e.renderList(l.list), "calls_on_this_list": l.trace}
		e.c.Violate(e.index+":leaf:"+op+":"+class, w, "%s index, posting list of token %q %s: calls %v: %s",
			e.index, l.token, e.renderList(l.list), l.trace, fmt.Sprintf(format, args...))
		return
	}
	w := map[string]any{"index": e.index, "node": l.token, "denotation": e.renderList(l.list), "calls_on_this_node": l.trace}
	for k, v := range e.caseWitness {
		w[k] = v
	}
	e.c.Violate(l.node+":"+op+":"+class, w, "%s over the %s index (all of its inputs agreed with their models), denotation %s: calls %v: %s",
		l.token, e.index, e.renderList(l.list), l.trace, fmt.Sprintf(format, args...))
}

func (l *c06leaf) call(op string, key search.Key, f func() bool) bool {
	e := l.e
	if l.ended {
		// the contract of this list has ended (or a mismatch was already reported): pass through
		l.count("leaf_called_after_end")
		return f()
	}
	var ok bool
	panicked, aborted, class, frame := c06protect(func() { ok = f() })
	if aborted {
		panic(c06abort{})
	}
	if panicked {
		if op == "Advance" && l.node == "" && !e.intKind && e.index == "compact" && !e.tableNS[c08fromReal(key.(b6.FeatureID)).ns] {
			l.count("ns_not_in_table_panic")
			l.violate(op, "ns-not-in-table:panic", "panicked (%s at %s): the key's namespace is not in the namespace table", class, frame)
		} else {
			l.violate(op, "panic@"+frame, "panicked: %s at %s", class, frame)
		}
		panic(c06abort{})
	}
	return ok
}

func (l *c06leaf) Next() bool {
	l.trace = append(l.trace, "Next")
	ok := l.call("Next", nil, l.it.Next)
	if l.ended {
		return ok
	}
	e := l.e
	l.count("leaf_next")
	if l.prevAdvanceMoved {
		l.count("leaf_next_after_advance")
	}
	if l.prevAdvanceAbsentNS {
		l.count("compact_next_after_advance_absent_namespace")
	}
	if l.prevAdvanceBlockFirst {
		l.count("compact_next_after_advance_onto_block_first")
	}
	afterAbsent := l.prevAdvanceAbsentNS
	l.prevAdvanceAbsentNS, l.prevAdvanceBlockFirst, l.prevAdvanceMoved = false, false, false
	want := l.pos + 1
	if want >= len(l.list) {
		if ok {
			got := l.it.Value()
			class := "true-past-end"
			if l.started && e.rankOfReal(got) == l.list[l.pos] {
				class = "reyield"
				if afterAbsent {
					class = "reyield-after-advance-into-absent-namespace"
				}
			}
			l.trace[len(l.trace)-1] += "=" + e.renderReal(got)
			l.violate("Next", class, "Next returned true (%s) but the list is exhausted", e.renderReal(got))
		} else {
			l.trace[len(l.trace)-1] += "=false"
			l.ended = true
		}
		return ok
	}
	if !ok {
		l.trace[len(l.trace)-1] += "=false"
		l.violate("Next", "false-early", "Next returned false, the next element is %s", e.renderRank(l.list[want]))
		return ok
	}
	got := l.it.Value()
	l.trace[len(l.trace)-1] += "=" + e.renderReal(got)
	if g := e.rankOfReal(got); g != l.list[want] {
		class := "wrong-value"
		if l.started && g == l.list[l.pos] {
			class = "reyield"
			if afterAbsent {
				class = "reyield-after-advance-into-absent-namespace"
			}
		} else if l.started && g >= 0 && g < l.list[l.pos] {
			class = "backwards"
		}
		l.violate("Next", class, "Next gave %s, the model gives %s", e.renderReal(got), e.renderRank(l.list[want]))
		return ok
	}
	l.pos = want
	l.started = true
	return ok
}

func (l *c06leaf) Advance(key search.Key) bool {
	e := l.e
	l.trace = append(l.trace, "Advance("+e.renderReal(key)+")")
	ok := l.call("Advance", key, func() bool { return l.it.Advance(key) })
	if l.ended {
		return ok
	}
	k := e.rankOfReal(key)
	if k < 0 {
		// every key of a case is one of its points, unless a posting-list iterator already returned a
		// foreign value (reported there) which a combinator now passes on as a key
		l.ended = true
		if e.leafBad {
			return ok
		}
		e.c.Inconclusive("an iterator was advanced to a key that is not a point of the case: " + e.renderReal(key))
		return ok
	}
	lb := sort.SearchInts(l.list, k)
	want := lb
	if l.started && l.pos > want {
		want = l.pos
	}
	// mechanisms
	l.count("leaf_advance")
	switch {
	case !l.started:
		l.count("leaf_advance_first_call")
	case k < l.list[l.pos]:
		l.count("leaf_advance_lt_current")
	case k == l.list[l.pos]:
		l.count("leaf_advance_eq_current")
	}
	if len(l.list) > 0 && k > l.list[len(l.list)-1] {
		l.count("leaf_advance_gt_max")
	} else if lb < len(l.list) && l.list[lb] != k && (!l.started || k > l.list[l.pos]) {
		l.count("leaf_advance_between")
	}
	absentNS := false
	moved := !l.started || want != l.pos
	if l.node == "" && !e.intKind && e.index == "compact" && moved {
		id := e.points[k]
		if !e.groups[l.token][[2]string{fmt.Sprint(id.t), id.ns}] && e.tableNS[id.ns] {
			absentNS = true
			l.count("compact_advance_absent_namespace")
		}
	}
	if moved { // an Advance that stays in place leaves "what the last move was" untouched
		l.prevAdvanceAbsentNS = absentNS
		l.prevAdvanceMoved = true
		l.prevAdvanceBlockFirst = false
		if bf := e.blockFirst[l.token]; l.node == "" && e.index == "compact" && want < len(l.list) && bf != nil && bf[want] {
			l.prevAdvanceBlockFirst = true
		}
	}
	situation := ""
	if absentNS {
		situation = ":absent-namespace"
	}
	if want >= len(l.list) {
		if ok {
			got := l.it.Value()
			l.trace[len(l.trace)-1] += "=" + e.renderReal(got)
			l.violate("Advance", "true-past-end"+situation, "Advance(%s) returned true (%s) but no element >= key remains", e.renderReal(key), e.renderReal(got))
		} else {
			l.trace[len(l.trace)-1] += "=false"
			l.ended = true
		}
		return ok
	}
	if !ok {
		l.trace[len(l.trace)-1] += "=false"
		l.violate("Advance", "false-early"+situation, "Advance(%s) returned false, the model lands on %s", e.renderReal(key), e.renderRank(l.list[want]))
		return ok
	}
	got := l.it.Value()
	l.trace[len(l.trace)-1] += "=" + e.renderReal(got)
	if g := e.rankOfReal(got); g != l.list[want] {
		class := "wrong-landing"
		if l.started && g >= 0 && g < l.list[l.pos] {
			class = "backwards"
		}
		l.violate("Advance", class+situation, "Advance(%s) landed on %s, the model lands on %s", e.renderReal(key), e.renderReal(got), e.renderRank(l.list[want]))
		return ok
	}
	l.pos = want
	l.started = true
	return ok
}

func c06protect(f func()) (panicked, aborted bool, class, frame string) {
	defer func() {
		if r := recover(); r != nil {
			if _, ok := r.(c06abort); ok {
				aborted = true
				return
			}
			panicked = true
			class = core.PanicClass(r)
			frame = core.TopB6Frame(string(debug.Stack()))
		}
	}()
	f()
	return
}

// ---- generation -------------------------------------------------------------

var c06tokenPool = []string{"a", "ab", "abc", "abd", "b", "ba", "c", "*", "a:b", "a:c", "a\ufffd", "a\U0001F600x", "ab\U0010ffff"}
var c06prefixPool = []string{"", "a", "ab", "abc", "a:", "b", "bb", "c", "zz", "aa", "*"}

func c06genIDPoints(r *core.R, e *c06env, unknownNS bool) (universe []c08id) {
	perm := r.Perm(len(c08nsPool))
	nns := r.Range(1, 4)
	var table, outside []string
	for i, p := range perm {
		if i < nns {
			table = append(table, c08nsPool[p])
		} else if len(outside) < 2 {
			outside = append(outside, c08nsPool[p])
		}
	}
	e.tableNS = map[string]bool{"": true}
	for _, ns := range table {
		e.tableNS[ns] = true
	}
	ngroups := r.Range(1, 4)
	type pair struct {
		t  int
		ns string
	}
	seen := map[pair]bool{}
	var pairs []pair
	for tries := 0; len(pairs) < ngroups && tries < 30; tries++ {
		t := r.Intn(4)
		if r.Chance(0.05) {
			t = 5 + r.Intn(2)
		}
		p := pair{t, core.Pick(r, table)}
		if !seen[p] {
			seen[p] = true
			pairs = append(pairs, p)
		}
	}
	set := map[c08id]bool{}
	budget := r.Range(1, 200)
	for gi, p := range pairs {
		n := budget / len(pairs)
		if gi == 0 {
			n += budget % len(pairs)
		}
		if n == 0 {
			continue
		}
		maxW := core.Pick(r, []int{1, 2, 3, 10, 10})
		lo, hi := c08widthRange(r.Range(1, maxW))
		v := c08randIn(r, lo, hi)
		if r.Chance(0.15) {
			v = 0
		}
		for i := 0; i < n; i++ {
			id := c08id{p.t, p.ns, v}
			universe = append(universe, id)
			set[id] = true
			if v == math.MaxUint64 {
				break
			}
			w := r.Range(1, maxW)
			room := math.MaxUint64 - v
			for w > 1 {
				if lo, _ := c08widthRange(w); lo <= room {
					break
				}
				w--
			}
			lo, hi := c08widthRange(w)
			if lo == 0 {
				lo = 1
			}
			if hi > room {
				hi = room
			}
			v += c08randIn(r, lo, hi)
		}
	}
	// key-only points
	extra := func(id c08id) { set[id] = true }
	for _, id := range universe {
		if r.Chance(0.3) && id.v > 0 {
			extra(c08id{id.t, id.ns, id.v - 1})
		}
		if r.Chance(0.3) && id.v < math.MaxUint64 {
			extra(c08id{id.t, id.ns, id.v + 1})
		}
	}
	for _, p := range pairs {
		extra(c08id{p.t, p.ns, 0})
		extra(c08id{p.t, p.ns, math.MaxUint64})
	}
	nsAll := append([]string{""}, table...)
	for i := 0; i < 8; i++ {
		t := r.Intn(7)
		var v uint64
		if r.Bool() {
			v = r.U64() >> uint(r.Intn(64))
		}
		extra(c08id{t, core.Pick(r, nsAll), v})
	}
	for t := 0; t <= 4; t++ { // the keys typed queries use: FeatureIDPointBegin ... FeatureIDEnd
		extra(c08id{t, "", 0})
	}
	if unknownNS {
		for i := 0; i < 4; i++ {
			extra(c08id{r.Intn(4), core.Pick(r, outside), r.U64() >> uint(r.Intn(64))})
		}
	}
	e.points = make([]c08id, 0, len(set))
	for id := range set {
		e.points = append(e.points, id)
	}
	sort.Slice(e.points, func(i, j int) bool { return c08cmp(e.points[i], e.points[j]) < 0 })
	e.rankOf = make(map[c08id]int, len(e.points))
	for i, id := range e.points {
		e.rankOf[id] = i
	}
	e.npoints = len(e.points)
	return universe
}

func c06genQuery(r *core.R, e *c06env, depth int, allTokens []string) *c06query {
	leaf := depth == 0 || r.Chance(0.25)
	if leaf {
		switch x := r.Intn(100); {
		case x < 70:
			return &c06query{kind: "all", token: core.Pick(r, allTokens)}
		case x < 76:
			return &c06query{kind: "empty"}
		default:
			return &c06query{kind: "prefix", token: core.Pick(r, c06prefixPool)}
		}
	}
	switch x := r.Intn(100); {
	case x < 35:
		q := &c06query{kind: "union"}
		n := r.Range(0, 4)
		if n == 0 && r.Chance(0.8) {
			n = 2
		}
		for i := 0; i < n; i++ {
			q.children = append(q.children, c06genQuery(r, e, depth-1, allTokens))
		}
		return q
	case x < 72:
		q := &c06query{kind: "intersection"}
		n := r.Range(1, 4)
		for i := 0; i < n; i++ {
			q.children = append(q.children, c06genQuery(r, e, depth-1, allTokens))
		}
		return q
	default:
		q := &c06query{kind: "keyrange"}
		q.begin = r.Intn(e.npoints)
		q.end = r.Intn(e.npoints)
		if r.Chance(0.75) && q.begin > q.end {
			q.begin, q.end = q.end, q.begin
		}
		if r.Chance(0.1) {
			q.begin = 0
		}
		if r.Chance(0.1) {
			q.end = e.npoints - 1
		}
		q.children = []*c06query{c06genQuery(r, e, depth-1, allTokens)}
		return q
	}
}

// c06genScript draws the call sequence against the model of the root.
func c06genScript(r *core.R, e *c06env, d []int, root *c06query) []c06op {
	c := e.c
	n := r.Range(2, 16)
	pos, started := -1, false
	var ops []c06op
	nextProb := core.Pick(r, []float64{0.2, 0.5, 0.5, 0.8})
	for i := 0; i < n; i++ {
		var op c06op
		if r.Chance(nextProb) {
			if pos+1 < len(d) {
				op = c06op{ok: true, val: d[pos+1]}
				pos++
			}
			started = true
		} else {
			op.advance = true
			k := r.Intn(e.npoints)
			choice := r.Intn(8)
			switch {
			case choice == 0 && started && d[pos] > 0: // below the current value
				k = r.Intn(d[pos])
			case choice == 1 && started: // the current value
				k = d[pos]
			case choice == 2 && pos+1 < len(d): // the next element
				k = d[pos+1]
			case choice == 3 && pos+1 < len(d): // between the current and the next element (if such a point exists)
				lo := 0
				if started {
					lo = d[pos] + 1
				}
				if d[pos+1] > lo {
					k = lo + r.Intn(d[pos+1]-lo)
				}
			case choice == 4 && len(d) > 0: // some later element
				k = d[r.Range(pos+1, len(d)-1+0)%len(d)]
			case choice == 5 && len(d) > 0 && d[len(d)-1]+1 < e.npoints: // above the maximum
				k = d[len(d)-1] + 1 + r.Intn(e.npoints-d[len(d)-1]-1)
			}
			op.key = k
			if !started {
				c.Count("advance_first_call")
				if root.kind == "keyrange" {
					if k > root.begin {
						c.Count("keyrange_first_advance_above_begin")
					} else if k < root.begin {
						c.Count("keyrange_first_advance_below_begin")
					}
				}
			} else {
				switch {
				case k < d[pos]:
					c.Count("advance_lt_current")
				case k == d[pos]:
					c.Count("advance_eq_current")
				}
			}
			lb := sort.SearchInts(d, k)
			if len(d) > 0 && k > d[len(d)-1] {
				c.Count("advance_gt_max")
			} else if lb < len(d) && d[lb] != k && (!started || k > d[pos]) {
				c.Count("advance_between")
			}
			want := lb
			if started && pos > want {
				want = pos
			}
			if want < len(d) {
				op.ok, op.val = true, d[want]
				pos = want
			}
			started = true
		}
		ops = append(ops, op)
		if !op.ok {
			break
		}
	}
	return ops
}

func (e *c06env) renderScript(ops []c06op) []string {
	var out []string
	for _, op := range ops {
		s := "Next"
		if op.advance {
			s = "Advance(" + e.renderRank(op.key) + ")"
		}
		if op.ok {
			s += "=" + e.renderRank(op.val)
		} else {
			s += "=false"
		}
		out = append(out, s)
	}
	return out
}

func init() {
	core.Register(&core.Monitor{
		ID:        "C06",
		Title:     "Search iterators implement sorted-set algebra under any call sequence",
		Technique: "reference-model monitor: sorted-set denotation + position iterator, compared call by call at the root and at every posting-list iterator the combinators drive",
		Rule: "case = (posting lists per token over a universe of <= 200 int or feature-ID values, query tree of all/empty/union/intersection/key-range/token-prefix of depth <= 3, " +
			"script of <= 16 Next/Advance(key) calls with keys below/at/between/above the model's position) run on ArrayIndex, TreeIndex and (IDs) compact posting lists; " +
			"distinct = distinct (lists, tree, script); non-trivial = the script has >= 2 calls including an Advance and some posting list has >= 2 elements",
		Assumptions: []string{
			"the Values implementations, the token iterator of the compact adapter and the checking proxies are harness code",
			"after the first false the contract has ended; nothing is demanded of later calls",
			"keys in namespaces unknown to the compact namespace table are generated only in the labelled sub-case ns-not-in-table",
		},
		Quick: 24000, Thorough: 5000000,
		Required: []string{"advance_first_call", "advance_lt_current", "advance_eq_current", "advance_between", "advance_gt_max",
			"leaf_advance_first_call", "leaf_advance_lt_current", "leaf_advance_eq_current", "leaf_advance_between", "leaf_advance_gt_max", "leaf_next_after_advance",
			"compact_advance_absent_namespace", "compact_next_after_advance_absent_namespace", "compact_next_after_advance_onto_block_first", "compact_multi_block_list",
			"union_equal_heads", "intersection_3plus", "intersection_3plus_nonempty_result", "keyrange_first_advance_above_begin", "keyrange_first_advance_below_begin",
			"token_prefix_multi", "runs_array", "runs_tree", "runs_compact", "tree_built_with_removals"},
		Run: c06run,
	})
}

func c06run(c *core.Ctx) {
	r := c.R
	e := &c06env{c: c, lists: map[string][]int{}}
	e.intKind = r.Chance(0.3)
	subcaseUnknownNS := false
	var universe []int // ranks
	if e.intKind {
		e.npoints = r.Range(1, 200)
		p := core.Pick(r, []float64{0.1, 0.5, 0.9, 1})
		for i := 0; i < e.npoints; i++ {
			if r.Chance(p) {
				universe = append(universe, i)
			}
		}
	} else {
		subcaseUnknownNS = r.Chance(0.04)
		ids := c06genIDPoints(r.Fork(), e, subcaseUnknownNS)
		for _, id := range ids {
			universe = append(universe, e.rankOf[id])
		}
		sort.Ints(universe)
	}
	// tokens and lists
	ntok := r.Range(1, 6)
	for _, i := range r.Perm(len(c06tokenPool))[:ntok] {
		e.tokens = append(e.tokens, c06tokenPool[i])
	}
	sort.Strings(e.tokens)
	for _, t := range e.tokens {
		d := core.Pick(r, []float64{0.03, 0.15, 0.4, 0.8, 1})
		// feature-ID lists: a token often lacks whole (type, namespace) groups, so that
		// combinators advance its list into namespaces it does not contain
		excluded := map[[2]string]bool{}
		if !e.intKind && r.Chance(0.6) {
			for _, u := range universe {
				g := [2]string{fmt.Sprint(e.points[u].t), e.points[u].ns}
				if _, seen := excluded[g]; !seen {
					excluded[g] = r.Chance(0.4)
				}
			}
		}
		l := []int{}
		for _, u := range universe {
			if !e.intKind && excluded[[2]string{fmt.Sprint(e.points[u].t), e.points[u].ns}] {
				continue
			}
			if r.Chance(d) {
				l = append(l, u)
			}
		}
		e.lists[t] = l
	}
	// tokens with an empty list do not exist in an index built by Add; keep them only as absent tokens
	{
		kept := e.tokens[:0:0]
		for _, t := range e.tokens {
			if len(e.lists[t]) > 0 {
				kept = append(kept, t)
			} else {
				delete(e.lists, t)
			}
		}
		e.tokens = kept
	}
	allTokens := append([]string{"absent"}, e.tokens...)
	if len(e.tokens) > 0 { // bias towards existing tokens
		allTokens = append(allTokens, e.tokens...)
		allTokens = append(allTokens, e.tokens...)
	}
	// a query denoting the empty set ends every script at its first call: keep only a few of those
	var root *c06query
	qr := r.Fork()
	for try := 0; ; try++ {
		root = c06genQuery(qr, e, qr.Range(0, 3), allTokens)
		if len(root.denote(e, false)) > 0 || try == 3 || qr.Chance(0.15) {
			break
		}
	}
	d := root.denote(e, true)
	if len(d) == 0 {
		c.Count("denotation_empty")
	}
	ops := c06genScript(r.Fork(), e, d, root)
	script := e.renderScript(ops)
	qtext := root.render(e)

	hasAdvance := false
	for _, op := range ops {
		if op.advance {
			hasAdvance = true
		}
	}
	big := false
	var ldesc []string
	for _, t := range e.tokens {
		if len(e.lists[t]) >= 2 {
			big = true
		}
		ldesc = append(ldesc, t+"="+e.renderList(e.lists[t]))
	}
	if hasAdvance && len(ops) >= 2 && big {
		c.Nontrivial()
	}
	kindName := "id"
	if e.intKind {
		kindName = "int"
	}
	c.Key("%s|%s|%s|%s", kindName, strings.Join(ldesc, ";"), qtext, strings.Join(script, ","))
	if c.Index < 3 {
		s := map[string]any{"values": kindName, "query": qtext, "script": script, "denotation_size": len(d)}
		if len(ldesc) > 0 && len(ldesc[0]) < 400 {
			s["first_list"] = ldesc[0]
		}
		c.Sample(s)
	}
	witness := func(extra map[string]any) map[string]any {
		w := map[string]any{"values": kindName, "lists": ldesc, "query": qtext, "script_with_model_results": script}
		for k, v := range extra {
			w[k] = v
		}
		return w
	}
	e.caseWitness = witness(nil)

	// ---- build the indices ----
	buildOrder := r.Fork()
	type built struct {
		name  string
		index search.Index
	}
	var indices []built
	var values search.Values = c06idValues{}
	if e.intKind {
		values = c06intValues{}
	}
	tokensOf := map[int][]string{}
	for _, t := range e.tokens {
		for _, u := range e.lists[t] {
			tokensOf[u] = append(tokensOf[u], t)
		}
	}
	var members []int
	for u := range tokensOf {
		members = append(members, u)
	}
	sort.Ints(members)
	{
		order := append([]int{}, members...)
		core.Shuffle(buildOrder, order)
		panicked, _, class, frame := c06protect(func() {
			a := search.NewArrayIndex(values)
			for _, u := range order {
				a.Add(e.realValue(u), tokensOf[u])
				if buildOrder.Chance(0.1) { // duplicates are removed by Finish
					a.Add(e.realValue(u), tokensOf[u][:1])
				}
			}
			a.Finish(buildOrder.Range(1, 4))
			indices = append(indices, built{"array", a})
		})
		if panicked {
			c.Violate("array:build:panic@"+frame, witness(nil), "building the ArrayIndex panicked: %s", class)
		}
	}
	{
		order := append([]int{}, members...)
		core.Shuffle(buildOrder, order)
		withRemovals := buildOrder.Chance(0.4)
		panicked, _, class, frame := c06protect(func() {
			t := search.NewTreeIndex(values)
			var extras []int
			if withRemovals {
				for i := 0; i < buildOrder.Range(1, 30); i++ {
					extras = append(extras, buildOrder.Intn(e.npoints))
				}
			}
			ei := 0
			for _, u := range order {
				t.Add(e.realValue(u), tokensOf[u])
				for ei < len(extras) && buildOrder.Chance(0.3) {
					x := extras[ei]
					ei++
					if _, member := tokensOf[x]; !member && len(e.tokens) > 0 {
						t.Add(e.realValue(x), e.tokens[:1+buildOrder.Intn(len(e.tokens))])
					}
				}
			}
			if withRemovals && len(e.tokens) > 0 {
				for _, x := range extras {
					if _, member := tokensOf[x]; !member {
						t.Remove(e.realValue(x), e.tokens)
					}
				}
				c.Count("tree_built_with_removals")
			}
			indices = append(indices, built{"tree", t})
		})
		if panicked {
			c.Violate("tree:build:panic@"+frame, witness(nil), "building the TreeIndex panicked: %s", class)
		}
	}
	if !e.intKind {
		panicked, _, class, frame := c06protect(func() {
			var nt compact.NamespaceTable
			var nss []b6.Namespace
			for ns := range e.tableNS {
				if ns != "" {
					nss = append(nss, b6.Namespace(ns))
				}
			}
			sort.Slice(nss, func(i, j int) bool { return nss[i] < nss[j] })
			core.Shuffle(buildOrder, nss)
			nt.FillFromNamespaces(nss)
			x := &c06compactIndex{bufs: map[string][]byte{}, tokens: e.tokens, nt: &nt}
			e.groups = map[string]map[[2]string]bool{}
			e.blockFirst = map[string][]bool{}
			for _, t := range e.tokens {
				enc := &c08encIter{}
				lay := &c08layout{}
				e.groups[t] = map[[2]string]bool{}
				var prev c08id
				for i, u := range e.lists[t] {
					id := e.points[u]
					enc.ids = append(enc.ids, compact.FeatureID{Type: b6.FeatureType(id.t), Namespace: nt.Encode(b6.Namespace(id.ns)), Value: id.v})
					lay.add(id.v, i == 0 || !c08sameGroup(prev, id))
					prev = id
					e.groups[t][[2]string{fmt.Sprint(id.t), id.ns}] = true
				}
				var pl compact.PostingList
				pl.Fill(t, enc)
				buf := make([]byte, compact.PostingListHeaderMaxLength+len(pl.IDs))
				buf = buf[:pl.Marshal(buf)]
				x.bufs[t] = buf
				e.blockFirst[t] = lay.blockFirst
				if lay.blocks >= 2 {
					c.Count("compact_multi_block_list")
				}
				if len(e.groups[t]) >= 2 {
					c.Count("compact_multi_namespace_list")
				}
			}
			indices = append(indices, built{"compact", x})
		})
		if panicked {
			c.Violate("compact:build:panic@"+frame, witness(nil), "encoding the posting lists panicked: %s", class)
		}
	}
	if subcaseUnknownNS {
		c.Count("subcase_ns_not_in_table")
	}

	// ---- run the script on every index ----
	for _, bi := range indices {
		e.index = bi.name
		e.leafBad = false
		c.Count("runs_" + bi.name)
		var seen []string
		step := -1
		panicked, aborted, class, frame := c06protect(func() {
			it := root.real(e).Compile(&c06probeIndex{inner: bi.index, e: e})
			prev := -1
			for i, op := range ops {
				step = i
				var ok bool
				name := "Next"
				if op.advance {
					name = "Advance"
					ok = it.Advance(e.realKey(op.key))
				} else {
					ok = it.Next()
				}
				if e.leafBad {
					return // already attributed to a posting-list iterator
				}
				sig := bi.name + ":" + root.kind + ":" + name + ":"
				if ok != op.ok {
					if ok {
						got := it.Value()
						seen = append(seen, name+"="+e.renderReal(got))
						class := "true-past-end"
						if prev >= 0 && e.rankOfReal(got) == prev {
							class = "reyield"
						}
						c.Violate(sig+class, witness(map[string]any{"index": bi.name, "step": i, "observed": seen}),
							"%s index, %s, step %d %s: returned true (%s), the model says the set is exhausted; observed %v, model %v", bi.name, qtext, i, script[i], e.renderReal(got), seen, script)
					} else {
						seen = append(seen, name+"=false")
						c.Violate(sig+"false-early", witness(map[string]any{"index": bi.name, "step": i, "observed": seen}),
							"%s index, %s, step %d %s: returned false; observed %v, model %v", bi.name, qtext, i, script[i], seen, script)
					}
					return
				}
				if !ok {
					seen = append(seen, name+"=false")
					return
				}
				got := it.Value()
				seen = append(seen, name+"="+e.renderReal(got))
				if g := e.rankOfReal(got); g != op.val {
					class := "wrong-value"
					if g >= 0 && g == prev && !op.advance {
						class = "reyield"
					} else if g >= 0 && g < prev {
						class = "backwards"
					} else if g > op.val {
						class = "skipped"
					}
					c.Violate(sig+class, witness(map[string]any{"index": bi.name, "step": i, "observed": seen}),
						"%s index, %s, step %d: got %s, the model gives %s; observed %v, model %v", bi.name, qtext, i, e.renderReal(got), e.renderRank(op.val), seen, script)
					return
				}
				prev = op.val
			}
		})
		_ = aborted
		if panicked {
			c.Violate(bi.name+":"+root.kind+":panic@"+frame, witness(map[string]any{"index": bi.name, "step": step, "observed": seen}),
				"%s index, %s, step %d: panicked: %s at %s; observed %v", bi.name, qtext, step, class, frame, seen)
		}
	}
}
