package mon

import (
	"fmt"
	"math"
	"strings"
	"sync"
	"time"

	"diagonal.works/b6"
	"diagonal.works/b6/ingest"
	"github.com/golang/geo/s2"
	"verif/internal/core"
	"verif/internal/wm"
)

// C37 Every feature in a world is valid.
//
// The monitor builds worlds from sources that contain invalid features (basic
// builder and compact builder, which drop them) and edits mutable worlds with
// valid and invalid changes (which must be rejected), then enumerates every
// feature of the world and re-validates it with an independent predicate:
// paths have >= 2 points that all resolve to locations; closed paths form a
// valid counter-clockwise loop; areas refer only to existing closed paths of
// at least three distinct points.

func c37Validate(w b6.World, f b6.Feature) (class, detail string) {
	id := f.FeatureID()
	switch id.Type {
	case b6.FeatureTypePath:
		p, ok := f.(b6.PhysicalFeature)
		if !ok {
			return "path-not-physical", fmt.Sprintf("%s is a %T", id, f)
		}
		n := p.GeometryLen()
		if n < 2 {
			return "path-too-short", fmt.Sprintf("%s has %d points", id, n)
		}
		pts := make([]s2.Point, n)
		for i := 0; i < n; i++ {
			ref := p.Reference(i).Source()
			if ref.IsValid() {
				ll, err := w.FindLocationByID(ref)
				if err != nil {
					return "path-point-unresolved", fmt.Sprintf("%s point %d (%s) has no location: %v", id, i, ref, err)
				}
				pts[i] = s2.PointFromLatLng(ll)
			} else {
				var pt s2.Point
				if pn, _, _, _ := core.Protect(func() { pt = p.PointAt(i) }); pn || pt.Norm() == 0 {
					return "path-point-unresolved", fmt.Sprintf("%s point %d has neither a reference nor a location", id, i)
				}
				pts[i] = pt
			}
		}
		first, last := p.Reference(0).Source(), p.Reference(n-1).Source()
		closed := (first.IsValid() && first == last) || (!first.IsValid() && !last.IsValid() && pts[0] == pts[n-1])
		if closed {
			if n < 4 {
				return "closed-path-degenerate", fmt.Sprintf("%s is closed with only %d points", id, n)
			}
			loop := s2.LoopFromPoints(pts[:n-1])
			if err := loop.Validate(); err != nil {
				return "closed-path-invalid-loop", fmt.Sprintf("%s: %v", id, err)
			}
			if loop.Area() > 2*math.Pi {
				return "closed-path-clockwise", fmt.Sprintf("%s is ordered clockwise", id)
			}
		}
	case b6.FeatureTypeArea:
		a, ok := f.(b6.AreaFeature)
		if !ok {
			return "area-not-area", fmt.Sprintf("%s is a %T", id, f)
		}
		for i := 0; i < a.Len(); i++ {
			var paths []b6.PhysicalFeature
			if pn, cl, fr, _ := core.Protect(func() { paths = a.Feature(i) }); pn {
				return "area-path-missing", fmt.Sprintf("%s polygon %d: reading its paths panicked at %s: %s", id, i, fr, cl)
			}
			for _, pf := range paths {
				if pf == nil {
					return "area-path-missing", fmt.Sprintf("%s polygon %d refers to a nil path", id, i)
				}
				pid := pf.FeatureID()
				if w.FindFeatureByID(pid) == nil {
					return "area-path-missing", fmt.Sprintf("%s polygon %d refers to %s which is not in the world", id, i, pid)
				}
				n := pf.GeometryLen()
				if n < 4 {
					return "area-path-too-short", fmt.Sprintf("%s polygon %d path %s has %d points", id, i, pid, n)
				}
				first, last := pf.Reference(0).Source(), pf.Reference(n-1).Source()
				var p0, pn1 s2.Point
				core.Protect(func() { p0, pn1 = pf.PointAt(0), pf.PointAt(n-1) })
				if !((first.IsValid() && first == last) || p0 == pn1) {
					return "area-path-open", fmt.Sprintf("%s polygon %d path %s is not closed", id, i, pid)
				}
			}
		}
	}
	return "", ""
}

// c37CheckWorld enumerates and validates every feature.
func c37CheckWorld(c *core.Ctx, w b6.World, kind string, witness any) {
	var mu sync.Mutex
	var fs []b6.Feature
	if p, cl, fr, _ := core.Protect(func() {
		w.EachFeature(func(f b6.Feature, g int) error {
			mu.Lock()
			fs = append(fs, f)
			mu.Unlock()
			return nil
		}, &b6.EachFeatureOptions{Goroutines: 1})
	}); p {
		c.Violate("each:panic@"+fr+":"+kind, witness, "EachFeature panicked: %s", cl)
		return
	}
	for _, f := range fs {
		c.Count("features_validated")
		var class, detail string
		if p, cl, fr, _ := core.Protect(func() { class, detail = c37Validate(w, f) }); p {
			class, detail = "validate-panic@"+fr, fmt.Sprintf("%s: reading the feature panicked: %s", f.FeatureID(), cl)
		}
		if class != "" {
			c.Violate("invalid-feature:"+class+":"+kind, witness, "a %s world contains an invalid feature: %s", kind, detail)
			return
		}
	}
}

var c37Injections = []string{"path-1pt", "path-missing-point", "closed-clockwise", "closed-bowtie", "closed-2-distinct", "area-missing-path",
	"area-open-path", "area-of-invalid-path", "area-of-clockwise-path", "path-all-missing", "area-open-latlng-path", "area-closed-latlng-path", "areas-before-shared-ring", "long-path-late-missing-point"}

func init() {
	var required []string
	for _, inj := range c37Injections {
		required = append(required, "inject_"+inj)
	}
	required = append(required, "kind_basic", "kind_compact", "kind_basic-mutable", "kind_mutable-overlay", "features_validated", "dropped_or_rejected", "clockwise_inverted", "burst_over_100_invalid")
	core.Register(&core.Monitor{
		ID:        "C37",
		Title:     "Every feature in a world is valid",
		Technique: "invariant walk: every feature enumerated from built and edited worlds is re-validated by an independent validity predicate",
		Rule: "case = (world kind basic builder / compact builder / basic-mutable / mutable-overlay, a valid generated feature set plus 1-4 injected features of 14 kinds (among them an open path of 65-140 points whose only missing point lies beyond index 64) (11 invalid, one valid control: an area over a path closed by lat/lng literals, and three areas over one ring that reach the builder before the ring, the middle one invalid), " +
			"and, in one case of five, a burst of 101-180 further invalid paths and areas, in source order or shuffled; for mutable kinds the invalid features arrive as AddFeature calls inside an edit history); distinct = kind + features + injections; " +
			"non-trivial = at least one injected feature was dropped or rejected",
		Assumptions: []string{"golang/geo Loop.Validate and Loop.Area decide loop validity and orientation", "clockwise closed paths may be inverted by builders (then they must be counter-clockwise in the world)"},
		Quick:       300, Thorough: 12000,
		Batch:    10,
		CaseCap:  15 * time.Minute,
		Required: required,
		Run: func(c *core.Ctx) {
			r := c.R
			kind := []string{"basic", "basic-mutable", "mutable-overlay", "basic", "compact", "mutable-overlay", "basic-mutable", "basic"}[c.Index%8]
			c.Count("kind_" + kind)
			o := wm.DefaultGen()
			if kind == "compact" {
				o.MaxCollections = 0
			}
			g := wm.NewGen(r.Fork(), o)
			valid := g.World()
			var pts []*wm.Spec
			for _, s := range valid {
				if s.ID.Type == b6.FeatureTypePoint {
					pts = append(pts, s)
				}
			}
			absentPoint := b6.FeatureID{Type: b6.FeatureTypePoint, Namespace: b6.NamespaceOSMNode, Value: 999001}
			absentPath := b6.FeatureID{Type: b6.FeatureTypePath, Namespace: b6.NamespaceOSMWay, Value: 999002}
			var front []*wm.Spec    // features that must reach the builder before everything else
			var injected []*wm.Spec // invalid features and the (valid) features they need
			var invalidIDs []b6.FeatureID
			var clockwiseIDs []b6.FeatureID
			var names []string
			areaOf := func(path *wm.Spec) *wm.Spec {
				a := &wm.Spec{ID: b6.FeatureID{Type: b6.FeatureTypeArea, Namespace: path.ID.Namespace, Value: path.ID.Value},
					Tags: []b6.Tag{{Key: "#building", Value: b6.NewStringExpression("yes")}}, Polys: []wm.Poly{{PathIDs: []b6.FeatureID{path.ID}}}}
				g.Reserve(a.ID)
				return a
			}
			n := r.Range(1, 4)
			var picks []string
			for i := 0; i < n; i++ {
				picks = append(picks, c37Injections[(c.Index/8+i*3+r.Intn(2))%len(c37Injections)])
			}
			// the builders' queues of areas waiting for their paths are exercised in one builder case in three
			if (kind == "compact" || kind == "basic") && r.Chance(0.35) {
				picks = append(picks, "areas-before-shared-ring")
			}
			for i, inj := range picks {
				c.Count("inject_" + inj)
				names = append(names, inj)
				off := int64(200000 + 30000*i)
				switch inj {
				case "path-1pt":
					p := &wm.Spec{ID: g.NewID(b6.FeatureTypePath, b6.NamespaceOSMWay), Tags: g.RandomTags(1), Path: []wm.Elem{{Ref: core.Pick(r, pts).ID}}}
					injected = append(injected, p)
					invalidIDs = append(invalidIDs, p.ID)
				case "path-missing-point":
					p := &wm.Spec{ID: g.NewID(b6.FeatureTypePath, b6.NamespaceOSMWay), Tags: g.RandomTags(1), Path: []wm.Elem{{Ref: core.Pick(r, pts).ID}, {Ref: absentPoint}, {Ref: core.Pick(r, pts).ID}}}
					injected = append(injected, p)
					invalidIDs = append(invalidIDs, p.ID)
				case "path-all-missing":
					p := &wm.Spec{ID: g.NewID(b6.FeatureTypePath, b6.NamespaceOSMWay), Tags: g.RandomTags(1), Path: []wm.Elem{{Ref: absentPoint}, {Ref: b6.FeatureID{Type: b6.FeatureTypePoint, Namespace: b6.NamespaceOSMNode, Value: 999005}}}}
					injected = append(injected, p)
					invalidIDs = append(invalidIDs, p.ID)
				case "closed-clockwise":
					ps, ring := g.Ring(off, off, 3000, r.Range(3, 6), true)
					ring.Tags = g.RandomTags(1)
					injected = append(injected, ps...)
					injected = append(injected, ring)
					clockwiseIDs = append(clockwiseIDs, ring.ID)
				case "area-of-clockwise-path":
					ps, ring := g.Ring(off, off, 3000, r.Range(3, 6), true)
					injected = append(injected, ps...)
					injected = append(injected, ring, areaOf(ring))
					clockwiseIDs = append(clockwiseIDs, ring.ID)
				case "closed-bowtie":
					ps, ring := g.Ring(off, off, 3000, 4, false)
					// swap two consecutive vertices: the loop crosses itself
					ring.Path[1], ring.Path[2] = ring.Path[2], ring.Path[1]
					injected = append(injected, ps...)
					injected = append(injected, ring)
					invalidIDs = append(invalidIDs, ring.ID)
				case "closed-2-distinct":
					a, b := g.Point(0), g.Point(0)
					p := &wm.Spec{ID: g.NewID(b6.FeatureTypePath, b6.NamespaceOSMWay), Tags: g.RandomTags(1), Path: []wm.Elem{{Ref: a.ID}, {Ref: b.ID}, {Ref: a.ID}}}
					injected = append(injected, a, b, p)
					invalidIDs = append(invalidIDs, p.ID)
				case "area-missing-path":
					a := &wm.Spec{ID: g.NewID(b6.FeatureTypeArea, b6.NamespaceOSMWay), Tags: g.RandomTags(1), Polys: []wm.Poly{{PathIDs: []b6.FeatureID{absentPath}}}}
					injected = append(injected, a)
					invalidIDs = append(invalidIDs, a.ID)
				case "area-open-path":
					p := &wm.Spec{ID: g.NewID(b6.FeatureTypePath, b6.NamespaceOSMWay), Tags: g.RandomTags(1)}
					for _, j := range r.Perm(len(pts))[:3] {
						p.Path = append(p.Path, wm.Elem{Ref: pts[j].ID})
					}
					a := areaOf(p)
					injected = append(injected, p, a)
					invalidIDs = append(invalidIDs, a.ID)
				case "area-open-latlng-path", "area-closed-latlng-path":
					// a path whose points are lat/lng literals, not references: open (invalid for an area) or closed (valid)
					p := &wm.Spec{ID: g.NewID(b6.FeatureTypePath, b6.NamespaceOSMWay), Tags: g.RandomTags(1)}
					k := r.Range(3, 5)
					for j := 0; j < k; j++ {
						a := 2 * math.Pi * float64(j) / float64(k)
						p.Path = append(p.Path, wm.Elem{LL: g.Place(off+int64(2500*math.Sin(a)), off+int64(2500*math.Cos(a)))})
					}
					a := areaOf(p)
					if inj == "area-closed-latlng-path" {
						p.Path = append(p.Path, p.Path[0])
						injected = append(injected, p, a)
					} else {
						injected = append(injected, p, a)
						invalidIDs = append(invalidIDs, a.ID)
					}
				case "long-path-late-missing-point":
					// an open path of 65-140 points (walking to and fro over the world's points) whose only
					// missing point comes late: beyond any fixed-size bookkeeping of "which points were bad"
					if len(pts) < 2 {
						continue
					}
					n := r.Range(65, 140)
					p := &wm.Spec{ID: g.NewID(b6.FeatureTypePath, b6.NamespaceOSMWay), Tags: g.RandomTags(1)}
					for k := 0; k < n; k++ {
						p.Path = append(p.Path, wm.Elem{Ref: pts[k%len(pts)].ID})
					}
					p.Path[r.Range(64, n-1)] = wm.Elem{Ref: absentPoint}
					injected = append(injected, p)
					invalidIDs = append(invalidIDs, p.ID)
				case "areas-before-shared-ring":
					// three areas over one valid ring, delivered before the ring: the first and the last
					// are valid, the middle one also has a polygon over a path that is missing (or open)
					ps, ring := g.Ring(off, off, 3000, r.Range(3, 6), false)
					mk := func(paths ...b6.FeatureID) *wm.Spec {
						a := &wm.Spec{ID: g.NewID(b6.FeatureTypeArea, b6.NamespaceOSMWay), Tags: []b6.Tag{{Key: "#building", Value: b6.NewStringExpression("yes")}}}
						for _, p := range paths {
							a.Polys = append(a.Polys, wm.Poly{PathIDs: []b6.FeatureID{p}})
						}
						return a
					}
					second := absentPath
					var openPath *wm.Spec
					if r.Bool() && len(pts) >= 3 {
						openPath = &wm.Spec{ID: g.NewID(b6.FeatureTypePath, b6.NamespaceOSMWay)}
						for _, j := range r.Perm(len(pts))[:3] {
							openPath.Path = append(openPath.Path, wm.Elem{Ref: pts[j].ID})
						}
						second = openPath.ID
					}
					a1, a2, a3 := mk(ring.ID), mk(ring.ID, second), mk(ring.ID)
					front = append(front, a1, a2, a3)
					injected = append(injected, ps...)
					if openPath != nil {
						injected = append(injected, openPath)
					}
					injected = append(injected, ring)
					invalidIDs = append(invalidIDs, a2.ID)
				case "area-of-invalid-path":
					ps, ring := g.Ring(off, off, 3000, 4, false)
					ring.Path[1], ring.Path[2] = ring.Path[2], ring.Path[1]
					a := areaOf(ring)
					injected = append(injected, ps...)
					injected = append(injected, ring, a)
					invalidIDs = append(invalidIDs, ring.ID, a.ID)
				}
			}
			// a messy source: more invalid features than any fixed-size list a builder might keep
			if c.Index%5 == 2 {
				burst := r.Range(101, 180)
				for i := 0; i < burst; i++ {
					var p *wm.Spec
					switch r.Intn(3) {
					case 0:
						p = &wm.Spec{ID: g.NewID(b6.FeatureTypePath, b6.NamespaceOSMWay), Path: []wm.Elem{{Ref: core.Pick(r, pts).ID}}}
					case 1:
						p = &wm.Spec{ID: g.NewID(b6.FeatureTypePath, b6.NamespaceOSMWay), Path: []wm.Elem{{Ref: core.Pick(r, pts).ID}, {Ref: absentPoint}}}
					default:
						p = &wm.Spec{ID: g.NewID(b6.FeatureTypeArea, b6.NamespaceOSMWay), Tags: g.RandomTags(1), Polys: []wm.Poly{{PathIDs: []b6.FeatureID{absentPath}}}}
					}
					injected = append(injected, p)
					invalidIDs = append(invalidIDs, p.ID)
				}
				names = append(names, fmt.Sprintf("burst-%d", burst))
				c.Count("burst_over_100_invalid")
			}
			all := append(append(append([]*wm.Spec{}, front...), valid...), injected...)
			shuffled := r.Chance(0.5)
			if shuffled && len(front) == 0 && (kind == "basic" || kind == "compact") {
				core.Shuffle(r, all)
				c.Count("shuffled_sources")
			}
			witness := map[string]any{"kind": kind, "injections": names, "shuffled": shuffled}
			c.Key("%s/%v/%v/%d", kind, names, shuffled, len(all))
			var world b6.World
			switch kind {
			case "basic":
				var err error
				if p, cl, fr, st := core.Protect(func() { world, err = wm.Basic(all, 1+r.Intn(4)) }); p {
					c.Violate("build:panic@"+fr+":basic", st, "the basic builder panicked on a source with invalid features %v: %s", names, cl)
					return
				}
				if err != nil {
					c.Violate("build:error:basic", witness, "the basic builder (drop-invalid mode) failed: %v", err)
					return
				}
			case "compact":
				var err error
				var cw b6.World
				if p, cl, fr, st := core.Protect(func() { cw, err = wm.Compact(all, 1) }); p {
					c.Violate("build:panic@"+fr+":compact", st, "the compact builder panicked on a source with invalid features %v: %s", names, cl)
					return
				}
				if err != nil {
					c.Violate("build:error:compact", witness, "the compact builder failed: %v", err)
					return
				}
				world = cw
			default:
				var mw ingest.MutableWorld
				var err error
				if kind == "basic-mutable" {
					mw, err = wm.BasicMutable(valid)
				} else {
					var base b6.World
					base, err = wm.Basic(valid, 1)
					if err == nil {
						mw = ingest.NewMutableOverlayWorld(base)
					}
				}
				if err != nil {
					c.Violate("setup-failed:"+kind, nil, "setup failed: %v", err)
					return
				}
				world = mw
				model := wm.ModelOf(valid)
				var script []string
				for _, s := range append(append([]*wm.Spec{}, front...), injected...) {
					for j := r.Intn(3); j > 0; j-- { // valid edits in between
						op := g.NextOp(model)
						script = append(script, op.String())
						if wm.Apply(mw, op) == nil {
							wm.ApplyModel(model, op)
						}
					}
					script = append(script, "AddFeature("+s.String()+")")
					var err error
					if p, cl, fr, st := core.Protect(func() { err = mw.AddFeature(s.Ingest()) }); p {
						c.Violate("addfeature:panic@"+fr+":"+kind, map[string]any{"history": script, "stack": st}, "AddFeature(%s) panicked: %s", s, cl)
						return
					}
					if err != nil {
						c.Count("dropped_or_rejected")
						c.Nontrivial()
					} else {
						model.Add(s)
					}
					witness["history"] = script
					c37CheckWorld(c, world, kind, witness)
					if c.Violations() > 0 {
						return
					}
				}
				// also invalid replacements of valid features: open a ring that an area uses, shorten it
				for _, id := range model.IDs() {
					s := model.F[id]
					if id.Type != b6.FeatureTypeArea || len(s.Polys) == 0 || s.Polys[0].PathIDs == nil {
						continue
					}
					ring, ok := model.F[s.Polys[0].PathIDs[0]]
					if !ok || len(ring.Path) < 4 {
						continue
					}
					bad := ring.Clone()
					if r.Bool() {
						bad.Path = bad.Path[:len(bad.Path)-1]
					} else {
						bad.Path = bad.Path[:2]
					}
					script = append(script, "AddFeature("+bad.String()+")")
					var err error
					if p, cl, fr, st := core.Protect(func() { err = mw.AddFeature(bad.Ingest()) }); p {
						c.Violate("addfeature:panic@"+fr+":"+kind, map[string]any{"history": script, "stack": st}, "AddFeature(%s) panicked: %s", bad, cl)
						return
					}
					if err != nil {
						c.Count("dropped_or_rejected")
						c.Count("rejected_invalidating_replacement")
					} else {
						model.Add(bad)
					}
					break
				}
				witness["history"] = script
			}
			c37CheckWorld(c, world, kind, witness)
			// bookkeeping: what happened to the injected features
			for _, id := range invalidIDs {
				if world.FindFeatureByID(id) == nil {
					c.Count("dropped_or_rejected")
					c.Nontrivial()
				}
			}
			for _, id := range clockwiseIDs {
				if f := world.FindFeatureByID(id); f != nil {
					c.Count("clockwise_inverted")
				} else {
					c.Count("clockwise_dropped_or_rejected")
				}
			}
			if c.Index < 3 {
				c.Sample(map[string]any{"kind": kind, "injections": names, "features": len(all), "sample_injected": strings.SplitN(fmt.Sprint(injected), " ", 12)})
			}
		},
	})
}
