package mon

import (
	"context"
	"errors"
	"fmt"
	"hash/fnv"
	"runtime"
	"sort"
	"strings"
	"sync"
	"time"

	"diagonal.works/b6"
	"diagonal.works/b6/api"
	"diagonal.works/b6/api/functions"
	"verif/internal/core"
)

// C25 map-parallel returns map's results for any core count and schedule.
//
// All three parties of mapParallelCollection are harness code scripted per
// item: the source iterator (the dispatcher goroutine pulls it), the mapped
// function (a native Go function in the function symbols, run by the workers on
// forked VMs, optionally behind a lambda) and the consumer. The oracle is the
// definition of map written out: item i gives (key_i, F(value_i)); the first
// failing item or the iterator's error ends the sequence.
//
// Per run:
//   - ended without error: the (key, value) sequence is exactly map's;
//   - ended with an error: what was delivered is a prefix of map's sequence and
//     the error is an injected one (a reachable failing item of that collection
//     or the iterator's error);
//   - the whole evaluation returns (core.Watch quiescence, never a stopwatch);
//   - the race detector is silent (Race: true; parsed by the framework).

const (
	c25direct = iota
	c25mapwrap
	c25filter
	c25take
	c25flatten
	c25alternate
	c25shapes
)

var c25shapeNames = []string{"direct", "map", "filter", "take", "flatten", "alternate"}

type c25itemErr struct{ src, idx int }

func (e *c25itemErr) Error() string {
	return fmt.Sprintf("c25 injected item failure src=%d item=%d", e.src, e.idx)
}

type c25srcErr struct{ src, at int }

func (e *c25srcErr) Error() string {
	return fmt.Sprintf("c25 injected iterator failure src=%d after=%d", e.src, e.at)
}

type c25srcScript struct {
	n          int
	keys       []any
	fail       []bool
	errAt      int // the iterator fails instead of delivering item errAt (n = after the last item); -1 = never
	work       []uint8
	disp       []uint8
	countKnown bool
}

type c25script struct {
	cores     int
	shape     int
	lambdaF   bool
	lambdaG   bool
	srcs      []c25srcScript
	consumer  []uint8
	take      int
	stopAfter int // harness consumer stops after this many items; -1 = never
	pattern   []bool
}

func c25F(v int) int     { return v*7 + 3 }
func c25G(v int) int     { return v + 1000000 }
func c25Pred(v int) bool { return v%3 != 0 }

const (
	c25none = iota
	c25gosched
	c25micro
	c25milli
)

const (
	c25evDispatch = 0
	c25evWorker   = 1
	c25evConsumer = 2
)

// c25state is the shared record of one run: everything under one mutex.
type c25state struct {
	mu     sync.Mutex
	sc     *c25script
	events []uint32
}

func (s *c25state) event(kind, id int) {
	s.mu.Lock()
	s.events = append(s.events, uint32(kind)<<28|uint32(id))
	s.mu.Unlock()
}

func c25delay(class uint8, salt int) {
	switch class {
	case c25gosched:
		runtime.Gosched()
	case c25micro:
		time.Sleep(time.Duration(1+salt%9) * 3 * time.Microsecond)
	case c25milli:
		time.Sleep(time.Millisecond)
	}
}

// c25source is the scripted source collection.
type c25source struct {
	st  *c25state
	src int
}

type c25iter struct {
	st  *c25state
	src int
	i   int
}

func (c *c25source) Begin() b6.Iterator[any, any] { return &c25iter{st: c.st, src: c.src, i: -1} }
func (c *c25source) Count() (int, bool) {
	s := &c.st.sc.srcs[c.src]
	return s.n, s.countKnown
}

func (it *c25iter) Next() (bool, error) {
	s := &it.st.sc.srcs[it.src]
	it.i++
	if s.errAt >= 0 && it.i >= s.errAt {
		it.i = s.errAt
		return false, &c25srcErr{src: it.src, at: s.errAt}
	}
	if it.i >= s.n {
		it.i = s.n
		return false, nil
	}
	c25delay(s.disp[it.i], it.i)
	it.st.event(c25evDispatch, it.src*1000+it.i)
	return true, nil
}
func (it *c25iter) Key() any   { return it.st.sc.srcs[it.src].keys[it.i] }
func (it *c25iter) Value() any { return it.src*1000 + it.i }
func (it *c25iter) KeyExpression() b6.Expression {
	l, _ := b6.FromLiteral(it.Key())
	return b6.Expression{AnyExpression: l.AnyLiteral}
}
func (it *c25iter) ValueExpression() b6.Expression { return b6.NewIntExpression(it.src*1000 + it.i) }

func c25symbols(st *c25state) api.FunctionSymbols {
	fs := make(api.FunctionSymbols, len(functions.Functions())+8)
	for k, v := range functions.Functions() {
		fs[k] = v
	}
	fs["c25-f"] = func(_ *api.Context, v interface{}) (interface{}, error) {
		x, ok := v.(int)
		if !ok {
			return nil, fmt.Errorf("c25-f: expected an int, found %T", v)
		}
		src, idx := x/1000, x%1000
		s := &st.sc.srcs[src]
		c25delay(s.work[idx], idx)
		st.event(c25evWorker, x)
		if s.fail[idx] {
			return nil, &c25itemErr{src: src, idx: idx}
		}
		return c25F(x), nil
	}
	fs["c25-g"] = func(_ *api.Context, v interface{}) (interface{}, error) { return c25G(v.(int)), nil }
	fs["c25-pred"] = func(_ *api.Context, v interface{}) (bool, error) { return c25Pred(v.(int)), nil }
	fs["c25-src"] = func(_ *api.Context, id int) (b6.Collection[any, any], error) {
		if id < 0 || id >= len(st.sc.srcs) {
			return b6.Collection[any, any]{}, fmt.Errorf("c25-src: no source %d", id)
		}
		return b6.Collection[any, any]{AnyCollection: &c25source{st: st, src: id}}, nil
	}
	fs["c25-outer"] = func(_ *api.Context) (b6.Collection[any, any], error) {
		a := b6.ArrayCollection[any, any]{}
		for i := range st.sc.srcs {
			a.Keys = append(a.Keys, i)
			a.Values = append(a.Values, i)
		}
		return a.Collection(), nil
	}
	return fs
}

func (sc *c25script) expression() string {
	f := "c25-f"
	if sc.lambdaF {
		f = "{x -> c25-f x}"
	}
	g := "c25-g"
	if sc.lambdaG {
		g = "{y -> c25-g y}"
	}
	mp := func(src string) string { return "map-parallel (c25-src " + src + ") " + f }
	switch sc.shape {
	case c25direct:
		return mp("0")
	case c25mapwrap:
		return "map (" + mp("0") + ") " + g
	case c25filter:
		return "filter (" + mp("0") + ") c25-pred"
	case c25take:
		return fmt.Sprintf("take (%s) %d", mp("0"), sc.take)
	case c25flatten:
		return "flatten (map (c25-outer) {s -> map-parallel (c25-src s) " + f + "})"
	default:
		return "pair (map (" + mp("0") + ") " + g + ") (map (" + mp("1") + ") " + g + ")"
	}
}

type c25kv struct {
	K any
	V int
}

// c25expect is the model: what map yields for one collection.
type c25expect struct {
	items    []c25kv
	mustFail bool
	mayFail  bool
	okErr    func(error) bool
}

// reach returns the number of items of source s that can be dispatched and the
// position of the first failure (n+1 if none).
func (s *c25srcScript) failurePoint() (reach, p int) {
	reach = s.n
	if s.errAt >= 0 {
		reach = s.errAt
	}
	p = s.n + 1
	for i := 0; i < reach; i++ {
		if s.fail[i] {
			p = i
			break
		}
	}
	if p == s.n+1 && s.errAt >= 0 {
		p = s.errAt
	}
	return
}

func (s *c25srcScript) admissible(src int) func(error) bool {
	reach, _ := s.failurePoint()
	return func(err error) bool {
		var ie *c25itemErr
		var se *c25srcErr
		if errors.As(err, &ie) {
			return ie.src == src && ie.idx < reach && s.fail[ie.idx]
		}
		if errors.As(err, &se) {
			return se.src == src && s.errAt >= 0 && se.at == s.errAt
		}
		// the VM may re-wrap an error as text
		m := err.Error()
		for i := 0; i < reach; i++ {
			if s.fail[i] && strings.Contains(m, (&c25itemErr{src, i}).Error()) {
				return true
			}
		}
		return s.errAt >= 0 && strings.Contains(m, (&c25srcErr{src, s.errAt}).Error())
	}
}

// mapOf: the sequence map yields for source src with value transform t, up to its first failure.
func (sc *c25script) mapOf(src int, t func(int) int) (items []c25kv, fails bool) {
	s := &sc.srcs[src]
	_, p := s.failurePoint()
	for i := 0; i < s.n && i < p; i++ {
		items = append(items, c25kv{s.keys[i], t(src*1000 + i)})
	}
	return items, p <= s.n
}

func (sc *c25script) expect(which int) c25expect {
	switch sc.shape {
	case c25direct:
		it, f := sc.mapOf(0, c25F)
		return c25expect{it, f, f, sc.srcs[0].admissible(0)}
	case c25mapwrap:
		it, f := sc.mapOf(0, func(v int) int { return c25G(c25F(v)) })
		return c25expect{it, f, f, sc.srcs[0].admissible(0)}
	case c25filter:
		it, f := sc.mapOf(0, c25F)
		var kept []c25kv
		for _, kv := range it {
			if c25Pred(kv.V) {
				kept = append(kept, kv)
			}
		}
		return c25expect{kept, f, f, sc.srcs[0].admissible(0)}
	case c25take:
		it, f := sc.mapOf(0, c25F)
		if sc.take <= len(it) {
			// map would have stopped asking before the failure: success is
			// map's answer, but map-parallel reads ahead and may meet the failure
			return c25expect{it[:sc.take], false, f, sc.srcs[0].admissible(0)}
		}
		return c25expect{it, f, f, sc.srcs[0].admissible(0)}
	case c25flatten:
		var all []c25kv
		for j := range sc.srcs {
			it, f := sc.mapOf(j, c25F)
			all = append(all, it...)
			if f {
				return c25expect{all, true, true, sc.srcs[j].admissible(j)}
			}
		}
		return c25expect{all, false, false, func(error) bool { return false }}
	default:
		it, f := sc.mapOf(which, func(v int) int { return c25G(c25F(v)) })
		return c25expect{it, f, f, sc.srcs[which].admissible(which)}
	}
}

type c25outcome struct {
	got     []c25kv
	err     error
	ended   bool // Next returned (false, nil)
	stopped bool // the harness stopped asking
	bad     string
}

func c25sameKV(a, b c25kv) bool {
	return a.V == b.V && fmt.Sprint(a.K) == fmt.Sprint(b.K) && fmt.Sprintf("%T", a.K) == fmt.Sprintf("%T", b.K)
}

// judge compares one consumed collection with the model.
func c25judge(c *core.Ctx, sc *c25script, which int, o *c25outcome, witness map[string]any) {
	shape := c25shapeNames[sc.shape]
	ex := sc.expect(which)
	render := func(kvs []c25kv) string {
		var sb strings.Builder
		for i, kv := range kvs {
			if i > 0 {
				sb.WriteByte(' ')
			}
			fmt.Fprintf(&sb, "%v=%d", kv.K, kv.V)
		}
		return "[" + sb.String() + "]"
	}
	w := map[string]any{}
	for k, v := range witness {
		w[k] = v
	}
	w["delivered"] = render(o.got)
	w["map_yields"] = render(ex.items)
	w["map_fails"] = ex.mustFail
	if o.err != nil {
		w["error"] = o.err.Error()
	}
	if o.bad != "" {
		c.Violate(shape+":bad-item", w, "%s: %s", shape, o.bad)
		return
	}
	prefix := len(o.got) <= len(ex.items)
	if prefix {
		for i := range o.got {
			if !c25sameKV(o.got[i], ex.items[i]) {
				prefix = false
				break
			}
		}
	}
	switch {
	case o.err != nil:
		c.Count("runs_ended_with_error")
		if !ex.mayFail {
			c.Violate(shape+":unexpected-error", w, "%s: no item and no iterator call fails in this script, but the iteration ended with %q", shape, o.err)
			return
		}
		if !ex.okErr(o.err) {
			c.Violate(shape+":unrelated-error", w, "%s: the iteration ended with %q, which is neither a reachable failing item's error nor the iterator's error", shape, o.err)
			return
		}
		if !prefix {
			c.Violate(shape+":not-a-prefix", w, "%s: before the error %q the consumer received %s, which is not a prefix of map's %s", shape, o.err, render(o.got), render(ex.items))
			return
		}
		var se *c25srcErr
		if errors.As(o.err, &se) || strings.Contains(o.err.Error(), "iterator failure") {
			c.Count("error_returned_iterator")
		} else {
			c.Count("error_returned_item")
		}
		if len(o.got) < len(ex.items) {
			c.Count("prefix_shorter_than_failure_point")
		} else {
			c.Count("prefix_up_to_failure_point")
		}
	case o.ended:
		if ex.mustFail {
			c.Violate(shape+":lost-error", w, "%s: map fails in this script, but the iteration ended without an error after %d items", shape, len(o.got))
			return
		}
		if !prefix || len(o.got) != len(ex.items) {
			c.Violate(shape+":wrong-sequence", w, "%s: delivered %s, map yields %s", shape, render(o.got), render(ex.items))
			return
		}
		c.Count("success_exact")
	case o.stopped:
		c.Count("consumer_stopped_early")
		if !prefix {
			c.Violate(shape+":not-a-prefix", w, "%s: the consumer stopped after %s, which is not a prefix of map's %s", shape, render(o.got), render(ex.items))
		}
	}
}

// c25consume pulls one iterator according to the script.
func c25pull(st *c25state, it b6.Iterator[any, any], o *c25outcome, pos int) (more bool) {
	ok, err := it.Next()
	if err != nil {
		o.err = err
		return false
	}
	if !ok {
		o.ended = true
		return false
	}
	v, isInt := it.Value().(int)
	if !isInt {
		o.bad = fmt.Sprintf("value of type %T at position %d", it.Value(), len(o.got))
		return false
	}
	o.got = append(o.got, c25kv{it.Key(), v})
	st.event(c25evConsumer, len(o.got)-1)
	if pos < len(st.sc.consumer) {
		c25delay(st.sc.consumer[pos], pos)
	}
	return true
}

func c25gen(r *core.R) *c25script {
	sc := &c25script{cores: r.Range(2, 8), shape: r.Intn(c25shapes), lambdaF: r.Bool(), lambdaG: r.Bool(), stopAfter: -1}
	nsrc := 1
	switch sc.shape {
	case c25flatten:
		nsrc = r.Range(1, 3)
	case c25alternate:
		nsrc = 2
	}
	budget := 40
	for j := 0; j < nsrc; j++ {
		var n int
		switch x := r.Intn(10); {
		case x == 0:
			n = 0
		case x == 1:
			n = 1
		case x == 2:
			n = sc.cores * r.Range(1, 3) // a multiple of the core count
		case x == 3:
			n = sc.cores*r.Range(1, 3) + 1
		case x < 7:
			n = r.Range(2, 12)
		default:
			n = r.Range(2, 40)
		}
		if nsrc > 1 && n > budget/nsrc {
			n = budget / nsrc
		}
		s := c25srcScript{n: n, errAt: -1, countKnown: r.Bool()}
		stringKeys := r.Bool()
		dupKeys := r.Chance(0.3)
		for i := 0; i < n; i++ {
			k := i
			if dupKeys {
				k = i % 3
			}
			if stringKeys {
				s.keys = append(s.keys, fmt.Sprintf("k%d", k))
			} else {
				s.keys = append(s.keys, k)
			}
			s.fail = append(s.fail, false)
			s.work = append(s.work, c25class(r))
			s.disp = append(s.disp, c25class(r))
		}
		if n > 0 && r.Chance(0.45) {
			for f := r.Range(1, 3); f > 0; f-- {
				switch r.Intn(4) {
				case 0:
					s.fail[0] = true
				case 1:
					s.fail[n-1] = true
				default:
					s.fail[r.Intn(n)] = true
				}
			}
		}
		if r.Chance(0.2) {
			s.errAt = r.Intn(n + 1)
		}
		sc.srcs = append(sc.srcs, s)
	}
	total := 0
	for _, s := range sc.srcs {
		total += s.n
	}
	for i := 0; i < total+2; i++ {
		sc.consumer = append(sc.consumer, c25class(r))
	}
	if sc.shape == c25take {
		sc.take = r.Intn(total + 3)
	} else if r.Chance(0.15) {
		sc.stopAfter = r.Intn(total + 1)
	}
	if sc.shape == c25alternate {
		for i := 0; i < 2*total+4; i++ {
			sc.pattern = append(sc.pattern, r.Bool())
		}
	}
	return sc
}

func c25class(r *core.R) uint8 {
	switch x := r.Intn(100); {
	case x < 55:
		return c25none
	case x < 80:
		return c25gosched
	case x < 97:
		return c25micro
	default:
		return c25milli
	}
}

func (sc *c25script) String() string {
	var sb strings.Builder
	fmt.Fprintf(&sb, "cores=%d %s", sc.cores, sc.expression())
	cls := func(d []uint8) string {
		b := make([]byte, len(d))
		for i, x := range d {
			b[i] = "-gum"[x]
		}
		return string(b)
	}
	for j, s := range sc.srcs {
		var fails []int
		for i, f := range s.fail {
			if f {
				fails = append(fails, i)
			}
		}
		fmt.Fprintf(&sb, " src%d{n=%d keys=%v fail=%v errAt=%d count=%v work=%s disp=%s}", j, s.n, s.keys, fails, s.errAt, s.countKnown, cls(s.work), cls(s.disp))
	}
	fmt.Fprintf(&sb, " consumer=%s stopAfter=%d", cls(sc.consumer), sc.stopAfter)
	if sc.shape == c25alternate {
		b := make([]byte, len(sc.pattern))
		for i, p := range sc.pattern {
			b[i] = "AB"[map[bool]int{false: 0, true: 1}[p]]
		}
		fmt.Fprintf(&sb, " pattern=%s", b)
	}
	return sb.String()
}

// c25once evaluates the script once and consumes the result. It runs inside core.Watch.
func c25once(sc *c25script, expr b6.Expression, st *c25state, outs *[2]c25outcome) (evalErr error) {
	ctx, cancel := context.WithCancel(context.Background())
	// releases the goroutines an early-stopping consumer leaves parked in map.go
	defer cancel()
	actx := &api.Context{World: b6.EmptyWorld{}, FunctionSymbols: c25symbols(st), Adaptors: functions.Adaptors(), Context: ctx, Cores: sc.cores}
	r, err := api.Evaluate(expr, actx)
	if err != nil {
		return err
	}
	if sc.shape == c25alternate {
		p, ok := r.(api.Pair)
		if !ok {
			return fmt.Errorf("expected a pair, found %T", r)
		}
		ca, okA := p.First().(b6.UntypedCollection)
		cb, okB := p.Second().(b6.UntypedCollection)
		if !okA || !okB {
			return fmt.Errorf("expected a pair of collections, found %T, %T", p.First(), p.Second())
		}
		its := [2]b6.Iterator[any, any]{ca.BeginUntyped(), cb.BeginUntyped()}
		live := [2]bool{true, true}
		pos := 0
		for step := 0; live[0] || live[1]; step++ {
			w := 0
			if step < len(sc.pattern) && sc.pattern[step] {
				w = 1
			}
			if !live[w] {
				w = 1 - w
			}
			live[w] = c25pull(st, its[w], &outs[w], pos)
			pos++
		}
		return nil
	}
	coll, ok := r.(b6.UntypedCollection)
	if !ok {
		return fmt.Errorf("expected a collection, found %T", r)
	}
	it := coll.BeginUntyped()
	o := &outs[0]
	for pos := 0; ; pos++ {
		if sc.stopAfter >= 0 && len(o.got) >= sc.stopAfter {
			o.stopped = true
			return nil
		}
		if !c25pull(st, it, o, pos) {
			return nil
		}
	}
}

func init() {
	required := []string{"distinct_interleavings", "runs", "success_exact", "runs_with_failing_items", "runs_with_iterator_error",
		"error_returned_item", "error_returned_iterator", "early_stopping_consumers", "lambda_mapped_function", "native_mapped_function",
		"prefix_up_to_failure_point", "runs_ended_with_error"}
	for _, s := range c25shapeNames {
		required = append(required, "shape_"+s)
	}
	core.Register(&core.Monitor{
		ID:        "C25",
		Title:     "map-parallel returns map's results for any core count and schedule",
		Technique: "scripted source iterator, mapped function and consumer around the real map-parallel under the race detector; definition-of-map oracle; structural hang detection",
		Rule: "case = script (cores 2..8, one of 6 shapes: direct | inside map | inside filter | inside take | nested in flatten | two collections consumed alternately; " +
			"collections of 0..40 items; per item a delay class none|Gosched|µs sleep|ms sleep for the source iterator, the worker and the consumer; failing items; an iterator error position; " +
			"an early-stopping consumer), evaluated R times (quick 5, thorough 20); distinct = distinct script text together with the set of event orders it produced; " +
			"non-trivial = at least 2 items in total",
		Assumptions: []string{
			"schedules are sampled (scripted delays plus the Go scheduler under the race detector), not enumerated: the 'exhaustively in a model' half of the quantifier is not covered",
			"when a failing item lies beyond what a take/early-stopping consumer asks for, both map's answer and a prefix followed by that item's error are accepted (map-parallel reads ahead)",
			"a hang is decided by goroutine-dump quiescence (core.Watch), never by a timeout",
		},
		Quick: 300, Thorough: 2000,
		Race:     true,
		Required: required,
		Run:      c25run,
	})
}

func c25run(c *core.Ctx) {
	sc := c25gen(c.R)
	text := sc.String()
	reps := 5
	if c.Tier == "thorough" {
		reps = 20
	}
	expr, err := api.ParseExpression(sc.expression())
	if err != nil {
		c.Inconclusive("the script's expression does not parse: " + err.Error())
		return
	}
	total := 0
	anyFail, anyIterErr := false, false
	for j := range sc.srcs {
		s := &sc.srcs[j]
		total += s.n
		reach, _ := s.failurePoint()
		for i := 0; i < reach; i++ {
			anyFail = anyFail || s.fail[i]
		}
		anyIterErr = anyIterErr || s.errAt >= 0
	}
	if total >= 2 {
		c.Nontrivial()
	}
	c.Count("shape_" + c25shapeNames[sc.shape])
	c.Count(fmt.Sprintf("cores_%d", sc.cores))
	c.Max("items_max", int64(total))
	if c.Index < 3 {
		c.Sample(text)
	}
	orders := map[uint64]bool{}
	scriptHash := core.HashString(text)
	for rep := 0; rep < reps; rep++ {
		st := &c25state{sc: sc}
		var outs [2]c25outcome
		var evalErr error
		rp := core.Watch(func() { evalErr = c25once(sc, expr, st, &outs) }, 8*time.Second, 90*time.Second)
		witness := map[string]any{"script": text, "repeat": rep}
		shape := c25shapeNames[sc.shape]
		switch rp.Verdict {
		case core.Quiescent:
			witness["parked_goroutines"] = rp.Dump
			witness["frame"] = rp.Frame
			c.Violate(shape+":hang", witness, "%s: the evaluation never returned, every goroutine is parked (quiescent) at %s", shape, rp.Frame)
			c.RequestRestart()
			return
		case core.CapHit:
			c.Inconclusive(shape + ": still running at the cap, goroutines not quiescent (top frame " + rp.Frame + ")")
			c.RequestRestart()
			return
		}
		c.Count("runs")
		if sc.lambdaF {
			c.Count("lambda_mapped_function")
		} else {
			c.Count("native_mapped_function")
		}
		if anyFail {
			c.Count("runs_with_failing_items")
		}
		if anyIterErr {
			c.Count("runs_with_iterator_error")
		}
		if sc.shape == c25take || sc.stopAfter >= 0 {
			c.Count("early_stopping_consumers")
		}
		if evalErr != nil {
			c.Inconclusive(fmt.Sprintf("%s: evaluating %q failed before any iteration: %v", shape, sc.expression(), evalErr))
			return
		}
		st.mu.Lock()
		h := fnv.New64a()
		var b [4]byte
		for _, e := range st.events {
			b[0], b[1], b[2], b[3] = byte(e), byte(e>>8), byte(e>>16), byte(e>>24)
			h.Write(b[:])
		}
		nev := len(st.events)
		st.mu.Unlock()
		orders[h.Sum64()^scriptHash] = true
		c.Max("events_per_run_max", int64(nev))
		c25judge(c, sc, 0, &outs[0], witness)
		if sc.shape == c25alternate {
			c25judge(c, sc, 1, &outs[1], witness)
		}
		if c.Violations() > 0 {
			break
		}
	}
	c.Add("distinct_interleavings", len(orders))
	c.Max("interleavings_per_script_max", int64(len(orders)))
	var hs []string
	for h := range orders {
		hs = append(hs, fmt.Sprintf("%016x", h))
	}
	sort.Strings(hs)
	c.Key("%s orders=%s", text, strings.Join(hs, ","))
}
