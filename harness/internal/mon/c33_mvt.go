package mon

import (
	"errors"
	"fmt"
)

// A minimal Mapbox Vector Tile 2.1 decoder written for C33, working on the
// serialised bytes (what a map client receives). It knows nothing of the
// repository's generated proto code.

type c33Value struct {
	kind string // string | float | double | int | uint | sint | bool | none
	s    string
	i    int64
	u    uint64
}

type c33Feature struct {
	id       uint64
	hasID    bool
	tags     []uint32
	typ      int
	geometry []uint32
}

type c33Layer struct {
	name     string
	version  uint32
	extent   uint32
	hasExt   bool
	keys     []string
	values   []c33Value
	features []c33Feature
}

type c33Wire struct {
	b []byte
	i int
}

var errC33Truncated = errors.New("truncated")

func (w *c33Wire) done() bool { return w.i >= len(w.b) }

func (w *c33Wire) varint() (uint64, error) {
	var v uint64
	for shift := uint(0); shift < 70; shift += 7 {
		if w.i >= len(w.b) {
			return 0, errC33Truncated
		}
		c := w.b[w.i]
		w.i++
		v |= uint64(c&0x7f) << shift
		if c < 0x80 {
			return v, nil
		}
	}
	return 0, errors.New("varint too long")
}

func (w *c33Wire) bytes() ([]byte, error) {
	n, err := w.varint()
	if err != nil {
		return nil, err
	}
	if uint64(len(w.b)-w.i) < n {
		return nil, errC33Truncated
	}
	out := w.b[w.i : w.i+int(n)]
	w.i += int(n)
	return out, nil
}

// field returns the next (field number, wire type).
func (w *c33Wire) field() (int, int, error) {
	k, err := w.varint()
	return int(k >> 3), int(k & 7), err
}

func (w *c33Wire) skip(wt int) error {
	switch wt {
	case 0:
		_, err := w.varint()
		return err
	case 1:
		w.i += 8
	case 2:
		_, err := w.bytes()
		return err
	case 5:
		w.i += 4
	default:
		return fmt.Errorf("unsupported wire type %d", wt)
	}
	if w.i > len(w.b) {
		return errC33Truncated
	}
	return nil
}

// packedU32 reads a repeated uint32 that may be packed (wire type 2) or not (0).
func (w *c33Wire) packedU32(wt int, into []uint32) ([]uint32, error) {
	if wt == 0 {
		v, err := w.varint()
		return append(into, uint32(v)), err
	}
	if wt != 2 {
		return into, fmt.Errorf("repeated uint32 with wire type %d", wt)
	}
	b, err := w.bytes()
	if err != nil {
		return into, err
	}
	in := &c33Wire{b: b}
	for !in.done() {
		v, err := in.varint()
		if err != nil {
			return into, err
		}
		into = append(into, uint32(v))
	}
	return into, nil
}

func c33DecodeTile(b []byte) ([]c33Layer, error) {
	w := &c33Wire{b: b}
	var layers []c33Layer
	for !w.done() {
		f, wt, err := w.field()
		if err != nil {
			return nil, err
		}
		if f == 3 && wt == 2 {
			lb, err := w.bytes()
			if err != nil {
				return nil, err
			}
			l, err := c33DecodeLayer(lb)
			if err != nil {
				return nil, fmt.Errorf("layer %d: %w", len(layers), err)
			}
			layers = append(layers, l)
		} else if err := w.skip(wt); err != nil {
			return nil, err
		}
	}
	return layers, nil
}

func c33DecodeLayer(b []byte) (c33Layer, error) {
	w := &c33Wire{b: b}
	l := c33Layer{extent: 4096, version: 1}
	for !w.done() {
		f, wt, err := w.field()
		if err != nil {
			return l, err
		}
		switch {
		case f == 1 && wt == 2:
			s, err := w.bytes()
			if err != nil {
				return l, err
			}
			l.name = string(s)
		case f == 2 && wt == 2:
			fb, err := w.bytes()
			if err != nil {
				return l, err
			}
			ft, err := c33DecodeFeature(fb)
			if err != nil {
				return l, fmt.Errorf("feature %d: %w", len(l.features), err)
			}
			l.features = append(l.features, ft)
		case f == 3 && wt == 2:
			s, err := w.bytes()
			if err != nil {
				return l, err
			}
			l.keys = append(l.keys, string(s))
		case f == 4 && wt == 2:
			vb, err := w.bytes()
			if err != nil {
				return l, err
			}
			v, err := c33DecodeValue(vb)
			if err != nil {
				return l, err
			}
			l.values = append(l.values, v)
		case f == 5 && wt == 0:
			v, err := w.varint()
			if err != nil {
				return l, err
			}
			l.extent, l.hasExt = uint32(v), true
		case f == 15 && wt == 0:
			v, err := w.varint()
			if err != nil {
				return l, err
			}
			l.version = uint32(v)
		default:
			if err := w.skip(wt); err != nil {
				return l, err
			}
		}
	}
	return l, nil
}

func c33DecodeFeature(b []byte) (c33Feature, error) {
	w := &c33Wire{b: b}
	var ft c33Feature
	for !w.done() {
		f, wt, err := w.field()
		if err != nil {
			return ft, err
		}
		switch {
		case f == 1 && wt == 0:
			v, err := w.varint()
			if err != nil {
				return ft, err
			}
			ft.id, ft.hasID = v, true
		case f == 2:
			if ft.tags, err = w.packedU32(wt, ft.tags); err != nil {
				return ft, err
			}
		case f == 3 && wt == 0:
			v, err := w.varint()
			if err != nil {
				return ft, err
			}
			ft.typ = int(v)
		case f == 4:
			if ft.geometry, err = w.packedU32(wt, ft.geometry); err != nil {
				return ft, err
			}
		default:
			if err := w.skip(wt); err != nil {
				return ft, err
			}
		}
	}
	return ft, nil
}

func c33DecodeValue(b []byte) (c33Value, error) {
	w := &c33Wire{b: b}
	v := c33Value{kind: "none"}
	for !w.done() {
		f, wt, err := w.field()
		if err != nil {
			return v, err
		}
		switch {
		case f == 1 && wt == 2:
			s, err := w.bytes()
			if err != nil {
				return v, err
			}
			v.kind, v.s = "string", string(s)
		case f == 4 && wt == 0:
			x, err := w.varint()
			if err != nil {
				return v, err
			}
			v.kind, v.i = "int", int64(x)
		case f == 5 && wt == 0:
			x, err := w.varint()
			if err != nil {
				return v, err
			}
			v.kind, v.u = "uint", x
		case f == 6 && wt == 0:
			x, err := w.varint()
			if err != nil {
				return v, err
			}
			v.kind, v.i = "sint", int64(x>>1)^-int64(x&1)
		case f == 7 && wt == 0:
			x, err := w.varint()
			if err != nil {
				return v, err
			}
			v.kind, v.u = "bool", x
		case f == 2 && wt == 5:
			v.kind = "float"
			if err := w.skip(wt); err != nil {
				return v, err
			}
		case f == 3 && wt == 1:
			v.kind = "double"
			if err := w.skip(wt); err != nil {
				return v, err
			}
		default:
			if err := w.skip(wt); err != nil {
				return v, err
			}
		}
	}
	return v, nil
}

type c33XY struct{ x, y int64 }

// c33Part is one MoveTo...(ClosePath) run of a geometry.
type c33Part struct {
	pts    []c33XY
	closed bool
}

// c33DecodeGeometry interprets the command stream of section 4.3 of the
// specification: command integers (id = low 3 bits, count = rest) followed by
// zigzag-encoded deltas relative to a cursor that starts at (0,0).
func c33DecodeGeometry(g []uint32) ([]c33Part, error) {
	var parts []c33Part
	var cx, cy int64
	i := 0
	unzig := func(v uint32) int64 { return int64(int32(v>>1) ^ -int32(v&1)) }
	for i < len(g) {
		cmd, count := g[i]&7, int(g[i]>>3)
		i++
		switch cmd {
		case 1, 2:
			if count == 0 {
				return parts, fmt.Errorf("command %d with count 0", cmd)
			}
			if i+2*count > len(g) {
				return parts, fmt.Errorf("command %d count %d runs past the end of the geometry", cmd, count)
			}
			for k := 0; k < count; k++ {
				cx += unzig(g[i])
				cy += unzig(g[i+1])
				i += 2
				if cmd == 1 {
					parts = append(parts, c33Part{pts: []c33XY{{cx, cy}}})
				} else {
					if len(parts) == 0 {
						return parts, errors.New("LineTo before any MoveTo")
					}
					if parts[len(parts)-1].closed {
						return parts, errors.New("LineTo after ClosePath")
					}
					p := &parts[len(parts)-1]
					p.pts = append(p.pts, c33XY{cx, cy})
				}
			}
		case 7:
			if count != 1 {
				return parts, fmt.Errorf("ClosePath with count %d", count)
			}
			if len(parts) == 0 {
				return parts, errors.New("ClosePath before any MoveTo")
			}
			parts[len(parts)-1].closed = true
		default:
			return parts, fmt.Errorf("unknown command id %d", cmd)
		}
	}
	return parts, nil
}

// c33Area2 is twice the signed area by the surveyor's formula in tile
// coordinates (the formula of section 4.3.4.4 of the specification).
func c33Area2(p []c33XY) int64 {
	var a int64
	for i := range p {
		j := (i + 1) % len(p)
		a += p[i].x*p[j].y - p[j].x*p[i].y
	}
	return a
}
