package mon

import (
	"fmt"
	"math"
	"sort"
	"strings"
	"time"

	"diagonal.works/b6"
	"diagonal.works/b6/graph"
	"verif/internal/core"
	"verif/internal/wm"
)

// C30 Shortest-path search finds true shortest distances and routes.
//
// Oracle: Bellman-Ford over the point-level directed graph that the monitor
// reads from the world's path features through EachFeature (c30_oracle.go).
// Checked per (network, world kind, weighting, origin, limit):
//   - every point in PointDistances has the true distance (relative 1e-9) and
//     lies under the limit;
//   - every graph node (path end, point on >= 2 paths or twice on one, point
//     with a tag besides its geometry) whose true distance is under the limit
//     is in PointDistances;
//   - BuildPath / BuildRoute of every reported point is a chain of traversable
//     segments from the origin to the point whose cost is the distance;
//   - ExpandSearchTo(destination) leaves the true distance (or +Inf when it is
//     not under the limit) and a route with that cost.

type c30Checker struct {
	c       *core.Ctx
	g       *c30Graph
	wt      c30Weighting
	kind    string // world kind
	label   string // sub-case label appended to signatures
	witness map[string]any
}

func (k *c30Checker) snapshot() map[string]any {
	w := map[string]any{}
	for key, v := range k.witness {
		w[key] = v
	}
	return w
}

func (k *c30Checker) violate(sig string, format string, args ...any) {
	k.c.Violate(sig+":"+k.kind, k.snapshot(), format, args...)
}

// violateLong is for the two failure shapes that the known revisited-point
// defect of Traverse produces (a distance that is too long, a node that is not
// reached): in searches that can reach a point which a usable way visits twice
// they carry the sub-case label, everywhere else they are plain violations.
func (k *c30Checker) violateLong(sig string, format string, args ...any) {
	k.c.Violate(sig+":"+k.kind+k.label, k.snapshot(), format, args...)
}

// band reports whether d is so close to the limit that either side is right.
func (k *c30Checker) band(d, limit float64) bool {
	if k.wt.exact {
		return false
	}
	return math.Abs(d-limit) <= 1e-9*math.Max(limit, 1e-6)
}

// checkChain verifies that segments form a chain of traversable segments from
// one of the origins to dest and returns its cost.
func (k *c30Checker) checkChain(what string, segs []b6.Segment, isOrigin map[b6.FeatureID]bool, dest b6.FeatureID) (float64, bool) {
	g := k.g
	if len(segs) == 0 {
		if !isOrigin[dest] {
			k.violate(what+":empty-route", "%s(%s) is empty although %s is not the origin", what, dest, dest)
			return 0, false
		}
		return 0, true
	}
	total := 0.0
	for i, s := range segs {
		if s.Feature == nil {
			k.violate(what+":invalid-segment", "%s(%s): segment %d has no feature", what, dest, i)
			return 0, false
		}
		pi, ok := g.pathIx[s.Feature.FeatureID()]
		if !ok {
			k.violate(what+":unknown-path", "%s(%s): segment %d runs along %s, which is not a path of the world", what, dest, i, s.Feature.FeatureID())
			return 0, false
		}
		cost, ok := g.traversable(pi, s.First, s.Last)
		if !ok {
			k.violate(what+":untraversable-segment", "%s(%s): segment %d = %s[%d..%d] is not traversable in that direction under %s weights", what, dest, i, s.Feature.FeatureID(), s.First, s.Last, k.wt.name)
			return 0, false
		}
		first, last := g.paths[pi].ids[s.First], g.paths[pi].ids[s.Last]
		if i == 0 && !isOrigin[first] {
			k.violate(what+":not-from-origin", "%s(%s) starts at %s, which is not the origin", what, dest, first)
			return 0, false
		}
		if i > 0 {
			pj := g.pathIx[segs[i-1].Feature.FeatureID()]
			if prev := g.paths[pj].ids[segs[i-1].Last]; prev != first {
				k.violate(what+":broken-chain", "%s(%s): segment %d starts at %s but segment %d ended at %s", what, dest, i, first, i-1, prev)
				return 0, false
			}
		}
		if i == len(segs)-1 && last != dest {
			k.violate(what+":wrong-destination", "%s(%s) ends at %s", what, dest, last)
			return 0, false
		}
		total += cost
	}
	return total, true
}

// checkRoute verifies a b6.Route (which carries no path indices): every step
// must be realisable as a traversable stretch of its Via path from the previous
// point to its Destination whose cost is the increase of the cumulative cost.
func (k *c30Checker) checkRoute(route b6.Route, isOrigin map[b6.FeatureID]bool, dest b6.FeatureID, distance float64) {
	g := k.g
	if len(route.Steps) == 0 {
		if !isOrigin[dest] {
			k.violate("BuildRoute:empty-route", "BuildRoute(%s) has no steps although %s is not the origin", dest, dest)
		} else if route.Origin != dest {
			k.violate("BuildRoute:not-from-origin", "BuildRoute(%s) of the origin has origin %s", dest, route.Origin)
		}
		return
	}
	if !isOrigin[route.Origin] {
		k.violate("BuildRoute:not-from-origin", "BuildRoute(%s) starts at %s, which is not the origin", dest, route.Origin)
		return
	}
	prev, prevCost := route.Origin, 0.0
	for i, st := range route.Steps {
		pi, ok := g.pathIx[st.Via]
		if !ok {
			k.violate("BuildRoute:unknown-path", "BuildRoute(%s): step %d goes via %s, which is not a path of the world", dest, i, st.Via)
			return
		}
		p := g.paths[pi]
		found, anyStretch := false, false
		for a := range p.ids {
			if p.ids[a] != prev {
				continue
			}
			for b := range p.ids {
				if p.ids[b] != st.Destination || a == b {
					continue
				}
				if cost, ok := g.traversable(pi, a, b); ok {
					anyStretch = true
					if c30Close(st.Cost-prevCost, cost) || c30Close(st.Cost, prevCost+cost) {
						found = true
					}
				}
			}
		}
		if !anyStretch {
			k.violate("BuildRoute:untraversable-step", "BuildRoute(%s): step %d from %s to %s via %s is not traversable under %s weights", dest, i, prev, st.Destination, st.Via, k.wt.name)
			return
		}
		if !found {
			k.violate("BuildRoute:step-cost", "BuildRoute(%s): step %d from %s to %s via %s raises the cost from %v to %v, no stretch of the path costs that", dest, i, prev, st.Destination, st.Via, prevCost, st.Cost)
			return
		}
		prev, prevCost = st.Destination, st.Cost
	}
	if prev != dest {
		k.violate("BuildRoute:wrong-destination", "BuildRoute(%s) ends at %s", dest, prev)
		return
	}
	if !c30Close(prevCost, distance) {
		k.violate("BuildRoute:cost-differs-from-distance", "BuildRoute(%s) costs %v, the reported distance is %v", dest, prevCost, distance)
	}
}

func c30SortedIDs(m map[b6.FeatureID]float64) []b6.FeatureID {
	ids := make([]b6.FeatureID, 0, len(m))
	for id := range m {
		ids = append(ids, id)
	}
	wm.SortIDs(ids)
	return ids
}

// checkExpanded checks a finished ExpandSearch against the true distances.
func (k *c30Checker) checkExpanded(s *graph.ShortestPathSearch, origins []int, trueD []float64, limit float64, requireOrigin bool) (reported int) {
	g, c := k.g, k.c
	isOrigin := map[b6.FeatureID]bool{}
	for _, o := range origins {
		isOrigin[g.ids[o]] = true
	}
	got := s.PointDistances()
	for _, id := range c30SortedIDs(got) {
		d := got[id]
		v, ok := g.index[id]
		if !ok {
			if isOrigin[id] && d == 0 {
				continue
			}
			k.violate("reported:not-on-a-path", "%s reported at %v but it is on no path of the world", id, d)
			continue
		}
		want := trueD[v]
		c.Count("distances_compared")
		switch {
		case math.IsInf(want, 1):
			k.violate("reported:unreachable", "%s reported at %v but no traversable route leads to it", id, d)
			continue
		case !c30Close(d, want) && d > want:
			k.violateLong("distance:too-long", "%s reported at %v, the true shortest distance is %v (limit %v)", id, d, want, limit)
			continue
		case !c30Close(d, want):
			k.violate("distance:too-short", "%s reported at %v, the true shortest distance is %v (limit %v)", id, d, want, limit)
			continue
		}
		if !(want < limit) && !k.band(want, limit) && !isOrigin[id] {
			k.violate("reported:not-under-limit", "%s reported at %v, which is not under the limit %v", id, d, limit)
			continue
		}
		if !g.isNode[v] {
			c.Count("reported_non_node")
		}
		reported++
		// routes
		if cost, ok := k.checkChain("BuildPath", s.BuildPath(id), isOrigin, id); ok && !c30Close(cost, d) {
			k.violate("BuildPath:cost-differs-from-distance", "BuildPath(%s) costs %v, the reported distance is %v", id, cost, d)
		}
		k.checkRoute(s.BuildRoute(id), isOrigin, id, d)
		c.Count("routes_checked")
	}
	for v, id := range g.ids {
		if !g.isNode[v] || math.IsInf(trueD[v], 1) || !(trueD[v] < limit) || k.band(trueD[v], limit) {
			continue
		}
		if isOrigin[id] && !requireOrigin {
			continue
		}
		if _, ok := got[id]; !ok {
			k.violateLong("missing-node", "graph node %s has true distance %v < limit %v but is not reported", id, trueD[v], limit)
		}
	}
	return reported
}

func init() {
	core.Register(&core.Monitor{
		ID:        "C30",
		Title:     "Shortest-path search finds true shortest distances and routes",
		Technique: "reference oracle: Bellman-Ford over the point-level graph read from the world's path features (EachFeature), independent of Traverse/ExpandSearch/BuildRoute",
		Rule: "case = (street network of 2-12 ways with shared nodes, closed ways, points visited twice, dead ends, one-way and unusable ways, weight overrides, tagged " +
			"mid-way points, buildings; world kind basic / basic-mutable / compact; 2 of 5 weightings; <= 3 origins (graph node, mid-way point, building); 4 limits " +
			"incl. one equal to a node's distance; ExpandSearchTo to 2 destinations); distinct = network + kind + weightings + origins; non-trivial = some search " +
			"reported >= 3 points and either a limit cut off a reachable node or direction/usability changed a distance",
		Assumptions: []string{
			"Weights.IsUseable / the weight factor depend only on the way and the direction of travel, so a segment is traversable iff each of its edges is",
			"a point search starts at the point when it lies on a way that is usable in some direction; a building search starts at the boundary points that lie on a way usable along its point order",
			"points within relative 1e-9 of the limit may be reported or not (float weightings); with the integer harness weighting the limit is exact",
			"the compact world currently reports every point (all are graph nodes there): extra reported points only need the right distance"},
		Quick: 400, Thorough: 6000,
		CaseCap: 10 * time.Minute, // a compact build takes ~1 s on an idle machine but minutes on a badly oversubscribed one
		Required: []string{"kind_basic", "kind_basic-mutable", "kind_compact", "distances_compared", "routes_checked", "limit_cut", "limit_exact_boundary",
			"direction_matters", "decrease_key_needed", "dense_network", "closed_way", "point_twice_on_way", "unusable_way", "searchto_reached", "searchto_beyond_limit",
			"origin_midway", "origin_building", "search_strict", "search_reaches_revisited_point", "weighting_hops", "weighting_car", "weighting_bus", "weighting_simple-highway"},
		Run: c30Run,
	})
}

func c30Run(c *core.Ctx) {
	r := c.R
	loopy := c.Index%3 == 1
	net := c30Network(r.Fork(), loopy)
	if c.Index%5 == 4 {
		net = c30DenseNetwork(r.Fork())
		loopy = false
		c.Count("dense_network")
	}
	// a compact build costs ~1 s of several goroutines: 1 case in 16, not at the
	// same offset in every child batch
	kind := core.Pick(r, []string{"basic", "basic", "basic-mutable"})
	if r.Intn(16) == 0 {
		kind = "compact"
	}
	c.Count("kind_" + kind)
	var world b6.World
	var err error
	switch kind {
	case "basic":
		world, err = wm.Basic(net.specs, 1+r.Intn(2))
	case "basic-mutable":
		world, err = wm.BasicMutable(net.specs)
	case "compact":
		world, err = wm.Compact(net.specs, 1)
	}
	if err != nil {
		c.Violate("build-failed:"+kind, net.String(), "building a %s world from a valid network failed: %v", kind, err)
		return
	}
	if net.loops > 0 {
		c.Count("closed_way")
	}
	if net.twice > 0 {
		c.Count("point_twice_on_way")
	}
	var keyParts []string
	nontrivial := false
	wts := []c30Weighting{c30Weightings[c.Index%len(c30Weightings)], core.Pick(r, c30Weightings)}
	if wts[0].name == wts[1].name {
		wts = wts[:1]
	}
	for _, wt := range wts {
		c.Count("weighting_" + wt.name)
		g, err := c30Read(world, wt)
		if err != nil {
			c.Inconclusive("cannot read the graph from the world: " + err.Error())
			return
		}
		for _, p := range g.paths {
			any := false
			for i := range p.fwd {
				any = any || p.fwd[i] || p.rev[i]
			}
			if !any {
				c.Count("unusable_way")
				break
			}
		}
		k := &c30Checker{c: c, g: g, wt: wt, kind: kind}
		// origins
		type origin struct {
			kind string
			v    []int
			id   b6.FeatureID // point or area
		}
		var nodes, midway, unconnected []int
		connected := func(v int) bool {
			// lies on a way with a usable direction
			for _, p := range g.paths {
				on := false
				for _, id := range p.ids {
					on = on || id == g.ids[v]
				}
				if on && (p.fwd[0] || p.rev[0]) {
					return true
				}
			}
			return false
		}
		for v := range g.ids {
			switch {
			case !connected(v):
				unconnected = append(unconnected, v)
			case g.isNode[v]:
				nodes = append(nodes, v)
			default:
				midway = append(midway, v)
			}
		}
		var origins []origin
		if len(nodes) > 0 {
			origins = append(origins, origin{"node", []int{core.Pick(r, nodes)}, b6.FeatureIDInvalid})
		}
		if len(midway) > 0 && r.Chance(0.6) {
			origins = append(origins, origin{"midway", []int{core.Pick(r, midway)}, b6.FeatureIDInvalid})
		} else if len(nodes) > 1 {
			origins = append(origins, origin{"node", []int{core.Pick(r, nodes)}, b6.FeatureIDInvalid})
		}
		if len(unconnected) > 0 && r.Chance(0.3) {
			origins = append(origins, origin{"unconnected", []int{core.Pick(r, unconnected)}, b6.FeatureIDInvalid})
		}
		if len(net.buildings) > 0 {
			b := core.Pick(r, net.buildings)
			var vs []int
			ambiguous := false
			seen := map[int]bool{}
			for _, id := range g.areas[b.ID] {
				v, ok := g.index[id]
				if !ok || seen[v] {
					continue
				}
				seen[v] = true
				fwd, anyDir := false, false
				for _, p := range g.paths {
					on := false
					for _, pid := range p.ids {
						on = on || pid == id
					}
					if on {
						fwd = fwd || p.fwd[0]
						anyDir = anyDir || p.fwd[0] || p.rev[0]
					}
				}
				if fwd {
					vs = append(vs, v)
				} else if anyDir {
					ambiguous = true
				}
			}
			if ambiguous {
				c.Count("building_origin_ambiguous")
			} else if len(vs) > 0 {
				origins = append(origins, origin{"building", vs, b.ID})
			}
		}
		for _, o := range origins {
			c.Count("origin_" + o.kind)
			oid := o.id
			if !oid.IsValid() {
				oid = g.ids[o.v[0]]
			}
			keyParts = append(keyParts, wt.name+"@"+oid.String())
			newSearch := func() *graph.ShortestPathSearch {
				if o.kind == "building" {
					return graph.NewShortestPathSearchFromFeature(world.FindFeatureByID(o.id), wt.w, world)
				}
				return graph.NewShortestPathSearchFromPoint(oid, wt.w, world)
			}
			trueD := g.bellmanFord(o.v, false)
			dj, improvements := g.dijkstra(o.v)
			for v := range trueD {
				if !c30Close(dj[v], trueD[v]) {
					c.Inconclusive(fmt.Sprintf("oracle self-check: Bellman-Ford %v, Dijkstra %v for %s", trueD[v], dj[v], g.ids[v]))
					return
				}
			}
			if improvements > 0 {
				c.Count("decrease_key_needed")
			}
			// sub-case label: the search can reach a point that a usable way visits twice
			k.label = ""
			for _, p := range g.paths {
				usable := false
				for i := range p.fwd {
					usable = usable || p.fwd[i] || p.rev[i]
				}
				if !usable {
					continue
				}
				seen := map[b6.FeatureID]bool{}
				for _, id := range p.ids {
					if seen[id] && !math.IsInf(trueD[g.index[id]], 1) {
						k.label = ":reaches-a-point-visited-twice-by-a-way"
					}
					seen[id] = true
				}
			}
			if k.label != "" {
				c.Count("search_reaches_revisited_point")
			} else {
				c.Count("search_strict")
			}
			relaxed := g.bellmanFord(o.v, true)
			directionMatters := false
			for v := range trueD {
				if g.isNode[v] && !c30Close(relaxed[v], trueD[v]) {
					directionMatters = true
				}
			}
			if directionMatters {
				c.Count("direction_matters")
			}
			// the distinct finite distances of graph nodes, ascending
			var ds []float64
			var reach []int
			for v := range trueD {
				if g.isNode[v] && !math.IsInf(trueD[v], 1) && trueD[v] > 0 {
					ds = append(ds, trueD[v])
					reach = append(reach, v)
				}
			}
			sort.Float64s(ds)
			limits := []float64{1e9}
			if len(ds) > 0 {
				limits = append(limits, core.Pick(r, ds)) // exactly a node's distance
				i := r.Intn(len(ds))
				if i+1 < len(ds) {
					limits = append(limits, (ds[i]+ds[i+1])/2)
				} else {
					limits = append(limits, ds[i]*1.5)
				}
				limits = append(limits, ds[0]/2)
			} else {
				limits = append(limits, 0, 50)
			}
			if r.Chance(0.2) {
				limits = append(limits, 0)
			}
			if net.dense {
				// the order in which a world returns the segments leaving a point varies from call to
				// call, and the search must be right for every order: repeat the unlimited search
				for rep := 0; rep < 10; rep++ {
					limits = append(limits, 1e9)
				}
			}
			k.witness = map[string]any{"network": net.String(), "world": kind, "weights": wt.name, "origin": oid.String(), "origin_kind": o.kind}
			if o.kind == "unconnected" {
				// nothing is reachable; whatever is reported must be the origin at 0
				// (a point on a building's boundary falls back to the building's entrances)
				onBuilding := false
				for _, b := range net.buildings {
					for _, id := range g.areas[b.ID] {
						onBuilding = onBuilding || id == oid
					}
				}
				if onBuilding {
					continue
				}
				var s *graph.ShortestPathSearch
				if p, cl, fr, _ := core.Protect(func() {
					s = newSearch()
					s.ExpandSearch(1e9, wt.w, graph.Points, world)
				}); p {
					k.violate("ExpandSearch:panic@"+fr, "search from the unconnected point %s panicked: %s", oid, cl)
					continue
				}
				for id, d := range s.PointDistances() {
					if id != oid || d != 0 {
						k.violate("reported:from-unconnected-origin", "search from %s, which lies on no usable way, reports %s at %v", oid, id, d)
					}
				}
				continue
			}
			for li, limit := range limits {
				features := graph.Points
				if li%2 == 1 {
					features = graph.PointsAndAreas
				}
				k.witness["limit"] = limit
				var s *graph.ShortestPathSearch
				if p, cl, fr, st := core.Protect(func() {
					s = newSearch()
					s.ExpandSearch(limit, wt.w, features, world)
				}); p {
					k.witness["stack"] = st
					k.violate("ExpandSearch:panic@"+fr, "ExpandSearch(%v) from %s panicked: %s", limit, oid, cl)
					delete(k.witness, "stack")
					continue
				}
				// an empty search from a connected origin is a defect of its own shape
				if len(s.PointDistances()) == 0 {
					onlyDirected := true
					for _, p := range g.paths {
						on := false
						for _, id := range p.ids {
							on = on || (o.kind != "building" && id == oid)
						}
						if on && p.fwd[0] && p.rev[0] {
							onlyDirected = false
						}
					}
					if o.kind != "building" && onlyDirected {
						c.Count("origin_only_on_directed_ways")
						c.Violate("empty-search:origin-only-on-one-way-ways:"+wt.name, k.snapshot(), "search from %s, which lies only on one-way ways usable under %s weights, reports nothing (not even the origin)", oid, wt.name)
					} else {
						k.violate("empty-search", "search from the connected origin %s reports nothing", oid)
					}
					continue
				}
				cut := false
				for _, v := range reach {
					if !(trueD[v] < limit) {
						cut = true
					}
					if trueD[v] == limit {
						c.Count("limit_exact_boundary")
					}
				}
				if cut {
					c.Count("limit_cut")
				}
				var reported int
				if p, cl, fr, st := core.Protect(func() { reported = k.checkExpanded(s, o.v, trueD, limit, true) }); p {
					k.witness["stack"] = st
					k.violate("route:panic@"+fr, "BuildPath/BuildRoute after ExpandSearch(%v) from %s panicked: %s", limit, oid, cl)
					delete(k.witness, "stack")
					continue
				}
				if reported >= 3 && (cut || directionMatters) {
					nontrivial = true
				}
				if features == graph.PointsAndAreas {
					// an area's distance is the smallest distance of its reported boundary points
					got := s.PointDistances()
					ads := s.AreaDistances()
					for aid, pts := range g.areas {
						best := math.Inf(1)
						atOrigin := false
						for _, id := range pts {
							if v, ok := g.index[id]; ok && trueD[v] == 0 {
								atOrigin = true // origins never pass through AddOrUpdate: their areas are not the property's subject
							}
						}
						if atOrigin {
							continue
						}
						for _, id := range pts {
							if d, ok := got[id]; ok && d < best {
								best = d
							}
						}
						ad, ok := ads[aid.ToAreaID()]
						c.Count("areas_compared")
						switch {
						case math.IsInf(best, 1) && ok:
							k.violate("area:reported-without-point", "area %s reported at %v but none of its points is", aid, ad)
						case !math.IsInf(best, 1) && !ok:
							k.violate("area:missing", "area %s has a reported boundary point at %v but no area distance", aid, best)
						case ok && !c30Close(ad, best):
							k.violate("area:distance", "area %s reported at %v, its nearest reported boundary point is at %v", aid, ad, best)
						}
					}
				}
			}
			// ExpandSearchTo
			delete(k.witness, "limit")
			var dests []int
			if len(reach) > 0 {
				dests = append(dests, core.Pick(r, reach), core.Pick(r, reach))
			}
			var all []int
			for v := range g.ids {
				if g.isNode[v] {
					all = append(all, v)
				}
			}
			if len(all) > 0 {
				dests = append(dests, core.Pick(r, all))
			}
			for di, dv := range dests {
				dest := g.ids[dv]
				isOrigin := map[b6.FeatureID]bool{}
				for _, v := range o.v {
					isOrigin[g.ids[v]] = true
				}
				limit := 1e9
				if di == 1 && r.Bool() {
					limit = trueD[dv] // exactly at the limit: not reachable under it
				} else if di == 1 {
					limit = trueD[dv] * core.Pick(r, []float64{0.5, 1.5})
				}
				k.witness["destination"], k.witness["limit"] = dest.String(), limit
				var s *graph.ShortestPathSearch
				var path []b6.Segment
				if p, cl, fr, st := core.Protect(func() {
					s = newSearch()
					s.ExpandSearchTo(dest, limit, wt.w, world)
					path = s.BuildPath(dest)
				}); p {
					k.witness["stack"] = st
					k.violate("ExpandSearchTo:panic@"+fr, "ExpandSearchTo(%s, %v) from %s panicked: %s", dest, limit, oid, cl)
					delete(k.witness, "stack")
					continue
				}
				got, want := s.CurrentDistance(dest), trueD[dv]
				if isOrigin[dest] {
					c.Count("searchto_origin")
					if got != 0 {
						c.Violate("ExpandSearchTo:destination-is-origin:"+kind, k.snapshot(), "ExpandSearchTo(%s) from itself leaves distance %v, expected 0", dest, got)
					}
					continue
				}
				if k.band(want, limit) {
					continue
				}
				if !(want < limit) {
					c.Count("searchto_beyond_limit")
					if !math.IsInf(got, 1) {
						if c30Close(got, want) {
							k.violate("ExpandSearchTo:reported-not-under-limit", "ExpandSearchTo(%s, limit %v) from %s leaves distance %v, which is not under the limit", dest, limit, oid, got)
						} else {
							k.violate("ExpandSearchTo:distance", "ExpandSearchTo(%s, limit %v) from %s leaves distance %v, the true distance is %v", dest, limit, oid, got, want)
						}
					}
					continue
				}
				c.Count("searchto_reached")
				if !c30Close(got, want) {
					if got < want {
						k.violate("ExpandSearchTo:distance:too-short", "ExpandSearchTo(%s, limit %v) from %s leaves distance %v, the true distance is %v", dest, limit, oid, got, want)
					} else {
						k.violateLong("ExpandSearchTo:distance:too-long", "ExpandSearchTo(%s, limit %v) from %s leaves distance %v, the true distance is %v", dest, limit, oid, got, want)
					}
					continue
				}
				if cost, ok := k.checkChain("ExpandSearchTo:BuildPath", path, isOrigin, dest); ok && !c30Close(cost, got) {
					k.violate("ExpandSearchTo:BuildPath:cost-differs-from-distance", "after ExpandSearchTo, BuildPath(%s) costs %v, the distance is %v", dest, cost, got)
				}
				k.checkRoute(s.BuildRoute(dest), isOrigin, dest, got)
			}
		}
	}
	c.Key("%s/%s/%s", kind, net.String(), strings.Join(keyParts, ","))
	if nontrivial {
		c.Nontrivial()
	}
	if c.Index < 3 {
		c.Sample(map[string]any{"world": kind, "ways": len(net.ways), "points": len(net.points), "closed_ways": net.loops, "revisiting_ways": net.twice,
			"oneway": net.oneway, "shared_points": net.shared, "searches": keyParts, "first_ways": []string{net.ways[0].String(), net.ways[1].String()}})
	}
}
