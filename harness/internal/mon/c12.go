package mon

import (
	"strings"

	"diagonal.works/b6"
	"diagonal.works/b6/ingest"
	"verif/internal/core"
	"verif/internal/wm"
)

// C12 Mutable overlay world behaves like a map of features under any edits.
//
// Oracle: the feature-map model (wm.World) replays the same history; after
// every operation the real world must conform to it: lookup by id, existence,
// tags (as a map with value kinds), geometry, enumeration (each id once with
// the model's tags) and a fixed set of tag searches.

func init() {
	core.Register(&core.Monitor{
		ID:        "C12",
		Title:     "Mutable overlay world behaves like a map of features under any edits",
		Technique: "reference-model monitor: feature-map model replays the edit history; full conformance check after every operation",
		Rule: "case = (base kind, generated base feature set, edit history of <= 30 AddFeature/AddTag/RemoveTag operations with plain, #- and @-keys " +
			"on base and overlay features); distinct = base + history; non-trivial = the history edits a base feature at least twice with different key kinds",
		Assumptions: []string{"generated AddFeature replacements keep geometry so they are always valid (rejections are C13)",
			"points whose only tag is their geometry tag are optional in search results"},
		Quick: 320, Thorough: 8000,
		Required: []string{"base_basic", "base_mutable-overlay", "base_snapshot", "base_compact", "plain_then_searchable", "searchable_then_plain",
			"remove_modified_only", "overwrite_then_remove", "readd_feature", "moved_point", "ops"},
		Run: func(c *core.Ctx) {
			r := c.R
			baseKind := "basic"
			switch k := c.Index % 16; {
			case k == 7:
				baseKind = "compact"
			case k%4 == 1:
				baseKind = "mutable-overlay"
			case k%4 == 2:
				baseKind = "snapshot"
			}
			c.Count("base_" + baseKind)
			o := wm.DefaultGen()
			if baseKind == "compact" {
				o.MaxCollections = 0
			}
			g := wm.NewGen(r.Fork(), o)
			specs := g.World()
			specs = append(specs, g.AddMovable()...) // the history also moves points under a path and under an area
			model := wm.ModelOf(specs)
			var script []string
			var mo *ingest.MutableOverlayWorld
			fail := func(err error) {
				c.Violate("build-failed:"+baseKind, nil, "building the %s base failed: %v", baseKind, err)
			}
			pre := func(w ingest.MutableWorld, n int) bool {
				for i := 0; i < n; i++ {
					op := g.NextOp(model)
					script = append(script, "pre:"+op.String())
					errW, errM := wm.Apply(w, op), wm.ApplyModel(model, op)
					if (errW != nil) != (errM != nil) {
						c.Violate("error-mismatch:"+op.Kind, script, "%s: world error %v, model error %v", op, errW, errM)
						return false
					}
				}
				return true
			}
			switch baseKind {
			case "basic":
				base, err := wm.Basic(specs, 1)
				if err != nil {
					fail(err)
					return
				}
				mo = ingest.NewMutableOverlayWorld(base)
			case "compact":
				base, err := wm.Compact(specs, 1)
				if err != nil {
					fail(err)
					return
				}
				mo = ingest.NewMutableOverlayWorld(base)
			case "mutable-overlay":
				base, err := wm.Basic(specs, 1)
				if err != nil {
					fail(err)
					return
				}
				lower := ingest.NewMutableOverlayWorld(base)
				if !pre(lower, r.Range(1, 8)) {
					return
				}
				mo = ingest.NewMutableOverlayWorld(lower)
			case "snapshot":
				base, err := wm.Basic(specs, 1)
				if err != nil {
					fail(err)
					return
				}
				mo = ingest.NewMutableOverlayWorld(base)
				if !pre(mo, r.Range(1, 8)) {
					return
				}
				mo.Snapshot() // mo continues as the live world over the snapshot
			}
			queries := wm.StandardQueries()
			absent := []b6.FeatureID{{Type: b6.FeatureTypePoint, Namespace: b6.NamespaceOSMNode, Value: 99999}, {Type: b6.FeatureTypeArea, Namespace: b6.NamespaceOSMWay, Value: 99999}}
			check := func(after string) bool {
				ds := model.Conform(mo, absent, queries, true)
				for _, d := range ds {
					c.Violate(d.Class, map[string]any{"base": baseKind, "history": script}, "after %s: %s", after, d.Detail)
				}
				return len(ds) == 0
			}
			if !check("construction") {
				return
			}
			// per-feature bookkeeping for the mechanism counters
			inBase := map[b6.FeatureID]bool{}
			for id := range model.F {
				inBase[id] = true
			}
			lastKind := map[b6.FeatureID]string{} // "plain" | "searchable"
			modifiedOnly := map[string]bool{}     // id+key added by a plain AddTag on a base feature
			overwritten := map[string]int{}       // id+key -> number of AddTag
			added := map[b6.FeatureID]int{}
			twice := false
			n := r.Range(4, 40)
			var pending []wm.Op // directed sequences mixed into the random history
			for i := 0; i < n; i++ {
				var op wm.Op
				if len(pending) > 0 {
					op, pending = pending[0], pending[1:]
				} else if r.Chance(0.04) {
					// overwrite a key twice on one feature, then remove it
					id := core.Pick(r, model.IDs())
					key := core.Pick(r, wm.AllKeys)
					op = wm.Op{Kind: "addtag", ID: id, Tag: b6.Tag{Key: key, Value: b6.NewStringExpression(core.Pick(r, wm.TagValues))}}
					pending = []wm.Op{
						{Kind: "addtag", ID: id, Tag: b6.Tag{Key: key, Value: b6.NewStringExpression(core.Pick(r, wm.TagValues) + "2")}},
						{Kind: "removetag", ID: id, Key: key},
					}
				} else {
					op = g.NextOp(model)
				}
				if baseKind == "compact" && op.Kind == "add" && op.Spec.ID.Type == b6.FeatureTypeCollection {
					continue
				}
				script = append(script, op.String())
				key := ""
				switch op.Kind {
				case "addtag":
					key = op.Tag.Key
				case "removetag":
					key = op.Key
				}
				if key != "" && inBase[op.ID] {
					kind := "plain"
					if strings.HasPrefix(key, "#") || strings.HasPrefix(key, "@") {
						kind = "searchable"
					}
					if prev, ok := lastKind[op.ID]; ok && prev != kind {
						twice = true
						if prev == "plain" {
							c.Count("plain_then_searchable")
						} else {
							c.Count("searchable_then_plain")
						}
					}
					lastKind[op.ID] = kind
					k := op.ID.String() + "|" + key
					if op.Kind == "addtag" {
						overwritten[k]++
						if kind == "plain" {
							modifiedOnly[k] = true
						}
					} else {
						if modifiedOnly[k] {
							c.Count("remove_modified_only")
						}
						if overwritten[k] >= 2 {
							c.Count("overwrite_then_remove")
						}
						delete(modifiedOnly, k)
						overwritten[k] = 0
					}
				}
				if op.Kind == "add" && op.Spec.ID.Type == b6.FeatureTypePoint {
					if old, ok := model.F[op.Spec.ID]; ok && old.LL != op.Spec.LL {
						c.Count("moved_point")
					}
				}
				if op.Kind == "add" {
					added[op.Spec.ID]++
					if added[op.Spec.ID] == 2 {
						c.Count("readd_feature")
					}
				}
				var errW error
				if p, cl, fr, st := core.Protect(func() { errW = wm.Apply(mo, op) }); p {
					c.Violate("apply:panic@"+fr+":"+baseKind, map[string]any{"base": baseKind, "history": script, "stack": st}, "%s panicked: %s", op, cl)
					return
				}
				errM := wm.ApplyModel(model, op)
				c.Count("ops")
				if (errW != nil) != (errM != nil) {
					c.Violate("error-mismatch:"+op.Kind, map[string]any{"base": baseKind, "history": script}, "%s: world error %v, model error %v", op, errW, errM)
					return
				}
				if !check(op.Kind) {
					return
				}
			}
			c.Key("%s/%d/%s", baseKind, len(specs), strings.Join(script, ";"))
			if twice {
				c.Nontrivial()
			}
			if c.Index < 2 {
				c.Sample(map[string]any{"base": baseKind, "features": len(specs), "history": script})
			}
		},
	})
}
