package mon

import (
	"context"
	"fmt"
	"sort"
	"strings"

	"diagonal.works/b6"
	"diagonal.works/b6/ingest"
	"diagonal.works/b6/osm"
	"verif/internal/core"
	"verif/internal/obs"
)

// C29 OSM data maps to features by fixed rules.
//
// Oracle: c29Expect (c29_oracle.go), an independent implementation of the
// rules in the property text, applied to a G-OSM input (c29_osmgen.go). The
// real code is observed at two places: the features emitted by
// NewFeatureSourceFromPBF(...).Read, and the features of the basic world
// built by BuildWorldFromOSM. Every expected feature must be there exactly
// once, nothing else may be there, and each must match the expectation in
// tags, geometry references (and resolved geometry in the built world),
// polygons and members. The key mapping is checked through KeyForOSMKey, the
// tags of the features and the search index of the built world.

func c29Copy(in *c29Input) ([]osm.Node, []osm.Way, []osm.Relation) {
	ns := make([]osm.Node, len(in.Nodes))
	for i := range in.Nodes {
		ns[i] = in.Nodes[i].Clone()
	}
	ws := make([]osm.Way, len(in.Ways))
	for i := range in.Ways {
		ws[i] = in.Ways[i].Clone()
	}
	rs := make([]osm.Relation, len(in.Relations))
	for i := range in.Relations {
		rs[i] = in.Relations[i].Clone()
	}
	return ns, ws, rs
}

// c29CountRules counts, per rule of the property, how often the input exercises it.
func c29CountRules(c *core.Ctx, in *c29Input, m *c29Model) {
	for l, n := range in.Labels {
		c.Add("in_"+l, n)
	}
	for _, id := range m.IDs {
		f := m.F[id]
		switch f.Kind {
		case "point":
			c.Count("rule_node_point")
		case "open-path":
			c.Count("rule_open_way_path")
		case "closed-path":
			c.Count("rule_closed_way_untagged_path")
		case "way-area":
			c.Count("rule_closed_way_area")
			if len(f.Tags) > 0 {
				c.Count("rule_closed_way_area_tagged")
			}
		case "multipolygon-area":
			if f.Broken {
				c.Count("rule_multipolygon_unassemblable")
				break
			}
			c.Count("rule_multipolygon_area")
			if len(f.Polys) > 1 {
				c.Count("rule_multipolygon_several_outers")
			}
			for _, p := range f.Polys {
				if len(p) > 1 {
					c.Count("rule_multipolygon_holes")
				}
			}
		case "relation":
			c.Count("rule_relation")
			for _, cl := range f.MemberClass {
				c.Count("rule_member_" + cl)
			}
		}
		for _, t := range f.Tags {
			switch {
			case strings.HasPrefix(t, `"#`):
				c.Count("key_mapped_hash")
			case strings.HasPrefix(t, `"@`):
				c.Count("key_mapped_at")
			default:
				c.Count("key_unmapped")
			}
		}
	}
}

func init() {
	core.Register(&core.Monitor{
		ID:        "C29",
		Title:     "OSM data maps to features by fixed rules",
		Technique: "independent rule oracle over generated OSM-shaped inputs, observed at the feature source and in the built in-memory world",
		Rule: "case = one G-OSM input (5-60 E7-exact nodes, open ways, valid closed ways CCW/CW, shared nodes, multipolygons with holes / several outers / node members / " +
			"missing or open members, acyclic plain relations over nodes, open ways, closed ways, multipolygons, relations and missing elements, tags inside and outside the key table; " +
			"the three ID spaces overlap); distinct = distinct input text; non-trivial = the input has a closed way and a plain relation with a way or relation member",
		Assumptions: []string{
			"a multipolygon with a way member that is missing or not closed is documented to give up (TODO in reassembleMultiPolygon): it may yield no area; when it yields one only its ID and tags are checked",
			"a relation member that is not in the input may be given either candidate ID (path or area; relation or area)",
			"a built world may hold a clockwise closed way reversed (BuildOptions documents the inversion); the feature source must emit it as listed",
			"tags are compared as a set of (mapped key, string value); order is C39's subject",
			"an OSM tag whose key is b6's geometry key (point on a node, path on an open way) is don't-care: the feature's point / path must still be the node's location / the way's nodes",
		},
		Quick: 8000, Thorough: 100000,
		Required: []string{"rule_node_point", "rule_open_way_path", "rule_closed_way_untagged_path", "rule_closed_way_area_tagged", "rule_multipolygon_area",
			"rule_multipolygon_holes", "rule_multipolygon_several_outers", "rule_multipolygon_unassemblable", "rule_member_node", "rule_member_open-way",
			"rule_member_closed-way", "rule_member_multipolygon", "rule_member_relation", "rule_member_missing-way", "rule_member_missing-node",
			"key_mapped_hash", "key_mapped_at", "key_unmapped", "search_hash_hits", "search_at_hits", "search_unmapped_probes",
			"in_closed_way_cw", "in_closed_way_ccw", "in_way_node_twice", "in_way_shares_node", "in_mp_node_member", "id_collision_relation_way",
			"read_features_checked", "built_features_checked", "cw_reversed_in_built_world", "in_reserved_point_key", "in_reserved_path_key"},
		Run: func(c *core.Ctx) {
			r := c.R
			opts := c29DefaultOpts()
			opts.Reserved = 0.2
			in := c29Generate(r.Fork(), opts)
			m := c29Expect(in)
			c.Key("%s", in.String())
			c29CountRules(c, in, m)
			hasClosed, hasRefRel := false, false
			relIDs := map[int64]bool{}
			for _, rel := range in.Relations {
				relIDs[int64(rel.ID)] = true
			}
			for w := range m.Closed {
				hasClosed = true
				if relIDs[int64(w)] {
					c.Count("id_collision_relation_way") // a relation shares its number with a closed way
				}
			}
			for _, id := range m.IDs {
				for _, cl := range m.F[id].MemberClass {
					if cl != "node" && cl != "missing-node" {
						hasRefRel = true
					}
				}
			}
			if hasClosed && hasRefRel {
				c.Nontrivial()
			}
			if c.Index < 2 {
				c.Sample(in.Witness())
			}
			witness := func(extra map[string]any) map[string]any {
				w := in.Witness()
				for k, v := range extra {
					w[k] = v
				}
				return w
			}

			// the documented key table, key by key
			for _, k := range c29MappedKeys {
				if got := ingest.KeyForOSMKey(k); got != c29MapKey(k) {
					c.Violate("key-mapping:table", nil, "KeyForOSMKey(%q) = %q, the documented table gives %q", k, got, c29MapKey(k))
				}
			}
			for _, k := range c29PlainKeys {
				if got := ingest.KeyForOSMKey(k); got != k {
					c.Violate("key-mapping:unmapped-key-changed", nil, "KeyForOSMKey(%q) = %q, the key is not in the documented table", k, got)
				}
			}

			// 1. the feature source
			ns, ws, rs := c29Copy(in)
			seen := map[b6.FeatureID]int{}
			cores := 1 + r.Intn(2)
			var src ingest.FeatureSource
			var err error
			if p, class, frame, _ := core.Protect(func() {
				src, err = ingest.NewFeatureSourceFromPBF(&ingest.MemoryOSMSource{Nodes: ns, Ways: ws, Relations: rs}, &ingest.BuildOptions{Cores: cores}, context.Background())
				if err != nil {
					return
				}
				err = src.Read(ingest.ReadOptions{Goroutines: cores}, func(f ingest.Feature, g int) error {
					got := c29ObserveIngest(f) // emitted features are reused by the source: observe now
					seen[got.ID]++
					exp, ok := m.F[got.ID]
					if !ok {
						c.Violate("read:unexpected-feature:"+got.ID.Type.String(), witness(nil), "the feature source emitted %s, which no rule produces", got.ID)
						return nil
					}
					c.Count("read_features_checked")
					for _, mm := range c29Compare(m, exp, got, false) {
						c.Violate("read:"+exp.Kind+":"+mm.Field, witness(nil), "feature source: %s", mm.Detail)
					}
					return nil
				}, context.Background())
			}); p {
				c.Violate("read:panic@"+frame, witness(nil), "reading the feature source panicked: %s", class)
				return
			}
			if err != nil {
				c.Violate("read:error", witness(nil), "reading a valid input failed: %v", err)
				return
			}
			for _, id := range m.IDs {
				exp := m.F[id]
				switch n := seen[id]; {
				case n == 0 && exp.Broken:
					c.Count("unassemblable_multipolygon_absent")
				case n == 0:
					c.Violate("read:missing:"+exp.Kind, witness(nil), "the feature source never emitted %s (%s)", id, exp.Kind)
				case n > 1:
					c.Violate("read:emitted-twice:"+exp.Kind, witness(nil), "the feature source emitted %s %d times", id, n)
				}
			}

			// 2. the built in-memory world
			ns, ws, rs = c29Copy(in)
			var w b6.World
			if p, class, frame, _ := core.Protect(func() {
				w, err = ingest.BuildWorldFromOSM(ns, ws, rs, &ingest.BuildOptions{Cores: 1})
			}); p {
				c.Violate("built:panic@"+frame, witness(nil), "BuildWorldFromOSM panicked: %s", class)
				return
			}
			if err != nil {
				c.Violate("built:error", witness(nil), "BuildWorldFromOSM failed on a valid input: %v", err)
				return
			}
			have := map[b6.FeatureID]int{}
			for _, id := range obs.AllIDs(w) {
				have[id]++
				if _, ok := m.F[id]; !ok {
					c.Violate("built:unexpected-feature:"+id.Type.String(), witness(nil), "the built world enumerates %s, which no rule produces", id)
				}
			}
			for _, id := range m.IDs {
				exp := m.F[id]
				var f b6.Feature
				if p, class, frame, _ := core.Protect(func() { f = w.FindFeatureByID(id) }); p {
					c.Violate("built:lookup-panic@"+frame, witness(nil), "FindFeatureByID(%s) panicked: %s", id, class)
					continue
				}
				if f == nil {
					if exp.Broken {
						continue
					}
					c.Violate("built:missing:"+exp.Kind, witness(nil), "the built world has no %s (%s)", id, exp.Kind)
					continue
				}
				if have[id] != 1 {
					c.Violate("built:enumerated-wrongly:"+exp.Kind, witness(nil), "the built world enumerates %s %d times", id, have[id])
				}
				var got *c29Feat
				if p, class, frame, _ := core.Protect(func() { got = c29ObserveWorld(f) }); p {
					c.Violate("built:accessor-panic@"+frame+":"+exp.Kind, witness(nil), "reading %s from the built world panicked: %s", id, class)
					continue
				}
				c.Count("built_features_checked")
				if exp.CW && c29SameIDs(got.Nodes, c29Reversed(exp.Nodes)) && !c29SameIDs(got.Nodes, exp.Nodes) {
					c.Count("cw_reversed_in_built_world")
				}
				for _, mm := range c29Compare(m, exp, got, true) {
					c.Violate("built:"+exp.Kind+":"+mm.Field, witness(nil), "built world: %s", mm.Detail)
				}
			}

			// 3. searchable keys, through the index of the built world
			byTag := map[string][]b6.FeatureID{} // rendered tag -> features
			byKey := map[string][]b6.FeatureID{}
			values := map[string][2]string{}
			for _, id := range m.IDs {
				f := m.F[id]
				if f.Broken && !w.HasFeatureWithID(id) {
					continue
				}
				for _, t := range f.Tags {
					byTag[t] = append(byTag[t], id)
				}
			}
			collect := func(tags osm.Tags) {
				for _, t := range tags {
					k := c29MapKey(t.Key)
					values[c29Tags(osm.Tags{t})[0]] = [2]string{k, t.Value}
				}
			}
			for _, n := range in.Nodes {
				collect(n.Tags)
			}
			for _, wy := range in.Ways {
				collect(wy.Tags)
			}
			for _, rel := range in.Relations {
				collect(rel.Tags)
			}
			for t, ids := range byTag {
				kv := values[t]
				byKey[kv[0]] = append(byKey[kv[0]], ids...)
			}
			asSet := func(ids []b6.FeatureID) string {
				seen := map[b6.FeatureID]bool{}
				var parts []string
				for _, id := range ids {
					if !seen[id] {
						seen[id] = true
						parts = append(parts, id.String())
					}
				}
				sort.Strings(parts)
				return strings.Join(parts, " ")
			}
			tagList := make([]string, 0, len(byTag))
			for t := range byTag {
				tagList = append(tagList, t)
			}
			sort.Strings(tagList)
			probed := map[string]bool{}
			for _, t := range tagList {
				kv := values[t]
				switch {
				case strings.HasPrefix(kv[0], "#"):
					q := b6.Tagged{Key: kv[0], Value: b6.NewStringExpression(kv[1])}
					if got, want := asSet(obs.FindIDs(w, q)), asSet(byTag[t]); got != want {
						c.Violate("search:mapped-hash-key", witness(map[string]any{"query": q.String()}), "%s finds {%s}; the features carrying %s=%q are {%s}", q, got, kv[0][1:], kv[1], want)
					}
					c.Count("search_hash_hits")
				case strings.HasPrefix(kv[0], "@"):
					if probed[kv[0]] {
						continue
					}
					probed[kv[0]] = true
					q := b6.Keyed{Key: kv[0]}
					if got, want := asSet(obs.FindIDs(w, q)), asSet(byKey[kv[0]]); got != want {
						c.Violate("search:mapped-at-key", witness(map[string]any{"query": q.String()}), "%s finds {%s}; the features carrying %s are {%s}", q, got, kv[0][1:], want)
					}
					c.Count("search_at_hits")
				default:
					// a key outside the table must not have become searchable under any prefix
					for _, q := range []b6.Query{b6.Tagged{Key: "#" + kv[0], Value: b6.NewStringExpression(kv[1])}, b6.Keyed{Key: "#" + kv[0]}, b6.Keyed{Key: "@" + kv[0]}} {
						if got := obs.FindIDs(w, q); len(got) > 0 {
							c.Violate("search:unmapped-key-searchable", witness(map[string]any{"query": q.String()}), "%s finds %v although %q is outside the documented table", q, got, kv[0])
						}
					}
					c.Count("search_unmapped_probes")
				}
			}
			_ = fmt.Sprint
		},
	})
}
