package mon

import (
	"fmt"
	"os"
	"strconv"
	"testing"
	"time"

	"verif/internal/core"
	"verif/internal/wm"
)

func TestC30Scratch(t *testing.T) {
	idx, _ := strconv.Atoi(os.Getenv("C30_CASE"))
	r := core.NewR(core.CaseSeed(1, "C30", idx))
	net := c30Network(r.Fork(), idx%3 == 1)
	for _, s := range net.specs {
		if s.ID.Type != 0 || len(s.Tags) > 0 {
			fmt.Println(s.String())
		}
	}
	done := make(chan error, 1)
	go func() { _, err := wm.Compact(net.specs, 1); done <- err }()
	select {
	case err := <-done:
		fmt.Println("compact build finished:", err)
	case <-time.After(20 * time.Second):
		fmt.Println("compact build still running after 20s")
	}
}
