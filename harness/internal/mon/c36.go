package mon

import (
	"fmt"
	"strings"
	"time"

	"diagonal.works/b6"
	"diagonal.works/b6/ingest"
	"diagonal.works/b6/ingest/compact"
	"verif/internal/core"
	"verif/internal/obs"
	"verif/internal/wm"
)

// C36 Builds give the same world for any degree of parallelism.
//
// Oracle: differential. The same source (fresh feature values for every build:
// builders normalise clockwise loops in place) is built with 1 goroutine and
// with g goroutines; the observation dumps (lookups with tags and geometry,
// locations, searches, reference queries, traversals, enumeration, tokens over
// every ID the source mentions plus absent ones) must be equal. Build errors
// must agree too. The output bytes are not compared.
//
// Runs under the race build; the parent reports data races by itself.

// c36Source draws the source of a case: a valid set with clockwise loops, plus
// injected invalid features, possibly reordered so that areas precede their paths.
func c36Source(c *core.Ctx, r *core.R) []*wm.Spec {
	o := wm.DefaultGen()
	o.MaxCollections = 0
	o.MinPoints, o.MaxPoints = 4, 16
	o.MaxRings = 4
	o.MaxPaths = 5
	o.ClockwiseP = 0.5
	o.InlinePathPoints = r.Chance(0.3)
	o.MultiPolygonP = 0.3
	o.PointTags = r.Chance(0.3)
	if r.Chance(0.3) {
		o.Namespaces = []b6.Namespace{"example.com/a", b6.NamespaceLatLng}
		o.SpreadTypes = r.Bool()
	}
	g := wm.NewGen(r.Fork(), o)
	specs := g.World()
	// clockwise loops, as generated (first three path points turn right)
	for _, s := range specs {
		if s.ID.Type == b6.FeatureTypePath && len(s.Path) >= 4 && s.Path[0].IsRef() && s.Path[0].Ref == s.Path[len(s.Path)-1].Ref {
			c.Count("closed_paths")
		}
	}
	// areas and relations without any tag (a multipolygon's outline, a relation used only as a member)
	if r.Chance(0.6) {
		n := 0
		for _, s := range specs {
			if (s.ID.Type == b6.FeatureTypeArea || s.ID.Type == b6.FeatureTypeRelation) && r.Chance(0.5) {
				s.Tags = nil
				n++
			}
		}
		if n > 0 {
			c.Count("untagged_areas_or_relations")
		}
	}
	// features with many tags (17-40: more than any per-goroutine scratch sized for the usual handful)
	if r.Chance(0.6) {
		for i, n := 0, r.Range(2, 6); i < n; i++ {
			var wide *wm.Spec
			for _, s := range specs {
				if len(s.Tags) <= 3 && r.Chance(0.3) && s.ID.Type != b6.FeatureTypeRelation {
					wide = s
					break
				}
			}
			if wide == nil {
				continue
			}
			for k, nk := 0, r.Range(17, 40); k < nk; k++ {
				wide.Tags = append(wide.Tags, b6.Tag{Key: fmt.Sprintf("wide:%02d", k), Value: b6.NewStringExpression(fmt.Sprintf("%s-%d", wide.ID.Type, k))})
			}
			c.Count("features_with_many_tags")
		}
	}
	var points []*wm.Spec
	for _, s := range specs {
		if s.ID.Type == b6.FeatureTypePoint {
			points = append(points, s)
		}
	}
	absentPoint := b6.FeatureID{Type: b6.FeatureTypePoint, Namespace: b6.NamespaceOSMNode, Value: 999999}
	absentPath := b6.FeatureID{Type: b6.FeatureTypePath, Namespace: b6.NamespaceOSMWay, Value: 999998}
	areaOn := func(path *wm.Spec, tagged bool) *wm.Spec {
		a := &wm.Spec{ID: b6.FeatureID{Type: b6.FeatureTypeArea, Namespace: path.ID.Namespace, Value: path.ID.Value}, Polys: []wm.Poly{{PathIDs: []b6.FeatureID{path.ID}}}}
		if tagged {
			a.Tags = []b6.Tag{{Key: "#building", Value: b6.NewStringExpression("yes")}}
		}
		g.Reserve(a.ID)
		return a
	}
	n := r.Range(0, 4)
	for i := 0; i < n; i++ {
		switch r.Intn(6) {
		case 0: // a path over a point that does not exist
			p := &wm.Spec{ID: g.NewID(b6.FeatureTypePath, b6.NamespaceOSMWay), Tags: g.RandomTags(0.8),
				Path: []wm.Elem{{Ref: core.Pick(r, points).ID}, {Ref: absentPoint}, {Ref: core.Pick(r, points).ID}}}
			specs = append(specs, p)
			c.Count("invalid_path_missing_point")
		case 1: // a path with a single point
			specs = append(specs, &wm.Spec{ID: g.NewID(b6.FeatureTypePath, b6.NamespaceOSMWay), Tags: g.RandomTags(0.8), Path: []wm.Elem{{Ref: core.Pick(r, points).ID}}})
			c.Count("invalid_path_single_point")
		case 2: // a self-intersecting closed path, with an area over it
			ps, ring := g.Ring(int64(r.Intn(100000))-50000, int64(r.Intn(100000))-50000, 3000, 4, r.Bool())
			ring.Path[1], ring.Path[2] = ring.Path[2], ring.Path[1]
			ring.Tags = g.RandomTags(0.5)
			specs = append(specs, ps...)
			points = append(points, ps...)
			specs = append(specs, ring, areaOn(ring, true))
			c.Count("invalid_loop_with_area")
		case 3: // an area over a path that does not exist
			specs = append(specs, &wm.Spec{ID: g.NewID(b6.FeatureTypeArea, b6.NamespaceOSMWay), Tags: g.RandomTags(0.9), Polys: []wm.Poly{{PathIDs: []b6.FeatureID{absentPath}}}})
			c.Count("invalid_area_missing_path")
		case 4: // an area over an open path
			p := &wm.Spec{ID: g.NewID(b6.FeatureTypePath, b6.NamespaceOSMWay), Tags: g.RandomTags(0.8)}
			for _, j := range r.Perm(len(points))[:3] {
				p.Path = append(p.Path, wm.Elem{Ref: points[j].ID})
			}
			specs = append(specs, p, areaOn(p, true))
			c.Count("invalid_area_open_path")
		case 5: // a closed path over a missing point, with an area over it
			ps, ring := g.Ring(int64(r.Intn(100000))-50000, int64(r.Intn(100000))-50000, 3000, 4, r.Bool())
			ring.Path[2] = wm.Elem{Ref: absentPoint}
			specs = append(specs, ps...)
			points = append(points, ps...)
			specs = append(specs, ring, areaOn(ring, true))
			c.Count("invalid_loop_missing_point_with_area")
		}
		c.Count("invalid_features")
	}
	// order
	switch r.Intn(3) {
	case 0: // as generated: points, paths, areas after their paths
		c.Count("order_generated")
	case 1:
		core.Shuffle(r, specs)
		c.Count("order_shuffled")
	default: // every area before every path
		var areas, rest []*wm.Spec
		for _, s := range specs {
			if s.ID.Type == b6.FeatureTypeArea {
				areas = append(areas, s)
			} else {
				rest = append(rest, s)
			}
		}
		specs = append(areas, rest...)
		c.Count("order_areas_first")
	}
	// mechanisms: areas before one of their paths; clockwise loops
	pos := map[b6.FeatureID]int{}
	for i, s := range specs {
		pos[s.ID] = i
	}
	for i, s := range specs {
		if s.ID.Type != b6.FeatureTypeArea {
			continue
		}
		for _, p := range s.Polys {
			for _, id := range p.PathIDs {
				if j, ok := pos[id]; ok && j > i {
					c.Count("area_before_its_path")
				}
			}
		}
	}
	return specs
}

// c36Clockwise counts the closed reference paths of the source that are listed
// clockwise (signed area of the planar ring, good enough at these extents).
func c36Clockwise(specs []*wm.Spec) int {
	m := wm.ModelOf(specs)
	n := 0
	for _, s := range specs {
		if s.ID.Type != b6.FeatureTypePath || len(s.Path) < 4 || !s.Path[0].IsRef() || s.Path[0].Ref != s.Path[len(s.Path)-1].Ref {
			continue
		}
		lls, ok := m.PathPoints(s)
		if !ok {
			continue
		}
		sum := 0.0
		for i := 0; i+1 < len(lls); i++ {
			x0, y0 := lls[i].Lng.Degrees(), lls[i].Lat.Degrees()
			x1, y1 := lls[i+1].Lng.Degrees(), lls[i+1].Lat.Degrees()
			sum += (x1 - x0) * (y1 + y0)
		}
		if sum > 0 {
			n++
		}
	}
	return n
}

func c36Build(kind string, specs []*wm.Spec, g int) (w b6.World, err error) {
	if kind == "basic" {
		return wm.Basic(specs, g)
	}
	o := compact.Options{Goroutines: g, PointsScratchOutputType: compact.OutputTypeMemory}
	data, err := compact.BuildInMemory(ingest.MemoryFeatureSource(wm.Features(specs)), &o)
	if err != nil {
		return nil, err
	}
	return compact.NewWorldFromData(data)
}

func init() {
	// goroutine counts of the compact builds of a case, by compact case number: the
	// expensive counts (16 goroutines: ~5 s and 2.5 GB without the race detector) are rare
	compactSets := [][]int{{1, 2}, {4}, {3, 8}, {16}, {2, 5}, {1, 6}, {12}, {7, 2}}
	core.Register(&core.Monitor{
		ID:        "C36",
		Title:     "Builds give the same world for any degree of parallelism",
		Technique: "differential: observation dump of the world built with g goroutines against the dump of the 1-goroutine build of the same source, under the race detector",
		Rule: "case = (builder: BasicWorldBuilder Cores=g or compact.BuildInMemory Goroutines=g; generated source with clockwise loops, injected invalid features " +
			"(paths over missing points, single-point paths, self-intersecting loops with areas, areas over missing or open paths) and an order: as generated, " +
			"shuffled, or all areas first; goroutine counts: all of 2..16 for the in-memory builder, 1-2 of 1..16 per compact case, every count within 8 compact cases); distinct = builder + source; " +
			"non-trivial = the source has a clockwise loop or an invalid feature, and at least 3 areas+paths",
		Assumptions: []string{"every build gets fresh feature values of the same source", "the index bytes are not compared (string-table order of equal counts is unspecified)"},
		Quick:       24, Thorough: 160,
		Batch: 4, MaxParallel: 4,
		Race: true, RaceThorough: true,
		// the cap is a safety net only: a case costs seconds, but the box may be shared and builds allocate ~80 MB per goroutine and stage
		CaseCap: 60 * time.Minute,
		Required: []string{"kind_basic", "kind_compact", "basic_goroutines_2", "basic_goroutines_7", "basic_goroutines_16",
			"compact_goroutines_1", "compact_goroutines_2", "compact_goroutines_4", "compact_goroutines_8", "compact_goroutines_16", "clockwise_loops", "area_before_its_path",
			"invalid_features", "order_shuffled", "order_areas_first", "builds_compared", "features_with_many_tags", "untagged_areas_or_relations"},
		Run: func(c *core.Ctx) {
			r := c.R
			kind := "basic"
			var gs []int
			if c.Index%4 == 3 {
				kind = "compact"
				gs = compactSets[(c.Index/4)%len(compactSets)]
			} else {
				for g := 2; g <= 16; g++ {
					gs = append(gs, g)
				}
				gs = append(gs, 1, 16, 3) // repeats
			}
			c.Count("kind_" + kind)
			specs := c36Source(c, r)
			cw := c36Clockwise(specs)
			c.Add("clockwise_loops", cw)
			var sb strings.Builder
			np := 0
			for _, s := range specs {
				sb.WriteString(s.String() + "|")
				if s.ID.Type == b6.FeatureTypeArea || s.ID.Type == b6.FeatureTypePath {
					np++
				}
			}
			c.Key("%s/%s", kind, sb.String())
			witness := map[string]any{"builder": kind, "source": c36Render(specs)}
			if c.Index < 4 {
				c.Sample(map[string]any{"builder": kind, "goroutines": gs, "source": c36Render(specs)})
			}

			probes := obs.Probes{What: obs.All}
			for _, s := range specs {
				probes.IDs = append(probes.IDs, s.ID)
			}
			probes.IDs = append(probes.IDs, b6.FeatureID{Type: b6.FeatureTypePoint, Namespace: b6.NamespaceOSMNode, Value: 999999},
				b6.FeatureID{Type: b6.FeatureTypePath, Namespace: b6.NamespaceOSMWay, Value: 999998})
			for _, q := range wm.StandardQueries() {
				probes.Queries = append(probes.Queries, obs.NamedQuery{Name: q.String(), Query: q})
			}
			take := func(g int) (*obs.Dump, string, bool) {
				var w b6.World
				var err error
				if p, cl, fr, st := core.Protect(func() { w, err = c36Build(kind, specs, g) }); p {
					c.Violate("build:panic@"+fr+":"+kind, map[string]any{"builder": kind, "goroutines": g, "source": c36Render(specs), "stack": st}, "%s build with %d goroutines panicked: %s", kind, g, cl)
					return nil, "", false
				}
				if err != nil {
					return nil, "error: " + err.Error(), true
				}
				return obs.Take(w, probes), "", true
			}
			ref, refErr, ok := take(1)
			if !ok {
				return
			}
			invalid := false
			for _, s := range specs {
				if ref != nil && ref.M["has "+s.ID.String()] == "false" {
					invalid = true
				}
			}
			if (cw > 0 || invalid) && np >= 3 {
				c.Nontrivial()
			}
			if invalid {
				c.Count("sources_with_dropped_features")
			}
			for _, g := range gs {
				d, derr, ok := take(g)
				if !ok {
					return
				}
				c.Count(fmt.Sprintf("%s_goroutines_%d", kind, g))
				c.Count("builds_compared")
				if (d == nil) != (ref == nil) || derr != refErr {
					c.Violate("build-outcome-differs:"+kind, witness, "%s build with %d goroutines: %q, with 1 goroutine: %q", kind, g, derr, refErr)
					continue
				}
				if d == nil {
					continue
				}
				reported := map[string]bool{}
				for _, df := range ref.Diff(d) {
					section := strings.SplitN(df.Key, " ", 2)[0]
					sig := "differs:" + section + ":" + kind
					if reported[sig] {
						continue
					}
					reported[sig] = true
					c.Violate(sig, map[string]any{"builder": kind, "goroutines": g, "source": c36Render(specs)},
						"%s\n    1 goroutine:   %s\n    %d goroutines: %s", df.Key, df.A, g, df.B)
				}
			}
		},
	})
}

func c36Render(specs []*wm.Spec) []string {
	out := make([]string, len(specs))
	for i, s := range specs {
		out[i] = s.String()
	}
	return out
}
