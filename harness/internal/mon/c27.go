package mon

import (
	"bytes"
	"fmt"
	"hash/fnv"
	"math"
	"strconv"
	"strings"
	"sync"
	"sync/atomic"
	"time"

	"diagonal.works/b6/osm"
	"verif/internal/core"
)

// C27 OSM PBF files read back what was written.
//
// Oracle: the list of elements handed to the writer, kept in the monitor's own
// representation (c27Elem). The file is read back with ReadPBFWithOptions and
// a callback that deep-copies every element it is given (the reader reuses its
// element structs) into a per-goroutine list. Never a failing callback: those
// are property C28.
//
//   - 1 reader core: the received list must equal the written list position by
//     position (kind, ID, tags in order, node refs, members with type and role;
//     coordinates within one granularity step, 1e-7 degrees).
//   - >1 cores: every written element must be delivered exactly once (multiset
//     equality) and within each goroutine the elements must arrive in file
//     order. Elements are generated pairwise distinct (ignoring coordinates) in
//     these cases so that "which written element is this" has one answer.

type c27KV struct{ k, v string }

type c27Member struct {
	typ  osm.ElementType
	id   int64
	role string
}

type c27Elem struct {
	kind     byte // 'n', 'w', 'r'
	id       int64
	lat, lng float64
	tags     []c27KV
	refs     []int64
	members  []c27Member
}

// canon renders everything except the coordinates.
func (e *c27Elem) canon() string {
	var sb strings.Builder
	sb.WriteByte(e.kind)
	sb.WriteString(strconv.FormatInt(e.id, 10))
	for _, t := range e.tags {
		sb.WriteByte('|')
		sb.WriteString(strconv.Quote(t.k))
		sb.WriteByte('=')
		sb.WriteString(strconv.Quote(t.v))
	}
	for _, r := range e.refs {
		sb.WriteByte(',')
		sb.WriteString(strconv.FormatInt(r, 10))
	}
	for _, m := range e.members {
		sb.WriteByte(';')
		sb.WriteString(strconv.Itoa(int(m.typ)))
		sb.WriteByte(':')
		sb.WriteString(strconv.FormatInt(m.id, 10))
		sb.WriteByte(':')
		sb.WriteString(strconv.Quote(m.role))
	}
	return sb.String()
}

func (e *c27Elem) short() string {
	s := e.canon()
	if len(s) > 300 {
		s = s[:300] + "…"
	}
	if e.kind == 'n' {
		s += fmt.Sprintf(" @%s,%s", strconv.FormatFloat(e.lat, 'g', -1, 64), strconv.FormatFloat(e.lng, 'g', -1, 64))
	}
	return s
}

func c27FromOSM(e osm.Element) (c27Elem, bool) {
	var out c27Elem
	var tags []osm.Tag
	switch v := e.(type) {
	case *osm.Node:
		out.kind, out.id, out.lat, out.lng = 'n', int64(v.ID), v.Location.Lat, v.Location.Lng
		tags = v.Tags
	case *osm.Way:
		out.kind, out.id = 'w', int64(v.ID)
		out.refs = make([]int64, len(v.Nodes))
		for i, n := range v.Nodes {
			out.refs[i] = int64(n)
		}
		tags = v.Tags
	case *osm.Relation:
		out.kind, out.id = 'r', int64(v.ID)
		out.members = make([]c27Member, len(v.Members))
		for i, m := range v.Members {
			out.members[i] = c27Member{m.Type, int64(m.ID), strings.Clone(m.Role)}
		}
		tags = v.Tags
	default:
		return out, false
	}
	out.tags = make([]c27KV, len(tags))
	for i, t := range tags {
		out.tags[i] = c27KV{strings.Clone(t.Key), strings.Clone(t.Value)}
	}
	return out, true
}

func (e *c27Elem) toOSM() osm.Element {
	tags := make(osm.Tags, len(e.tags))
	for i, t := range e.tags {
		tags[i] = osm.Tag{Key: t.k, Value: t.v}
	}
	switch e.kind {
	case 'n':
		return &osm.Node{ID: osm.NodeID(e.id), Location: osm.LatLng{Lat: e.lat, Lng: e.lng}, Tags: tags}
	case 'w':
		ns := make([]osm.NodeID, len(e.refs))
		for i, r := range e.refs {
			ns[i] = osm.NodeID(r)
		}
		return &osm.Way{ID: osm.WayID(e.id), Nodes: ns, Tags: tags}
	default:
		ms := make([]osm.Member, len(e.members))
		for i, m := range e.members {
			ms[i] = osm.Member{Type: m.typ, ID: osm.AnyID(m.id), Role: m.role}
		}
		return &osm.Relation{ID: osm.RelationID(e.id), Members: ms, Tags: tags}
	}
}

// one granularity step (100 nanodegrees) plus float noise of the decode multiplication
const c27Step = 1e-7
const c27Tol = c27Step + 1e-11

// c27Diff names the first field in which got differs from want ("" = same).
func c27Diff(want, got *c27Elem) string {
	kind := map[byte]string{'n': "node", 'w': "way", 'r': "relation"}[want.kind]
	if want.kind != got.kind {
		return "element:kind"
	}
	if want.id != got.id {
		return kind + ":id"
	}
	if len(want.tags) != len(got.tags) {
		return kind + ":tag-count"
	}
	for i := range want.tags {
		if want.tags[i] != got.tags[i] {
			return kind + ":tags"
		}
	}
	if len(want.refs) != len(got.refs) {
		return kind + ":ref-count"
	}
	for i := range want.refs {
		if want.refs[i] != got.refs[i] {
			return kind + ":refs"
		}
	}
	if len(want.members) != len(got.members) {
		return kind + ":member-count"
	}
	for i := range want.members {
		if want.members[i].id != got.members[i].id {
			return kind + ":member-id"
		}
		if want.members[i].typ != got.members[i].typ {
			return kind + ":member-type"
		}
		if want.members[i].role != got.members[i].role {
			return kind + ":member-role"
		}
	}
	if want.kind == 'n' {
		if !(math.Abs(want.lat-got.lat) <= c27Tol) {
			return "node:lat-beyond-one-step"
		}
		if !(math.Abs(want.lng-got.lng) <= c27Tol) {
			return "node:lng-beyond-one-step"
		}
	}
	return ""
}

var c27Strings = []string{
	"", "a", "b", "highway", "name", "primary", "yes", "building", "ß∂ü→", " ", "with space", "k=v|;,:\"'\\",
	"\x00", "x\x00y", "\n", "type", "multipolygon", "0", strings.Repeat("long", 100), "日本語", "ref",
}
var c27Roles = []string{"", "outer", "inner", "a", "", "stop", "ß", "with space", strings.Repeat("r", 300)}

type c27Gen struct {
	r      *core.R
	unique bool
	seen   map[string]bool
	seq    int64
	lastID int64
	flags  map[string]bool
}

func (g *c27Gen) str() string {
	r := g.r
	switch r.Intn(10) {
	case 0:
		g.flags["empty_string"] = true
		return ""
	case 1:
		return "s" + strconv.Itoa(r.Intn(1000000)) // mostly fresh
	default:
		s := c27Strings[r.Intn(len(c27Strings))]
		if s == "" {
			g.flags["empty_string"] = true
		}
		return s
	}
}

func (g *c27Gen) id() int64 {
	r := g.r
	var v int64
	switch r.Intn(12) {
	case 0, 1, 2, 3:
		g.seq++
		v = g.seq // ascending, as in real files
	case 4:
		v = g.lastID + int64(r.Range(-3, 3)) // tiny deltas, also 0 and negative
	case 5:
		v = int64(r.Range(-1000, 1000))
	case 6:
		v = (1 << 40) + int64(r.U64()%(1<<41))
		g.flags["large_id"] = true
	case 7:
		v = -1 - int64(r.U64()%(1<<45))
		g.flags["negative_id"] = true
	case 8:
		v = core.Pick(r, []int64{math.MaxInt64, math.MinInt64, math.MaxInt64 - 1, math.MinInt64 + 1, 1 << 62, -(1 << 62), 1<<31 - 1, 1 << 31, 1 << 32, -(1 << 31) - 1, 0})
		g.flags["extreme_id"] = true
	case 9:
		v = r.I64()
		g.flags["large_id"] = true
	default:
		v = 1 + int64(r.U64()%(1<<33)) // realistic OSM node IDs
	}
	if v < 0 {
		g.flags["negative_id"] = true
	}
	g.lastID = v
	return v
}

func (g *c27Gen) angle(limit float64) float64 {
	r := g.r
	switch r.Intn(12) {
	case 0:
		return 0
	case 1:
		g.flags["extreme_coord"] = true
		return core.Pick(r, []float64{limit, -limit})
	case 2:
		// exactly representable E7 values written the way parsers produce them
		k := int64(r.Range(-int(limit*1e7), int(limit*1e7)))
		return float64(k) / 1e7
	case 3:
		k := int64(r.Range(-int(limit*1e7), int(limit*1e7)))
		return float64(k) * 1e-7
	case 4:
		// just below / above a step boundary
		k := int64(r.Range(-int(limit*1e7)+1, int(limit*1e7)-1))
		return float64(k)/1e7 + core.Pick(r, []float64{1e-9, -1e-9, 5e-8, -5e-8, 9.9e-8, -9.9e-8})
	case 5:
		return core.Pick(r, []float64{1e-9, -1e-9, 1e-7, -1e-7, 9.99e-8, -9.99e-8, 1e-12, -1e-12, 5e-324})
	case 6:
		g.flags["extreme_coord"] = true
		return core.Pick(r, []float64{limit - 1e-7, -limit + 1e-7, limit - 1e-9, -limit + 1e-9})
	case 7:
		return 51.5 + (r.Float()-0.5)*0.1 // a city
	default:
		return (r.Float()*2 - 1) * limit
	}
}

func (g *c27Gen) tags(max int) []c27KV {
	r := g.r
	n := 0
	switch r.Intn(8) {
	case 0, 1, 2:
		n = 0
	case 3, 4, 5:
		n = r.Range(1, 3)
	case 6:
		n = r.Range(1, 8)
	default:
		n = r.Range(0, max)
	}
	if n == 0 {
		return nil
	}
	out := make([]c27KV, n)
	for i := range out {
		out[i] = c27KV{g.str(), g.str()}
	}
	return out
}

func (g *c27Gen) elem(kind byte, lean bool) c27Elem {
	r := g.r
	for {
		e := c27Elem{kind: kind, id: g.id()}
		maxTags, maxRefs := 40, 2500
		if lean {
			maxTags, maxRefs = 3, 6
		}
		e.tags = g.tags(maxTags)
		switch kind {
		case 'n':
			e.lat, e.lng = g.angle(90), g.angle(180)
		case 'w':
			n := 0
			switch r.Intn(10) {
			case 0:
				n = 0
				g.flags["empty_way"] = true
			case 1:
				n = r.Range(0, maxRefs)
			default:
				n = r.Range(1, 12)
			}
			if n > 0 {
				e.refs = make([]int64, n)
			}
			for i := range e.refs {
				e.refs[i] = g.id()
			}
			if n > 2 && r.Bool() {
				e.refs[n-1] = e.refs[0] // closed way
			}
		case 'r':
			n := 0
			switch r.Intn(10) {
			case 0:
				n = 0
				g.flags["empty_relation"] = true
			case 1:
				n = r.Range(0, maxRefs/5)
			default:
				n = r.Range(1, 8)
			}
			if n > 0 {
				e.members = make([]c27Member, n)
			}
			for i := range e.members {
				role := c27Roles[r.Intn(len(c27Roles))]
				if r.Chance(0.1) {
					role = g.str()
				}
				if role == "" {
					g.flags["empty_role"] = true
				}
				e.members[i] = c27Member{osm.ElementType(r.Intn(3)), g.id(), role}
			}
		}
		if !g.unique {
			return e
		}
		k := e.canon()
		if !g.seen[k] {
			g.seen[k] = true
			return e
		}
	}
}

func init() {
	core.Register(&core.Monitor{
		ID:        "C27",
		Title:     "OSM PBF files read back what was written",
		Technique: "round trip against the written element list: osm.NewWriter -> bytes -> osm.ReadPBFWithOptions with a copying, never-failing callback; positional equality for 1 core, multiset + per-goroutine file order for several cores",
		Rule: "case = (element sequence, reader cores 1..8): 1..10 interleaved runs of nodes/ways/relations; run lengths small, medium or crossing the 8000-element block limit " +
			"(exactly 8000, 8001, 16001, ...), optional explicit Flush between elements; strings from a pool with empty, repeated, NUL, unicode and long strings plus fresh ones; " +
			"IDs ascending, tiny deltas, negative, >= 2^40, int64 extremes; coordinates over the full range incl. poles/antimeridian, exact E7 values and step boundaries; " +
			"distinct = distinct (cores, element list); non-trivial = at least two element kinds, at least two blocks and at least one tag",
		Assumptions: []string{
			"callbacks never fail (failing callbacks are property C28)",
			"one granularity step is 100 nanodegrees (the writer's default granularity); the tolerance is 1e-7 + 1e-11 degrees to allow for the float multiplication in the decoder",
			"with several cores a total order does not exist; only per-goroutine order is checked, and elements are generated pairwise distinct so that delivery can be matched one to one",
		},
		Quick: 320, Thorough: 6000,
		Batch: 8,
		Required: []string{"block_split_nodes", "block_split_ways", "block_split_relations", "type_switch", "empty_string", "repeated_string_in_block",
			"negative_id", "large_id", "extreme_id", "extreme_coord", "coord_error_near_full_step", "multi_core_case", "several_goroutines_delivered", "single_core_case",
			"dense_node_with_tags", "relation_member_roles", "explicit_flush"},
		Run: func(c *core.Ctx) {
			r := c.R
			cores := 1
			if !r.Chance(0.35) {
				cores = r.Range(2, 8)
			}
			g := &c27Gen{r: r.Fork(), unique: cores > 1 || r.Chance(0.7), seen: map[string]bool{}, flags: map[string]bool{}}

			// shape of the file
			size := r.Intn(100)
			nruns := r.Range(1, 10)
			var written []c27Elem
			flushBefore := map[int]bool{}
			kinds := map[byte]bool{}
			blocks := 0
			bigBudget := 1
			if size >= 97 {
				bigBudget = 2
			}
			lastKind := byte(0)
			split := map[byte]bool{}
			for run := 0; run < nruns; run++ {
				kind := core.Pick(r, []byte{'n', 'w', 'r'})
				if nruns > 1 && kind == lastKind && r.Chance(0.7) {
					kind = core.Pick(r, []byte{'n', 'w', 'r'})
				}
				n := 0
				lean := false
				switch {
				case size < 55:
					n = r.Range(0, 30)
				case size < 85:
					n = r.ExpInt(1500)
				default:
					if bigBudget > 0 && (run == nruns-1 || r.Chance(0.4)) {
						bigBudget--
						n = core.Pick(r, []int{8000, 8001, 8002, 7999, 16000, 16001, 8000 + r.Range(1, 2000), 8000 + r.Range(1, 200)})
						lean = true
					} else {
						n = r.Range(0, 50)
					}
				}
				if n == 0 {
					continue
				}
				if kind != lastKind && lastKind != 0 {
					c.Count("type_switch")
				}
				// blocks this run produces: the writer starts a new block on a kind
				// change and after every 8000 elements of one kind
				runLen := n
				if kind == lastKind {
					// continues the previous run's block; count conservatively
					blocks += n / 8000
				} else {
					blocks += 1 + (n-1)/8000
				}
				if runLen > 8000 {
					split[kind] = true
				}
				for i := 0; i < n; i++ {
					if r.Chance(0.002) {
						flushBefore[len(written)] = true
					}
					written = append(written, g.elem(kind, lean))
				}
				kinds[kind] = true
				lastKind = kind
			}

			// fingerprint for distinctness
			h := fnv.New64a()
			hasTag, denseTagged, roles := false, false, false
			for i := range written {
				e := &written[i]
				h.Write([]byte(e.canon()))
				if e.kind == 'n' {
					var b [16]byte
					for j, v := range []uint64{math.Float64bits(e.lat), math.Float64bits(e.lng)} {
						for k := 0; k < 8; k++ {
							b[j*8+k] = byte(v >> (8 * k))
						}
					}
					h.Write(b[:])
					if len(e.tags) > 0 {
						denseTagged = true
					}
				}
				if len(e.tags) > 0 {
					hasTag = true
				}
				if len(e.members) > 1 {
					roles = true
				}
			}
			c.Key("cores=%d n=%d flush=%d h=%016x", cores, len(written), len(flushBefore), h.Sum64())
			if len(kinds) >= 2 && blocks >= 2 && hasTag {
				c.Nontrivial()
			}
			if c.Index < 3 {
				var head []string
				for i := 0; i < len(written) && i < 6; i++ {
					head = append(head, written[i].short())
				}
				c.Sample(map[string]any{"cores": cores, "elements": len(written), "head": head})
			}

			// repeated strings inside one block (string table reuse)
			{
				seen := map[string]bool{}
				var prev byte
				cnt := 0
				for i := range written {
					e := &written[i]
					if e.kind != prev || cnt == 8000 || flushBefore[i] {
						seen = map[string]bool{}
						cnt = 0
					}
					prev = e.kind
					cnt++
					for _, t := range e.tags {
						if seen[t.k] || seen[t.v] || t.k == t.v {
							g.flags["repeated_string_in_block"] = true
						}
						seen[t.k], seen[t.v] = true, true
					}
				}
			}

			// write
			var buf bytes.Buffer
			var werr error
			useWriteElement := r.Bool()
			if p, cl, fr, _ := core.Protect(func() {
				w, err := osm.NewWriter(&buf)
				if err != nil {
					werr = err
					return
				}
				for i := range written {
					if flushBefore[i] {
						if err := w.Flush(); err != nil {
							werr = err
							return
						}
					}
					oe := written[i].toOSM()
					if useWriteElement {
						err = w.WriteElement(oe)
					} else {
						switch v := oe.(type) {
						case *osm.Node:
							err = w.WriteNode(v)
						case *osm.Way:
							err = w.WriteWay(v)
						case *osm.Relation:
							err = w.WriteRelation(v)
						}
					}
					if err != nil {
						werr = err
						return
					}
				}
				werr = w.Flush()
			}); p {
				c.Violate("write:panic@"+fr, map[string]any{"elements": len(written)}, "the writer panicked: %s", cl)
				return
			}
			if werr != nil {
				c.Violate("write:error", map[string]any{"elements": len(written)}, "the writer failed: %v", werr)
				return
			}
			c.Max("max_file_bytes", int64(buf.Len()))

			// read
			got := make([][]c27Elem, cores)
			locks := make([]sync.Mutex, cores)
			badGoroutine := make([]int64, cores+1)
			var rerr error
			rep := core.Watch(func() {
				rerr = osm.ReadPBFWithOptions(bytes.NewReader(buf.Bytes()), func(e osm.Element, goroutine int) error {
					if goroutine < 0 || goroutine >= cores {
						atomic.AddInt64(&badGoroutine[cores], 1)
						return nil
					}
					ce, ok := c27FromOSM(e)
					if !ok {
						atomic.AddInt64(&badGoroutine[goroutine], 1)
						return nil
					}
					// one lock per slot: a reader that hands the same goroutine number to
					// two goroutines must show up as an order violation, not corrupt the monitor
					locks[goroutine].Lock()
					got[goroutine] = append(got[goroutine], ce)
					locks[goroutine].Unlock()
					return nil
				}, osm.ReadOptions{Cores: cores})
			}, 20*time.Second, 100*time.Second)
			switch rep.Verdict {
			case core.Quiescent:
				c.Violate("read:hang@"+rep.Frame, rep.Dump, "ReadPBFWithOptions(cores=%d) never returned although no callback failed (%d elements)", cores, len(written))
				c.RequestRestart()
				return
			case core.CapHit:
				c.Inconclusive("ReadPBFWithOptions still running at the cap")
				c.RequestRestart()
				return
			}
			if rerr != nil {
				c.Violate("read:error", map[string]any{"elements": len(written), "cores": cores}, "reading back failed: %v", rerr)
				return
			}
			for i, n := range badGoroutine {
				if n > 0 {
					if i == cores {
						c.Violate("read:goroutine-index-out-of-range", nil, "the callback was given a goroutine index outside [0,%d)", cores)
					} else {
						c.Violate("read:unknown-element-type", nil, "the callback was given an element that is not a node, way or relation")
					}
				}
			}

			// counters about what was exercised
			for k := range g.flags {
				c.Count(k)
			}
			for k := range split {
				c.Count(map[byte]string{'n': "block_split_nodes", 'w': "block_split_ways", 'r': "block_split_relations"}[k])
			}
			if len(flushBefore) > 0 {
				c.Count("explicit_flush")
			}
			if denseTagged {
				c.Count("dense_node_with_tags")
			}
			if roles {
				c.Count("relation_member_roles")
			}
			if cores == 1 {
				c.Count("single_core_case")
			} else {
				c.Count("multi_core_case")
				used := 0
				for _, l := range got {
					if len(l) > 0 {
						used++
					}
				}
				if used >= 2 {
					c.Count("several_goroutines_delivered")
				}
				c.Max("max_goroutines_delivering", int64(used))
			}
			c.Add("elements_written", len(written))

			total := 0
			for _, l := range got {
				total += len(l)
			}
			wit := func(extra map[string]any) map[string]any {
				w := map[string]any{"cores": cores, "written": len(written), "read": total, "use_write_element": useWriteElement}
				for k, v := range extra {
					w[k] = v
				}
				return w
			}
			noteCoord := func(want, gotE *c27Elem) {
				if want.kind != 'n' {
					return
				}
				d := math.Max(math.Abs(want.lat-gotE.lat), math.Abs(want.lng-gotE.lng))
				c.Max("max_coord_error_e13_deg", int64(d*1e13))
				if d > 0.99*c27Step {
					c.Count("coord_error_near_full_step")
				}
				if d == 0 {
					c.Count("coord_exact")
				}
			}

			if cores == 1 {
				l := got[0]
				n := len(written)
				if len(l) < n {
					n = len(l)
				}
				for i := 0; i < n; i++ {
					if f := c27Diff(&written[i], &l[i]); f != "" {
						// decide between "an element is wrong" and "the order is wrong"
						sig := f
						if f == "element:kind" || strings.HasSuffix(f, ":id") {
							sig = "single-core:order-or-identity"
						}
						c.Violate(sig, wit(map[string]any{"position": i, "written": written[i].short(), "read": l[i].short()}),
							"element %d of %d differs (%s): wrote %s, read %s", i, len(written), f, written[i].short(), l[i].short())
						return
					}
					noteCoord(&written[i], &l[i])
				}
				if len(l) < len(written) {
					c.Violate("elements-lost", wit(map[string]any{"first_missing": written[len(l)].short()}), "wrote %d elements, read %d", len(written), len(l))
				} else if len(l) > len(written) {
					c.Violate("elements-invented", wit(map[string]any{"first_extra": l[len(written)].short()}), "wrote %d elements, read %d", len(written), len(l))
				}
				return
			}

			// several cores: one-to-one matching through the coordinate-free rendering
			index := make(map[string]int, len(written))
			byID := make(map[string]int, len(written))
			for i := range written {
				index[written[i].canon()] = i
				byID[string(written[i].kind)+strconv.FormatInt(written[i].id, 10)] = i
			}
			delivered := make([]int, len(written))
			for gi, l := range got {
				last := -1
				for j := range l {
					e := &l[j]
					i, ok := index[e.canon()]
					if !ok {
						// describe what is wrong using the written element with the same kind and ID, if any
						f := "no-such-element"
						var w string
						if k, ok := byID[string(e.kind)+strconv.FormatInt(e.id, 10)]; ok {
							f = c27Diff(&written[k], e)
							w = written[k].short()
						}
						c.Violate("multi-core:"+f, wit(map[string]any{"goroutine": gi, "read": e.short(), "written_with_same_id": w}),
							"goroutine %d delivered an element that was not written (%s): %s", gi, f, e.short())
						return
					}
					if f := c27Diff(&written[i], e); f != "" {
						c.Violate(f, wit(map[string]any{"goroutine": gi, "written": written[i].short(), "read": e.short()}),
							"element differs (%s): wrote %s, read %s", f, written[i].short(), e.short())
						return
					}
					noteCoord(&written[i], e)
					delivered[i]++
					if delivered[i] > 1 {
						c.Violate("multi-core:delivered-twice", wit(map[string]any{"element": e.short()}), "element %d was delivered %d times", i, delivered[i])
						return
					}
					if i <= last {
						c.Violate("multi-core:goroutine-out-of-file-order", wit(map[string]any{"goroutine": gi, "element": e.short(), "file_position": i, "previous_file_position": last}),
							"goroutine %d received file position %d after position %d", gi, i, last)
						return
					}
					last = i
				}
			}
			for i, d := range delivered {
				if d == 0 {
					c.Violate("elements-lost", wit(map[string]any{"first_missing": written[i].short(), "position": i}), "element %d (%s) was never delivered", i, written[i].short())
					return
				}
			}
		},
	})
}
