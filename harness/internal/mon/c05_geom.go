package mon

import (
	"fmt"
	"math"
	"strings"

	"diagonal.works/b6"
	"github.com/golang/geo/r3"
	"github.com/golang/geo/s2"
	"verif/internal/core"
)

// Geometry generator shared by C05 and C04 (G-GEOM of DESIGN.md section 4).
//
// Every coordinate is an exact multiple of 1e-7 degrees. Rings are star-shaped
// (or convex) around a centre, counter-clockwise by construction, and are
// checked for simplicity after quantisation; holes lie strictly inside.

type c05LL struct{ Lat, Lng int64 } // E7

func (l c05LL) LatLng() s2.LatLng {
	return s2.LatLngFromDegrees(float64(l.Lat)/1e7, float64(l.Lng)/1e7)
}
func (l c05LL) Point() s2.Point { return s2.PointFromLatLng(l.LatLng()) }
func (l c05LL) String() string  { return fmt.Sprintf("%d,%d", l.Lat, l.Lng) }

func c05LLs(ls []c05LL) string {
	var sb strings.Builder
	for i, l := range ls {
		if i > 0 {
			sb.WriteByte(' ')
		}
		sb.WriteString(l.String())
	}
	return sb.String()
}

func c05Quantise(p s2.Point) c05LL {
	ll := s2.LatLngFromPoint(p)
	lat := int64(math.Round(ll.Lat.Degrees() * 1e7))
	lng := int64(math.Round(ll.Lng.Degrees() * 1e7))
	if lat > 900000000 {
		lat = 900000000
	}
	if lat < -900000000 {
		lat = -900000000
	}
	if lng <= -1800000000 {
		lng += 3600000000
	}
	if lng > 1800000000 {
		lng -= 3600000000
	}
	return c05LL{lat, lng}
}

func c05Points(ls []c05LL) []s2.Point {
	ps := make([]s2.Point, len(ls))
	for i, l := range ls {
		ps[i] = l.Point()
	}
	return ps
}

// c05Frame returns unit east and north vectors at c; (e, n, c) is right-handed,
// so an increasing bearing is counter-clockwise seen from outside the sphere.
func c05Frame(c s2.Point) (e, n r3.Vector) {
	e = r3.Vector{X: 0, Y: 0, Z: 1}.Cross(c.Vector)
	if e.Norm() < 1e-9 {
		e = r3.Vector{X: 0, Y: 1, Z: 0}.Cross(c.Vector)
	}
	e = e.Normalize()
	n = c.Vector.Cross(e).Normalize()
	return
}

// c05Offset is the point at angular distance dist from c at bearing theta
// (radians, counter-clockwise from east).
func c05Offset(c s2.Point, dist, theta float64) s2.Point {
	e, n := c05Frame(c)
	dir := e.Mul(math.Cos(theta)).Add(n.Mul(math.Sin(theta)))
	return s2.Point{Vector: c.Vector.Mul(math.Cos(dist)).Add(dir.Mul(math.Sin(dist))).Normalize()}
}

// c05SegDist is the angular distance from x to the geodesic segment ab
// (own implementation; s2.DistanceFromSegment is used by the code under test).
func c05SegDist(x, a, b s2.Point) float64 {
	nv := a.PointCross(b).Vector
	if nv.Norm() == 0 {
		return float64(x.Angle(a.Vector))
	}
	nv = nv.Normalize()
	if nv.Dot(a.Vector.Cross(x.Vector)) >= 0 && nv.Dot(x.Vector.Cross(b.Vector)) >= 0 {
		s := x.Vector.Dot(nv)
		if s > 1 {
			s = 1
		}
		if s < -1 {
			s = -1
		}
		return math.Abs(math.Asin(s))
	}
	return math.Min(float64(x.Angle(a.Vector)), float64(x.Angle(b.Vector)))
}

func c05Dist(a, b s2.Point) float64 { return float64(a.Angle(b.Vector)) }

const c05MinSep = 2e-8 // rad: generated vertices and non-adjacent edges stay this far apart

// c05RingValid reports whether the quantised ring is a simple loop with
// well-separated vertices that contains centre (i.e. is counter-clockwise).
func c05RingValid(ring []c05LL, centre s2.Point) bool {
	n := len(ring)
	if n < 3 {
		return false
	}
	ps := c05Points(ring)
	for i := 0; i < n; i++ {
		for j := i + 1; j < n; j++ {
			if c05Dist(ps[i], ps[j]) < c05MinSep {
				return false
			}
		}
	}
	for i := 0; i < n; i++ {
		a, b := ps[i], ps[(i+1)%n]
		for j := 0; j < n; j++ {
			if j == i || j == (i+1)%n {
				continue
			}
			if c05SegDist(ps[j], a, b) < c05MinSep {
				return false
			}
		}
		for j := i + 2; j < n; j++ {
			if (j+1)%n == i {
				continue
			}
			if s2.CrossingSign(a, b, ps[j], ps[(j+1)%n]) != s2.DoNotCross {
				return false
			}
		}
	}
	l := s2.LoopFromPoints(ps)
	return l.ContainsPoint(centre)
}

// c05GenRing builds a ring of n vertices around c. star alternates long and
// short radii (concave pockets between the arms); otherwise the vertices lie on
// a circle (convex).
func c05GenRing(r *core.R, c s2.Point, rad float64, n int, star bool) []c05LL {
	jitter := 0.5
	if n < 5 {
		jitter = 0.2
	}
	for attempt := 0; attempt < 6; attempt++ {
		phase := r.Float() * 2 * math.Pi
		ring := make([]c05LL, n)
		for i := 0; i < n; i++ {
			th := phase + 2*math.Pi*(float64(i)+jitter*(r.Float()-0.5))/float64(n)
			ri := rad
			if star {
				if i%2 == 1 {
					ri = rad * (0.25 + 0.25*r.Float())
				} else {
					ri = rad * (0.8 + 0.2*r.Float())
				}
			}
			ring[i] = c05Quantise(c05Offset(c, ri, th))
		}
		if c05RingValid(ring, c) {
			return ring
		}
	}
	return nil
}

type c05Poly struct {
	Rings  [][]c05LL // Rings[0] is the shell, the others are holes; all counter-clockwise
	Centre c05LL
	Rad    float64 // generation radius (rad)
	Star   bool
	Holes  []c05Hole
}

type c05Hole struct {
	Centre c05LL
	Rad    float64
}

func (p c05Poly) String() string {
	var parts []string
	for _, ring := range p.Rings {
		parts = append(parts, "("+c05LLs(ring)+")")
	}
	return "[" + strings.Join(parts, "") + "]"
}

func (p c05Poly) S2() *s2.Polygon {
	loops := make([]*s2.Loop, len(p.Rings))
	for i, ring := range p.Rings {
		loops[i] = s2.LoopFromPoints(c05Points(ring))
	}
	return s2.PolygonFromLoops(loops)
}

// c05GenPoly builds a polygon with up to holes holes. Returns ok=false when no
// valid ring could be built at this size.
func c05GenPoly(r *core.R, c s2.Point, rad float64, n int, star bool, holes int) (c05Poly, bool) {
	shell := c05GenRing(r, c, rad, n, star)
	if shell == nil {
		return c05Poly{}, false
	}
	p := c05Poly{Rings: [][]c05LL{shell}, Centre: c05Quantise(c), Rad: rad, Star: star}
	if holes <= 0 {
		return p, true
	}
	safe := 0.2 * rad
	if !star {
		safe = 0.35 * rad
	}
	if safe*0.35 < 1e-7 {
		return p, true // too small for holes on the E7 grid
	}
	shellPts := c05Points(shell)
	phi := r.Float() * 2 * math.Pi
	var specs []c05Hole
	if holes == 1 {
		specs = []c05Hole{{Centre: c05Quantise(c05Offset(c, 0.3*safe, phi)), Rad: 0.5 * safe}}
	} else {
		specs = []c05Hole{
			{Centre: c05Quantise(c05Offset(c, 0.5*safe, phi)), Rad: 0.35 * safe},
			{Centre: c05Quantise(c05Offset(c, 0.5*safe, phi+math.Pi)), Rad: 0.35 * safe},
		}
	}
	shellLoop := s2.LoopFromPoints(shellPts)
	for _, h := range specs {
		ring := c05GenRing(r, h.Centre.Point(), h.Rad, r.Range(3, 8), false)
		if ring == nil {
			continue
		}
		ok := true
		for _, v := range c05Points(ring) {
			if !shellLoop.ContainsPoint(v) {
				ok = false
				break
			}
			for i := range shellPts {
				if c05SegDist(v, shellPts[i], shellPts[(i+1)%len(shellPts)]) < 4*c05MinSep {
					ok = false
					break
				}
			}
		}
		if ok {
			p.Rings = append(p.Rings, ring)
			p.Holes = append(p.Holes, h)
		}
	}
	return p, true
}

// c05GenLine builds a polyline of n vertices wandering from start with steps of
// about step radians.
func c05GenLine(r *core.R, start s2.Point, step float64, n int) []c05LL {
	for attempt := 0; attempt < 6; attempt++ {
		line := []c05LL{c05Quantise(start)}
		cur := line[0].Point()
		heading := r.Float() * 2 * math.Pi
		ok := true
		for i := 1; i < n; i++ {
			heading += (r.Float() - 0.5) * 2.5
			next := c05Quantise(c05Offset(cur, step*(0.3+0.9*r.Float()), heading))
			if c05Dist(next.Point(), cur) < c05MinSep {
				ok = false
				break
			}
			line = append(line, next)
			cur = next.Point()
		}
		if ok && len(line) == n {
			return line
		}
	}
	return nil
}

// c05Centre chooses a placement. The label names the placement class.
func c05Centre(r *core.R) (c05LL, string) {
	switch r.Intn(9) {
	case 0, 1:
		return c05LL{514500000 + int64(r.Intn(1500000)), -2500000 + int64(r.Intn(3000000))}, "london"
	case 2, 3: // on an S2 cell boundary at levels 8..20
		base := s2.PointFromLatLng(s2.LatLngFromDegrees(-60+120*r.Float(), -180+360*r.Float()))
		if r.Bool() {
			base = c05LL{514500000 + int64(r.Intn(1500000)), -2500000 + int64(r.Intn(3000000))}.Point()
		}
		level := r.Range(8, 20)
		cell := s2.CellFromCellID(c05CellID(base).Parent(level))
		k := r.Intn(4)
		if r.Bool() {
			return c05Quantise(cell.Vertex(k)), "cell-vertex"
		}
		t := r.Float()
		v := cell.Vertex(k).Vector.Mul(1 - t).Add(cell.Vertex((k + 1) % 4).Vector.Mul(t))
		return c05Quantise(s2.Point{Vector: v.Normalize()}), "cell-edge"
	case 4: // on a cube-face boundary
		cell := s2.CellFromCellID(s2.CellIDFromFace(r.Intn(6)))
		k := r.Intn(4)
		if r.Chance(0.2) {
			return c05Quantise(cell.Vertex(k)), "face-corner"
		}
		t := r.Float()
		v := cell.Vertex(k).Vector.Mul(1 - t).Add(cell.Vertex((k + 1) % 4).Vector.Mul(t))
		return c05Quantise(s2.Point{Vector: v.Normalize()}), "face-edge"
	case 5:
		lat := 895000000 + int64(r.Intn(5000001))
		if r.Bool() {
			lat = -lat
		}
		return c05LL{lat, -1800000000 + 1 + int64(r.Intn(3600000000))}, "pole"
	case 6:
		lng := int64(1800000000 - r.Intn(2000))
		if r.Bool() {
			lng = -1800000000 + 1 + int64(r.Intn(2000))
		}
		return c05LL{-700000000 + int64(r.Intn(1400000001)), lng}, "antimeridian"
	default:
		// uniform on the sphere
		z := 2*r.Float() - 1
		return c05LL{int64(math.Round(math.Asin(z) * 180 / math.Pi * 1e7)), -1800000000 + 1 + int64(r.Intn(3600000000))}, "anywhere"
	}
}

// c05Radius draws an extent between 1 m and maxMeters, log-uniform.
func c05Radius(r *core.R, maxMeters float64) float64 {
	m := math.Pow(10, r.Float()*math.Log10(maxMeters))
	return float64(b6.MetersToAngle(m))
}

// c05Faces counts the cube faces touched by the vertices.
func c05Faces(ps []s2.Point) int {
	seen := 0
	for _, p := range ps {
		seen |= 1 << uint(c05CellID(p).Face())
	}
	n := 0
	for seen != 0 {
		n += seen & 1
		seen >>= 1
	}
	return n
}

func c05CellID(p s2.Point) s2.CellID { return s2.CellFromPoint(p).ID() }
