package mon

import (
	"context"
	"fmt"
	"math"
	"sort"
	"strconv"
	"strings"

	"diagonal.works/b6"
	"diagonal.works/b6/api"
	"diagonal.works/b6/api/functions"
	"diagonal.works/b6/ingest"
	"verif/internal/core"
)

// C24 Collection functions compute what their documentation says.
//
// Oracle: every function has a list-based reference of a few lines (below,
// c24ref*). A case is a literal collection pushed through a chain of 1..3
// functions, evaluated by the VM with the repository's own function table;
// the drained result is compared with the reference list (as a list where the
// function is documented/obviously ordered, as a map for the aggregations, by
// the multiset rule for top). Whenever the result reports Count() = (n, true)
// it must iterate to exactly n items. A second kind of case checks
// ingest.CollectionFeature.FindValue/FindValues against a linear scan.

type c24val struct {
	kind byte // 'i' int, 'f' float, 's' string, 'd' feature id, 'p' pair, 'c' collection, 'b' bool
	i    int
	f    float64
	s    string
	id   b6.FeatureID
	p    []c24val // pair: 2 elements
	c    []c24item
	b    bool
}

type c24item struct{ k, v c24val }

func c24int(i int) c24val       { return c24val{kind: 'i', i: i} }
func c24float(f float64) c24val { return c24val{kind: 'f', f: f} }
func c24str(s string) c24val    { return c24val{kind: 's', s: s} }
func c24pair(a, b c24val) c24val {
	return c24val{kind: 'p', p: []c24val{a, b}}
}

func (v c24val) String() string {
	switch v.kind {
	case 'i':
		return "i:" + strconv.Itoa(v.i)
	case 'f':
		return "f:" + strconv.FormatFloat(v.f, 'g', -1, 64)
	case 's':
		return "s:" + strconv.Quote(v.s)
	case 'd':
		return "id:" + v.id.String()
	case 'p':
		return "<" + v.p[0].String() + "," + v.p[1].String() + ">"
	case 'b':
		return "b:" + strconv.FormatBool(v.b)
	case 'c':
		return c24renderList(v.c)
	}
	return "?"
}

func c24renderList(l []c24item) string {
	parts := make([]string, len(l))
	for i, it := range l {
		parts[i] = it.k.String() + "=>" + it.v.String()
	}
	return "[" + strings.Join(parts, " ") + "]"
}

func (v c24val) expr() b6.Expression {
	switch v.kind {
	case 'i':
		return b6.NewIntExpression(v.i)
	case 'f':
		return b6.NewFloatExpression(v.f)
	case 's':
		return b6.NewStringExpression(v.s)
	case 'd':
		return b6.NewFeatureIDExpression(v.id)
	case 'p':
		return c24call("pair", v.p[0].expr(), v.p[1].expr())
	case 'c':
		return c24collectionExpr(v.c)
	}
	panic("c24val.expr")
}

func (v c24val) goValue() interface{} {
	switch v.kind {
	case 'i':
		return v.i
	case 'f':
		return v.f
	case 's':
		return v.s
	case 'd':
		return v.id
	}
	panic("c24val.goValue")
}

func c24call(name string, args ...b6.Expression) b6.Expression {
	return b6.NewCallExpression(b6.NewSymbolExpression(name), args)
}

func c24collectionExpr(items []c24item) b6.Expression {
	args := make([]b6.Expression, len(items))
	for i, it := range items {
		args[i] = c24call("pair", it.k.expr(), it.v.expr())
	}
	return c24call("collection", args...)
}

// rendering of what the VM returned, in the same notation
func c24renderAny(v interface{}) string {
	switch v := v.(type) {
	case int:
		return "i:" + strconv.Itoa(v)
	case b6.IntNumber:
		return "i:" + strconv.Itoa(int(v))
	case float64:
		return "f:" + strconv.FormatFloat(v, 'g', -1, 64)
	case b6.FloatNumber:
		return "f:" + strconv.FormatFloat(float64(v), 'g', -1, 64)
	case string:
		return "s:" + strconv.Quote(v)
	case bool:
		return "b:" + strconv.FormatBool(v)
	case b6.FeatureID:
		return "id:" + v.String()
	case api.Pair:
		return "<" + c24renderAny(v.First()) + "," + c24renderAny(v.Second()) + ">"
	case b6.UntypedCollection:
		d := c24drain(v)
		if d.err != nil {
			return "[error " + d.err.Error() + "]"
		}
		return "[" + strings.Join(d.items, " ") + "]"
	case nil:
		return "nil"
	}
	return fmt.Sprintf("?%T:%v", v, v)
}

type c24drained struct {
	items    []string // "k=>v"
	keys     []string
	values   []string
	count    int
	counted  bool
	err      error
	panicked bool
	class    string
	frame    string
}

func c24drain(c b6.UntypedCollection) c24drained {
	var d c24drained
	d.panicked, d.class, d.frame, _ = core.Protect(func() {
		d.count, d.counted = c.Count()
		i := c.BeginUntyped()
		for n := 0; n < 100000; n++ {
			ok, err := i.Next()
			if err != nil {
				d.err = err
				return
			}
			if !ok {
				return
			}
			k, v := c24renderAny(i.Key()), c24renderAny(i.Value())
			d.keys = append(d.keys, k)
			d.values = append(d.values, v)
			d.items = append(d.items, k+"=>"+v)
		}
		d.err = fmt.Errorf("iteration did not end after 100000 items")
	})
	return d
}

// ---- generators ----

var c24strs = []string{"", "a", "b", "ab", "zz", "é", "a b", "#k"}

func c24genVal(r *core.R, kind byte) c24val {
	switch kind {
	case 'i':
		switch r.Intn(8) {
		case 0:
			return c24int(0)
		case 1:
			return c24int(-r.Range(1, 5))
		case 2:
			return c24int(r.Range(-1<<40, 1<<40))
		case 3:
			// neighbours beyond 2^53, where distinct ints share one float64
			if r.Chance(0.35) {
				return c24int(core.Pick(r, []int{math.MaxInt64, math.MaxInt64 - 1, math.MaxInt64 - 2, 1<<53 + 1, 1<<53 + 2, 1 << 53, math.MinInt64 + 1, math.MinInt64 + 2}))
			}
		}
		return c24int(r.Range(-2, 6)) // small range: duplicates and ties
	case 'f':
		switch r.Intn(8) {
		case 0:
			return c24float(0)
		case 1:
			return c24float(-0.5)
		case 2:
			return c24float(float64(r.Range(-1000, 1000)) * 1e300)
		case 3:
			return c24float(float64(r.Range(-5, 5)) / 1024)
		}
		return c24float(float64(r.Range(-4, 8)) / 2)
	case 's':
		return c24str(core.Pick(r, c24strs))
	case 'd':
		types := []b6.FeatureType{b6.FeatureTypePoint, b6.FeatureTypePath, b6.FeatureTypeArea}
		return c24val{kind: 'd', id: b6.FeatureID{Type: core.Pick(r, types), Namespace: b6.NamespaceOSMNode, Value: uint64(r.Range(1, 6))}}
	}
	panic("c24genVal")
}

func c24less(a, b c24val) bool {
	switch a.kind {
	case 'i':
		return a.i < b.i
	case 'f':
		return a.f < b.f
	case 's':
		return a.s < b.s
	case 'd':
		if a.id.Type != b.id.Type {
			return a.id.Type < b.id.Type
		}
		if a.id.Namespace != b.id.Namespace {
			return a.id.Namespace < b.id.Namespace
		}
		return a.id.Value < b.id.Value
	}
	panic("c24less")
}

func c24eq(a, b c24val) bool { return a.String() == b.String() }

func c24genList(r *core.R, kk, vk byte, n int) []c24item {
	l := make([]c24item, n)
	for i := range l {
		l[i] = c24item{c24genVal(r, kk), c24genVal(r, vk)}
	}
	if n >= 2 && r.Chance(0.1) {
		// a cluster of neighbouring ints beyond 2^53 (keys, values or both): distinct as
		// ints, equal once converted to float64
		base := core.Pick(r, []int{math.MaxInt64 - n, 1 << 53, 1<<60 + 1, math.MinInt64 + 1})
		perm := r.Perm(n)
		for i := range l {
			if vk == 'i' {
				l[i].v = c24int(base + perm[i])
			} else if kk == 'i' {
				l[i].k = c24int(base + perm[i])
			}
		}
	}
	if r.Chance(0.3) {
		// implicit keys 0..n-1, as the {a, b, c} literal produces
		for i := range l {
			if kk == 'i' {
				l[i].k = c24int(i)
			}
		}
	}
	return l
}

func c24kinds(l []c24item) (kk, vk byte) {
	kk, vk = 0, 0
	for i, it := range l {
		if i == 0 {
			kk, vk = it.k.kind, it.v.kind
			continue
		}
		if it.k.kind != kk {
			kk = 'x'
		}
		if it.v.kind != vk {
			vk = 'x'
		}
	}
	return
}

// sizes: empty one time in ten, otherwise uniform
func c24size(r *core.R, max int) int {
	if r.Chance(0.1) {
		return 0
	}
	return r.Range(1, max)
}

func c24countArg(r *core.R, n int) int {
	switch r.Intn(9) {
	case 0:
		return -1
	case 1:
		return -r.Range(2, 1000)
	case 2:
		return 0
	case 3:
		return 1
	case 4:
		return n - 1
	case 5:
		return n
	case 6:
		return n + 1
	case 7:
		return n + r.Range(2, 100)
	}
	return r.Range(0, n+1)
}

// ---- one step of a chain ----

type c24step struct {
	name      string
	expr      b6.Expression
	list      []c24item // reference result (ordered ops, top: all candidates)
	unordered bool      // compare as a map
	top       int       // >= 0: the result is a top-n selection from `list`
	isTop     bool
	scalar    *c24val // count
	wantErr   bool
	terminal  bool
	uncounted bool // Count() must not be relied upon (function documents none)
}

func c24lam(param string, body b6.Expression) b6.Expression {
	return b6.NewLambdaExpression([]string{param}, body)
}

func c24sym(s string) b6.Expression { return b6.NewSymbolExpression(s) }

// c24apply picks one function applicable to (cur, l) and returns the step.
func c24apply(c *core.Ctx, r *core.R, cur b6.Expression, l []c24item) *c24step {
	kk, vk := c24kinds(l)
	if len(l) == 0 {
		kk, vk = 'i', 'i' // anything goes on an empty collection
	}
	for try := 0; try < 20; try++ {
		switch r.Intn(12) {
		case 0: // take
			n := c24countArg(r, len(l))
			m := n
			if m < 0 {
				m = 0
			}
			if m > len(l) {
				m = len(l)
			}
			if n < 0 {
				c.Count("take_negative_n")
			} else if n == 0 {
				c.Count("take_zero")
			} else if n > len(l) {
				c.Count("take_more_than_len")
			}
			if len(l) == 0 {
				c.Count("take_of_empty")
			}
			return &c24step{name: fmt.Sprintf("take %d", n), expr: c24call("take", cur, b6.NewIntExpression(n)), list: append([]c24item{}, l[:m]...)}
		case 1: // top
			if vk != 'i' && vk != 'f' && vk != 's' {
				continue
			}
			n := c24countArg(r, len(l))
			st := &c24step{name: fmt.Sprintf("top %d", n), expr: c24call("top", cur, b6.NewIntExpression(n)), list: l, isTop: true, top: n, terminal: true}
			if vk == 's' {
				if len(l) == 0 {
					continue
				}
				st.wantErr = true
				c.Count("top_of_strings_must_fail")
				return st
			}
			if len(l) == 0 {
				c.Count("top_of_empty")
			}
			if n <= 0 {
				c.Count("top_n_not_positive")
			}
			if n > len(l) {
				c.Count("top_n_more_than_len")
			}
			// a tie at the boundary?
			if n > 0 && n < len(l) {
				s := append([]c24item{}, l...)
				sort.SliceStable(s, func(i, j int) bool { return c24less(s[j].v, s[i].v) })
				if c24eq(s[n-1].v, s[n].v) {
					c.Count("top_tie_at_boundary")
				}
			}
			return st
		case 2: // filter
			if (vk != 'i' && vk != 'f') || len(l) == 0 && r.Bool() {
				continue
			}
			k := c24genVal(r, vk)
			var f b6.Expression
			if r.Bool() {
				f = c24lam("v", c24call("gt", c24sym("v"), k.expr()))
			} else {
				f = c24call("gt", k.expr()) // partial: binds the trailing argument
				c.Count("filter_with_partial")
			}
			var out []c24item
			for _, it := range l {
				if c24less(k, it.v) {
					out = append(out, it)
				}
			}
			if len(out) == 0 {
				c.Count("filter_keeps_nothing")
			}
			if len(out) == len(l) && len(l) > 0 {
				c.Count("filter_keeps_all")
			}
			return &c24step{name: "filter gt " + k.String(), expr: c24call("filter", cur, f), list: out, uncounted: true}
		case 3: // map
			var f b6.Expression
			var ref func(v c24val) c24val
			name := ""
			switch x := r.Intn(5); {
			case x == 0 && vk == 'i':
				k := r.Range(-3, 3)
				f = c24call("add-ints", b6.NewIntExpression(k))
				ref = func(v c24val) c24val { return c24int(v.i + k) }
				name = fmt.Sprintf("map (add-ints %d)", k)
			case x == 1:
				f = c24lam("v", c24call("pair", c24sym("v"), b6.NewIntExpression(1)))
				ref = func(v c24val) c24val { return c24pair(v, c24int(1)) }
				name = "map {v -> pair v 1}"
			case x == 2:
				f = c24lam("v", c24sym("v"))
				ref = func(v c24val) c24val { return v }
				name = "map {v -> v}"
			case x == 3 && vk == 'p':
				f = c24sym("first")
				ref = func(v c24val) c24val { return v.p[0] }
				name = "map first"
			case x == 4:
				f = c24lam("v", b6.NewStringExpression("k"))
				ref = func(v c24val) c24val { return c24str("k") }
				name = "map {v -> \"k\"}"
			default:
				continue
			}
			out := make([]c24item, len(l))
			for i, it := range l {
				out[i] = c24item{it.k, ref(it.v)}
			}
			return &c24step{name: name, expr: c24call("map", cur, f), list: out}
		case 4: // map-items
			var f b6.Expression
			var ref func(it c24item) c24item
			name := ""
			p := c24sym("p")
			switch r.Intn(4) {
			case 0:
				f = c24lam("p", c24call("pair", c24call("second", p), c24call("first", p)))
				ref = func(it c24item) c24item { return c24item{it.v, it.k} }
				name = "map-items swap"
			case 1:
				f = c24lam("p", c24call("pair", c24call("first", p), b6.NewIntExpression(7)))
				ref = func(it c24item) c24item { return c24item{it.k, c24int(7)} }
				name = "map-items {p -> pair (first p) 7}"
			case 2:
				f = c24lam("p", p)
				ref = func(it c24item) c24item { return it }
				name = "map-items {p -> p}"
			default:
				f = c24lam("p", c24call("pair", b6.NewStringExpression("same"), c24call("second", p)))
				ref = func(it c24item) c24item { return c24item{c24str("same"), it.v} }
				name = "map-items {p -> pair \"same\" (second p)}"
			}
			out := make([]c24item, len(l))
			for i, it := range l {
				out[i] = ref(it)
			}
			return &c24step{name: name, expr: c24call("map-items", cur, f), list: out}
		case 5: // sum-by-key
			if vk != 'i' && vk != 's' {
				continue
			}
			if vk == 's' {
				if len(l) == 0 {
					continue
				}
				c.Count("sum_by_key_of_strings_must_fail")
				return &c24step{name: "sum-by-key", expr: c24call("sum-by-key", cur), wantErr: true, terminal: true}
			}
			return &c24step{name: "sum-by-key", expr: c24call("sum-by-key", cur), list: c24refAggregate(l, func(it c24item) (c24val, int) { return it.k, it.v.i }), unordered: true, terminal: true}
		case 6: // count-values
			if vk == 'x' || vk == 'c' {
				continue
			}
			return &c24step{name: "count-values", expr: c24call("count-values", cur), list: c24refAggregate(l, func(it c24item) (c24val, int) { return it.v, 1 }), unordered: true, terminal: true}
		case 7: // count-keys
			if kk == 'x' || kk == 'c' {
				continue
			}
			return &c24step{name: "count-keys", expr: c24call("count-keys", cur), list: c24refAggregate(l, func(it c24item) (c24val, int) { return it.k, 1 }), unordered: true, terminal: true}
		case 8: // count: goes through Count() when it is offered
			n := c24int(len(l))
			return &c24step{name: "count", expr: c24call("count", cur), scalar: &n, terminal: true}
		case 9: // join-missing: both sides must be sorted by key
			if kk != 'i' && kk != 'f' && kk != 's' && kk != 'd' {
				continue
			}
			sorted := true
			for i := 1; i < len(l); i++ {
				if c24less(l[i].k, l[i-1].k) {
					sorted = false
				}
			}
			if !sorted {
				continue
			}
			other := c24genList(r, kk, core.Pick(r, []byte{'i', 's'}), c24size(r, 6))
			for i := range other {
				other[i].k = c24genVal(r, kk) // no implicit keys here
				if len(l) > 0 && r.Chance(0.4) {
					other[i].k = core.Pick(r, l).k
				}
			}
			sort.SliceStable(other, func(i, j int) bool { return c24less(other[i].k, other[j].k) })
			if r.Bool() {
				// current collection is the base
				return &c24step{name: "join-missing (as base) " + c24renderList(other), expr: c24call("join-missing", cur, c24collectionExpr(other)), list: c24refJoinMissing(c, l, other), uncounted: true}
			}
			return &c24step{name: "join-missing (as joined) " + c24renderList(other), expr: c24call("join-missing", c24collectionExpr(other), cur), list: c24refJoinMissing(c, other, l), uncounted: true}
		case 10, 11: // take again, with a small positive n, to stack takes on lazy collections
			if len(l) == 0 {
				continue
			}
			n := r.Range(1, len(l))
			return &c24step{name: fmt.Sprintf("take %d", n), expr: c24call("take", cur, b6.NewIntExpression(n)), list: append([]c24item{}, l[:n]...)}
		}
	}
	n := c24int(len(l))
	return &c24step{name: "count", expr: c24call("count", cur), scalar: &n, terminal: true}
}

// reference: group by key in first-seen order, summing weights
func c24refAggregate(l []c24item, f func(c24item) (c24val, int)) []c24item {
	var out []c24item
	for _, it := range l {
		k, w := f(it)
		found := false
		for i := range out {
			if c24eq(out[i].k, k) {
				out[i].v.i += w
				found = true
			}
		}
		if !found {
			out = append(out, c24item{k, c24int(w)})
		}
	}
	return out
}

// reference: base, plus the joined items whose key the base does not have,
// merged by key (both inputs are sorted by key).
func c24refJoinMissing(c *core.Ctx, base, joined []c24item) []c24item {
	var extra []c24item
	for _, j := range joined {
		has := false
		for _, b := range base {
			if c24eq(b.k, j.k) {
				has = true
			}
		}
		if has {
			c.Count("join_missing_key_present_in_base")
		} else {
			c.Count("join_missing_key_absent_from_base")
			extra = append(extra, j)
		}
	}
	if len(base) == 0 {
		c.Count("join_missing_empty_base")
	}
	if len(joined) == 0 {
		c.Count("join_missing_empty_joined")
	}
	out := make([]c24item, 0, len(base)+len(extra))
	i, j := 0, 0
	for i < len(base) || j < len(extra) {
		if j >= len(extra) || (i < len(base) && !c24less(extra[j].k, base[i].k)) {
			out = append(out, base[i])
			i++
		} else {
			out = append(out, extra[j])
			j++
		}
	}
	return out
}

var c24world = ingest.NewBasicMutableWorld()

func c24context() *api.Context {
	return &api.Context{
		World:           c24world,
		FunctionSymbols: functions.Functions(),
		Adaptors:        functions.Adaptors(),
		Context:         context.Background(),
	}
}

func c24fn(name string) string {
	if i := strings.IndexByte(name, ' '); i > 0 {
		return name[:i]
	}
	return name
}

// ---- CollectionFeature.FindValue / FindValues ----

func c24findCase(c *core.Ctx) {
	r := c.R
	kk := core.Pick(r, []byte{'i', 'f', 's', 'd'})
	vk := core.Pick(r, []byte{'i', 's'})
	n := c24size(r, 12)
	l := c24genList(r, kk, vk, n)
	f := &ingest.CollectionFeature{CollectionID: b6.CollectionID{Namespace: "diagonal.works/verif", Value: 1}}
	for _, it := range l {
		f.Keys = append(f.Keys, it.k.goValue())
		f.Values = append(f.Values, it.v.goValue())
	}
	sorted := r.Chance(0.65)
	if sorted {
		f.Sort()
		c.Count("find_in_sorted_feature")
	} else {
		c.Count("find_in_unsorted_feature")
	}
	dups := false
	seen := map[string]bool{}
	for _, it := range l {
		if seen[it.k.String()] {
			dups = true
		}
		seen[it.k.String()] = true
	}
	if dups {
		c.Count("find_with_duplicate_keys")
	}
	if n == 0 {
		c.Count("find_in_empty_feature")
	}
	// How the feature reaches the reader: directly, as a clone, or through a
	// mutable world (added new, or replacing an earlier version with the same
	// ID that was sorted differently).
	type finder interface {
		FindValue(key any) (any, bool)
		FindValues(key any, values []any) []any
	}
	var target finder = f
	via := "direct"
	switch r.Intn(5) {
	case 1:
		via = "clone"
		target = f.Clone().(*ingest.CollectionFeature)
	case 2, 3, 4:
		var w ingest.MutableWorld = ingest.NewBasicMutableWorld()
		via = "basic-mutable"
		if r.Bool() {
			w = ingest.NewMutableOverlayWorld(ingest.NewBasicMutableWorld())
			via = "mutable-overlay"
		}
		if r.Chance(0.6) {
			prev := &ingest.CollectionFeature{CollectionID: f.CollectionID}
			for _, it := range c24genList(r, kk, vk, c24size(r, 12)) {
				prev.Keys = append(prev.Keys, it.k.goValue())
				prev.Values = append(prev.Values, it.v.goValue())
			}
			if r.Chance(0.7) != sorted { // mostly the opposite sortedness
				prev.Sort()
			}
			if err := w.AddFeature(prev); err != nil {
				c.Violate("find:setup-failed", nil, "AddFeature(previous collection) failed: %v", err)
				return
			}
			via += "-replacing"
			c.Count("find_after_replacing_collection")
		}
		if err := w.AddFeature(f); err != nil {
			c.Violate("find:setup-failed", nil, "AddFeature(collection) failed: %v", err)
			return
		}
		got, ok := w.FindFeatureByID(f.FeatureID()).(b6.CollectionFeature)
		if !ok {
			c.Violate("find:world-lost-collection", nil, "the world does not return the collection feature that was added")
			return
		}
		target = got
	}
	c.Count("find_via_" + via)
	// probes: every key, and some others
	var probes []c24val
	for _, it := range l {
		probes = append(probes, it.k)
	}
	for i := 0; i < 4; i++ {
		probes = append(probes, c24genVal(r, kk))
	}
	var script []string
	for _, p := range probes {
		// linear scan over the feature's own arrays (Sort permutes them)
		var all []string
		first, found := "", false
		for i, k := range f.Keys {
			if c24renderAny(k) == p.String() {
				if !found {
					first, found = c24renderAny(f.Values[i]), true
				}
				all = append(all, c24renderAny(f.Values[i]))
			}
		}
		if found {
			c.Count("find_present_key")
			c.Nontrivial()
		} else {
			c.Count("find_absent_key")
		}
		var gv interface{}
		var gok bool
		var gvs []interface{}
		panicked, class, frame, _ := core.Protect(func() {
			gv, gok = target.FindValue(p.goValue())
			gvs = target.FindValues(p.goValue(), nil)
		})
		script = append(script, p.String())
		w := map[string]any{"keys": c24renderSlice(f.Keys), "values": c24renderSlice(f.Values), "sorted": sorted, "probe": p.String(), "via": via}
		if panicked {
			c.Violate("FindValue:panic@"+frame+":"+class, w, "FindValue(%s) panicked: %s", p, class)
			continue
		}
		if gok != found || (found && c24renderAny(gv) != first) {
			c.Violate(fmt.Sprintf("FindValue:differs-from-linear-scan:sorted=%v", sorted), w, "FindValue(%s) on keys %s = (%s,%v), a linear scan gives (%s,%v)",
				p, c24renderSlice(f.Keys), c24renderAny(gv), gok, first, found)
		}
		var got []string
		for _, v := range gvs {
			got = append(got, c24renderAny(v))
		}
		if sorted {
			// the run of equal keys is contiguous; the order inside it is the array order
		}
		if strings.Join(got, " ") != strings.Join(all, " ") {
			c.Violate(fmt.Sprintf("FindValues:differs-from-linear-scan:sorted=%v", sorted), w, "FindValues(%s) on keys %s = %v, a linear scan gives %v",
				p, c24renderSlice(f.Keys), got, all)
		}
	}
	c.Key("find sorted=%v via=%s %s probes=%s", sorted, via, c24renderList(l), strings.Join(script, ","))
	if c.Index < 3 {
		c.Sample(map[string]any{"kind": "CollectionFeature", "items": c24renderList(l), "sorted": sorted})
	}
}

func c24renderSlice(xs []interface{}) string {
	parts := make([]string, len(xs))
	for i, x := range xs {
		parts[i] = c24renderAny(x)
	}
	return "[" + strings.Join(parts, " ") + "]"
}

func init() {
	core.Register(&core.Monitor{
		ID:        "C24",
		Title:     "Collection functions compute what their documentation says",
		Technique: "reference-model monitor: list-based definitions vs the VM's result on literal collections; Count() vs iteration; CollectionFeature lookups vs linear scan",
		Rule: "case = (80%) a literal collection of 0..8 items (keys and values: ints, floats, strings, feature IDs; small ranges so that duplicates and ties occur; sometimes a collection of collections for flatten) " +
			"pushed through 1..3 of collection/take/top/filter/map/map-items/flatten/sum-by-key/count-values/count-keys/join-missing/count with n in {<0,0,1,len-1,len,len+1,..}; " +
			"(20%) an ingest.CollectionFeature (sorted or not) probed with every key and 4 other keys. distinct = distinct expression / feature+probes; " +
			"non-trivial = the input collection has >= 2 items, or a probed key is present",
		Assumptions: []string{
			"map-items takes the key and the value of each item from the pair its function returns (the repository's own test relies on it; the doc string's 'keys are unmodified' is a copy of map's)",
			"the order of top's result and of the aggregations is not promised; join-missing is only defined for key-sorted inputs",
			"top on strings and sum-by-key on strings must fail (the documentation requires numbers / integers); where exactly the error surfaces is not compared",
		},
		Quick: 12000, Thorough: 1000000,
		Required: []string{"fn_collection", "fn_take", "fn_top", "fn_filter", "fn_map", "fn_map-items", "fn_flatten", "fn_sum-by-key", "fn_count-values", "fn_count-keys", "fn_join-missing", "fn_count",
			"take_negative_n", "take_zero", "take_more_than_len", "take_of_empty", "top_of_empty", "top_n_not_positive", "top_n_more_than_len", "top_tie_at_boundary",
			"input_empty", "input_duplicate_keys", "input_duplicate_values", "flatten_empty_inner", "flatten_empty_outer",
			"join_missing_key_present_in_base", "join_missing_key_absent_from_base", "join_missing_empty_base", "join_missing_empty_joined",
			"count_reported_and_checked", "count_not_reported", "chain_of_three",
			"find_in_sorted_feature", "find_in_unsorted_feature", "find_after_replacing_collection", "find_via_clone", "find_with_duplicate_keys", "find_present_key", "find_absent_key", "find_in_empty_feature",
			"top_of_strings_must_fail", "sum_by_key_of_strings_must_fail"},
		Run: func(c *core.Ctx) {
			r := c.R
			if r.Intn(5) == 0 {
				c24findCase(c)
				return
			}
			// the input
			var cur b6.Expression
			var l []c24item
			var names []string
			if r.Intn(8) == 0 {
				// flatten: a collection whose values are collections
				outer := c24size(r, 4)
				kk := core.Pick(r, []byte{'i', 's'})
				vk := core.Pick(r, []byte{'i', 'f', 's', 'd'})
				var args []b6.Expression
				for i := 0; i < outer; i++ {
					inner := c24genList(r, kk, vk, c24size(r, 4))
					if len(inner) == 0 {
						c.Count("flatten_empty_inner")
					}
					args = append(args, c24call("pair", c24genVal(r, 's').expr(), c24collectionExpr(inner)))
					l = append(l, inner...)
				}
				if outer == 0 {
					c.Count("flatten_empty_outer")
				}
				cur = c24call("flatten", c24call("collection", args...))
				names = append(names, "flatten")
				c.Count("fn_flatten")
				c.Count("fn_collection")
			} else {
				kk := core.Pick(r, []byte{'i', 'i', 's', 'd', 'f'})
				vk := core.Pick(r, []byte{'i', 'i', 'f', 's', 'd'})
				l = c24genList(r, kk, vk, c24size(r, 8))
				if r.Chance(0.35) {
					sort.SliceStable(l, func(i, j int) bool { return c24less(l[i].k, l[j].k) })
				}
				cur = c24collectionExpr(l)
				names = append(names, "collection")
				c.Count("fn_collection")
			}
			input := c24renderList(l)
			if len(l) == 0 {
				c.Count("input_empty")
			}
			if len(l) >= 2 {
				c.Nontrivial()
			}
			seenK, seenV := map[string]bool{}, map[string]bool{}
			for _, it := range l {
				if seenK[it.k.String()] {
					c.Count("input_duplicate_keys")
				}
				if seenV[it.v.String()] {
					c.Count("input_duplicate_values")
				}
				seenK[it.k.String()], seenV[it.v.String()] = true, true
			}
			// the chain
			steps := r.Range(0, 3)
			var last *c24step
			for s := 0; s < steps; s++ {
				st := c24apply(c, r, cur, l)
				c.Count("fn_" + c24fn(st.name))
				names = append(names, st.name)
				cur = st.expr
				last = st
				if st.terminal || st.wantErr {
					break
				}
				l = st.list
			}
			if len(names) >= 4 {
				c.Count("chain_of_three")
			}
			if last == nil {
				last = &c24step{name: names[0], list: l}
				if names[0] == "flatten" {
					last.uncounted = true
				}
			}
			chain := strings.Join(names, " | ")
			c.Key("%s :: %s", input, chain)
			if c.Index < 3 {
				c.Sample(map[string]any{"input": input, "chain": chain})
			}
			witness := map[string]any{"input": input, "chain": chain, "expression": cur.String()}
			fn := c24fn(last.name)

			// evaluate
			var got interface{}
			var err error
			panicked, class, frame, stack := core.Protect(func() {
				got, err = api.Evaluate(cur, c24context())
			})
			if panicked {
				witness["stack"] = stack
				c.Violate(fn+":panic@"+frame+":"+class, witness, "%s on %s panicked: %s", chain, input, class)
				return
			}
			if last.scalar != nil {
				if err != nil {
					c.Violate(fn+":unexpected-error", witness, "%s on %s failed: %v", chain, input, err)
				} else if g := c24renderAny(got); g != last.scalar.String() {
					c.Violate(fn+":wrong-result:after-"+c24fn(names[len(names)-2]), witness, "%s on %s = %s, the reference gives %s", chain, input, g, last.scalar)
				}
				return
			}
			if err != nil {
				if last.wantErr {
					c.Count("documented_error_reported")
					return
				}
				c.Violate(fn+":unexpected-error", witness, "%s on %s failed: %v", chain, input, err)
				return
			}
			coll, ok := got.(b6.UntypedCollection)
			if !ok {
				c.Violate(fn+":not-a-collection", witness, "%s on %s returned %T", chain, input, got)
				return
			}
			d := c24drain(coll)
			witness["result"] = d.items
			if d.panicked {
				c.Violate(fn+":panic-while-iterating@"+d.frame+":"+d.class, witness, "iterating %s on %s panicked: %s", chain, input, d.class)
				return
			}
			if d.err != nil {
				if last.wantErr {
					c.Count("documented_error_reported")
					return
				}
				c.Violate(fn+":unexpected-error-while-iterating", witness, "iterating %s on %s failed: %v", chain, input, d.err)
				return
			}
			if last.wantErr {
				c.Violate(fn+":no-error-for-unsupported-values", witness, "%s on %s returned %v although the documentation requires numeric values", chain, input, d.items)
				return
			}
			// Count() vs iteration
			if d.counted {
				c.Count("count_reported_and_checked")
				if d.count != len(d.items) {
					c.Violate(fn+":count-differs-from-iteration", witness, "%s on %s reports Count() = (%d, true) but iterates to %d items", chain, input, d.count, len(d.items))
				}
			} else {
				c.Count("count_not_reported")
			}
			// the items
			want := make([]string, len(last.list))
			for i, it := range last.list {
				want[i] = it.k.String() + "=>" + it.v.String()
			}
			switch {
			case last.isTop:
				c24checkTop(c, last, d, witness, chain, input)
			case last.unordered:
				ws, gs := append([]string{}, want...), append([]string{}, d.items...)
				sort.Strings(ws)
				sort.Strings(gs)
				if strings.Join(ws, " ") != strings.Join(gs, " ") {
					c.Violate(fn+":wrong-result", witness, "%s on %s = %v, the reference gives (in any order) %v", chain, input, d.items, want)
				}
			default:
				if strings.Join(want, " ") != strings.Join(d.items, " ") {
					c.Violate(fn+":wrong-result", witness, "%s on %s = %v, the reference gives %v", chain, input, d.items, want)
				}
			}
		},
	})
}

// top n: the values must be the n greatest values of the input as a multiset,
// and every returned item must be an item of the input (ties at the boundary
// may pick any of the tied keys).
func c24checkTop(c *core.Ctx, st *c24step, d c24drained, witness map[string]any, chain, input string) {
	n := st.top
	if n < 0 {
		n = 0
	}
	if n > len(st.list) {
		n = len(st.list)
	}
	s := append([]c24item{}, st.list...)
	sort.SliceStable(s, func(i, j int) bool { return c24less(s[j].v, s[i].v) })
	var wantVals []string
	for _, it := range s[:n] {
		wantVals = append(wantVals, it.v.String())
	}
	gotVals := append([]string{}, d.values...)
	sort.Strings(wantVals)
	sort.Strings(gotVals)
	if strings.Join(wantVals, " ") != strings.Join(gotVals, " ") {
		c.Violate("top:wrong-values", witness, "%s on %s has values %v, the %d greatest values are %v", chain, input, d.values, n, wantVals)
		return
	}
	avail := map[string]int{}
	for _, it := range st.list {
		avail[it.k.String()+"=>"+it.v.String()]++
	}
	for _, it := range d.items {
		avail[it]--
		if avail[it] < 0 {
			c.Violate("top:item-not-in-input", witness, "%s on %s returned %s more often than the input has it", chain, input, it)
			return
		}
	}
}
