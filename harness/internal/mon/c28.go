package mon

import (
	"bytes"
	"context"
	"errors"
	"fmt"
	"io"
	"runtime"
	"strings"
	"sync"
	"time"

	"diagonal.works/b6"
	"diagonal.works/b6/encoding"
	"diagonal.works/b6/ingest"
	"diagonal.works/b6/osm"
	"verif/internal/core"
)

// C28 A callback error stops streaming and is reported (fault enumeration).
//
// Every streaming API is driven with a harness callback that fails at its k-th
// invocation (counted over all goroutines, under one mutex), for EVERY k in
// 0..n (k = n is the clean control run), for goroutine counts {1,2,3,4,8} and
// for the two fault shapes "only call k fails" and "every call from k on
// fails". What is decided per run:
//
//   - the call returns (core.Watch: a quiescent-blocked call is the violation
//     `hang`, decided on goroutine dumps, never on a stopwatch);
//   - it returns an error, and that error is one of the injected ones
//     (`lost-error`, `unrelated-error`);
//   - at most 2 x goroutines further dispatch units BEGIN after the first
//     failing callback returned (`overshoot`). The unit is the API's own: an
//     item for the in-memory enumerations and sources, a hash bucket for
//     Uint64Map.EachItem, a blob for the PBF reader;
//   - no callback begins after the call returned (`callback-after-return`).
//
// Every case runs twice. Pass 1 with GOMAXPROCS(1): goroutines interleave only
// where they block, yield or sleep (every call has a scripted delay class
// none | Gosched | µs sleep | ms sleep), so the unit count cannot be inflated
// by the failing goroutine's thread losing its CPU to another process between
// returning the error and publishing it (seen on a machine with load 250:
// 12 "further" items while the cancellation was merely in flight). All verdicts
// are taken there. Pass 2 with all processors adds real parallelism for the
// hang / returned-error / callback-after-return verdicts; its overshoot is
// recorded as a maximum only. The first callback of a unit begun after the
// first failure yields four times before it proceeds (schedule shaping, never
// deciding).

// c28err is the error a failing callback returns. It may wrap a well-known
// error (context.Canceled, context.DeadlineExceeded, io.EOF): a callback is free
// to fail with those, and the enumeration must still report the failure.
type c28err struct {
	seq   int
	wraps error
}

func (e *c28err) Error() string {
	if e.wraps != nil {
		return fmt.Sprintf("c28 injected failure at call %d: %v", e.seq, e.wraps)
	}
	return fmt.Sprintf("c28 injected failure at call %d", e.seq)
}

func (e *c28err) Unwrap() error { return e.wraps }

var c28wrapped = []error{nil, nil, context.Canceled, context.DeadlineExceeded, io.EOF}

const (
	c28none = iota
	c28gosched
	c28micro
	c28milli
)

type c28rec struct {
	mu         sync.Mutex
	k          int
	allAfter   bool
	delays     []uint8
	seq        int
	failed     int
	failRet    bool // the first failing callback has returned
	units      map[int]bool
	unitsAfter int
	callsAfter int
	returned   bool
	afterRet   int
	firstErr   *c28err
	errs       map[*c28err]bool
	perUnit    bool // every call is its own unit
	wraps      error
}

// call is the body of every harness callback. unit identifies the dispatch
// unit of this call (ignored when perUnit).
func (r *c28rec) call(unit int) error {
	r.mu.Lock()
	s := r.seq
	r.seq++
	newUnit := r.perUnit || !r.units[unit]
	if !r.perUnit {
		r.units[unit] = true
	}
	after := r.failRet
	if after {
		r.callsAfter++
		if newUnit {
			r.unitsAfter++
		}
	}
	if r.returned {
		r.afterRet++
	}
	fail := s == r.k || (r.allAfter && s >= r.k)
	d := uint8(c28none)
	if s < len(r.delays) {
		d = r.delays[s]
	}
	r.mu.Unlock()
	switch d {
	case c28gosched:
		runtime.Gosched()
	case c28micro:
		time.Sleep(time.Duration(1+s%7) * 5 * time.Microsecond)
	case c28milli:
		time.Sleep(time.Millisecond)
	}
	if after && newUnit {
		// let a cancellation that is in flight be published first
		for i := 0; i < 4; i++ {
			runtime.Gosched()
		}
	}
	if fail {
		e := &c28err{seq: s, wraps: r.wraps}
		r.mu.Lock()
		r.failed++
		r.errs[e] = true
		if r.firstErr == nil {
			r.firstErr = e
		}
		r.failRet = true
		r.mu.Unlock()
		return e
	}
	return nil
}

// c28subject is one API bound to a subject with n items.
type c28subject struct {
	n       int  // callbacks of a clean run
	perUnit bool // unit = item
	unitsN  int  // number of units (== n when perUnit)
	run     func(g int, rec *c28rec, yields []bool) error
}

type c28api struct {
	name  string // signature prefix
	label string // counter suffix
	unit  string
	build func(n int) *c28subject
}

var c28cache = map[string]*c28subject{}

func c28get(a *c28api, n int) *c28subject {
	key := fmt.Sprintf("%s/%d", a.label, n)
	if s, ok := c28cache[key]; ok {
		return s
	}
	s := a.build(n)
	c28cache[key] = s
	return s
}

func c28eachFeature(w func(n int) b6.World) func(n int) *c28subject {
	return func(n int) *c28subject {
		world := w(n)
		return &c28subject{n: n, perUnit: true, unitsN: n, run: func(g int, rec *c28rec, _ []bool) error {
			return world.EachFeature(func(f b6.Feature, _ int) error { return rec.call(0) }, &b6.EachFeatureOptions{Goroutines: g})
		}}
	}
}

func c28eachItem(shape int) func(n int) *c28subject {
	return func(n int) *c28subject {
		m, bits, ids := c28map(n, shape)
		buckets := map[uint64]bool{}
		for _, id := range ids {
			buckets[id&(1<<bits-1)] = true
		}
		return &c28subject{n: n, unitsN: len(buckets), run: func(g int, rec *c28rec, _ []bool) error {
			return m.EachItem(func(id uint64, _ []encoding.Tagged, _ int) error { return rec.call(int(id & (1<<bits - 1))) }, g)
		}}
	}
}

// the compact world has 24 features; smaller n are reached with the Skip
// options (points 12, paths 6, areas 2, relations 4).
var c28compactWorld b6.World

func c28compactSubject(n int) *c28subject {
	if c28compactWorld == nil {
		c28compactWorld = c28compact()
	}
	type combo struct {
		n    int
		opts b6.EachFeatureOptions
	}
	best := combo{n: -1}
	for mask := 0; mask < 16; mask++ {
		o := b6.EachFeatureOptions{SkipPoints: mask&1 != 0, SkipPaths: mask&2 != 0, SkipAreas: mask&4 != 0, SkipRelations: mask&8 != 0}
		c := 0
		if !o.SkipPoints {
			c += 12
		}
		if !o.SkipPaths {
			c += 6
		}
		if !o.SkipAreas {
			c += 2
		}
		if !o.SkipRelations {
			c += 4
		}
		if c > 0 && c <= n && c > best.n {
			best = combo{c, o}
		}
	}
	if best.n < 0 {
		best = combo{2, b6.EachFeatureOptions{SkipPoints: true, SkipPaths: true, SkipRelations: true}}
	}
	w := c28compactWorld
	return &c28subject{n: best.n, perUnit: true, unitsN: best.n, run: func(g int, rec *c28rec, _ []bool) error {
		o := best.opts
		o.Goroutines = g
		return w.EachFeature(func(f b6.Feature, _ int) error { return rec.call(0) }, &o)
	}}
}

// c28yieldReader yields the processor at scripted Read calls.
type c28yieldReader struct {
	r      io.Reader
	yields []bool
	i      int
}

func (y *c28yieldReader) Read(p []byte) (int, error) {
	if y.i < len(y.yields) && y.yields[y.i] {
		runtime.Gosched()
	}
	y.i++
	return y.r.Read(p)
}

var c28apis = []*c28api{
	{name: "Uint64Map.EachItem", label: "eachitem_spread", unit: "bucket", build: c28eachItem(0)},
	{name: "Uint64Map.EachItem", label: "eachitem_one_bucket", unit: "bucket", build: c28eachItem(1)},
	{name: "Uint64Map.EachItem", label: "eachitem_multi", unit: "bucket", build: c28eachItem(2)},
	{name: "basicWorld.EachFeature", label: "basic", unit: "item", build: c28eachFeature(c28basic)},
	{name: "BasicMutableWorld.EachFeature", label: "basic_mutable", unit: "item", build: c28eachFeature(func(n int) b6.World { return c28basicMutable(n) })},
	{name: "MutableOverlayWorld.EachFeature", label: "mutable_overlay", unit: "item", build: c28eachFeature(func(n int) b6.World { return c28mutableOverlay(n) })},
	{name: "MutableTagsOverlayWorld.EachFeature", label: "tags_overlay", unit: "item", build: c28eachFeature(func(n int) b6.World { return c28tagsOverlay(n) })},
	{name: "OverlayWorld.EachFeature", label: "overlay", unit: "item", build: c28eachFeature(c28overlay)},
	{name: "compact.World.EachFeature", label: "compact", unit: "bucket", build: c28compactSubject},
	{name: "MemoryFeatureSource.Read", label: "memory_source", unit: "item", build: func(n int) *c28subject {
		src := ingest.MemoryFeatureSource(c28features(n))
		return &c28subject{n: n, perUnit: true, unitsN: n, run: func(g int, rec *c28rec, _ []bool) error {
			return src.Read(ingest.ReadOptions{Goroutines: g}, func(f ingest.Feature, _ int) error { return rec.call(0) }, context.Background())
		}}
	}},
	{name: "WorldFeatureSource.Read", label: "world_source", unit: "item", build: func(n int) *c28subject {
		src := ingest.WorldFeatureSource{World: c28basic(n)}
		return &c28subject{n: n, perUnit: true, unitsN: n, run: func(g int, rec *c28rec, _ []bool) error {
			return src.Read(ingest.ReadOptions{Goroutines: g}, func(f ingest.Feature, _ int) error { return rec.call(0) }, context.Background())
		}}
	}},
	{name: "osm.ReadPBFWithOptions", label: "pbf", unit: "blob", build: func(n int) *c28subject {
		f := c28pbf(n)
		return &c28subject{n: n, unitsN: f.blobs, run: func(g int, rec *c28rec, yields []bool) error {
			r := &c28yieldReader{r: bytes.NewReader(f.data), yields: yields}
			return osm.ReadPBFWithOptions(r, func(e osm.Element, _ int) error { return rec.call(f.blobOf[c28pbfKey(e)]) }, osm.ReadOptions{Cores: g})
		}}
	}},
	{name: "ModifiedTags.EachModifiedTag", label: "modified_tags", unit: "item", build: func(n int) *c28subject {
		m := c28modifiedTags(n)
		return &c28subject{n: n, perUnit: true, unitsN: n, run: func(g int, rec *c28rec, _ []bool) error {
			return m.EachModifiedTag(func(ingest.ModifiedTag, int) error { return rec.call(0) }, &b6.EachFeatureOptions{Goroutines: g})
		}}
	}},
	{name: "MutableOverlayWorld.EachModifiedFeature", label: "modified_features", unit: "item", build: func(n int) *c28subject {
		w := c28modifiedFeatures(n)
		return &c28subject{n: n, perUnit: true, unitsN: n, run: func(g int, rec *c28rec, _ []bool) error {
			return w.EachModifiedFeature(func(b6.Feature, int) error { return rec.call(0) }, &b6.EachFeatureOptions{Goroutines: g})
		}}
	}},
}

var c28goroutines = []int{1, 2, 3, 4, 8}

const c28maxN = 24

// c28sizes: n = 24 first (the quick tier is exactly that block), then 1..23.
func c28sizes() []int {
	s := []int{c28maxN}
	for n := 1; n < c28maxN; n++ {
		s = append(s, n)
	}
	return s
}

func c28blockLen(n int) int { return len(c28apis) * len(c28goroutines) * 2 * (n + 1) }

func c28spaceLen() int {
	t := 0
	for _, n := range c28sizes() {
		t += c28blockLen(n)
	}
	return t
}

// c28decode maps a case index to its coordinates. The enumeration is a fixed
// list: repeat r of the whole space differs only in the delay script.
func c28decode(index int) (rep int, a *c28api, g int, allAfter bool, n, k int) {
	space := c28spaceLen()
	rep = index / space
	i := index % space
	for _, size := range c28sizes() {
		if i < c28blockLen(size) {
			n = size
			break
		}
		i -= c28blockLen(size)
	}
	a = c28apis[i%len(c28apis)]
	i /= len(c28apis)
	g = c28goroutines[i%len(c28goroutines)]
	i /= len(c28goroutines)
	allAfter = i%2 == 1
	i /= 2
	k = i
	return
}

func init() {
	quick := c28blockLen(c28maxN)
	var required []string
	for _, a := range c28apis {
		if c28raceBuild && a.label == "compact" {
			continue
		}
		required = append(required, "api_"+a.label, "error_returned_"+a.label)
	}
	required = append(required, "fail_first", "fail_middle", "fail_last", "control_clean",
		"g1", "g2", "g3", "g4", "g8", "mode_single", "mode_all_after",
		"returned_injected_error", "injected_error_wraps_wellknown", "failure_with_units_remaining", "multi_goroutine_failure_with_units_remaining")
	core.Register(&core.Monitor{
		ID:        "C28",
		Title:     "A callback error stops streaming and is reported",
		Level:     "fault_enumeration",
		Technique: "exhaustive enumeration of the failing callback position per API x goroutine count x fault shape; return value, unit-counted overshoot and structural hang detection",
		Rule: "case = (API, goroutines in {1,2,3,4,8}, fault shape in {only call k fails, every call from k on fails}, n items, failing invocation k in 0..n) enumerated exhaustively " +
			"(quick: n = 24, all k, 14 API subjects; thorough: every n in 1..24, all k); " +
			"distinct = distinct (API, g, shape, n, k, delay script); non-trivial = the failure was injected (the k-th callback invocation happened and returned the error)",
		Assumptions: []string{
			"'promptly' is counted in the API's dispatch unit (item / hash bucket / PBF blob): at most 2 x goroutines units may begin after the first failing callback returned",
			"the unit count is judged in a run with GOMAXPROCS(1) (interleaving at blocking/yield points with scripted delays), so that it does not depend on machine load; " +
				"a second run of every case with all processors judges hang, returned error and callback-after-return only",
			"a hang is a call all of whose goroutines are parked identically in three successive goroutine dumps (core.Watch), never a timeout",
			"the thorough tier runs under the race detector (unsynchronised writes of the error to be returned are violations); there the compact world is left out, " +
				"because building it under -race takes minutes (its enumeration is Uint64Map.EachItem, which stays in; the quick tier runs it in the plain build)",
		},
		Quick:    quick,
		Thorough: c28spaceLen(),
		Required: required,
		// safety net only: the first compact case of a child builds the compact world, which takes minutes on an overloaded machine
		CaseCap: 10 * time.Minute,
		// quick: plain build; thorough: race build
		RaceThorough: true,
		Run:          c28run,
	})
}

var c28procs = 0 // GOMAXPROCS of the process before the monitor touched it

func c28run(c *core.Ctx) {
	rep, a, g, allAfter, nominal, k := c28decode(c.Index)
	if c28raceBuild && a.label == "compact" {
		c.Count("compact_skipped_in_race_build")
		return
	}
	subj := c28get(a, nominal)
	n := subj.n
	r := c.R
	// delay script: one class per invocation
	delays := make([]uint8, n+4)
	var sb strings.Builder
	for i := range delays {
		switch x := r.Intn(100); {
		case x < 50:
			delays[i] = c28none
		case x < 80:
			delays[i] = c28gosched
		case x < 95:
			delays[i] = c28micro
		default:
			delays[i] = c28milli
		}
		sb.WriteByte("-gum"[delays[i]])
	}
	yields := make([]bool, 64)
	for i := range yields {
		yields[i] = r.Chance(0.3)
	}
	mode := "single"
	if allAfter {
		mode = "all-after"
	}
	c.Key("%s g=%d %s n=%d k=%d delays=%s rep=%d", a.label, g, mode, n, k, sb.String(), rep)
	c.Count("api_" + a.label)
	c.Count(fmt.Sprintf("g%d", g))
	c.Count("mode_" + strings.ReplaceAll(mode, "-", "_"))
	if c28procs == 0 {
		c28procs = runtime.GOMAXPROCS(0)
	}
	p := &c28pass{c: c, a: a, subj: subj, g: g, allAfter: allAfter, k: k, mode: mode, delays: delays, delayText: sb.String(), yields: yields}
	// Pass 1, one processor: goroutines interleave only where they block or
	// yield, so a unit that begins after the failing callback returned was
	// dispatched by a library that had run past the error, not by one whose
	// failing goroutine lost its CPU to another process. Everything is judged.
	runtime.GOMAXPROCS(1)
	ok := p.run(true)
	runtime.GOMAXPROCS(c28procs)
	if !ok {
		return
	}
	// Pass 2, all processors: real parallelism for the hang / returned error /
	// callback-after-return checks. The overshoot is recorded, not judged: here
	// a large value can be an artefact of machine load.
	if c28procs > 1 {
		p.run(false)
	}
}

type c28pass struct {
	c         *core.Ctx
	a         *c28api
	subj      *c28subject
	g, k      int
	allAfter  bool
	mode      string
	delays    []uint8
	delayText string
	yields    []bool
}

// run executes the case once; false means the child must be restarted (hang).
func (p *c28pass) run(single bool) bool {
	c, a, g, k, n := p.c, p.a, p.g, p.k, p.subj.n
	procs := "GOMAXPROCS=1"
	if !single {
		procs = fmt.Sprintf("GOMAXPROCS=%d", c28procs)
	}
	rec := &c28rec{k: k, allAfter: p.allAfter, delays: p.delays, units: map[int]bool{}, errs: map[*c28err]bool{}, perUnit: p.subj.perUnit, wraps: c28wrapped[c.Index%len(c28wrapped)]}
	if rec.wraps != nil {
		c.Count("injected_error_wraps_wellknown")
	}
	var err error
	rep2 := core.Watch(func() { err = p.subj.run(g, rec, p.yields) }, 6*time.Second, 90*time.Second)
	desc := fmt.Sprintf("%s (%s) goroutines=%d n=%d failing call k=%d (%s, %s)", a.name, a.label, g, n, k, p.mode, procs)
	witness := map[string]any{"api": a.name, "subject": a.label, "goroutines": g, "n": n, "k": k, "mode": p.mode, "delays": p.delayText, "unit": a.unit, "processors": procs}
	switch rep2.Verdict {
	case core.Quiescent:
		rec.mu.Lock()
		witness["callbacks_begun"] = rec.seq
		witness["failing_callbacks_returned"] = rec.failed
		rec.mu.Unlock()
		witness["parked_goroutines"] = rep2.Dump
		c.Count("hangs")
		witness["frame"] = rep2.Frame
		c.Violate(a.name+":hang", witness, "%s never returned: every goroutine of the call is parked (quiescent) at %s after %d callbacks", desc, rep2.Frame, witness["callbacks_begun"])
		c.RequestRestart()
		return false
	case core.CapHit:
		c.Inconclusive(desc + ": still running at the cap, goroutines not quiescent (top frame " + rep2.Frame + ")")
		c.RequestRestart()
		return false
	}
	// let stray goroutines (if any) reach their next callback before the final reading
	rec.mu.Lock()
	rec.returned = true
	rec.mu.Unlock()
	for i := 0; i < 3; i++ {
		runtime.Gosched()
	}
	rec.mu.Lock()
	calls, failed, unitsAfter, callsAfter, afterRet, first := rec.seq, rec.failed, rec.unitsAfter, rec.callsAfter, rec.afterRet, rec.firstErr
	rec.mu.Unlock()
	witness["callbacks_begun"] = calls
	witness["failing_callbacks_returned"] = failed
	witness["units_begun_after_first_failure"] = unitsAfter
	witness["callbacks_begun_after_first_failure"] = callsAfter
	witness["returned"] = fmt.Sprint(err)
	if c.Index < 3 && single {
		c.Sample(witness)
	}

	if failed == 0 {
		// control: nothing was injected (k = n)
		if err != nil {
			c.Inconclusive(fmt.Sprintf("%s: the clean run (no failing callback) returned %v", desc, err))
		} else if calls != n {
			c.Inconclusive(fmt.Sprintf("%s: the clean run made %d callbacks, the subject has %d items", desc, calls, n))
		} else if single {
			c.Count("control_clean")
		}
		return true
	}
	if single {
		c.Nontrivial()
		switch {
		case k == 0:
			c.Count("fail_first")
		case k == n-1:
			c.Count("fail_last")
		default:
			c.Count("fail_middle")
		}
		if k < n-1 {
			c.Count("failure_with_units_remaining")
			if g > 1 {
				c.Count("multi_goroutine_failure_with_units_remaining")
			}
		}
	} else {
		c.Count("multicore_runs_with_failure")
	}
	var inj *c28err
	switch {
	case err == nil:
		c.Violate(a.name+":lost-error", witness, "%s returned nil although %d callback(s) returned an error (%d callbacks were made)", desc, failed, calls)
	case !errors.As(err, &inj):
		c.Violate(a.name+":unrelated-error", witness, "%s returned %q, which is none of the injected errors", desc, err)
	default:
		rec.mu.Lock()
		known := rec.errs[inj]
		rec.mu.Unlock()
		if !known {
			c.Violate(a.name+":unrelated-error", witness, "%s returned %q, which was not injected in this run", desc, err)
		} else if single {
			c.Count("returned_injected_error")
			c.Count("error_returned_" + a.label)
			if inj == first {
				c.Count("returned_first_injected_error")
			} else {
				c.Count("returned_later_injected_error")
			}
		} else {
			c.Count("multicore_returned_injected_error")
		}
	}
	if afterRet > 0 {
		c.Violate(a.name+":callback-after-return", witness, "%s: %d callback(s) began after the call had returned", desc, afterRet)
	}
	if !single {
		c.Max("multicore_overshoot_units_max_unjudged", int64(unitsAfter))
		return true
	}
	c.Max("overshoot_units_max", int64(unitsAfter))
	c.Max("overshoot_units_max_"+a.label, int64(unitsAfter))
	c.Max("overshoot_callbacks_max_"+a.label, int64(callsAfter))
	c.Max(fmt.Sprintf("overshoot_units_max_g%d", g), int64(unitsAfter))
	if unitsAfter > 0 {
		c.Count("runs_with_units_begun_after_failure")
	}
	if unitsAfter > 2*g {
		c.Violate(a.name+":overshoot", witness, "%s: %d further %ss began after the first failing callback had returned (bound 2 x %d goroutines = %d)", desc, unitsAfter, a.unit, g, 2*g)
	}
	return true
}
