package mon

import (
	"context"
	"fmt"
	"os"
	"reflect"
	"sort"
	"strings"
	"sync"
	"time"

	"diagonal.works/b6"
	"diagonal.works/b6/api"
	"diagonal.works/b6/api/functions"
	b6grpc "diagonal.works/b6/grpc"
	"diagonal.works/b6/ingest"
	pb "diagonal.works/b6/proto"
	"google.golang.org/protobuf/proto"
	"verif/internal/core"
)

// C23 Evaluating a request never crashes the server.
//
// One case = one request, sent as a proto to grpc service.Evaluate of a fresh
// service over a fresh world. The deciding events are structural: a panic that
// reaches the caller of Evaluate (the gRPC handler has no recover, so in the
// server this ends the process), a process-fatal error (seen by the parent), or
// a quiescent hang (core.Watch). An error reply is a correct outcome.

var c23names []string

func c23worlds(r *core.R) (ingest.Worlds, string) {
	switch r.Intn(4) {
	case 0:
		return &ingest.MutableWorlds{Base: ingest.NewBasicMutableWorld()}, "empty"
	case 1:
		return &c26basicWorlds{mk: func() ingest.MutableWorld { return fSmallBasicWorld() }}, "basic"
	default:
		ws := &ingest.MutableWorlds{Base: fSmallBasicWorld()}
		w := ws.FindOrCreateWorld(b6.FeatureIDInvalid)
		// a few edits so that features live in the overlay, in the tag overlay and in the base
		edits := []func(){
			func() { w.AddTag(fPointID(2), fStrTag("#amenity", "kiosk")) },
			func() { w.AddTag(fAreaID(2), fStrTag("building:levels", "x")) },
			func() { w.RemoveTag(fPathID(1), "#highway") },
			func() { w.AddFeature(fPoint(9, 51.5358, -0.1247, fStrTag("#amenity", "cafe"))) },
			func() { w.AddFeature(fPath(1, []uint64{1, 2, 8})) },
			func() { w.AddFeature(fPoint(2, 51.5353, -0.1247)) },
		}
		for _, i := range r.Perm(len(edits))[:r.Intn(4)] {
			edits[i]()
		}
		return ws, "overlay"
	}
}

func init() {
	fs := functions.Functions()
	docs := functions.FunctionDocs()
	for n := range fs {
		c23names = append(c23names, n)
	}
	sort.Strings(c23names)
	core.Register(&core.Monitor{
		ID:        "C23",
		Title:     "Evaluating a request never crashes the server",
		Technique: "typed request fuzzing by reflection over functions.Functions(), through the proto path into grpc service.Evaluate; panics recovered at the caller, hangs decided by goroutine quiescence",
		Rule: "case = one request: a call of a library function (chosen uniformly over functions.Functions()) whose arguments are drawn per parameter type from pools of " +
			"well-formed and hostile expression trees (depth <= 3: literals, calls, lambdas, collections; absent/odd IDs, empty collections, negative counts, NaN, wrong arity, " +
			"type confusion with p=0.1 per argument), optionally wrapped in a consumer; world = empty | small basic | overlay with 0-3 edits; cores 1|2; one case in four is a session (1-4 earlier change requests to the same service: " +
			"collections, relations and points added and then replaced by shorter / longer versions, tag edits, random changes; the request then often reads what they touched); " +
			"distance/level parameters bounded (<= 2 km, level <= 19); 1 case in 8 is the labelled extreme sub-case (|x| up to 1e300/Inf, MaxInt64); " +
			"distinct = distinct (world, request text); non-trivial = the request reached the VM (decoded and compiled by the server)",
		Assumptions: []string{"FileIOAllowed=false: functions that touch the file system return before doing so",
			"a panic observed at the caller of service.Evaluate is what the gRPC server would die of (no recover in the handler path)"},
		Quick: 24000, Thorough: 1000000,
		CaseCap:  60 * time.Second,
		Required: []string{"outcome_ok", "outcome_error", "world_empty", "world_basic", "world_overlay", "fn_ok:top", "fn_ok:histogram", "fn_ok:take", "fn_ok:find", "fn_ok:map", "extreme_cases", "wrapped", "sessions", "session_replaced_by_shorter", "session_geometry_tag_edit"},
		Run: func(c *core.Ctx) {
			r := c.R
			ws, wname := c23worlds(r.Fork())
			c.Count("world_" + wname)
			extremeCase := c.Index%8 == 7
			g := &c23gen{r: r.Fork()}
			if extremeCase {
				c.Count("extreme_cases")
			}
			name := core.Pick(r, c23names)
			ft := reflect.TypeOf(fs[name])
			doc := docs[name]
			// the consumer (if any) is chosen first, because it decides whether geometry must stay small
			out := ft.Out(0).String()
			wrapped := ""
			if r.Chance(0.35) {
				switch {
				case strings.HasPrefix(out, "b6.Collection["):
					wrapped = core.Pick(r, []string{"count", "count-values", "count-keys", "take", "top", "map", "filter", "histogram", "flatten", "sum", "to-geojson-collection", "percentiles", "sum-by-key"})
				case out == "b6.Geometry" || out == "b6.Area":
					wrapped = core.Pick(r, []string{"to-geojson", "centroid", "points", "length", "intersecting", "interpolate", "convex-hull-of-points", "area", "get-centroid"})
				case out == "b6.Query":
					wrapped = core.Pick(r, []string{"find", "find-areas", "find-relations", "matches"})
				case out == "ingest.Change":
					wrapped = core.Pick(r, []string{"with-change", "add-world-with-change", "merge-changes"})
				case out == "b6.Tag":
					wrapped = core.Pick(r, []string{"value", "int-value", "float-value"})
				}
			}
			if c23costScaling[wrapped] && c23unboundedSource[name] {
				// the consumer's cost grows with extent and this function places geometry anywhere on the globe
				wrapped = ""
			}
			g.bounded = c23costScaling[name] || c23costScaling[wrapped]
			// map-parallel, materialise-map and accessible-all do their work in goroutines of their own, where any
			// panic ends the process and is reported by the parent as crash@..., with the raw panic text in the
			// signature. Their arguments are drawn from pools that reach no known panic site (a panic there would
			// only repeat, as a process crash, a site that the other functions report), except the labelled
			// sub-case of pair keys under map-parallel (a known finding).
			g.safe = c23spawns[name]
			pairKeys := name == "map-parallel" && r.Chance(0.05)
			creates := c23createsFeature[name]
			if g.bounded {
				c.Count("bounded_geometry")
			}
			var args []b6.Expression
			nin := ft.NumIn()
			for i := 1; i < nin; i++ {
				t := ft.In(i)
				an := ""
				if i-1 < len(doc.ArgNames) {
					an = doc.ArgNames[i-1]
				}
				if ft.IsVariadic() && i == nin-1 {
					for j, n := 0, r.Intn(4); j < n; j++ {
						if name == "collection" && r.Chance(0.8) {
							args = append(args, g.pair(1))
						} else {
							args = append(args, g.any(1))
						}
					}
					break
				}
				levelArg := strings.Contains(strings.ToLower(an), "level") || strings.Contains(strings.ToLower(an), "zoom")
				if r.Chance(0.1) && !levelArg && !g.safe {
					g.note("type-confusion")
					args = append(args, g.any(1))
				} else {
					// extreme magnitudes only as direct numeric arguments, and never under a cost-scaling consumer
					k := t.Kind()
					g.extreme = extremeCase && !c23costScaling[wrapped] && (k == reflect.Int || k == reflect.Float64 || t.String() == "b6.Number")
					switch {
					case creates && t.String() == "b6.CollectionID":
						args = append(args, xID(g.freshID(b6.FeatureTypeCollection)))
					case creates && t.String() == "b6.RelationID":
						args = append(args, xID(g.freshID(b6.FeatureTypeRelation)))
					case creates && t.String() == "b6.FeatureID":
						args = append(args, xID(g.freshID(b6.FeatureTypeExpression)))
					case pairKeys && i == 1:
						args = append(args, xPairs(xCall("pair", xInt(2), xInt(0)), xID(g.anyID()), xInt(1), xID(g.anyID())))
					default:
						args = append(args, g.forType(t, an, 1))
					}
					g.extreme = false
				}
			}
			arity := r.Intn(20)
			if g.safe {
				arity = 19
			}
			switch arity {
			case 0:
				if len(args) > 0 {
					args = args[:len(args)-1] // partial application
					g.note("missing-arg")
				}
			case 1:
				args = append(args, g.any(1)) // one too many
				g.note("extra-arg")
			}
			e := xCall(name, args...)
			// consumers: make the server use the result
			switch wrapped {
			case "":
			case "take", "top":
				e = xCall(wrapped, e, g.intFor("n"))
			case "map", "filter":
				e = xCall(wrapped, e, g.callable(1, 1))
			case "sample-points":
				e = xCall(wrapped, e, g.floatFor("distanceMeters"))
			case "interpolate":
				e = xCall(wrapped, e, g.floatFor("fraction"))
			case "tile-paths":
				e = xCall(wrapped, e, g.intFor("zoom"))
			case "convex-hull-of-points":
				e = xCall("convex-hull", xCall("points", e))
			case "intersecting":
				e = xCall("find", xCall("intersecting", e))
			case "matches":
				e = xCall("matches", g.identifiable(1), e)
			case "with-change":
				e = xCall(wrapped, e, g.callable(1, 0))
			case "add-world-with-change":
				e = xCall(wrapped, xID(fCollectionID(50)), e)
			case "merge-changes":
				e = xCall(wrapped, xPairs(xInt(0), e, xInt(1), g.change(2)))
			default:
				e = xCall(wrapped, e)
			}
			if wrapped != "" {
				c.Count("wrapped")
			}
			desc := "(unprintable)"
			core.Protect(func() { desc = e.String() })
			if len(desc) > 1500 {
				desc = desc[:1500] + "…"
			}
			cores := 1 + r.Intn(2)
			c.Key("%s|%s", wname, desc)
			witness := map[string]any{"world": wname, "function": name, "request": desc, "classes": g.classes, "cores": cores, "wrapped_in": wrapped}
			if c.Index < 3 {
				c.Sample(witness)
			}
			if os.Getenv("C23_PRINT") != "" {
				fmt.Fprintf(os.Stderr, "case %d: %s\n", c.Index, desc)
			}
			// client side: build the proto
			var p *pb.NodeProto
			var perr error
			if panicked, class, _, _ := core.Protect(func() { p, perr = e.ToProto() }); panicked || perr != nil {
				c.Count("client_side_unencodable")
				_ = class
				return
			}
			request := &pb.EvaluateRequestProto{Request: p, Version: b6.ApiVersion}
			if raw, err := protoRoundTrip(request); err == nil {
				request = raw
			}
			// does the server get as far as the VM? (decode + compile, cheap, no execution)
			if d, err := b6.ExpressionFromProto(request.Request); err == nil {
				_ = d
				c.Nontrivial()
			}

			var lock sync.RWMutex
			service := b6grpc.NewB6Service(ws, api.Options{Cores: cores}, &lock)
			// a session: one case in four sends earlier requests to the same service, which change the
			// world the request then runs against - in particular features that are added and then
			// replaced by a shorter or longer version of themselves
			if c.Index%4 == 1 {
				prelude := c23prelude(r.Fork(), g)
				var texts []string
				for _, pe := range prelude {
					text := "(unprintable)"
					core.Protect(func() { text = pe.String() })
					texts = append(texts, text)
					var pp *pb.NodeProto
					var err error
					if p, _, _, _ := core.Protect(func() { pp, err = pe.ToProto() }); p || err != nil {
						continue // the client cannot encode it
					}
					preq := &pb.EvaluateRequestProto{Request: pp, Version: b6.ApiVersion}
					if raw, err := protoRoundTrip(preq); err == nil {
						preq = raw
					}
					if p, cl, fr, st := core.Protect(func() {
						ctx, cancel := context.WithCancel(context.Background())
						defer cancel()
						service.Evaluate(ctx, preq)
					}); p {
						c.Count("outcome_panic")
						c.Violate("session:panic@"+fr+":"+cl, map[string]any{"earlier_requests": texts, "stack": clipStack(st)}, "request %d of a session (%s): service.Evaluate panicked: %s", len(texts), text, cl)
						return
					}
				}
				witness["earlier_requests"] = texts
				c.Count("sessions")
				if g.shorter {
					c.Count("session_replaced_by_shorter")
				}
				if g.geometryEdit {
					c.Count("session_geometry_tag_edit")
				}
			}
			var rerr error
			var panicked bool
			var class, frame, stack string
			// No per-request watchdog goroutine dump (it costs more than the request): a request
			// that never returns is caught by the framework's per-case cap, which applies the
			// same quiescence rule to the whole child (hang@<frame> if every goroutine is parked,
			// inconclusive if something is still running) and restarts the child.
			// As in the gRPC server, the request's context is cancelled when the handler
			// returns: that is what stops the goroutines of a map-parallel whose result was
			// not consumed to the end. (With a context that is never cancelled they live
			// on and read a world that a later case edits, which is not a schedule the
			// server can produce.)
			panicked, class, frame, stack = core.Protect(func() {
				ctx, cancel := context.WithCancel(context.Background())
				defer cancel()
				_, rerr = service.Evaluate(ctx, request)
			})
			switch {
			case panicked:
				c.Count("outcome_panic")
				// innermost b6 frame, plus the innermost library function (api/functions) on the
				// stack when the panic is raised below it, so that two functions that misuse the
				// same low-level method are two signatures
				site := frame
				if fn := c23functionFrame(stack); fn != "" && fn != frame && c23accessorFrame(frame) {
					site = frame + "<" + fn
				}
				if i := strings.Index(class, "hash_of_unhashable_type"); i >= 0 {
					class = class[:i+len("hash_of_unhashable_type")]
				}
				c.Violate("panic@"+site+":"+class, map[string]any{"request": witness, "stack": clipStack(stack)}, "%s: service.Evaluate panicked: %s", desc, class)
			case rerr != nil:
				c.Count("outcome_error")
				c.Count("fn_err:" + name)
			default:
				c.Count("outcome_ok")
				c.Count("fn_ok:" + name)
			}
			if !lock.TryLock() {
				if !panicked {
					c.Violate("lock-left-held", witness, "%s: after Evaluate returned the service lock cannot be taken", desc)
				}
			} else {
				lock.Unlock()
			}
		},
	})
}

func clipStack(s string) string {
	if len(s) > 5000 {
		return s[:5000] + "…"
	}
	return s
}

// protoRoundTrip sends the request through the wire encoding, as gRPC does.
func protoRoundTrip(r *pb.EvaluateRequestProto) (*pb.EvaluateRequestProto, error) {
	b, err := proto.Marshal(r)
	if err != nil {
		return nil, err
	}
	out := &pb.EvaluateRequestProto{}
	if err := proto.Unmarshal(b, out); err != nil {
		return nil, err
	}
	return out, nil
}

// c23functionFrame returns the innermost frame of package api/functions in a stack text.
func c23functionFrame(stack string) string {
	for _, line := range strings.Split(stack, "\n") {
		if strings.HasPrefix(line, "diagonal.works/b6/api/functions.") {
			return core.TopB6Frame(line)
		}
	}
	return ""
}

// c23unboundedSource lists functions whose result can lie anywhere on the globe
// whatever the size of their arguments (they are not put under a cost-scaling consumer).
var c23unboundedSource = map[string]bool{"ll": true, "s2-center": true, "s2-polygon": true}

// c23accessorFrame: low-level geometry accessors of package b6 that panic by
// contract when misused; the defect is then the calling library function, which
// is made part of the signature.
func c23accessorFrame(frame string) bool {
	for _, p := range []string{"Geo.", "area.", "InvalidGeometry.", "InvalidArea.", "wrappedPhysicalFeature.", "Centroid", "Covering", "GeometryToGeoJSON"} {
		if strings.HasPrefix(frame, p) {
			return true
		}
	}
	return false
}

// c23createsFeature lists the functions whose ID argument names a relation,
// collection or expression feature that the change creates (see freshID).
var c23createsFeature = map[string]bool{"add-collection": true, "add-relation": true, "add-expression": true,
	"histogram-with-id": true, "histogram-swatch-with-id": true, "materialise": true, "materialise-map": true}

// c23spawns lists the functions that evaluate their arguments in goroutines of their own.
var c23spawns = map[string]bool{"map-parallel": true, "materialise-map": true, "accessible-all": true}
