package mon

import (
	"fmt"
	"strings"

	"diagonal.works/b6"
	"diagonal.works/b6/ingest"
	"verif/internal/core"
	"verif/internal/obs"
	"verif/internal/wm"
)

// C14 Snapshots never change after they are taken.
//
// For every snapshot taken during a history, the full observation dump taken
// right after creation is the reference; the same dump is retaken after every
// later edit of the live world and must be identical. The snapshot must also
// conform to the model as it was when the snapshot was taken, and the live
// world must conform to the live model (it reflects the edits).

type c14snap struct {
	world   b6.World
	model   *wm.World
	first   *obs.Dump
	probes  obs.Probes
	takenAt int
}

func init() {
	core.Register(&core.Monitor{
		ID:        "C14",
		Title:     "Snapshots never change after they are taken",
		Technique: "recorded observation dump of each snapshot re-checked after every later live edit; live world and snapshot checked against feature-map models",
		Rule: "case = (world kind: mutable overlay or tags overlay, generated base, edit history with 1-3 snapshots taken at random points, later edits that retag, replace, add " +
			"and MOVE points of features living only in the snapshot layer, only in the base, or both); distinct = kind + base + history; " +
			"non-trivial = at least one edit after a snapshot touched a feature that existed when the snapshot was taken",
		Assumptions: []string{"path geometry is observed through PointAt/Polyline, i.e. resolved through whatever world the snapshot's features resolve points in"},
		Quick:       300, Thorough: 12000,
		Required: []string{"snapshots", "nested_snapshots", "edits_after_snapshot", "moved_point_after_snapshot", "edit_feature_in_snapshot_layer",
			"edit_feature_only_in_base", "kind_mutable-overlay", "kind_tags-overlay", "snapshot_rechecks"},
		Run: func(c *core.Ctx) {
			r := c.R
			kind := "mutable-overlay"
			if c.Index%5 == 4 {
				kind = "tags-overlay"
			}
			c.Count("kind_" + kind)
			g := wm.NewGen(r.Fork(), wm.DefaultGen())
			specs := g.World()
			// points that can be moved: under an open path, and under an area (radially)
			specs = append(specs, g.AddMovable()...)
			model := wm.ModelOf(specs)
			base, err := wm.Basic(specs, 1)
			if err != nil {
				c.Violate("setup-failed", nil, "building the base failed: %v", err)
				return
			}
			var script []string
			var snaps []*c14snap
			touchedOld := false

			probesFor := func(m *wm.World) obs.Probes {
				p := c13Probes(m)
				// ids that do not exist yet must stay absent in the snapshot
				p.IDs = append(p.IDs, b6.FeatureID{Type: b6.FeatureTypePoint, Namespace: b6.NamespaceOSMNode, Value: 990001})
				return p
			}
			recheck := func(after string) bool {
				for i, s := range snaps {
					c.Count("snapshot_rechecks")
					now := obs.Take(s.world, s.probes)
					if diffs := s.first.Diff(now); len(diffs) > 0 {
						sec := strings.SplitN(diffs[0].Key, " ", 2)[0]
						c.Violate("snapshot-changed:"+sec+":"+kind, map[string]any{"history": script, "snapshot_taken_after_op": s.takenAt, "diffs": len(diffs)},
							"snapshot %d (taken after op %d) changed after %s: %s", i, s.takenAt, after, diffs[0])
						return false
					}
				}
				return true
			}

			if kind == "tags-overlay" {
				to := ingest.NewMutableTagsOverlayWorld(base)
				n := r.Range(3, 20)
				for i := 0; i < n; i++ {
					if r.Chance(0.25) && len(snaps) < 3 {
						s := &c14snap{world: to.Snapshot(), model: model.Clone(), takenAt: i}
						s.probes = probesFor(s.model)
						s.first = obs.Take(s.world, s.probes)
						// the snapshot must show the tags of the model (lookups only: this world does not re-index)
						for _, id := range s.model.IDs() {
							f := s.world.FindFeatureByID(id)
							if f == nil {
								c.Violate("snapshot-missing-feature:tags-overlay", script, "snapshot lacks %s", id)
								return
							}
							for _, d := range s.model.CheckFeature(f, s.model.F[id], false) {
								c.Violate("snapshot-not-model:"+d.Class+":tags-overlay", script, "snapshot right after creation: %s", d.Detail)
								return
							}
						}
						snaps = append(snaps, s)
						c.Count("snapshots")
						if len(snaps) > 1 {
							c.Count("nested_snapshots")
						}
						script = append(script, "Snapshot")
						continue
					}
					ids := model.IDs()
					id := core.Pick(r, ids)
					tag := b6.Tag{Key: core.Pick(r, wm.PlainKeys), Value: b6.NewStringExpression(core.Pick(r, wm.TagValues))}
					script = append(script, fmt.Sprintf("AddTag(%s,%s=%s)", id, tag.Key, tag.Value.String()))
					to.AddTag(id, tag)
					model.AddTag(id, tag)
					if len(snaps) > 0 {
						c.Count("edits_after_snapshot")
						c.Count("edit_feature_only_in_base")
						touchedOld = true
					}
					if f := to.FindFeatureByID(id); f == nil {
						c.Violate("live-missing-feature:tags-overlay", script, "live world lacks %s", id)
						return
					} else {
						for _, d := range model.CheckFeature(f, model.F[id], false) {
							c.Violate("live-not-model:"+d.Class+":tags-overlay", script, "live world after AddTag: %s", d.Detail)
							return
						}
					}
					if !recheck("AddTag") {
						return
					}
				}
				c.Key("%s/%d/%s", kind, len(specs), strings.Join(script, ";"))
				if touchedOld && len(snaps) > 0 {
					c.Nontrivial()
				}
				return
			}

			mo := ingest.NewMutableOverlayWorld(base)
			queries := wm.StandardQueries()
			inLayer := map[b6.FeatureID]bool{} // features written since the last snapshot (live layer)
			everWritten := map[b6.FeatureID]bool{}
			n := r.Range(4, 28)
			for i := 0; i < n; i++ {
				if r.Chance(0.15) && len(snaps) < 3 {
					s := &c14snap{world: mo.Snapshot(), model: model.Clone(), takenAt: i}
					s.probes = probesFor(s.model)
					s.first = obs.Take(s.world, s.probes)
					for _, d := range s.model.Conform(s.world, nil, queries, true) {
						c.Violate("snapshot-not-model:"+d.Class, script, "snapshot right after creation: %s", d.Detail)
						return
					}
					snaps = append(snaps, s)
					c.Count("snapshots")
					if len(snaps) > 1 {
						c.Count("nested_snapshots")
					}
					script = append(script, "Snapshot")
					inLayer = map[b6.FeatureID]bool{}
					continue
				}
				op := g.NextOp(model)
				if op.Kind == "add" && op.Spec.ID.Type == b6.FeatureTypePoint && len(snaps) > 0 {
					if old, ok := model.F[op.Spec.ID]; ok && old.LL != op.Spec.LL {
						c.Count("moved_point_after_snapshot")
					}
				}
				script = append(script, op.String())
				target := op.ID
				if op.Kind == "add" {
					target = op.Spec.ID
				}
				if len(snaps) > 0 {
					c.Count("edits_after_snapshot")
					if _, existed := snaps[len(snaps)-1].model.F[target]; existed {
						touchedOld = true
						if everWritten[target] && !inLayer[target] {
							c.Count("edit_feature_in_snapshot_layer")
						} else if !everWritten[target] {
							c.Count("edit_feature_only_in_base")
						}
					}
				}
				var errW error
				if p, cl, fr, st := core.Protect(func() { errW = wm.Apply(mo, op) }); p {
					c.Violate("apply:panic@"+fr, map[string]any{"history": script, "stack": st}, "%s panicked: %s", op, cl)
					return
				}
				errM := wm.ApplyModel(model, op)
				if (errW != nil) != (errM != nil) {
					c.Violate("error-mismatch:"+op.Kind, script, "%s: world error %v, model error %v", op, errW, errM)
					return
				}
				inLayer[target] = true
				everWritten[target] = true
				for _, d := range model.Conform(mo, nil, queries, true) {
					c.Violate("live-not-model:"+d.Class, map[string]any{"history": script}, "live world after %s: %s", op.Kind, d.Detail)
					return
				}
				if !recheck(op.Kind) {
					return
				}
			}
			c.Key("%s/%d/%s", kind, len(specs), strings.Join(script, ";"))
			if touchedOld && len(snaps) > 0 {
				c.Nontrivial()
			}
			if c.Index < 2 {
				c.Sample(map[string]any{"kind": kind, "history": script})
			}
		},
	})
}
