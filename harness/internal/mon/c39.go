package mon

import (
	"fmt"
	"strings"

	"diagonal.works/b6"
	"verif/internal/core"
)

// C39 Tag lists behave as ordered maps.
//
// Oracle: an ordered (key,value) list with the obvious 3-line implementation of
// each operation. After every operation the real b6.Tags is compared with the
// model element by element (order included), and Get is compared for present
// and absent keys.

type c39kv struct{ k, v string }

func c39render(t b6.Tags) string {
	var sb strings.Builder
	for i, tag := range t {
		if i > 0 {
			sb.WriteByte(' ')
		}
		sb.WriteString(tag.Key + "=" + tag.Value.String())
	}
	return "[" + sb.String() + "]"
}

func c39renderModel(m []c39kv) string {
	var sb strings.Builder
	for i, kv := range m {
		if i > 0 {
			sb.WriteByte(' ')
		}
		sb.WriteString(kv.k + "=" + kv.v)
	}
	return "[" + sb.String() + "]"
}

type c39source struct {
	tags b6.Tags
	want string
	from string
}

func init() {
	keys := []string{"a", "b", "c", "d", "e", "#f", "@g", "h:i"}
	core.Register(&core.Monitor{
		ID:        "C39",
		Title:     "Tag lists behave as ordered maps",
		Technique: "reference-model monitor (ordered map) over random operation sequences on b6.Tags",
		Rule: "case = random operation sequence (ModifyOrAddTag, AddTag of an absent key, RemoveTag, RemoveTags with present/absent/all keys, " +
			"MergeFrom, Clone, Get; the arguments of RemoveTags and MergeFrom must be left as given) on a tag list with distinct keys from an 8-key alphabet (one case in eight: 60-200 keys, the list nearly full); distinct = distinct operation script; " +
			"non-trivial = at least one removal hit a present key on a list of >= 2 tags",
		Assumptions: []string{"tag values are string expressions compared through String()"},
		Quick:       20000, Thorough: 2000000,
		Required: []string{"remove_present", "removetags_multi_present", "merge_shorter", "merge_longer", "modify_existing", "argument_checked", "long_list"},
		Run: func(c *core.Ctx) {
			r := c.R
			// one case in eight works on a long list (up to 200 distinct keys): lists
			// longer than a machine word has bits, a byte has values, ...
			keys := keys
			if c.Index%8 == 5 {
				keys = nil
				for i, n := 0, r.Range(60, 200); i < n; i++ {
					keys = append(keys, fmt.Sprintf("k%03d", i))
				}
				c.Count("long_list")
			}
			var tags b6.Tags
			var model []c39kv
			var script []string
			var sources []c39source // earlier arguments of MergeFrom, with what they must keep reading
			find := func(k string) int {
				for i, kv := range model {
					if kv.k == k {
						return i
					}
				}
				return -1
			}
			nval := 0
			newVal := func() string { nval++; return fmt.Sprintf("v%d", nval) }
			// initial list
			ninit := r.Intn(len(keys) + 1)
			if len(keys) > 8 {
				ninit = len(keys) - r.Intn(10)
			}
			for _, i := range r.Perm(len(keys))[:ninit] {
				v := newVal()
				tags.AddTag(b6.Tag{Key: keys[i], Value: b6.NewStringExpression(v)})
				model = append(model, c39kv{keys[i], v})
			}
			script = append(script, "init"+c39renderModel(model))
			nops := r.Range(1, 12)
			for op := 0; op < nops; op++ {
				before := c39renderModel(model)
				var desc string
				panicked, class, frame, _ := core.Protect(func() {
					switch r.Intn(7) {
					case 0: // ModifyOrAddTag
						k := core.Pick(r, keys)
						v := newVal()
						desc = fmt.Sprintf("ModifyOrAddTag(%s=%s)", k, v)
						i := find(k)
						modified, old := tags.ModifyOrAddTag(b6.Tag{Key: k, Value: b6.NewStringExpression(v)})
						if i >= 0 {
							c.Count("modify_existing")
							if !modified || old.String() != model[i].v {
								c.Violate("ModifyOrAddTag:wrong-return", nil, "%s on %s returned (%v,%q), expected (true,%q)", desc, before, modified, old.String(), model[i].v)
							}
							model[i].v = v
						} else {
							if modified {
								c.Violate("ModifyOrAddTag:wrong-return", nil, "%s on %s reported a modification of an absent key", desc, before)
							}
							model = append(model, c39kv{k, v})
						}
					case 1: // AddTag of an absent key
						var absent []string
						for _, k := range keys {
							if find(k) < 0 {
								absent = append(absent, k)
							}
						}
						if len(absent) == 0 {
							desc = "noop"
							return
						}
						k := core.Pick(r, absent)
						v := newVal()
						desc = fmt.Sprintf("AddTag(%s=%s)", k, v)
						tags.AddTag(b6.Tag{Key: k, Value: b6.NewStringExpression(v)})
						model = append(model, c39kv{k, v})
					case 2: // RemoveTag
						k := core.Pick(r, keys)
						desc = fmt.Sprintf("RemoveTag(%s)", k)
						if i := find(k); i >= 0 {
							c.Count("remove_present")
							if len(model) >= 2 {
								c.Nontrivial()
							}
							if i == len(model)-1 {
								c.Count("remove_last")
							}
							model = append(model[:i:i], model[i+1:]...)
						} else {
							c.Count("remove_absent")
						}
						tags.RemoveTag(k)
					case 3: // RemoveTags
						var ks []string
						switch r.Intn(4) {
						case 0: // all keys of the list
							for _, kv := range model {
								ks = append(ks, kv.k)
							}
							core.Shuffle(r, ks)
							c.Count("removetags_all")
						default:
							for _, i := range r.Perm(len(keys))[:r.Intn(5)] {
								ks = append(ks, keys[i])
							}
						}
						desc = fmt.Sprintf("RemoveTags(%v)", ks)
						present := 0
						var nm []c39kv
						for _, kv := range model {
							drop := false
							for _, k := range ks {
								if k == kv.k {
									drop = true
								}
							}
							if drop {
								present++
							} else {
								nm = append(nm, kv)
							}
						}
						if present >= 2 {
							c.Count("removetags_multi_present")
							c.Nontrivial()
						}
						if present >= 1 {
							c.Count("remove_present")
						}
						model = nm
						before := append([]string{}, ks...)
						tags.RemoveTags(ks)
						// the argument is the caller's: callers keep one list of keys and
						// apply it to many tag lists
						for i := range before {
							if ks[i] != before[i] {
								c.Count("argument_checked")
								c.Violate("RemoveTags:argument-changed", map[string]any{"script": append(script, desc)},
									"RemoveTags(%v) left its argument as %v", before, ks)
								return
							}
						}
						c.Count("argument_checked")
					case 4: // MergeFrom
						var other b6.Tags
						var om []c39kv
						for _, i := range r.Perm(len(keys))[:r.Intn(len(keys)+1)] {
							v := newVal()
							other = append(other, b6.Tag{Key: keys[i], Value: b6.NewStringExpression(v)})
							om = append(om, c39kv{keys[i], v})
						}
						desc = "MergeFrom(" + c39renderModel(om) + ")"
						if len(om) < len(model) {
							c.Count("merge_shorter")
						} else if len(om) > len(model) {
							c.Count("merge_longer")
						}
						tags.MergeFrom(other)
						model = om
						// the source must not have been disturbed
						if got := c39render(other); got != c39renderModel(om) {
							c.Violate("MergeFrom:source-changed", nil, "%s changed its argument to %s", desc, got)
						}
						// ... nor by anything done to the merged list afterwards, and the other way round: the
						// two lists are separate values from now on. The source is kept, edited itself once,
						// and looked at again after every later operation.
						if len(other) > 0 && r.Bool() {
							other[0].Value = b6.NewStringExpression("source-edited")
							om = append([]c39kv{{om[0].k, "source-edited"}}, om[1:]...)
						}
						other.AddTag(b6.Tag{Key: "source-only", Value: b6.NewStringExpression("s")})
						om = append(om[:len(om):len(om)], c39kv{"source-only", "s"})
						sources = append(sources, c39source{other, c39renderModel(om), desc})
					case 5: // Clone, then mutate the clone: the original must not move
						desc = "Clone+mutate"
						cl := tags.Clone()
						if got := c39render(cl); got != before {
							c.Violate("Clone:differs", nil, "Clone of %s is %s", before, got)
						}
						if len(cl) > 0 {
							cl[0].Value = b6.NewStringExpression("mutated")
							cl.RemoveTag(cl[len(cl)-1].Key)
						}
						cl.AddTag(b6.Tag{Key: "zz", Value: b6.NewStringExpression("x")})
						c.Count("clone")
					case 6: // RemoveAllTags
						if r.Chance(0.2) {
							desc = "RemoveAllTags"
							tags.RemoveAllTags()
							model = nil
						} else {
							desc = "noop"
						}
					}
				})
				script = append(script, desc)
				opname := desc
				if i := strings.IndexByte(opname, '('); i > 0 {
					opname = opname[:i]
				}
				if panicked {
					c.Violate(opname+":panic@"+frame, map[string]any{"script": script}, "%s on %s panicked: %s", desc, before, class)
					break
				}
				if got, want := c39render(tags), c39renderModel(model); got != want {
					c.Violate(opname+":wrong-list", map[string]any{"script": script}, "%s on %s gave %s, the ordered-map model gives %s", desc, before, got, want)
					break
				}
				for _, src := range sources {
					if got := c39render(src.tags); got != src.want {
						c.Violate("MergeFrom:source-shares-storage", map[string]any{"script": script}, "after %s, the list that was the argument of %s reads %s, expected %s", desc, src.from, got, src.want)
						return
					}
				}
				// lookups
				for _, k := range keys {
					got := tags.Get(k)
					if i := find(k); i >= 0 {
						if !got.IsValid() || got.Key != k || got.Value.String() != model[i].v {
							c.Violate("Get:wrong", map[string]any{"script": script}, "Get(%s) on %s returned %v", k, c39render(tags), got)
						}
					} else if got.IsValid() {
						c.Violate("Get:wrong", map[string]any{"script": script}, "Get(%s) on %s returned %v for an absent key", k, c39render(tags), got)
					}
				}
			}
			c.Key("%s", strings.Join(script, ";"))
			if c.Index < 3 {
				c.Sample(script)
			}
		},
	})
}
