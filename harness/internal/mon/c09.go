package mon

import (
	"bytes"
	"fmt"
	"hash/fnv"
	"os"
	"runtime"
	"sort"
	"strings"
	"sync"
	"time"

	"diagonal.works/b6/encoding"
	"verif/internal/core"
)

// C09 Low-level binary containers are lossless.
//
// Oracle: the written data itself, kept in plain Go values (slices, maps). Each
// case writes one container through the exported API of package encoding and
// reads everything back through every exported read path.
//
// The case index selects the container (index % 5), so every container gets the
// same share of every tier:
//   0 delta/zigzag coded integer sequences   3 string tables (+ HashString)
//   1 MarshalUint64 / Uint64Length           4 Uint64Map
//   2 ByteArraysBuilder / ByteArrays

var c09watchdog sync.Once

// c09memoryWatchdog ends the child process when its heap passes limit bytes. A
// decoder that has lost its place in the bytes (a broken codec) can read a
// garbage length and allocate without bound; the cases of C09 and C11 are a few
// kilobytes, so a heap of gigabytes is never legitimate. The message has the
// shape of a runtime fatal error, so the parent reports the case that was
// running as crash@<innermost b6 frame>.
func c09memoryWatchdog(limit uint64) {
	c09watchdog.Do(func() {
		go func() {
			var ms runtime.MemStats
			for {
				time.Sleep(200 * time.Millisecond)
				runtime.ReadMemStats(&ms)
				if ms.HeapAlloc > limit {
					stacks := make([]byte, 1<<20)
					stacks = stacks[:runtime.Stack(stacks, true)]
					// the goroutine doing the allocating comes first for the parent's frame search
					fmt.Fprintf(os.Stderr, "fatal error: memory watchdog: heap of %d MiB while handling a record of a few kilobytes\n\n%s\n", ms.HeapAlloc>>20, c09runningFirst(string(stacks)))
					os.Exit(2)
				}
			}
		}()
	})
}

// c09runningFirst moves the goroutines that have a b6 frame and are not this
// watchdog to the front of a goroutine dump.
func c09runningFirst(dump string) string {
	blocks := strings.Split(dump, "\n\n")
	var first, rest []string
	for _, b := range blocks {
		if strings.Contains(b, "diagonal.works/b6") {
			first = append(first, b)
		} else {
			rest = append(rest, b)
		}
	}
	return strings.Join(append(first, rest...), "\n\n")
}

func c09hostile(r *core.R) uint64 {
	switch r.Intn(12) {
	case 0:
		return 0
	case 1:
		return ^uint64(0)
	case 2:
		return 1 << 63
	case 3:
		return 1 << 62
	case 4:
		return 1<<63 - 1
	case 5:
		return 1 << uint(r.Intn(64))
	case 6:
		return 1<<uint(r.Intn(64)) - 1
	case 7:
		return uint64(r.Intn(1000))
	case 8:
		return 1<<63 | uint64(r.Intn(16))
	case 9:
		return ^uint64(0) - uint64(r.Intn(16))
	default:
		return r.U64()
	}
}

func c09bytes(r *core.R, n int) []byte {
	b := make([]byte, n)
	for i := 0; i < n; i += 8 {
		v := r.U64()
		for j := 0; j < 8 && i+j < n; j++ {
			b[i+j] = byte(v >> (8 * uint(j)))
		}
	}
	return b
}

func c09digest(parts ...[]byte) uint64 {
	h := fnv.New64a()
	for _, p := range parts {
		h.Write([]byte{byte(len(p)), byte(len(p) >> 8), byte(len(p) >> 16)})
		h.Write(p)
	}
	return h.Sum64()
}

// c09split cuts b into 1..4 consecutive pieces (some possibly empty).
func c09split(r *core.R, b []byte) [][]byte {
	n := r.Range(1, 4)
	cuts := make([]int, 0, n+1)
	cuts = append(cuts, 0)
	for i := 1; i < n; i++ {
		cuts = append(cuts, r.Intn(len(b)+1))
	}
	cuts = append(cuts, len(b))
	sort.Ints(cuts)
	out := make([][]byte, 0, n)
	for i := 0; i+1 < len(cuts); i++ {
		out = append(out, b[cuts[i]:cuts[i+1]])
	}
	return out
}

// ---------------------------------------------------------------------------
// 0: integer sequences

func c09ints(c *core.Ctx) {
	r := c.R
	n := r.ExpInt(40)
	if r.Chance(0.7) && n < 2 {
		n = r.Range(2, 6)
	}
	vs := make([]uint64, n)
	for i := range vs {
		switch r.Intn(4) {
		case 0:
			if i > 0 { // small step from the previous value, either way
				vs[i] = vs[i-1] + uint64(int64(r.Range(-5, 5)))
				continue
			}
			fallthrough
		default:
			vs[i] = c09hostile(r)
		}
	}
	c.Key("ints %v", vs)
	if n >= 2 {
		c.Nontrivial()
	}
	if c.Index < 5 {
		c.Sample(map[string]any{"kind": "ints", "values": fmt.Sprint(vs)})
	}
	last := uint64(0)
	class := ""
	for _, v := range vs {
		d := int64(v - last)
		mag := uint64(d)
		if d < 0 {
			mag = uint64(-d) // MinInt64 stays 2^63
		}
		if mag >= 1<<63 {
			c.Count("ints_delta_ge_2_63")
			class = ":|delta|>=2^62"
		} else if mag >= 1<<62 {
			c.Count("ints_delta_ge_2_62")
			class = ":|delta|>=2^62"
		}
		last = v
	}

	// --- uint64 sequences
	buffer := bytes.Repeat([]byte{0xa5}, 10*n+16)
	w := encoding.MarshalDeltaCodedUint64s(vs, buffer)
	for _, dirty := range []bool{false, true} {
		var into []uint64
		if dirty {
			into = []uint64{7, 7, 7, 7, 7, 7, 7, 7, 7, 7, 7, 7}
		}
		got, rd := encoding.UnmarshalDeltaCodedUint64(into, n, append([]byte(nil), buffer[:w]...))
		c.Count("ints_uint64_sequences")
		if rd != w {
			c.Violate("DeltaCodedUint64s:consumed-differs"+class, nil, "%v: wrote %d bytes, reading consumed %d", vs, w, rd)
		}
		if !c09equalU64(got, vs) {
			c.Violate("DeltaCodedUint64s:wrong-values"+class, map[string]any{"written": fmt.Sprint(vs), "read": fmt.Sprint(got)},
				"wrote %v, read back %v", vs, got)
		}
	}

	// --- int sequences (same bit patterns as ints)
	is := make([]int, n)
	for i, v := range vs {
		is[i] = int(v)
	}
	for i := range buffer {
		buffer[i] = 0x5a
	}
	w = encoding.MarshalDeltaCodedInts(is, buffer)
	for _, dirty := range []bool{false, true} {
		var into []int
		if dirty {
			into = []int{7, 7, 7, 7, 7, 7, 7, 7, 7, 7, 7, 7}
		}
		got, rd := encoding.UnmarshalDeltaCodedInts(into, n, append([]byte(nil), buffer[:w]...))
		c.Count("ints_int_sequences")
		if rd != w {
			c.Violate("DeltaCodedInts:consumed-differs"+class, nil, "%v: wrote %d bytes, reading consumed %d", is, w, rd)
		}
		same := len(got) == len(is)
		for i := 0; same && i < len(is); i++ {
			same = got[i] == is[i]
		}
		if !same {
			c.Violate("DeltaCodedInts:wrong-values"+class, map[string]any{"written": fmt.Sprint(is), "read": fmt.Sprint(got)},
				"wrote %v, read back %v", is, got)
		}
	}

	// --- plain zigzag coded values
	for _, v := range vs {
		x := int64(v)
		cls := ""
		if x >= 1<<62 || x < -(1<<62) {
			cls = ":|v|>=2^62"
			c.Count("zigzag_abs_ge_2_62")
		}
		if got := encoding.ZigzagDecode(encoding.ZigzagEncode(x)); got != x {
			c.Violate("Zigzag:decode(encode)-differs"+cls, nil, "ZigzagDecode(ZigzagEncode(%d)) = %d", x, got)
		}
	}
}

func c09equalU64(a, b []uint64) bool {
	if len(a) != len(b) {
		return false
	}
	for i := range a {
		if a[i] != b[i] {
			return false
		}
	}
	return true
}

// ---------------------------------------------------------------------------
// 1: fixed width integers

func c09fixed(c *core.Ctx) {
	r := c.R
	n := r.Range(1, 8)
	vs := make([]uint64, n)
	for i := range vs {
		vs[i] = c09hostile(r)
		if r.Chance(0.3) { // byte boundaries
			k := uint(8 * r.Range(1, 8))
			if k == 64 {
				vs[i] = ^uint64(0) - uint64(r.Intn(2))
			} else {
				vs[i] = (uint64(1) << k) - 1 + uint64(r.Intn(2))
			}
		}
	}
	c.Key("fixed %v", vs)
	c.Nontrivial()
	if c.Index < 5 {
		c.Sample(map[string]any{"kind": "fixed", "values": fmt.Sprint(vs)})
	}
	for _, v := range vs {
		// the definition: the least number of bytes (at least 1) that hold v
		want := 1
		for want < 8 && v>>(8*uint(want)) != 0 {
			want++
		}
		l := encoding.Uint64Length(v)
		c.Count("fixed_values")
		if l != want {
			c.Violate("Uint64Length:wrong", nil, "Uint64Length(%#x) = %d, the value needs %d bytes", v, l, want)
			if l < 1 || l > 8 {
				continue
			}
		}
		if want == 8 {
			c.Count("fixed_8_bytes")
		}
		// every width from the minimal one up to 8 must hold it (ByteArrays
		// writes all its pointers at the width of the largest one)
		for width := l; width <= 8; width++ {
			buffer := bytes.Repeat([]byte{0xa5}, 12)
			encoding.MarshalUint64(v, width, buffer)
			for i := width; i < len(buffer); i++ {
				if buffer[i] != 0xa5 {
					c.Violate("MarshalUint64:writes-beyond-length", nil, "MarshalUint64(%#x, %d) changed byte %d", v, width, i)
					break
				}
			}
			if got := encoding.UnmarshalUint64(width, buffer[:width:width]); got != v {
				c.Violate("MarshalUint64:wrong-value", nil, "MarshalUint64(%#x, %d) read back as %#x", v, width, got)
			}
		}
	}
}

// ---------------------------------------------------------------------------
// 2: byte arrays

type c09chunk struct {
	item int
	data []byte
}

func c09arrays(c *core.Ctx) {
	r := c.R
	n := r.ExpInt(24)
	if n < 2 && r.Chance(0.8) {
		n = r.Range(2, 8)
	}
	items := make([][]byte, n)
	total := 0
	big := r.Chance(0.03) // pointer width 3
	for i := range items {
		l := 0
		switch r.Intn(6) {
		case 0:
			l = 0
		case 1:
			l = 1
		case 2:
			l = r.Range(100, 300) // pointer width 2 once a few have accumulated
		default:
			l = r.ExpInt(40)
		}
		if big && i == n/2 {
			l = 66000
		}
		items[i] = c09bytes(r, l)
		total += l
	}
	// totals exactly on, one below and one above the pointer-width boundaries
	// 2^8 and 2^16: where the width of an offset changes (a 2^24 total costs minutes per case on a loaded machine and is left out)
	if r.Chance(0.15) && n > 0 {
		target := core.Pick(r, []int{255, 256, 257, 65535, 65536, 65537})
		last := n - 1
		if rest := total - len(items[last]); rest <= target {
			items[last] = c09bytes(r, target-rest)
			total = target
			c.Count("arrays_total_on_width_boundary")
		}
	}
	// reservations: each item's length in 1..3 parts, all parts shuffled
	type reservation struct{ item, length int }
	var reservations []reservation
	for i, it := range items {
		if len(it) == 0 && r.Bool() {
			continue // an item that is never reserved stays empty
		}
		rest := len(it)
		for p := r.Range(1, 3); p > 1 && rest > 0; p-- {
			l := r.Intn(rest + 1)
			reservations = append(reservations, reservation{i, l})
			rest -= l
		}
		reservations = append(reservations, reservation{i, rest})
	}
	core.Shuffle(r, reservations)
	// writes: each item cut in consecutive chunks; chunks of one item stay in order
	var chunks []c09chunk
	for i, it := range items {
		if len(it) == 0 && r.Bool() {
			continue
		}
		for _, piece := range c09split(r, it) {
			chunks = append(chunks, c09chunk{i, piece})
		}
	}
	// interleave the items' chunk lists randomly, keeping per-item order
	order := make([]int, len(chunks))
	for i := range order {
		order[i] = chunks[i].item
	}
	core.Shuffle(r, order)
	next := map[int]int{}
	byItem := map[int][]c09chunk{}
	for _, ch := range chunks {
		byItem[ch.item] = append(byItem[ch.item], ch)
	}
	var writes []c09chunk
	for _, item := range order {
		writes = append(writes, byItem[item][next[item]])
		next[item]++
	}
	goroutines := 1
	if r.Chance(0.5) {
		goroutines = r.Range(2, 8)
	}
	offset := encoding.Offset(0)
	if r.Bool() {
		offset = encoding.Offset(r.Range(1, 70))
	}
	explicitFinish := r.Bool()
	c.Key("arrays n=%d goroutines=%d offset=%d finish=%v reservations=%v items=%x", n, goroutines, offset, explicitFinish, reservations, c09digest(items...))
	if n >= 2 && total > 0 {
		c.Nontrivial()
	}
	if c.Index < 5 {
		c.Sample(map[string]any{"kind": "arrays", "items": n, "bytes": total, "goroutines": goroutines, "reservations": len(reservations), "writes": len(writes)})
	}

	b := encoding.NewByteArraysBuilder(n)
	if goroutines == 1 {
		for _, rs := range reservations {
			b.Reserve(rs.item, rs.length)
		}
	} else {
		c.Count("arrays_parallel_reserve")
		var wg sync.WaitGroup
		for g := 0; g < goroutines; g++ {
			wg.Add(1)
			go func(g int) {
				defer wg.Done()
				for i := g; i < len(reservations); i += goroutines {
					b.Reserve(reservations[i].item, reservations[i].length)
				}
			}(g)
		}
		wg.Wait()
	}
	if explicitFinish {
		b.FinishReservation()
	}
	buffer := encoding.NewBufferWithData(nil)
	end, err := b.WriteHeader(buffer, offset)
	if err != nil {
		c.Violate("ByteArraysBuilder.WriteHeader:error", nil, "WriteHeader: %v", err)
		return
	}
	if goroutines == 1 {
		for _, wr := range writes {
			if r.Bool() {
				err = b.WriteItem(buffer, wr.item, wr.data)
			} else {
				err = b.WriteItem(buffer, wr.item, c09split(r, wr.data)...)
				c.Count("arrays_multi_buffer_write")
			}
			if err != nil {
				c.Violate("ByteArraysBuilder.WriteItem:error", nil, "WriteItem: %v", err)
				return
			}
		}
	} else {
		// each item is written by one goroutine (the order of the chunks of an
		// item is part of its content), different items concurrently
		c.Count("arrays_parallel_write")
		var wg sync.WaitGroup
		errs := make([]error, goroutines)
		for g := 0; g < goroutines; g++ {
			wg.Add(1)
			go func(g int) {
				defer wg.Done()
				for _, wr := range writes {
					if wr.item%goroutines == g {
						if err := b.WriteItem(buffer, wr.item, wr.data); err != nil {
							errs[g] = err
						}
					}
				}
			}(g)
		}
		wg.Wait()
		for _, err := range errs {
			if err != nil {
				c.Violate("ByteArraysBuilder.WriteItem:error", nil, "WriteItem: %v", err)
				return
			}
		}
	}
	if total > 255 {
		c.Count("arrays_pointer_width_ge_2")
	}
	if total > 65535 {
		c.Count("arrays_pointer_width_ge_3")
	}
	if bl := b.Length(); bl != end.Difference(offset) {
		c.Violate("ByteArraysBuilder.Length:differs-from-written", nil, "Length() = %d, WriteHeader returned an end %d bytes after the start", bl, end.Difference(offset))
	}
	data := buffer.Bytes()
	if len(data) < int(end) {
		// trailing empty items are never written; the reader needs the reserved region
		data = append(data, make([]byte, int(end)-len(data))...)
	} else if len(data) > int(end) {
		c.Violate("ByteArraysBuilder:writes-beyond-end", nil, "wrote %d bytes, the end offset is %d", len(data), end)
	}
	a := encoding.NewByteArrays(data[offset:int(end):int(end)])
	if a.NumItems() != n {
		c.Violate("ByteArrays.NumItems:wrong", nil, "NumItems() = %d, wrote %d", a.NumItems(), n)
		return
	}
	if al := a.Length(); al != end.Difference(offset) {
		c.Violate("ByteArrays.Length:wrong", nil, "Length() = %d, wrote %d bytes", al, end.Difference(offset))
	}
	longest := 0
	for i, it := range items {
		if len(it) > longest {
			longest = len(it)
		}
		c.Count("arrays_items_read")
		if got := a.Item(i); !bytes.Equal(got, it) {
			c.Violate("ByteArrays.Item:wrong-bytes", map[string]any{"item": i, "written": fmt.Sprintf("%x", c09clipBytes(it)), "read": fmt.Sprintf("%x", c09clipBytes(got))},
				"item %d of %d: wrote %d bytes, read %d bytes that differ", i, n, len(it), len(got))
			break
		}
	}
	if a.MaxItemLength() != longest {
		c.Violate("ByteArrays.MaxItemLength:wrong", nil, "MaxItemLength() = %d, longest item written has %d bytes", a.MaxItemLength(), longest)
	}
}

func c09clipBytes(b []byte) []byte {
	if len(b) > 64 {
		return b[:64]
	}
	return b
}

// ---------------------------------------------------------------------------
// 3: string tables

func c09string(r *core.R) string {
	switch r.Intn(9) {
	case 0:
		return ""
	case 1:
		return string([]byte{byte(r.Intn(256))})
	case 2:
		return string(c09bytes(r, r.Range(200, 1500))) // long, arbitrary bytes
	case 3:
		return string([]byte{0xff, 0xfe, 0x00, 0x80}[:r.Range(1, 4)]) // not UTF-8, NUL
	case 4:
		return "héllo wörld ✓"[:r.Range(1, 17)] // may cut a rune
	default:
		words := []string{"highway", "name", "amenity", "building", "yes", "no", "primary", "a", "ab"}
		s := core.Pick(r, words)
		if r.Bool() {
			s += fmt.Sprint(r.Intn(30))
		}
		return s
	}
}

func c09strings(c *core.Ctx) {
	r := c.R
	n := r.ExpInt(30)
	if n < 2 && r.Chance(0.8) {
		n = r.Range(2, 6)
	}
	counts := map[string]int{}
	var distinct []string
	for i := 0; i < n; i++ {
		s := c09string(r)
		if _, ok := counts[s]; !ok {
			distinct = append(distinct, s)
		}
		counts[s] += 1
		if r.Chance(0.4) {
			counts[s] += r.Range(1, 4) // duplicates; several strings share a count
		}
	}
	var adds []string
	for _, s := range distinct {
		for i := 0; i < counts[s]; i++ {
			adds = append(adds, s)
		}
	}
	core.Shuffle(r, adds)
	goroutines := 1
	if r.Chance(0.3) {
		goroutines = r.Range(2, 6)
	}
	offset := encoding.Offset(0)
	if r.Bool() {
		offset = encoding.Offset(r.Range(1, 40))
	}
	{
		var parts [][]byte
		for _, s := range adds {
			parts = append(parts, []byte(s))
		}
		c.Key("strings goroutines=%d offset=%d adds=%d/%x", goroutines, offset, len(adds), c09digest(parts...))
	}
	if len(distinct) >= 2 {
		c.Nontrivial()
	}
	if c.Index < 5 {
		c.Sample(map[string]any{"kind": "strings", "distinct": len(distinct), "adds": len(adds), "goroutines": goroutines})
	}

	// HashString is documented as FNV-1a; it reads the string through unsafe
	// pointers, so it is exercised with empty, 1-byte and long strings (the
	// thorough tier runs under checkptr).
	for _, s := range distinct {
		h := fnv.New64a()
		h.Write([]byte(s))
		c.Count("strings_hashed")
		if len(s) == 0 {
			c.Count("strings_hashed_empty")
		}
		if got := encoding.HashString(s); got != h.Sum64() {
			c.Violate("HashString:not-fnv1a", nil, "HashString(%q) = %#x, FNV-1a is %#x", c09clipString(s), got, h.Sum64())
		}
	}

	b := encoding.NewStringTableBuilder()
	if goroutines == 1 {
		for _, s := range adds {
			b.Add(s)
		}
	} else {
		c.Count("strings_parallel_add")
		var wg sync.WaitGroup
		for g := 0; g < goroutines; g++ {
			wg.Add(1)
			go func(g int) {
				defer wg.Done()
				for i := g; i < len(adds); i += goroutines {
					b.Add(adds[i])
				}
			}(g)
		}
		wg.Wait()
	}
	if b.NumStrings() != len(distinct) {
		c.Violate("StringTableBuilder.NumStrings:wrong", nil, "NumStrings() = %d, added %d distinct strings", b.NumStrings(), len(distinct))
	}
	buffer := encoding.NewBufferWithData(nil)
	end, err := b.Write(buffer, offset)
	if err != nil {
		c.Violate("StringTableBuilder.Write:error", nil, "Write: %v", err)
		return
	}
	if b.Length() != end.Difference(offset) {
		c.Violate("StringTableBuilder.Length:differs-from-written", nil, "Length() = %d, Write returned an end %d bytes after the start", b.Length(), end.Difference(offset))
	}
	data := buffer.Bytes()
	if len(data) < int(end) {
		data = append(data, make([]byte, int(end)-len(data))...)
	} else if len(data) > int(end) {
		c.Violate("StringTableBuilder:writes-beyond-end", nil, "wrote %d bytes, the end offset is %d", len(data), end)
	}
	t := encoding.NewStringTable(data[offset:int(end):int(end)])
	used := map[int]string{}
	ordered := true
	byIndex := make([]string, len(distinct))
	for _, s := range distinct {
		i := b.Lookup(s)
		if i < 0 || i >= len(distinct) {
			c.Violate("StringTableBuilder.Lookup:index-out-of-range", nil, "Lookup(%q) = %d with %d strings", c09clipString(s), i, len(distinct))
			return
		}
		if other, ok := used[i]; ok {
			c.Violate("StringTableBuilder.Lookup:index-shared", nil, "%q and %q both have index %d", c09clipString(s), c09clipString(other), i)
			return
		}
		used[i] = s
		byIndex[i] = s
		c.Count("strings_read")
		if got := t.Lookup(i); got != s {
			c.Violate("StringTable.Lookup:wrong-string", map[string]any{"written": c09clipString(s), "read": c09clipString(got)},
				"string %d: wrote %q (%d bytes), read %q (%d bytes)", i, c09clipString(s), len(s), c09clipString(got), len(got))
		}
		if !t.Equal(i, s) {
			c.Violate("StringTable.Equal:false-for-written", nil, "Equal(%d, %q) is false", i, c09clipString(s))
		}
		// near misses: same length with the last byte changed, one byte shorter, one byte longer
		var others []string
		if len(s) > 0 {
			bs := []byte(s)
			bs[len(bs)-1] ^= 0x01
			others = append(others, string(bs), s[:len(s)-1])
			bs = []byte(s)
			bs[0] ^= 0x80
			others = append(others, string(bs))
		}
		others = append(others, s+"\x00", s+"a")
		for _, o := range others {
			c.Count("strings_equal_near_miss")
			if t.Equal(i, o) {
				c.Violate("StringTable.Equal:true-for-different", nil, "Equal(%d, %q) is true, the string written is %q", i, c09clipString(o), c09clipString(s))
			}
		}
	}
	for i := 1; i < len(byIndex); i++ {
		if counts[byIndex[i-1]] < counts[byIndex[i]] {
			ordered = false
		}
	}
	if ordered && len(byIndex) >= 2 && counts[byIndex[0]] > counts[byIndex[len(byIndex)-1]] {
		c.Count("strings_frequency_ordered")
	}
}

func c09clipString(s string) string {
	if len(s) > 48 {
		return s[:48] + "…"
	}
	return s
}

// ---------------------------------------------------------------------------
// 4: Uint64Map

type c09entry struct {
	id   uint64
	tag  encoding.Tag
	data []byte
}

func c09render(tag encoding.Tag, data []byte) string { return fmt.Sprintf("%d:%x", int(tag), data) }

func c09renderAll(es []c09entry) []string {
	out := make([]string, len(es))
	for i, e := range es {
		out[i] = c09render(e.tag, e.data)
	}
	sort.Strings(out)
	return out
}

func c09renderTagged(ts []encoding.Tagged) []string {
	out := make([]string, len(ts))
	for i, t := range ts {
		out[i] = c09render(t.Tag, t.Data)
	}
	sort.Strings(out)
	return out
}

func c09same(a, b []string) bool {
	if len(a) != len(b) {
		return false
	}
	for i := range a {
		if a[i] != b[i] {
			return false
		}
	}
	return true
}

func c09map(c *core.Ctx) {
	r := c.R
	bucketBits := r.Range(1, 12)
	tagBits := r.Range(0, 4)
	if r.Chance(0.25) { // the small layouts, where buckets are crowded
		bucketBits = r.Range(1, 3)
	}
	wideTags := r.Chance(0.2) // layouts whose tags need more than one header byte
	if wideTags {
		tagBits = r.Range(5, 12)
		c.Count("map_wide_tags")
	}
	// ID pool: hostile values and relatives of them that share a bucket or
	// differ only in high bits
	var pool []uint64
	for n := r.Range(1, 6); n > 0; n-- {
		id := c09hostile(r)
		pool = append(pool, id)
		if r.Bool() {
			pool = append(pool, id^(1<<63))
		}
		if r.Bool() {
			pool = append(pool, id+uint64(r.Range(1, 3))<<uint(bucketBits)) // same bucket
		}
		if r.Chance(0.3) {
			pool = append(pool, id^(1<<uint(r.Range(56, 62))))
		}
	}
	// small IDs (below the number of buckets): the header then consists of the tag alone
	for n := r.Range(0, 3); n > 0; n-- {
		pool = append(pool, uint64(r.Intn(1<<uint(bucketBits))))
	}
	{ // de-duplicate, keeping order
		seen := map[uint64]bool{}
		out := pool[:0]
		for _, id := range pool {
			if !seen[id] {
				seen[id] = true
				out = append(out, id)
			}
		}
		pool = out
	}
	n := r.Range(1, 40)
	entries := make([]c09entry, n)
	expected := map[uint64][]c09entry{}
	var ids []uint64 // in order of first use
	for i := range entries {
		id := core.Pick(r, pool)
		if r.Chance(0.3) && i > 0 {
			id = entries[i-1].id // many entries per ID
		}
		l := r.ExpInt(24)
		if r.Chance(0.05) {
			l = r.Range(128, 400) // two-byte length varint
		}
		e := c09entry{id: id, tag: encoding.Tag(r.Intn(1 << uint(tagBits))), data: c09bytes(r, l)}
		if wideTags && r.Bool() { // the largest tags of the layout
			e.tag = encoding.Tag((1 << uint(tagBits)) - 1 - r.Intn(4))
		}
		if r.Chance(0.15) && i > 0 {
			e.tag, e.data = entries[i-1].tag, entries[i-1].data // exact duplicates
		}
		entries[i] = e
		if _, ok := expected[id]; !ok {
			ids = append(ids, id)
		}
		expected[id] = append(expected[id], e)
	}
	reserveOrder := r.Perm(n)
	writeOrder := r.Perm(n)
	goroutines := 1
	if r.Chance(0.4) {
		goroutines = r.Range(2, 8)
	}
	offset := encoding.Offset(0)
	if r.Bool() {
		offset = encoding.Offset(r.Range(1, 40))
	}
	eachGoroutines := r.Range(1, 8)
	{
		var sb strings.Builder
		for _, e := range entries {
			fmt.Fprintf(&sb, "%x/%d/%x ", e.id, int(e.tag), c09digest(e.data))
		}
		c.Key("map bb=%d tb=%d g=%d/%d off=%d ro=%v wo=%v %s", bucketBits, tagBits, goroutines, eachGoroutines, offset, reserveOrder, writeOrder, sb.String())
	}
	if n >= 2 {
		c.Nontrivial()
	}
	if c.Index < 5 {
		c.Sample(map[string]any{"kind": "map", "bucketBits": bucketBits, "tagBits": tagBits, "entries": n, "ids": fmt.Sprintf("%x", ids), "goroutines": goroutines})
	}
	class := ""
	if bucketBits < tagBits {
		class = ":bucketBits<tagBits"
		c.Count("map_layout_bucketbits_lt_tagbits")
	}
	high := false
	for _, id := range ids {
		if id>>63 == 1 {
			high = true
		}
	}
	if high {
		c.Count("map_id_bit63")
		if bucketBits < tagBits {
			c.Count("map_id_bit63_bucketbits_lt_tagbits")
		}
	}

	b := encoding.NewUint64MapBuilder(bucketBits, tagBits)
	run := func(order []int, f func(e c09entry) error) error {
		if goroutines == 1 {
			for _, i := range order {
				if err := f(entries[i]); err != nil {
					return err
				}
			}
			return nil
		}
		var wg sync.WaitGroup
		errs := make([]error, goroutines)
		for g := 0; g < goroutines; g++ {
			wg.Add(1)
			go func(g int) {
				defer wg.Done()
				for j := g; j < len(order); j += goroutines {
					if err := f(entries[order[j]]); err != nil {
						errs[g] = err
					}
				}
			}(g)
		}
		wg.Wait()
		for _, err := range errs {
			if err != nil {
				return err
			}
		}
		return nil
	}
	if goroutines > 1 {
		c.Count("map_parallel_build")
	}
	run(reserveOrder, func(e c09entry) error { b.Reserve(e.id, e.tag, len(e.data)); return nil })
	if r.Bool() {
		b.FinishReservation()
	}
	buffer := encoding.NewBufferWithData(nil)
	end, err := b.WriteHeader(buffer, offset)
	if err != nil {
		c.Violate("Uint64MapBuilder.WriteHeader:error", nil, "WriteHeader: %v", err)
		return
	}
	if err := run(writeOrder, func(e c09entry) error { return b.WriteItem(e.id, e.tag, e.data, buffer) }); err != nil {
		c.Violate("Uint64MapBuilder.WriteItem:error", nil, "WriteItem: %v", err)
		return
	}
	if bl := b.Length(); bl != end.Difference(offset) {
		c.Violate("Uint64MapBuilder.Length:differs-from-written", nil, "Length() = %d, WriteHeader returned an end %d bytes after the start", bl, end.Difference(offset))
	}
	data := buffer.Bytes()
	if len(data) < int(end) {
		data = append(data, make([]byte, int(end)-len(data))...)
	} else if len(data) > int(end) {
		c.Violate("Uint64MapBuilder:writes-beyond-end", nil, "wrote %d bytes, the end offset is %d", len(data), end)
	}
	m := encoding.NewUint64Map(data[offset:int(end):int(end)])
	if ml := m.Length(); ml != end.Difference(offset) {
		c.Violate("Uint64Map.Length:wrong", nil, "Length() = %d, wrote %d bytes", ml, end.Difference(offset))
	}
	witness := func(id uint64) map[string]any {
		return map[string]any{"bucketBits": bucketBits, "tagBits": tagBits, "id": fmt.Sprintf("%#x", id), "ids": fmt.Sprintf("%x", ids), "written_under_id": c09renderAll(expected[id])}
	}

	// --- lookups of present and absent IDs
	probes := append([]uint64(nil), ids...)
	for _, id := range ids {
		for _, p := range []uint64{id ^ (1 << 63), id ^ (1 << 62), id ^ (1 << uint(bucketBits)), id ^ 1, id ^ (1 << uint(r.Intn(64)))} {
			if _, ok := expected[p]; !ok {
				probes = append(probes, p)
			}
		}
	}
	for _, id := range probes {
		want := c09renderAll(expected[id])
		present := len(want) > 0
		if present {
			c.Count("map_lookup_present")
			if len(want) >= 2 {
				c.Count("map_lookup_many_entries_per_id")
			}
		} else {
			c.Count("map_lookup_absent")
		}
		var into []encoding.Tagged
		if r.Bool() {
			into = make([]encoding.Tagged, 0, 4)
		}
		if got := c09renderTagged(m.FillTagged(id, into)); !c09same(got, want) {
			sig := "Uint64Map.FillTagged:wrong-entries"
			if !present {
				sig = "Uint64Map.FillTagged:entries-for-absent-id"
			}
			c.Violate(sig+class, witness(id), "FillTagged(%#x) with bucketBits %d tagBits %d returned %v, written under that ID: %v", id, bucketBits, tagBits, got, want)
		}
		first, ok := m.FindFirst(id)
		switch {
		case ok != present && present:
			c.Violate("Uint64Map.FindFirst:missing"+class, witness(id), "FindFirst(%#x) with bucketBits %d tagBits %d found nothing, %d entries were written under that ID", id, bucketBits, tagBits, len(want))
		case ok != present:
			c.Violate("Uint64Map.FindFirst:found-absent-id"+class, witness(id), "FindFirst(%#x) with bucketBits %d tagBits %d returned %s, nothing was written under that ID", id, bucketBits, tagBits, c09render(first.Tag, first.Data))
		case present:
			if !c09contains(want, c09render(first.Tag, first.Data)) {
				c.Violate("Uint64Map.FindFirst:wrong-entry"+class, witness(id), "FindFirst(%#x) returned %s, written under that ID: %v", id, c09render(first.Tag, first.Data), want)
			}
		}
		for tag := encoding.Tag(0); tag < 1<<uint(tagBits); tag++ {
			var wantData []string
			for _, e := range expected[id] {
				if e.tag == tag {
					wantData = append(wantData, fmt.Sprintf("%x", e.data))
				}
			}
			got := m.FindFirstWithTag(id, tag)
			c.Count("map_find_with_tag")
			switch {
			case got == nil && len(wantData) > 0:
				c.Violate("Uint64Map.FindFirstWithTag:missing"+class, witness(id), "FindFirstWithTag(%#x, %d) with bucketBits %d tagBits %d found nothing, written: %v", id, int(tag), bucketBits, tagBits, wantData)
			case got != nil && len(wantData) == 0:
				c.Violate("Uint64Map.FindFirstWithTag:found-absent"+class, witness(id), "FindFirstWithTag(%#x, %d) returned %x, nothing was written under that ID and tag", id, int(tag), got)
			case got != nil:
				if !c09contains(wantData, fmt.Sprintf("%x", got)) {
					c.Violate("Uint64Map.FindFirstWithTag:wrong-entry"+class, witness(id), "FindFirstWithTag(%#x, %d) returned %x, written: %v", id, int(tag), got, wantData)
				}
			}
		}
	}

	// --- iteration: every ID once, with all its entries
	check := func(op string, seen map[uint64][][]string) {
		for id, visits := range seen {
			if _, ok := expected[id]; !ok {
				c.Violate("Uint64Map."+op+":visits-unwritten-id"+class, witness(id), "%s visited ID %#x (entries %v), which was never written; bucketBits %d tagBits %d", op, id, visits, bucketBits, tagBits)
				continue
			}
			if len(visits) != 1 {
				c.Violate("Uint64Map."+op+":id-visited-more-than-once"+class, witness(id), "%s visited ID %#x %d times: %v", op, id, len(visits), visits)
				continue
			}
			if want := c09renderAll(expected[id]); !c09same(visits[0], want) {
				c.Violate("Uint64Map."+op+":wrong-entries"+class, witness(id), "%s gave %v for ID %#x, written: %v", op, visits[0], id, want)
			}
		}
		for _, id := range ids {
			if _, ok := seen[id]; !ok {
				c.Violate("Uint64Map."+op+":id-not-visited"+class, witness(id), "%s never visited ID %#x (bucketBits %d tagBits %d)", op, id, bucketBits, tagBits)
			}
		}
	}
	{
		seen := map[uint64][][]string{}
		steps := 0
		for it := m.Begin(); it.Next(); {
			var es []string
			for i := 0; i < it.Len(); i++ {
				es = append(es, c09render(it.Tag(i), it.Data(i)))
			}
			sort.Strings(es)
			seen[it.ID()] = append(seen[it.ID()], es)
			steps++
			if steps > 4*n+8 {
				c.Violate("Uint64Map.Begin:iteration-does-not-end"+class, nil, "more than %d steps over %d entries", steps, n)
				break
			}
		}
		c.Count("map_iterations")
		check("Begin", seen)
	}
	{
		seen := map[uint64][][]string{}
		var lock sync.Mutex
		badGoroutine := -1
		err := m.EachItem(func(id uint64, tagged []encoding.Tagged, goroutine int) error {
			es := c09renderTagged(tagged)
			lock.Lock()
			seen[id] = append(seen[id], es)
			if goroutine < 0 || goroutine >= eachGoroutines {
				badGoroutine = goroutine
			}
			lock.Unlock()
			return nil
		}, eachGoroutines)
		c.Count("map_eachitem")
		if eachGoroutines > 1 {
			c.Count("map_eachitem_parallel")
		}
		if err != nil {
			c.Violate("Uint64Map.EachItem:error-without-failing-callback"+class, nil, "EachItem returned %v", err)
		}
		if badGoroutine != -1 {
			c.Violate("Uint64Map.EachItem:goroutine-index-out-of-range"+class, nil, "callback got goroutine %d with %d goroutines", badGoroutine, eachGoroutines)
		}
		check("EachItem", seen)
	}
}

func c09contains(xs []string, x string) bool {
	for _, y := range xs {
		if x == y {
			return true
		}
	}
	return false
}

func init() {
	core.Register(&core.Monitor{
		ID:        "C09",
		Title:     "Low-level binary containers are lossless",
		Technique: "write/read-back differential against the written Go values through every exported read path of package encoding, under the race detector (checkptr)",
		Rule: "case i exercises container i%5 (0 delta/zigzag integer sequences, 1 MarshalUint64/Uint64Length, 2 ByteArraysBuilder, 3 string table + HashString, 4 Uint64Map); " +
			"values are drawn from a hostile distribution (0, 2^62, 2^63, 2^64-1, single bits, masks, IDs that share a bucket or differ only in bit 63/62, empty/1-byte/long/non-UTF-8 strings, " +
			"random reservation/write orders, 1..8 goroutines, layouts bucketBits 1..12 x tagBits 0..12); distinct = distinct generated input and schedule parameters; " +
			"non-trivial = at least two values/items/strings/entries in the container",
		Assumptions: []string{
			"hash/fnv (standard library) is the reference for HashString",
			"encoding.Buffer is the io.WriterAt used (as the compact builder does in memory)",
			"entries under one ID are compared as a multiset: the map sorts buckets by ID with an unstable sort, order inside an ID is not promised",
			"FindFirst/FindFirstWithTag may return any entry written under the ID (and tag)",
			"EachItem is only given callbacks that succeed (failing callbacks are property C28)",
			"tags are < 2^tagBits (WriteItem rejects others)",
		},
		Quick: 3000, Thorough: 300000,
		Race: true, RaceThorough: true,
		CaseCap: 30 * time.Second,
		Setup:   func(string) { c09memoryWatchdog(3 << 30) },
		Required: []string{
			"ints_delta_ge_2_62", "ints_delta_ge_2_63", "zigzag_abs_ge_2_62", "fixed_8_bytes",
			"arrays_parallel_reserve", "arrays_parallel_write", "arrays_multi_buffer_write", "arrays_pointer_width_ge_2", "arrays_pointer_width_ge_3",
			"strings_hashed_empty", "strings_read", "strings_equal_near_miss", "strings_frequency_ordered",
			"map_id_bit63", "map_id_bit63_bucketbits_lt_tagbits", "map_lookup_many_entries_per_id", "map_lookup_absent",
			"map_find_with_tag", "map_iterations", "map_eachitem_parallel", "map_parallel_build", "map_wide_tags",
		},
		Run: func(c *core.Ctx) {
			switch c.Index % 5 {
			case 0:
				c09ints(c)
			case 1:
				c09fixed(c)
			case 2:
				c09arrays(c)
			case 3:
				c09strings(c)
			case 4:
				c09map(c)
			}
		},
	})
}
