package mon

import (
	"encoding/json"
	"fmt"
	"math"
	"sort"
	"strings"
	"sync"

	"diagonal.works/b6"
	"diagonal.works/b6/api"
	"diagonal.works/b6/ingest/compact"
	pb "diagonal.works/b6/proto"
	"google.golang.org/protobuf/proto"
	"gopkg.in/yaml.v2"
	"verif/internal/core"
)

// C31 Feature IDs survive every textual and wire encoding.
//
// Each case draws a handful of IDs and checks, for every valid one,
//   FeatureIDFromString(id.String()) == id   (with and without the leading /)
//   JSON, YAML (also as a struct field and list element), proto over the wire
//   UnparseFeatureID(id, true|false) -> ParseFeatureIDToken, and -> the shell
//   lexer and parser (ParseExpression) as a literal and as an argument
// and, for all of them (invalid ones included), that Less is a strict total
// order (irreflexive, asymmetric, trichotomous, transitive over every triple)
// that agrees with an independent (type, namespace, value) comparison and with
// the compact index: compact.FeatureIDs ordered on
// (CombineTypeAndNamespace(type, NamespaceTable.Encode(ns)), value), the table
// being filled by FillFromNamespaces from a shuffled namespace list.

type c31gen struct {
	r     *core.R
	sub   string
	kinds map[string]int
}

var c31values = []uint64{0, 1, 2, 63, 64, 1<<31 - 1, 1 << 31, 1<<31 + 1, 1<<32 - 1, 1 << 32, 1<<32 + 1, 1 << 62, 1<<63 - 1, 1 << 63, 1<<63 + 1, math.MaxUint64}
var c31types = []b6.FeatureType{b6.FeatureTypePoint, b6.FeatureTypePath, b6.FeatureTypeArea, b6.FeatureTypeRelation, b6.FeatureTypeCollection, b6.FeatureTypeExpression}
var c31namespaces = []b6.Namespace{b6.NamespaceOSMNode, b6.NamespaceOSMWay, b6.NamespaceOSMRelation, b6.NamespaceLatLng, b6.NamespaceGBUPRN, b6.NamespaceGBCodePoint, b6.NamespaceUKONSBoundaries,
	b6.NamespacePrivate, "example.com/a", "example.com/a/b/c", "example.com/a/1", "x", "a-b.c_d/e", "0", "123/456"}
var c31hostileNamespaces = []b6.Namespace{"a b", "ü/é", "a:b", "#x", "x//y", "trailing/", "/leading", "point", "a\nb", "- x", "'q'", "\"dq\"", "{y}", "a, b", "日本/語", " "}

func (g *c31gen) value() uint64 {
	if g.r.Chance(0.6) {
		return core.Pick(g.r, c31values)
	}
	return g.r.U64() >> uint(g.r.Intn(64))
}

func (g *c31gen) postcode() string {
	const alnum = "ABCDEFGHIJKLMNOPQRSTUVWXYZ0123456789"
	if g.r.Chance(0.3) {
		return core.Pick(g.r, []string{"N1C4AG", "SW1A1AA", "M11AE", "EH991SP", "00000", "ZZZZZZZ", "A0A0A", "9Z9Z9Z9"})
	}
	n := g.r.Range(5, 7)
	b := make([]byte, n)
	for i := range b {
		b[i] = alnum[g.r.Intn(len(alnum))]
	}
	return string(b)
}

func (g *c31gen) id() b6.FeatureID {
	switch k := g.r.Intn(20); {
	case k < 2:
		g.kinds["alias_codepoint"]++
		return b6.FeatureID{Type: b6.FeatureTypePoint, Namespace: b6.NamespaceGBCodePoint, Value: c31encodePostcode(g.postcode())}
	case k < 4:
		g.kinds["alias_ons"]++
		letter := core.Pick(g.r, []byte("EWSNKJLMezA"))
		number := core.Pick(g.r, []int{0, 1, 1000953, 6000015, 99999999, g.r.Intn(100000000)})
		year := core.Pick(g.r, []int{1900, 1999, 2011, 2021, 2155, 1900 + g.r.Intn(256)})
		return b6.FeatureID{Type: b6.FeatureTypeArea, Namespace: b6.NamespaceUKONSBoundaries, Value: uint64(letter)<<40 | uint64(year-1900)<<32 | uint64(number)}
	case k < 9:
		var id b6.FeatureID
		switch g.r.Intn(5) {
		case 0:
			id = b6.FeatureID{Type: b6.FeatureTypePoint, Namespace: b6.NamespaceOSMNode}
			g.kinds["alias_n"]++
		case 1:
			id = b6.FeatureID{Type: b6.FeatureTypePath, Namespace: b6.NamespaceOSMWay}
			g.kinds["alias_w"]++
		case 2:
			id = b6.FeatureID{Type: b6.FeatureTypeArea, Namespace: b6.NamespaceOSMWay}
			g.kinds["alias_a"]++
		case 3:
			id = b6.FeatureID{Type: b6.FeatureTypeRelation, Namespace: b6.NamespaceOSMRelation}
			g.kinds["alias_r"]++
		default:
			id = b6.FeatureID{Type: b6.FeatureTypePoint, Namespace: b6.NamespaceGBUPRN}
			g.kinds["alias_uprn"]++
		}
		id.Value = g.value()
		return id
	case k == 9 && g.sub == "invalid-ids":
		return core.Pick(g.r, []b6.FeatureID{b6.FeatureIDInvalid, {Type: b6.FeatureTypeInvalid, Namespace: "x", Value: g.value()}, {Type: b6.FeatureTypePoint, Namespace: "", Value: g.value()}})
	}
	ns := core.Pick(g.r, c31namespaces)
	if g.sub == "hostile-namespace" && g.r.Bool() {
		ns = core.Pick(g.r, c31hostileNamespaces)
		g.kinds["hostile_namespace"]++
	}
	t := core.Pick(g.r, c31types)
	if ns == b6.NamespaceGBCodePoint || ns == b6.NamespaceUKONSBoundaries {
		// arbitrary values under the two namespaces whose alias encodes a code:
		// only in their own sub-case (and never with the alias' type otherwise)
		if g.sub != "code-namespace-arbitrary-value" {
			if ns == b6.NamespaceGBCodePoint {
				t = b6.FeatureTypePath
			} else {
				t = b6.FeatureTypeRelation
			}
		} else {
			g.kinds["code_namespace_arbitrary"]++
		}
	}
	g.kinds["generic"]++
	if strings.Contains(string(ns), "/") {
		g.kinds["namespace_with_slash"]++
	}
	return b6.FeatureID{Type: t, Namespace: ns, Value: g.value()}
}

func c31lexable(ns b6.Namespace) bool {
	for _, r := range string(ns) {
		if !((r >= 'a' && r <= 'z') || (r >= 'A' && r <= 'Z') || (r >= '0' && r <= '9') || r == '.' || r == '-' || r == '/' || r == '_') {
			return false
		}
	}
	return ns != ""
}

func c31class(id b6.FeatureID) string {
	switch {
	case id.Namespace == b6.NamespaceGBCodePoint && id.Type == b6.FeatureTypePoint:
		return "codepoint"
	case id.Namespace == b6.NamespaceUKONSBoundaries && id.Type == b6.FeatureTypeArea:
		return "ons"
	case !c31lexable(id.Namespace):
		return "hostile-namespace"
	}
	for _, a := range []struct {
		t  b6.FeatureType
		ns b6.Namespace
		n  string
	}{{b6.FeatureTypePoint, b6.NamespaceOSMNode, "n"}, {b6.FeatureTypePath, b6.NamespaceOSMWay, "w"}, {b6.FeatureTypeArea, b6.NamespaceOSMWay, "a"}, {b6.FeatureTypeRelation, b6.NamespaceOSMRelation, "r"}, {b6.FeatureTypePoint, b6.NamespaceGBUPRN, "uprn"}} {
		if id.Type == a.t && id.Namespace == a.ns {
			return "alias-" + a.n
		}
	}
	return "generic"
}

// c31typeRank: the order of feature types, written out here.
func c31typeRank(t b6.FeatureType) int {
	switch t {
	case b6.FeatureTypePoint:
		return 0
	case b6.FeatureTypePath:
		return 1
	case b6.FeatureTypeArea:
		return 2
	case b6.FeatureTypeRelation:
		return 3
	case b6.FeatureTypeInvalid:
		return 4
	case b6.FeatureTypeCollection:
		return 5
	case b6.FeatureTypeExpression:
		return 6
	}
	return 100 + int(t)
}

func c31modelLess(a, b b6.FeatureID) bool {
	if ra, rb := c31typeRank(a.Type), c31typeRank(b.Type); ra != rb {
		return ra < rb
	}
	if a.Namespace != b.Namespace {
		return strings.Compare(string(a.Namespace), string(b.Namespace)) < 0
	}
	return a.Value < b.Value
}

type c31wrapper struct {
	ID   b6.FeatureID            `yaml:"id" json:"id"`
	List []b6.FeatureID          `yaml:"list" json:"list"`
	Map  map[string]b6.FeatureID `yaml:"map" json:"map"`
}

// c31roundTrips returns (signature, detail) of the first failing encoding.
func c31roundTrips(id b6.FeatureID, counts map[string]int, wrap bool) (string, string) {
	class := c31class(id)
	fail := func(enc string, format string, args ...any) (string, string) {
		return enc + ":" + class, fmt.Sprintf("%v: ", id) + fmt.Sprintf(format, args...)
	}
	// postcode and ONS ids: the encoders and decoders of ids.go
	if sig, d := c31codeChecks(id); sig != "" {
		return sig, d
	}
	if class == "codepoint" || class == "ons" {
		counts["code_"+class]++
	}
	// text
	s := id.String()
	if got := b6.FeatureIDFromString(s); got != id {
		return fail("string", "FeatureIDFromString(%q) = %#v", s, got)
	}
	if got := b6.FeatureIDFromString("/" + s); got != id {
		return fail("string", "FeatureIDFromString(%q) = %#v", "/"+s, got)
	}
	counts["string"]++
	// JSON
	j, err := json.Marshal(id)
	if err != nil {
		return fail("json", "Marshal: %v", err)
	}
	var fromJSON b6.FeatureID
	if err := json.Unmarshal(j, &fromJSON); err != nil || fromJSON != id {
		return fail("json", "%s came back as %#v (%v)", j, fromJSON, err)
	}
	w := c31wrapper{ID: id, List: []b6.FeatureID{id, id}, Map: map[string]b6.FeatureID{"k": id}}
	if j, err = json.Marshal(w); err != nil {
		return fail("json", "Marshal of a struct: %v", err)
	}
	var wj c31wrapper
	if err := json.Unmarshal(j, &wj); err != nil || wj.ID != id || len(wj.List) != 2 || wj.List[1] != id || wj.Map["k"] != id {
		return fail("json", "%s came back as %#v (%v)", j, wj, err)
	}
	counts["json"]++
	// YAML
	y, err := yaml.Marshal(id)
	if err != nil {
		return fail("yaml", "Marshal: %v", err)
	}
	var fromYAML b6.FeatureID
	if err := yaml.Unmarshal(y, &fromYAML); err != nil || fromYAML != id {
		return fail("yaml", "%q came back as %#v (%v)", y, fromYAML, err)
	}
	if wrap { // (as a field, list element and map value: once per case, YAML is the costly step)
		if y, err = yaml.Marshal(w); err != nil {
			return fail("yaml", "Marshal of a struct: %v", err)
		}
		var wy c31wrapper
		if err := yaml.Unmarshal(y, &wy); err != nil || wy.ID != id || len(wy.List) != 2 || wy.List[1] != id || wy.Map["k"] != id {
			return fail("yaml", "%q came back as %#v (%v)", y, wy, err)
		}
		counts["yaml_nested"]++
	}
	counts["yaml"]++
	// proto, over the wire
	p := b6.NewProtoFromFeatureID(id)
	wire, err := proto.Marshal(p)
	if err != nil {
		return fail("proto", "Marshal: %v", err)
	}
	var p2 pb.FeatureIDProto
	if err := proto.Unmarshal(wire, &p2); err != nil {
		return fail("proto", "Unmarshal: %v", err)
	}
	if got := b6.NewFeatureIDFromProto(&p2); got != id {
		return fail("proto", "came back as %#v", got)
	}
	if p2.Namespace != string(id.Namespace) || p2.Value != id.Value || p2.Type.String() != "FeatureType"+strings.ToUpper(id.Type.String()[:1])+id.Type.String()[1:] {
		return fail("proto", "proto fields %v do not say %v", &p2, id)
	}
	counts["proto"]++
	// shell
	for _, abbreviate := range []bool{true, false} {
		token := api.UnparseFeatureID(id, abbreviate)
		got, err := api.ParseFeatureIDToken(token)
		if err != nil || got != id {
			return fail(fmt.Sprintf("shell-token(abbreviate=%v)", abbreviate), "printed %q, ParseFeatureIDToken gives %#v (%v)", token, got, err)
		}
		if abbreviate {
			wantAlias := strings.HasPrefix(class, "alias-") || class == "codepoint" || class == "ons"
			isAlias := !strings.HasPrefix(token, "/"+id.Type.String()+"/")
			if wantAlias != isAlias {
				return fail("shell-alias-choice", "printed %q (alias expected: %v)", token, wantAlias)
			}
			if isAlias {
				counts["shell_alias_"+strings.TrimPrefix(class, "alias-")]++
			}
		}
		if !c31lexable(id.Namespace) {
			continue // the shell's lexer has no token for it
		}
		// alone, and in one of three contexts (chosen by the value, so that the case stays a function of its ids)
		context := []string{" \t" + token + " ", "f " + token + " x", "(g " + token + ")"}[int(id.Value%3)]
		for _, text := range []string{token, context} {
			e, err := api.ParseExpression(text)
			if err != nil {
				return fail("shell-lexer", "printed %q; ParseExpression(%q): %v", token, text, err)
			}
			var found []b6.Expression
			c31collectIDs(e, &found)
			if len(found) != 1 || b6.FeatureID(found[0].AnyExpression.(b6.FeatureIDExpression)) != id {
				return fail("shell-lexer", "printed %q; ParseExpression(%q) holds the ids %v", token, text, found)
			}
			if b, en := found[0].Begin, found[0].End; b < 0 || en > len(text) || b > en || text[b:en] != token {
				return fail("shell-position", "printed %q; in %q the id literal has the span [%d,%d)", token, text, b, en)
			}
		}
		counts["shell_lexer"]++
	}
	return "", ""
}

// Own encoding of the two code namespaces, from the format: a postcode is 5-7
// characters of 0-9A-Z, 6 bits each (0-9 -> 0..9, A-Z -> 10..35), first
// character in the highest bits, then length-5 in the low 2 bits.
func c31encodePostcode(pc string) uint64 {
	v := uint64(0)
	for _, ch := range pc {
		v <<= 6
		if ch >= '0' && ch <= '9' {
			v |= uint64(ch - '0')
		} else {
			v |= uint64(ch-'A') + 10
		}
	}
	return v<<2 | uint64(len(pc)-5)
}

func c31decodePostcode(v uint64) string {
	n := 5 + int(v&3)
	v >>= 2
	b := make([]byte, n)
	for i := n - 1; i >= 0; i-- {
		d := byte(v & 63)
		if d < 10 {
			b[i] = '0' + d
		} else {
			b[i] = 'A' + d - 10
		}
		v >>= 6
	}
	return string(b)
}

// c31codeChecks: the ids.go functions against the own encoding.
func c31codeChecks(id b6.FeatureID) (string, string) {
	switch c31class(id) {
	case "codepoint":
		if !c31encodesCode(id) {
			return "", ""
		}
		pc := c31decodePostcode(id.Value)
		spaced := pc[:len(pc)-3] + " " + strings.ToLower(pc[len(pc)-3:])
		for _, in := range []string{pc, strings.ToLower(pc), spaced} {
			if got := b6.PointIDFromGBPostcode(in); got != id {
				return "ids:PointIDFromGBPostcode", fmt.Sprintf("PointIDFromGBPostcode(%q) = %v, the format gives %v", in, got, id)
			}
		}
		if got, ok := b6.PostcodeFromPointID(id); !ok || got != pc {
			return "ids:PostcodeFromPointID", fmt.Sprintf("PostcodeFromPointID(%v) = %q, %v; the format gives %q", id, got, ok, pc)
		}
	case "ons":
		if !c31encodesCode(id) {
			return "", ""
		}
		code := fmt.Sprintf("%c%08d", byte(id.Value>>40), id.Value&0xffffffff)
		year := 1900 + int((id.Value>>32)&0xff)
		if got := b6.FeatureIDFromUKONSCode(code, year, b6.FeatureTypeArea); got != id {
			return "ids:FeatureIDFromUKONSCode", fmt.Sprintf("FeatureIDFromUKONSCode(%q, %d) = %v, the format gives %v", code, year, got, id)
		}
		if gc, gy, ok := b6.UKONSCodeFromFeatureID(id); !ok || gc != code || gy != year {
			return "ids:UKONSCodeFromFeatureID", fmt.Sprintf("UKONSCodeFromFeatureID(%v) = %q, %d, %v; the format gives %q, %d", id, gc, gy, ok, code, year)
		}
	}
	return "", ""
}

// c31encodesCode: is the value the encoding of a postcode (5-7 characters of
// A-Z0-9, 6 bits each, length-5 in the low 2 bits) or of an ONS code (a letter
// in bits 40-47, year-1900 in bits 32-39, a number below 10^8 in the low 32)?
// Written from the format description, not by calling the decoders.
func c31encodesCode(id b6.FeatureID) bool {
	v := id.Value
	switch id.Namespace {
	case b6.NamespaceGBCodePoint:
		n := 5 + int(v&3)
		if n > 7 {
			return false
		}
		v >>= 2
		for i := 0; i < n; i++ {
			if v&63 >= 36 {
				return false
			}
			v >>= 6
		}
		return v == 0
	case b6.NamespaceUKONSBoundaries:
		letter := byte(v >> 40)
		return v>>48 == 0 && ((letter >= 'A' && letter <= 'Z') || (letter >= 'a' && letter <= 'z')) && v&0xffffffff < 100000000
	}
	return false
}

func c31collectIDs(e b6.Expression, out *[]b6.Expression) {
	switch v := e.AnyExpression.(type) {
	case b6.FeatureIDExpression:
		*out = append(*out, e)
	case b6.CallExpression:
		c31collectIDs(v.Function, out)
		for _, a := range v.Args {
			c31collectIDs(a, out)
		}
	case b6.LambdaExpression:
		c31collectIDs(v.Expression, out)
	}
}

// c31order checks Less on every pair and triple and against the compact order.
func c31order(r *core.R, ids []b6.FeatureID, counts map[string]int) (string, string) {
	for _, a := range ids {
		if a.Less(a) {
			return "less:reflexive", fmt.Sprintf("%v.Less(itself) is true", a)
		}
		for _, b := range ids {
			ab, ba := a.Less(b), b.Less(a)
			if ab && ba {
				return "less:not-asymmetric", fmt.Sprintf("%v < %v and %v < %v", a, b, b, a)
			}
			if (a == b) == (ab || ba) {
				return "less:not-trichotomous", fmt.Sprintf("a=%v b=%v: a==b is %v, a<b is %v, b<a is %v", a, b, a == b, ab, ba)
			}
			if ab != c31modelLess(a, b) {
				return "less:differs-from-(type,namespace,value)", fmt.Sprintf("%v.Less(%v) = %v", a, b, ab)
			}
			counts["less_pairs"]++
			for _, c := range ids {
				if ab && b.Less(c) && !a.Less(c) {
					return "less:not-transitive", fmt.Sprintf("%v < %v < %v but not %v < %v", a, b, c, a, c)
				}
				counts["less_triples"]++
			}
		}
	}
	// the compact order: namespaces through a table filled from a shuffled list
	// (with a few namespaces no id uses), valid types only
	seen := map[b6.Namespace]bool{}
	var nss []b6.Namespace
	var valid []b6.FeatureID
	for _, id := range ids {
		if id.Type == b6.FeatureTypeInvalid || id.Namespace == "" {
			continue
		}
		valid = append(valid, id)
		if !seen[id.Namespace] {
			seen[id.Namespace] = true
			nss = append(nss, id.Namespace)
		}
	}
	for _, ns := range c31namespaces[:r.Intn(len(c31namespaces))] {
		if !seen[ns] {
			seen[ns] = true
			nss = append(nss, ns)
		}
	}
	core.Shuffle(r, nss)
	var nt compact.NamespaceTable
	nt.FillFromNamespaces(nss)
	var fids compact.FeatureIDs
	for _, id := range valid {
		enc := nt.EncodeID(id)
		if back := nt.DecodeID(enc); back != id {
			return "compact:namespace-table", fmt.Sprintf("%v encodes to %v and decodes to %v", id, enc, back)
		}
		t, n := compact.CombineTypeAndNamespace(enc.Type, enc.Namespace).Split()
		if t != id.Type || n != enc.Namespace {
			return "compact:type-and-namespace", fmt.Sprintf("%v: CombineTypeAndNamespace(%v,%d).Split() = (%v,%d)", id, enc.Type, enc.Namespace, t, n)
		}
		fids.Append(enc)
	}
	for i := range valid {
		for j := range valid {
			if got, want := fids.Less(i, j), valid[i].Less(valid[j]); got != want {
				return "less:differs-from-compact-order", fmt.Sprintf("%v < %v is %v by FeatureID.Less and %v in the compact index (namespace table %v)", valid[i], valid[j], want, got, nt.FromEncoded)
			}
			counts["compact_pairs"]++
		}
	}
	// sorting both ways gives the same sequence
	sort.Sort(&fids)
	byLess := append([]b6.FeatureID{}, valid...)
	sort.SliceStable(byLess, func(i, j int) bool { return byLess[i].Less(byLess[j]) })
	for i := range byLess {
		if got := nt.DecodeID(fids.At(i)); got != byLess[i] {
			return "less:differs-from-compact-order", fmt.Sprintf("sorted by the compact order, position %d holds %v; sorted by Less, %v", i, got, byLess[i])
		}
	}
	counts["compact_sorts"]++
	return "", ""
}

var c31subCases = []string{"hostile-namespace", "code-namespace-arbitrary-value", "invalid-ids"}

func init() {
	core.Register(&core.Monitor{
		ID:        "C31",
		Title:     "Feature IDs survive every textual and wire encoding",
		Technique: "identity round trips through String, JSON, YAML, proto wire bytes, UnparseFeatureID -> ParseFeatureIDToken and the shell lexer/parser; order axioms of Less over all pairs and triples, compared with an own (type, namespace, value) order and with compact.FeatureIDs over an encoded namespace table",
		Rule: "case = 5 feature ids: the six valid types x 15 namespaces (OSM, diagonal.works/ns/ll, ones with 1-3 extra slashes or only digits) x values {0,1,2,63,64,2^31-1..2^31+1,2^32-1..2^32+1,2^62,2^63-1..2^63+1,2^64-1, uniform}, " +
			"the alias shapes /n/ /w/ /a/ /r/ /gb/uprn/, postcodes (5-7 characters) and ONS codes (letter, 8 digits, year 1900-2155); 1 case in 5 is a labelled sub-case (namespaces with spaces, quotes, newlines, non-ASCII; arbitrary values under the code-point and ONS namespaces; invalid ids in the order checks); " +
			"distinct = distinct id list; non-trivial = at least two different ids, one of which has an alias or a namespace with a slash",
		Assumptions: []string{
			"valid id = type is one of the six feature types and the namespace is not empty",
			"the shell lexer is only asked to read ids whose namespace is made of letters, digits and . - / _ (its token alphabet); others go through ParseFeatureIDToken only",
			"/gb/codepoint/ and /uk/ons/ aliases are only promised for values that encode a postcode or an ONS code",
			"encoding/json, gopkg.in/yaml.v2 and protobuf marshalling are trusted",
		},
		// about 1.4 ms of CPU per case (YAML and 20 shell parses): 50 000 cases are
		// ~5 s and 3 000 000 ~5 min on 16 idle cores
		Quick: 50000, Thorough: 3000000,
		Required: []string{"concurrent_encoders", "string", "json", "yaml", "proto", "shell_lexer", "shell_alias_n", "shell_alias_w", "shell_alias_a", "shell_alias_r", "shell_alias_uprn", "shell_alias_codepoint", "shell_alias_ons",
			"code_codepoint", "code_ons", "yaml_nested", "less_pairs", "less_triples", "compact_pairs", "compact_sorts", "ids_namespace_with_slash", "ids_hostile_namespace", "sub_invalid-ids_ok", "ordered_same_type_and_namespace", "ordered_across_types", "ordered_across_namespaces"},
		Run: c31run,
	})
}

func c31run(c *core.Ctx) {
	r := c.R
	g := &c31gen{r: r, kinds: map[string]int{}}
	if r.Intn(5) == 0 {
		g.sub = core.Pick(r, c31subCases)
	}
	ids := make([]b6.FeatureID, 5)
	for i := range ids {
		ids[i] = g.id()
	}
	// close relatives, so that the order checks meet equal prefixes
	code := ids[0].Namespace == b6.NamespaceGBCodePoint || ids[0].Namespace == b6.NamespaceUKONSBoundaries
	switch k := r.Intn(4); {
	case k == 0 && !code: // (a value under a code namespace must stay the encoding of a code)
		ids[1] = ids[0]
		ids[1].Value = g.value()
	case k == 1 && !code:
		ids[1] = ids[0]
		ids[1].Type = core.Pick(r, c31types)
	case k == 2:
		ids[1] = ids[0]
	}
	key := make([]string, len(ids))
	interesting := false
	for i, id := range ids {
		key[i] = fmt.Sprintf("%d/%q/%d", id.Type, id.Namespace, id.Value)
		if cl := c31class(id); cl != "generic" || strings.Contains(string(id.Namespace), "/") {
			interesting = true
		}
	}
	c.Key("%s|%s", g.sub, strings.Join(key, ";"))
	if interesting && ids[0] != ids[1] {
		c.Nontrivial()
	}
	if c.Index < 3 {
		c.Sample(map[string]any{"sub_case": g.sub, "ids": key})
	}
	counts := map[string]int{}
	failed := false
	for _, id := range ids {
		if !id.IsValid() {
			if g.sub != "invalid-ids" {
				c.Inconclusive(fmt.Sprintf("the generator made the invalid id %#v outside its sub-case", id))
				return
			}
			continue
		}
		var sig, detail string
		wrap := counts["yaml_nested"] == 0
		panicked, class, frame, _ := core.Protect(func() { sig, detail = c31roundTrips(id, counts, wrap) })
		if panicked {
			sig, detail = "panic@"+frame+":"+c31class(id), fmt.Sprintf("%v: %s", id, class)
		}
		if sig != "" {
			if cl := c31class(id); g.sub == "code-namespace-arbitrary-value" && strings.HasPrefix(sig, "shell-") && (cl == "codepoint" || cl == "ons") && !c31encodesCode(id) {
				// one signature per alias, whichever shell step notices
				sig = "alias-cannot-express-value:" + cl
			}
			c.Violate(sig, map[string]any{"id": fmt.Sprintf("%#v", id), "sub_case": g.sub}, "%s", detail)
			failed = true
		}
	}
	var sig, detail string
	panicked, class, frame, _ := core.Protect(func() { sig, detail = c31order(r.Fork(), ids, counts) })
	if panicked {
		sig, detail = "order:panic@"+frame, class
	}
	if sig != "" {
		c.Violate(sig, map[string]any{"ids": key, "sub_case": g.sub}, "%s", detail)
		failed = true
	}
	if failed {
		return
	}
	// the encoders are called from request handlers, tile renderers and builders at
	// once: several goroutines print and read back ids that share a type and a
	// namespace (different, short values), each checking only its own results
	if c.Index%8 == 3 && g.sub == "" && ids[0].IsValid() && c31class(ids[0]) == "generic" {
		const goroutines, rounds = 4, 300
		var wg sync.WaitGroup
		bad := make([]string, goroutines)
		for gi := 0; gi < goroutines; gi++ {
			wg.Add(1)
			go func(gi int) {
				defer wg.Done()
				defer func() {
					if e := recover(); e != nil {
						bad[gi] = fmt.Sprintf("panic: %v", e)
					}
				}()
				id := ids[0]
				for k := 0; k < rounds && bad[gi] == ""; k++ {
					id.Value = uint64(gi*1000+k) % 100000
					text := id.String()
					if back := b6.FeatureIDFromString(text); back != id {
						bad[gi] = fmt.Sprintf("%#v printed as %q, which reads back as %#v", id, text, back)
					}
					if j, err := json.Marshal(id); err != nil {
						bad[gi] = fmt.Sprintf("%#v: MarshalJSON: %v", id, err)
					} else {
						var back b6.FeatureID
						if err := json.Unmarshal(j, &back); err != nil || back != id {
							bad[gi] = fmt.Sprintf("%#v marshalled as %s, which reads back as %#v (%v)", id, j, back, err)
						}
					}
				}
			}(gi)
		}
		wg.Wait()
		c.Count("concurrent_encoders")
		for _, b := range bad {
			if b != "" {
				c.Violate("concurrent:string:"+c31class(ids[0]), map[string]any{"type_and_namespace": fmt.Sprintf("%d/%q", ids[0].Type, ids[0].Namespace)},
					"with %d goroutines encoding ids of one type and namespace at once: %s", goroutines, b)
				return
			}
		}
	}
	for k, n := range counts {
		c.Add(k, n)
	}
	for k, n := range g.kinds {
		c.Add("ids_"+k, n)
	}
	if g.sub != "" {
		c.Count("sub_" + g.sub + "_ok")
	}
	for i := range ids {
		for j := range ids {
			a, b := ids[i], ids[j]
			switch {
			case a == b:
			case a.Type == b.Type && a.Namespace == b.Namespace:
				c.Count("ordered_same_type_and_namespace")
			case a.Type != b.Type:
				c.Count("ordered_across_types")
			default:
				c.Count("ordered_across_namespaces")
			}
		}
	}
}
