package mon

import (
	"fmt"
	"sort"
	"strings"

	"diagonal.works/b6"
)

// Triage for C02: every difference between the dump of the in-memory world
// and the dump of the compact world is classified by SHAPE (which call, which
// side has extra elements, and how the extra elements relate to the reference
// graph of the input), never by value. The reference graph and the traversal
// rule come from the C29 rule model of the input; they are used for
// orientation only: the violation is the difference itself.

type c02Graph struct {
	m       *c29Model
	present map[b6.FeatureID]bool           // features both rule-expected and not unassemblable
	direct  map[b6.FeatureID][]b6.FeatureID // target -> features that mention it directly
	onPaths map[b6.FeatureID][]b6.FeatureID // point -> distinct paths through it
}

func c02NewGraph(m *c29Model, absent map[b6.FeatureID]bool) *c02Graph {
	g := &c02Graph{m: m, present: map[b6.FeatureID]bool{}, direct: map[b6.FeatureID][]b6.FeatureID{}, onPaths: map[b6.FeatureID][]b6.FeatureID{}}
	add := func(target, from b6.FeatureID) {
		for _, x := range g.direct[target] {
			if x == from {
				return
			}
		}
		g.direct[target] = append(g.direct[target], from)
	}
	for _, id := range m.IDs {
		f := m.F[id]
		if absent[id] {
			continue
		}
		g.present[id] = true
		for _, n := range f.Nodes {
			add(n, id)
		}
		for _, p := range f.Polys {
			for _, pid := range p {
				add(pid, id)
			}
		}
		for _, mem := range f.Members {
			add(mem.ID, id)
		}
	}
	for target, froms := range g.direct {
		if target.Type == b6.FeatureTypePoint {
			for _, f := range froms {
				if f.Type == b6.FeatureTypePath {
					g.onPaths[target] = append(g.onPaths[target], f)
				}
			}
		}
	}
	return g
}

func (g *c02Graph) closure(id b6.FeatureID) map[b6.FeatureID]bool {
	out := map[b6.FeatureID]bool{}
	var walk func(b6.FeatureID)
	walk = func(x b6.FeatureID) {
		for _, f := range g.direct[x] {
			if !out[f] {
				out[f] = true
				walk(f)
			}
		}
	}
	walk(id)
	return out
}

func c02ParseList(s string) ([]string, bool) {
	if !strings.HasPrefix(s, "[") || !strings.HasSuffix(s, "]") {
		return nil, false
	}
	s = s[1 : len(s)-1]
	if s == "" {
		return nil, true
	}
	return strings.Split(s, " "), true
}

func c02Set(xs []string) (map[string]bool, bool) {
	m := map[string]bool{}
	dup := false
	for _, x := range xs {
		if m[x] {
			dup = true
		}
		m[x] = true
	}
	return m, dup
}

func c02TypeOf(id string) string {
	if i := strings.IndexByte(id, '/'); i > 0 {
		return id[:i]
	}
	return "unknown"
}

// c02PanicShape extracts "PANIC@frame:class" values.
func c02PanicShape(a, b string) (string, bool) {
	pa, pb := strings.HasPrefix(a, "PANIC@"), strings.HasPrefix(b, "PANIC@")
	switch {
	case pa && pb:
		return "both-panic:" + a[6:] + "|" + b[6:], true
	case pa:
		return "basic-panics@" + a[6:], true
	case pb:
		return "compact-panics@" + b[6:], true
	}
	return "", false
}

// refsShape classifies a difference of a referrer-set call about target id.
// typ filters the referrer type ("" = all).
//
// One labelled input class is folded into a single shape: an area that exists
// in both worlds and is a member of a relation. The compact index stores the
// relations of such an area with one encoding and reads them back with another
// (Area.Marshal / Area.Unmarshal), so the relations come back nil (the caller
// panics), wrong, or incomplete depending on the numbers involved. All three
// are "compact-wrong-relations-for-area-member"; nothing else is folded in.
func (g *c02Graph) refsShape(id b6.FeatureID, typ string, a, b string) string {
	raw := g.refsShapeRaw(id, typ, a, b)
	if id.Type != b6.FeatureTypeArea || !g.present[id] {
		return raw
	}
	member := false
	for _, f := range g.direct[id] {
		if f.Type == b6.FeatureTypeRelation && g.present[f] {
			member = true
		}
	}
	if !member {
		return raw
	}
	switch {
	case strings.HasPrefix(raw, "compact-yields-"),
		strings.HasPrefix(raw, "compact-panics@") && strings.Contains(raw, "nil_pointer_dereference"),
		raw == "compact-misses-direct-referrer:area<-relation",
		raw == "compact-invents-referrer:area<-relation":
		return "compact-wrong-relations-for-area-member"
	}
	return raw
}

func (g *c02Graph) refsShapeRaw(id b6.FeatureID, typ string, a, b string) string {
	if s, ok := c02PanicShape(a, b); ok {
		// labelled shape: the compact world hands out a nil relation for an area that is a
		// member of a relation, and the caller dies on it
		if id.Type == b6.FeatureTypeArea && g.present[id] && strings.HasPrefix(s, "compact-panics@") && strings.Contains(s, "nil_pointer_dereference") {
			for _, f := range g.direct[id] {
				if f.Type == b6.FeatureTypeRelation {
					return "compact-yields-nil-relation-for-area-member"
				}
			}
		}
		return s
	}
	la, oka := c02ParseList(a)
	lb, okb := c02ParseList(b)
	if !oka || !okb {
		return "unparsable"
	}
	sa, dupa := c02Set(la)
	sb, dupb := c02Set(lb)
	if strings.Contains(a, "<nil>") || strings.Contains(b, "<nil>") {
		return "nil-feature-in-result"
	}
	direct, trans := map[string]bool{}, map[string]bool{}
	for _, f := range g.direct[id] {
		if g.present[f] && (typ == "" || c02TypeOf(f.String()) == typ) {
			direct[f.String()] = true
		}
	}
	for f := range g.closure(id) {
		if g.present[f] && (typ == "" || c02TypeOf(f.String()) == typ) {
			trans[f.String()] = true
		}
	}
	target := id.Type.String()
	var onlyA, onlyB []string
	for x := range sa {
		if !sb[x] {
			onlyA = append(onlyA, x)
		}
	}
	for x := range sb {
		if !sa[x] {
			onlyB = append(onlyB, x)
		}
	}
	sort.Strings(onlyA)
	sort.Strings(onlyB)
	if len(onlyA) == 0 && len(onlyB) == 0 {
		switch {
		case dupa && !dupb:
			return "basic-lists-a-referrer-twice"
		case dupb && !dupa:
			return "compact-lists-a-referrer-twice:" + target
		}
		return "multiplicity"
	}
	// labelled shape (same root cause as compact-yields-nil-relation-for-area-member): for an area that is a
	// member of relations the compact world returns relations that do not mention it at all
	if id.Type == b6.FeatureTypeArea && g.present[id] && len(onlyA) > 0 && len(onlyB) > 0 {
		wrong := true
		for _, x := range onlyB {
			if direct[x] || c02TypeOf(x) != "relation" {
				wrong = false
			}
		}
		missesDirect := false
		for _, x := range onlyA {
			if !trans[x] || c02TypeOf(x) != "relation" {
				wrong = false
			}
			if direct[x] {
				missesDirect = true
			}
		}
		if wrong && missesDirect {
			return "compact-yields-wrong-relation-for-area-member"
		}
	}
	// a compact world that loses a DIRECT referrer is a different matter from the transitive ones
	for _, x := range onlyA {
		if direct[x] {
			if !g.present[id] {
				// the target itself is not in either world (a member that is not in the input,
				// or a multipolygon that could not be assembled); only its referrers are
				return "compact-misses-referrer-of-absent-feature"
			}
			return "compact-misses-direct-referrer:" + target + "<-" + c02TypeOf(x)
		}
	}
	for _, x := range onlyB {
		if direct[x] {
			return "basic-misses-direct-referrer:" + target + "<-" + c02TypeOf(x)
		}
	}
	for _, x := range onlyB {
		if !trans[x] {
			return "compact-invents-referrer:" + target + "<-" + c02TypeOf(x)
		}
	}
	for _, x := range onlyA {
		if !trans[x] {
			return "basic-invents-referrer:" + target + "<-" + c02TypeOf(x)
		}
	}
	// every extra element is a transitive, non-direct referrer. The compact world does promise one
	// transitive hop: the areas built from a path through a point. Losing one of those is not the
	// "direct referrers only" shape.
	if id.Type == b6.FeatureTypePoint {
		via := map[string]bool{}
		for _, p := range g.direct[id] {
			if p.Type == b6.FeatureTypePath && g.present[p] {
				for _, a := range g.direct[p] {
					if a.Type == b6.FeatureTypeArea && g.present[a] {
						via[a.String()] = true
					}
				}
			}
		}
		for _, x := range onlyA {
			if via[x] {
				return "compact-misses-area-of-a-path-through-the-point"
			}
		}
	}
	if len(onlyB) == 0 {
		sameAsClosure := len(sa) == len(trans)
		for x := range trans {
			if !sa[x] {
				sameAsClosure = false
			}
		}
		if sameAsClosure {
			return "basic-has-transitive-referrers"
		}
		return "basic-has-some-transitive-referrers"
	}
	if len(onlyA) == 0 {
		return "compact-has-transitive-referrers-basic-lacks:" + target + "<-" + c02TypeOf(onlyB[0])
	}
	return "both-have-different-transitive-referrers"
}

// ---- traversal --------------------------------------------------------------

// c02TraverseRule gives the segments the in-memory rule of the documentation
// produces for an origin point, given the path node lists as held by a world:
// from every occurrence of the origin in every path, walk both ways to the next
// graph node (a path end, a point on more than one path, or a point with a tag
// besides its geometry).
func (g *c02Graph) traverseRule(origin b6.FeatureID, nodesOf func(path b6.FeatureID) []b6.FeatureID) []string {
	var out []string
	isNode := func(path []b6.FeatureID, i int) bool {
		if i == 0 || i == len(path)-1 {
			return true
		}
		if len(g.onPaths[path[i]]) > 1 {
			return true
		}
		if f := g.m.F[path[i]]; f != nil && len(f.Tags) > 0 {
			return true
		}
		return false
	}
	for _, pid := range g.onPaths[origin] {
		if !g.present[pid] {
			continue
		}
		nodes := nodesOf(pid)
		for i, n := range nodes {
			if n != origin {
				continue
			}
			for j := i + 1; j < len(nodes); j++ {
				if isNode(nodes, j) {
					out = append(out, fmt.Sprintf("%s:%d-%d", pid, i, j))
					break
				}
			}
			for j := i - 1; j >= 0; j-- {
				if isNode(nodes, j) {
					out = append(out, fmt.Sprintf("%s:%d-%d", pid, i, j))
					break
				}
			}
		}
	}
	sort.Strings(out)
	return out
}

// originClass names the input class of a traversal origin.
func (g *c02Graph) originClass(origin b6.FeatureID) string {
	twice, closes, repeated := false, false, false
	for _, pid := range g.onPaths[origin] {
		f := g.m.F[pid]
		n := 0
		for _, x := range f.Nodes {
			if x == origin {
				n++
			}
		}
		if f.Kind == "closed-path" && f.Nodes[0] == origin {
			closes = true
		} else if n > 1 {
			twice = true
		}
		seen := map[b6.FeatureID]int{}
		for i, x := range f.Nodes {
			if i == len(f.Nodes)-1 && f.Kind == "closed-path" {
				break
			}
			seen[x]++
			if seen[x] > 1 {
				repeated = true
			}
		}
	}
	switch {
	case closes:
		return "origin-closes-a-closed-path"
	case twice:
		return "origin-twice-on-a-path"
	case repeated:
		return "path-revisits-a-node"
	case len(g.onPaths[origin]) == 0:
		return "origin-on-no-path"
	}
	return "plain"
}

func (g *c02Graph) traverseShape(origin b6.FeatureID, a, b string, ruleA, ruleB []string) string {
	if s, ok := c02PanicShape(a, b); ok {
		return s
	}
	la, oka := c02ParseList(a)
	lb, okb := c02ParseList(b)
	if !oka || !okb {
		return "unparsable"
	}
	class := g.originClass(origin)
	eqA := strings.Join(la, " ") == strings.Join(ruleA, " ")
	eqB := strings.Join(lb, " ") == strings.Join(ruleB, " ")
	switch {
	case eqA && !eqB:
		return "compact-differs-from-rule:" + class
	case !eqA && eqB:
		return "basic-differs-from-rule:" + class
	case !eqA && !eqB:
		return "both-differ-from-rule:" + class
	}
	// each side follows the rule on its own path geometry: the paths themselves differ
	return "paths-differ:" + class
}

func c02If(c bool, a, b string) string {
	if c {
		return a
	}
	return b
}

// ---- lookups ----------------------------------------------------------------

// featureShape classifies a difference between two renderings of a feature.
func c02FeatureShape(a, b string) string {
	if a == "nil" || b == "nil" {
		return c02If(a == "nil", "only-in-compact", "only-in-basic")
	}
	if strings.Contains(a, "PANIC@") || strings.Contains(b, "PANIC@") {
		side := c02If(strings.Contains(a, "PANIC@"), "basic", "compact")
		s := c02If(side == "basic", a, b)
		return side + "-accessor-panics@" + s[strings.Index(s, "PANIC@")+6:]
	}
	part := func(s, from, to string) string {
		i := strings.Index(s, from)
		if i < 0 {
			return ""
		}
		s = s[i:]
		if to != "" {
			if j := strings.Index(s, to); j > 0 {
				s = s[:j]
			}
		}
		return s
	}
	var shapes []string
	if part(a, " tags=", "}") != part(b, " tags=", "}") {
		shapes = append(shapes, "tags")
	}
	ra, rb := part(a, " refs=", ""), part(b, " refs=", "")
	if ra != rb {
		shapes = append(shapes, "references")
	}
	ga := strings.TrimSuffix(a[strings.Index(a, "}")+1:], ra)
	gb := strings.TrimSuffix(b[strings.Index(b, "}")+1:], rb)
	if ga != gb {
		shapes = append(shapes, "geometry")
	}
	if len(shapes) == 0 {
		return "other"
	}
	return strings.Join(shapes, "+")
}

// c02EachShape classifies a difference between two EachFeature listings (id#hash rows).
func c02EachShape(a, b string) string {
	if s, ok := c02PanicShape(a, b); ok {
		return s
	}
	la, oka := c02ParseList(a)
	lb, okb := c02ParseList(b)
	if !oka || !okb {
		return "unreadable"
	}
	ids := func(rows []string) (map[string]int, map[string]string) {
		n, h := map[string]int{}, map[string]string{}
		for _, r := range rows {
			id, hash, _ := strings.Cut(r, "#")
			n[id]++
			h[id] = hash
		}
		return n, h
	}
	na, ha := ids(la)
	nb, hb := ids(lb)
	shapes := map[string]bool{}
	for id, n := range na {
		switch {
		case nb[id] == 0:
			shapes["only-basic-enumerates-"+c02TypeOf(id)] = true
		case nb[id] != n:
			shapes["multiplicity-"+c02TypeOf(id)] = true
		case ha[id] != hb[id]:
			shapes["rendering-"+c02TypeOf(id)] = true
		}
	}
	for id := range nb {
		if na[id] == 0 {
			shapes["only-compact-enumerates-"+c02TypeOf(id)] = true
		}
	}
	var out []string
	for s := range shapes {
		out = append(out, s)
	}
	sort.Strings(out)
	return strings.Join(out, "+")
}
