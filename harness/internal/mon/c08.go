package mon

import (
	"fmt"
	"math"
	"math/bits"
	"sort"
	"strings"

	"diagonal.works/b6"
	"diagonal.works/b6/ingest/compact"
	"verif/internal/core"
)

// C08 Posting lists decode to exactly the IDs encoded.
//
// Oracle: the input list itself (a strictly increasing []c08id under an own
// implementation of feature-ID order) and the position model of an iterator:
// Next -> next element; Advance(t) -> first element >= t at or after the
// current position; the contract ends with the first false.
//
// The block layout (64-byte blocks, padding, namespace switches) is simulated
// by the harness only to *count* which layouts were generated and to pick
// targets at block edges; it takes no part in any verdict.

type c08id struct {
	t  int    // b6.FeatureType
	ns string // b6.Namespace
	v  uint64
}

func c08cmp(a, b c08id) int {
	switch {
	case a.t != b.t:
		if a.t < b.t {
			return -1
		}
		return 1
	case a.ns != b.ns:
		return strings.Compare(a.ns, b.ns)
	case a.v != b.v:
		if a.v < b.v {
			return -1
		}
		return 1
	}
	return 0
}

func (a c08id) String() string {
	return fmt.Sprintf("%s/%s/%d", b6.FeatureType(a.t).String(), a.ns, a.v)
}

func (a c08id) real() b6.FeatureID {
	return b6.FeatureID{Type: b6.FeatureType(a.t), Namespace: b6.Namespace(a.ns), Value: a.v}
}

func c08fromReal(id b6.FeatureID) c08id {
	return c08id{t: int(id.Type), ns: string(id.Namespace), v: id.Value}
}

func c08sameGroup(a, b c08id) bool { return a.t == b.t && a.ns == b.ns }

// c08lowerBound returns the index of the first element >= t.
func c08lowerBound(list []c08id, t c08id) int {
	return sort.Search(len(list), func(i int) bool { return c08cmp(list[i], t) >= 0 })
}

func c08uvarintLen(x uint64) int {
	if x == 0 {
		return 1
	}
	return (bits.Len64(x) + 6) / 7
}

// widthRange gives the values whose uvarint encoding takes w bytes.
func c08widthRange(w int) (lo, hi uint64) {
	if w <= 1 {
		return 0, 127
	}
	if w >= 10 {
		return 1 << 63, math.MaxUint64
	}
	return 1 << (7 * uint(w-1)), 1<<(7*uint(w)) - 1
}

func c08randIn(r *core.R, lo, hi uint64) uint64 {
	if hi <= lo {
		return lo
	}
	span := hi - lo
	if span == math.MaxUint64 {
		return r.U64()
	}
	return lo + r.U64()%(span+1)
}

// c08layout is the harness-side simulation of the block layout.
type c08layout struct {
	pos        int // bytes written so far
	prev       uint64
	blockFirst []bool // per element: it is the first entry of its block
	blockLast  []bool // per element: it is the last entry of its block (set when the next block starts)
	// counters
	fill62, fill63, fill64, overflow65, nsSwitchAtFull, nsSwitchPadded, w10, blocks, sameAsPrevious int
}

func (l *c08layout) fillNow() int { return l.pos % 64 }

func (l *c08layout) closeBlock() {
	f := l.pos % 64
	if f == 0 {
		if l.pos > 0 {
			l.fill64++
		}
		return
	}
	switch f {
	case 62:
		l.fill62++
	case 63:
		l.fill63++
	}
	l.pos += 64 - f
}

func (l *c08layout) add(v uint64, newGroup bool) {
	first := false
	if newGroup && l.pos > 0 {
		if l.pos%64 == 0 {
			l.nsSwitchAtFull++
		} else {
			l.nsSwitchPadded++
		}
		l.closeBlock()
	}
	if l.pos%64 == 0 {
		if !newGroup && l.pos > 0 {
			l.fill64++
		}
		l.prev = 0
		first = true
	}
	w := c08uvarintLen(v - l.prev)
	if l.pos%64+w > 64 {
		if l.pos%64+w == 65 {
			l.overflow65++
		}
		l.closeBlock()
		w = c08uvarintLen(v)
		first = true
	}
	if w == 10 {
		l.w10++
	}
	if first {
		l.blocks++
		if n := len(l.blockLast); n > 0 {
			l.blockLast[n-1] = true
		}
	}
	l.blockFirst = append(l.blockFirst, first)
	l.blockLast = append(l.blockLast, false)
	l.pos += w
	l.prev = v
}

type c08group struct {
	t     int
	ns    string
	n     int
	prof  string
	first int // index of the first element in the list
}

type c08encIter struct {
	ids []compact.FeatureID
	i   int
}

func (e *c08encIter) Next() bool                   { e.i++; return e.i <= len(e.ids) }
func (e *c08encIter) FeatureID() compact.FeatureID { return e.ids[e.i-1] }

var c08nsPool = []string{"a", "aa", "ab", "b", "B", "Z", "0", "_", "~", "é", "diagonal.works/ns/x",
	"openstreetmap.org/node", "openstreetmap.org/way", "openstreetmap.org/relation", "diagonal.works/ns/y"}

// c08genList generates the list, its groups and the simulated layout.
func c08genList(r *core.R, tableNS []string, maxTotal int) ([]c08id, []c08group, *c08layout) {
	lay := &c08layout{}
	var list []c08id
	var groups []c08group
	ngroups := 0
	switch x := r.Intn(20); {
	case x == 0:
		ngroups = 0
	case x < 7:
		ngroups = 1
	default:
		ngroups = r.Range(2, 5)
	}
	// distinct (type, ns) pairs
	type pair struct {
		t  int
		ns string
	}
	seen := map[pair]bool{}
	var pairs []pair
	for tries := 0; len(pairs) < ngroups && tries < 50; tries++ {
		t := r.Intn(4)
		if r.Chance(0.06) {
			t = 5 + r.Intn(2)
		}
		p := pair{t, core.Pick(r, tableNS)}
		if !seen[p] {
			seen[p] = true
			pairs = append(pairs, p)
		}
	}
	sort.Slice(pairs, func(i, j int) bool {
		return c08cmp(c08id{t: pairs[i].t, ns: pairs[i].ns}, c08id{t: pairs[j].t, ns: pairs[j].ns}) < 0
	})
	profiles := []string{"w1", "w12", "w123", "w2", "wide", "huge", "w1-endfull", "w12-endfull", "w123-endfull"}
	for _, p := range pairs {
		prof := core.Pick(r, profiles)
		var want int
		switch x := r.Intn(100); {
		case x < 35:
			want = r.Range(1, 8)
		case x < 75:
			want = r.Range(9, 150)
		case x < 96:
			want = r.Range(151, 800)
		default:
			want = r.Range(801, 3000)
		}
		if prof == "huge" && want > 40 {
			want = r.Range(1, 40)
		}
		if left := maxTotal - len(list); want > left {
			want = left
		}
		if want <= 0 {
			break
		}
		g := c08group{t: p.t, ns: p.ns, prof: prof, first: len(list)}
		pickW := func() int {
			switch strings.TrimSuffix(prof, "-endfull") {
			case "w1":
				return 1
			case "w12":
				return r.Range(1, 2)
			case "w123":
				return r.Range(1, 3)
			case "w2":
				if r.Chance(0.1) {
					return 1
				}
				return 2
			case "wide":
				return r.Range(1, 10)
			default: // huge
				return r.Range(7, 10)
			}
		}
		// first value
		var v uint64
		switch x := r.Intn(10); {
		case x == 0:
			v = 0
		case x == 1:
			v = 1
		case x < 5 && len(list) > 0:
			// the value the previous group ended on (ids of different types share numbers)
			v = list[len(list)-1].v
			lay.sameAsPrevious++
		default:
			lo, hi := c08widthRange(pickW())
			v = c08randIn(r, lo, hi)
		}
		endFull := strings.HasSuffix(prof, "-endfull")
		for {
			list = append(list, c08id{t: p.t, ns: p.ns, v: v})
			lay.add(v, g.n == 0)
			g.n++
			done := g.n >= want
			if endFull && done && lay.fillNow() != 0 && g.n < want+200 {
				done = false // keep going until the group ends exactly at a full block
			}
			if done || v == math.MaxUint64 || len(list) >= maxTotal {
				break
			}
			// next delta
			w := pickW()
			if g.n == want-1 && r.Chance(0.08) {
				// finish on the largest value
				v = math.MaxUint64
				continue
			}
			room := math.MaxUint64 - v
			for w > 1 {
				if lo, _ := c08widthRange(w); lo <= room {
					break
				}
				w--
			}
			lo, hi := c08widthRange(w)
			if lo == 0 {
				lo = 1
			}
			if hi > room {
				hi = room
			}
			v += c08randIn(r, lo, hi)
		}
		groups = append(groups, g)
	}
	return list, groups, lay
}

// c08iter wraps the real iterator with the position model.
type c08iter struct {
	it      *compact.Iterator
	list    []c08id
	pos     int // index of the current element, -1 before the first call
	started bool
}

func c08renderAround(list []c08id, i int) string {
	lo, hi := i-3, i+4
	if lo < 0 {
		lo = 0
	}
	if hi > len(list) {
		hi = len(list)
	}
	var sb strings.Builder
	fmt.Fprintf(&sb, "[%d..%d) of %d:", lo, hi, len(list))
	for j := lo; j < hi; j++ {
		sb.WriteString(" " + list[j].String())
	}
	return sb.String()
}

func init() {
	core.Register(&core.Monitor{
		ID:        "C08",
		Title:     "Posting lists decode to exactly the IDs encoded",
		Technique: "reference-list monitor: encode with PostingList.Fill/Marshal, compare full iteration, every Advance landing and the tail after it with the input list",
		Rule: "case = strictly increasing ID list over 0-5 (type,namespace) groups (lengths 0..3000, varint widths 1..10, values up to 2^64-1, namespace table filled in shuffled order, one in four refilled after serving another set; groups ending on a full block and groups starting on the previous group's last value) " +
			"plus a set of (prefix Nexts, Advance target, tail length[, second target]) probes; distinct = distinct (list, probes); " +
			"non-trivial = the list spans >= 2 blocks or >= 2 groups and at least one Advance probe ran",
		Assumptions: []string{
			"the marshalled buffer handed to NewIterator ends where Marshal stopped (as ByteArrays items do)",
			"the block-layout simulation only feeds counters and target choice, never a verdict",
		},
		Quick: 10000, Thorough: 6000000,
		Required: []string{"ns_table_refilled", "advance_absent_ns", "advance_later_ns", "advance_same_ns", "advance_first_call", "advance_after_next",
			"next_after_advance_later_ns", "next_after_advance_absent_ns", "block_fill_62", "block_fill_63", "block_fill_64", "overflow_65",
			"ns_switch_at_full_block", "ns_switch_padded", "varint_10_bytes", "value_max_uint64", "list_empty", "list_multi_block",
			"advance_beyond_end", "advance_lt_current", "advance_eq_current", "target_ns_in_table_absent_from_list"},
		Run: c08run,
	})
}

func c08run(c *core.Ctx) {
	r := c.R
	// namespace table
	nns := r.Range(1, 6)
	perm := r.Perm(len(c08nsPool))
	tableNS := make([]string, 0, nns)
	for _, i := range perm[:nns] {
		tableNS = append(tableNS, c08nsPool[i])
	}
	outside := make([]string, 0, 3)
	for _, i := range perm[nns:] {
		if len(outside) < 3 {
			outside = append(outside, c08nsPool[i])
		}
	}
	var nt compact.NamespaceTable
	{
		nss := make([]b6.Namespace, len(tableNS))
		for i, ns := range tableNS {
			nss[i] = b6.Namespace(ns)
		}
		if r.Chance(0.25) {
			// a table object that served another index before: refilling it must
			// give the table of a fresh one
			var earlier []b6.Namespace
			for _, i := range r.Perm(len(c08nsPool))[:r.Range(1, len(c08nsPool))] {
				earlier = append(earlier, b6.Namespace(c08nsPool[i]))
			}
			nt.FillFromNamespaces(earlier)
			c.Count("ns_table_refilled")
		}
		nt.FillFromNamespaces(nss)
		if !sort.StringsAreSorted(tableNS) {
			c.Count("ns_table_shuffled")
		}
	}
	maxTotal := 3000
	list, groups, lay := c08genList(r.Fork(), tableNS, maxTotal)
	n := len(list)

	// describe
	var gdesc []string
	h := uint64(1469598103934665603)
	for _, id := range list {
		h = (h ^ id.v) * 1099511628211
	}
	for _, g := range groups {
		gdesc = append(gdesc, fmt.Sprintf("%s/%s x%d %s", b6.FeatureType(g.t).String(), g.ns, g.n, g.prof))
	}
	c.Add("block_fill_62", lay.fill62)
	c.Add("block_fill_63", lay.fill63)
	c.Add("block_fill_64", lay.fill64)
	c.Add("overflow_65", lay.overflow65)
	c.Add("ns_switch_at_full_block", lay.nsSwitchAtFull)
	c.Add("ns_switch_padded", lay.nsSwitchPadded)
	c.Add("varint_10_bytes", lay.w10)
	c.Add("elements", n)
	c.Max("max_list_len", int64(n))
	c.Max("max_blocks", int64(lay.blocks))
	if n == 0 {
		c.Count("list_empty")
	}
	if lay.blocks >= 2 {
		c.Count("list_multi_block")
	}
	for _, id := range list {
		if id.v == math.MaxUint64 {
			c.Count("value_max_uint64")
			break
		}
	}

	// encode
	var buf []byte
	var encodedLen int
	panicked, class, frame, _ := core.Protect(func() {
		enc := &c08encIter{ids: make([]compact.FeatureID, n)}
		for i, id := range list {
			enc.ids[i] = compact.FeatureID{Type: b6.FeatureType(id.t), Namespace: nt.Encode(b6.Namespace(id.ns)), Value: id.v}
		}
		var pl compact.PostingList
		pl.Fill("tok", enc)
		buf = make([]byte, compact.PostingListHeaderMaxLength+len(pl.IDs))
		encodedLen = pl.Marshal(buf)
		buf = buf[:encodedLen]
	})
	witness := func(extra map[string]any) map[string]any {
		w := map[string]any{"groups": gdesc, "table_namespaces": tableNS, "len": n}
		if n <= 80 {
			var ss []string
			for _, id := range list {
				ss = append(ss, id.String())
			}
			w["list"] = ss
		}
		for k, v := range extra {
			w[k] = v
		}
		return w
	}
	if panicked {
		c.Violate("encode:panic@"+frame, witness(nil), "Fill/Marshal panicked: %s", class)
		c.Key("%v|%x", gdesc, h)
		return
	}
	newIt := func() *c08iter {
		return &c08iter{it: compact.NewIterator(buf, &nt), list: list, pos: -1}
	}

	// 1. full iteration
	{
		it := newIt()
		bad := false
		var pc string
		panicked, pc, frame, _ = core.Protect(func() {
			for i := 0; i < n; i++ {
				if !it.it.Next() {
					c.Violate("iterate:early-end", witness(map[string]any{"at": i, "around": c08renderAround(list, i)}),
						"Next returned false after %d of %d elements", i, n)
					bad = true
					return
				}
				if got := c08fromReal(it.it.FeatureID()); got != list[i] {
					sig := "iterate:wrong-element"
					if lay.blockFirst[i] {
						sig += ":first-of-block"
					}
					c.Violate(sig, witness(map[string]any{"at": i, "around": c08renderAround(list, i), "got": got.String()}),
						"element %d decoded as %s, encoded %s", i, got, list[i])
					bad = true
					return
				}
				if lay.blockFirst[i] && i > 0 && !c08sameGroup(list[i-1], list[i]) {
					c.Count("next_over_namespace_switch")
				} else if lay.blockFirst[i] && i > 0 {
					c.Count("next_over_block_edge")
				}
			}
			if it.it.Next() {
				c.Violate("iterate:past-end", witness(map[string]any{"got": c08fromReal(it.it.FeatureID()).String()}),
					"Next returned true after all %d elements (value %s)", n, c08fromReal(it.it.FeatureID()))
				bad = true
			}
		})
		if panicked {
			c.Violate("iterate:panic@"+frame, witness(nil), "iteration panicked: %s", pc)
			bad = true
		}
		if bad {
			c.Key("%v|%x", gdesc, h)
			return
		}
	}

	// 2. Advance probes
	type target struct {
		id    c08id
		class string
	}
	var targets []target
	add := func(id c08id, class string) { targets = append(targets, target{id, class}) }
	inList := map[[2]string]bool{}
	for _, g := range groups {
		inList[[2]string{fmt.Sprint(g.t), g.ns}] = true
		first, last := list[g.first], list[g.first+g.n-1]
		add(c08id{g.t, g.ns, 0}, "group-zero")
		add(c08id{g.t, g.ns, math.MaxUint64}, "group-max")
		add(first, "group-first")
		if first.v > 0 {
			add(c08id{g.t, g.ns, first.v - 1}, "group-first-1")
		}
		add(last, "group-last")
		if last.v < math.MaxUint64 {
			add(c08id{g.t, g.ns, last.v + 1}, "group-last+1")
		}
	}
	if n > 0 {
		// elements, +-1, block edges
		k := 10
		if n < k {
			k = n
		}
		for j := 0; j < k; j++ {
			i := r.Intn(n)
			e := list[i]
			switch r.Intn(3) {
			case 0:
				add(e, "element")
			case 1:
				if e.v > 0 {
					add(c08id{e.t, e.ns, e.v - 1}, "element-1")
				}
			case 2:
				if e.v < math.MaxUint64 {
					add(c08id{e.t, e.ns, e.v + 1}, "element+1")
				}
			}
		}
		var edges []int
		for i := range list {
			if lay.blockFirst[i] || lay.blockLast[i] {
				edges = append(edges, i)
			}
		}
		for j := 0; j < 8 && len(edges) > 0; j++ {
			i := core.Pick(r, edges)
			e := list[i]
			cl := "block-last"
			if lay.blockFirst[i] {
				cl = "block-first"
			}
			switch r.Intn(3) {
			case 0:
				add(e, cl)
			case 1:
				if e.v > 0 {
					add(c08id{e.t, e.ns, e.v - 1}, cl+"-1")
				}
			case 2:
				if e.v < math.MaxUint64 {
					add(c08id{e.t, e.ns, e.v + 1}, cl+"+1")
				}
			}
		}
	}
	// groups in the table but absent from the list (incl. the invalid namespace "", the key of typed queries)
	{
		cands := append([]string{""}, tableNS...)
		for j := 0; j < 6; j++ {
			t := r.Intn(7)
			ns := core.Pick(r, cands)
			if inList[[2]string{fmt.Sprint(t), ns}] {
				continue
			}
			var v uint64
			switch r.Intn(3) {
			case 0:
				v = 0
			case 1:
				v = math.MaxUint64
			default:
				v = r.U64() >> uint(r.Intn(64))
			}
			add(c08id{t, ns, v}, "absent-group")
		}
	}
	// sub-case: namespaces the table does not know
	subcaseUnknownNS := r.Chance(0.12) && len(outside) > 0
	if subcaseUnknownNS {
		for j := 0; j < 3; j++ {
			add(c08id{r.Intn(4), core.Pick(r, outside), r.U64() >> uint(r.Intn(64))}, "ns-not-in-table")
		}
	}
	core.Shuffle(r, targets)
	if len(targets) > 36 {
		// keep all the unknown-namespace ones, they are few
		kept := targets[:0:0]
		for _, t := range targets {
			if len(kept) < 36 || t.class == "ns-not-in-table" {
				kept = append(kept, t)
			}
		}
		targets = kept
	}

	groupOf := func(id c08id) int {
		for gi, g := range groups {
			if g.t == id.t && g.ns == id.ns {
				return gi
			}
		}
		return -1
	}
	var probeDesc []string
	probes := 0
	for _, tg := range targets {
		lb := c08lowerBound(list, tg.id)
		// how many Nexts first
		p := 0
		switch x := r.Intn(10); {
		case x < 4:
			p = 0
		case x < 6: // stand just before / on / after the landing element
			p = lb + r.Range(-1, 2)
		case x < 8: // stand at the start of the landing block or a little before the landing
			p = lb - r.Intn(70)
		default:
			p = r.Intn(n + 1)
		}
		if p < 0 {
			p = 0
		}
		if p > n {
			p = n
		}
		if p > 400 { // keep the case cheap: long prefixes only rarely
			if !r.Chance(0.1) {
				p = 0
			}
		}
		tail := 0
		switch r.Intn(4) {
		case 0:
			tail = 1
		case 1:
			tail = 3
		case 2:
			tail = 70
		case 3:
			tail = 300
		}
		var second *c08id
		if n > 0 && r.Chance(0.4) {
			e := list[r.Intn(n)]
			if r.Bool() && e.v < math.MaxUint64 {
				e.v++
			}
			second = &e
		}
		desc := fmt.Sprintf("next*%d;adv(%s);next*%d", p, tg.id, tail)
		if second != nil {
			desc += fmt.Sprintf(";adv(%s);next*2", *second)
		}
		probeDesc = append(probeDesc, desc)
		probes++
		unknown := tg.class == "ns-not-in-table"
		sigSuffix := ""
		if unknown {
			sigSuffix = ":ns-not-in-table"
		}

		it := newIt()
		op := "prefix-Next"
		stop := false
		panicked, pc, frame, _ := core.Protect(func() {
			// prefix
			for i := 0; i < p; i++ {
				ok := it.it.Next()
				if !ok {
					if i < n {
						c.Violate("Next:early-end", witness(map[string]any{"probe": desc}), "probe %s: Next %d returned false on a list of %d", desc, i, n)
					}
					// the contract ended (p == n+... cannot happen, p <= n)
					stop = true
					return
				}
				if i >= n {
					c.Violate("Next:past-end", witness(map[string]any{"probe": desc}), "probe %s: Next %d returned true on a list of %d", desc, i, n)
					stop = true
					return
				}
				it.pos = i
				it.started = true
			}
			if p > 0 {
				c.Count("advance_after_next")
			} else {
				c.Count("advance_first_call")
			}
			// situation class
			situation := "first-call"
			curGroup := -1
			if it.started {
				curGroup = groupOf(list[it.pos])
			}
			tgGroup := groupOf(tg.id)
			want := lb
			if it.started && it.pos > want {
				want = it.pos
			}
			switch {
			case unknown:
				situation = "ns-not-in-table"
			case it.started && c08cmp(tg.id, list[it.pos]) < 0:
				situation = "lt-current"
				c.Count("advance_lt_current")
			case it.started && c08cmp(tg.id, list[it.pos]) == 0:
				situation = "eq-current"
				c.Count("advance_eq_current")
			case tgGroup < 0:
				situation = "absent-ns"
				c.Count("advance_absent_ns")
				c.Count("target_ns_in_table_absent_from_list")
				if tg.id.ns == "" {
					c.Count("target_invalid_namespace")
				}
			case tgGroup == curGroup || (!it.started && tgGroup == 0):
				situation = "same-ns"
				c.Count("advance_same_ns")
			default:
				situation = "later-ns"
				c.Count("advance_later_ns")
			}
			if want == n {
				c.Count("advance_beyond_end")
			}
			if want < n && lay.blockFirst[want] {
				c.Count("advance_lands_on_block_first")
			}
			op = "Advance"
			ok := it.it.Advance(tg.id.real())
			w := func(extra map[string]any) map[string]any {
				m := map[string]any{"probe": desc, "target": tg.id.String(), "target_class": tg.class, "situation": situation,
					"model_landing_index": want, "around_landing": c08renderAround(list, want)}
				if it.started {
					m["current_before"] = list[it.pos].String()
				}
				for k, v := range extra {
					m[k] = v
				}
				return witness(m)
			}
			if want == n {
				if ok {
					c.Violate("Advance:true-past-end:"+situation, w(map[string]any{"got": c08fromReal(it.it.FeatureID()).String()}),
						"probe %s: Advance(%s) returned true with value %s, no element >= target remains", desc, tg.id, c08fromReal(it.it.FeatureID()))
				}
				stop = true
				return
			}
			if !ok {
				c.Violate("Advance:false-but-present:"+situation, w(nil), "probe %s: Advance(%s) returned false, model lands on %s", desc, tg.id, list[want])
				stop = true
				return
			}
			if got := c08fromReal(it.it.FeatureID()); got != list[want] {
				c.Violate("Advance:wrong-landing:"+situation, w(map[string]any{"got": got.String()}),
					"probe %s: Advance(%s) landed on %s, the first element >= target at/after the current position is %s", desc, tg.id, got, list[want])
				stop = true
				return
			}
			landing := want
			it.pos = want
			it.started = true
			// tail
			op = "Next-after-Advance"
			for k := 0; k < tail; k++ {
				ok := it.it.Next()
				nx := it.pos + 1
				if k == 0 {
					c.Count("next_after_advance")
					switch situation {
					case "later-ns":
						c.Count("next_after_advance_later_ns")
					case "absent-ns":
						c.Count("next_after_advance_absent_ns")
					}
				}
				if nx >= n {
					if ok {
						got := c08fromReal(it.it.FeatureID())
						sig := "Next-after-Advance:past-end:" + situation
						if got == list[landing] && k == 0 {
							sig = "Advance:reyield-landing-element:" + situation
						}
						c.Violate(sig, w(map[string]any{"got": got.String(), "nexts_after_advance": k + 1}),
							"probe %s: Next %d after Advance returned true (%s) past the end of the list", desc, k+1, got)
					}
					stop = true
					return
				}
				if !ok {
					c.Violate("Next-after-Advance:early-end:"+situation, w(map[string]any{"nexts_after_advance": k + 1}),
						"probe %s: Next %d after Advance returned false, model has %s", desc, k+1, list[nx])
					stop = true
					return
				}
				if got := c08fromReal(it.it.FeatureID()); got != list[nx] {
					sig := "Next-after-Advance:wrong-element:" + situation
					if got == list[landing] && k == 0 {
						sig = "Advance:reyield-landing-element:" + situation
					}
					c.Violate(sig, w(map[string]any{"got": got.String(), "want": list[nx].String(), "nexts_after_advance": k + 1}),
						"probe %s: Next %d after Advance(%s) gave %s, model gives %s", desc, k+1, tg.id, got, list[nx])
					stop = true
					return
				}
				it.pos = nx
			}
			if second == nil {
				return
			}
			// second Advance from wherever the tail stopped
			op = "second-Advance"
			lb2 := c08lowerBound(list, *second)
			want2 := lb2
			if it.pos > want2 {
				want2 = it.pos
			}
			c.Count("second_advance")
			ok = it.it.Advance(second.real())
			if want2 == n {
				if ok {
					c.Violate("Advance:true-past-end:second", w(map[string]any{"second": second.String()}), "probe %s: second Advance returned true past the end", desc)
				}
				return
			}
			if !ok {
				c.Violate("Advance:false-but-present:second", w(map[string]any{"second": second.String()}), "probe %s: second Advance(%s) returned false, model lands on %s", desc, *second, list[want2])
				return
			}
			if got := c08fromReal(it.it.FeatureID()); got != list[want2] {
				c.Violate("Advance:wrong-landing:second", w(map[string]any{"second": second.String(), "got": got.String()}),
					"probe %s: second Advance(%s) from %s landed on %s, model lands on %s", desc, *second, list[it.pos], got, list[want2])
				return
			}
			it.pos = want2
			for k := 0; k < 2; k++ {
				ok := it.it.Next()
				nx := it.pos + 1
				if nx >= n {
					if ok {
						c.Violate("Next-after-Advance:past-end:second", w(map[string]any{"second": second.String()}), "probe %s: Next after the second Advance returned true past the end", desc)
					}
					return
				}
				if !ok {
					c.Violate("Next-after-Advance:early-end:second", w(map[string]any{"second": second.String()}), "probe %s: Next after the second Advance returned false, model has %s", desc, list[nx])
					return
				}
				if got := c08fromReal(it.it.FeatureID()); got != list[nx] {
					sig := "Next-after-Advance:wrong-element:second"
					if got == list[want2] && k == 0 {
						sig = "Advance:reyield-landing-element:second"
					}
					c.Violate(sig, w(map[string]any{"second": second.String(), "got": got.String(), "want": list[nx].String()}),
						"probe %s: Next %d after the second Advance(%s) gave %s, model gives %s", desc, k+1, *second, got, list[nx])
					return
				}
				it.pos = nx
			}
		})
		_ = stop
		if panicked {
			if unknown && op == "Advance" && strings.Contains(frame, "NamespaceTable.Encode") {
				c.Count("ns_not_in_table_panic")
				c.Violate("Advance:ns-not-in-table:panic", witness(map[string]any{"probe": desc, "target": tg.id.String(), "frame": frame, "panic": pc}),
					"probe %s: Advance(%s) panicked (%s at %s): the target's namespace is not in the index's namespace table", desc, tg.id, pc, frame)
			} else {
				c.Violate(op+":panic@"+frame+sigSuffix, witness(map[string]any{"probe": desc, "target": tg.id.String(), "panic": pc}),
					"probe %s: %s panicked: %s at %s", desc, op, pc, frame)
			}
		}
		if c.Violations() >= 6 {
			break
		}
	}
	if subcaseUnknownNS {
		c.Count("subcase_ns_not_in_table")
	}
	c.Add("probes", probes)
	if probes > 0 && (lay.blocks >= 2 || len(groups) >= 2) {
		c.Nontrivial()
	}
	c.Key("%v|%v|%x|%s", tableNS, gdesc, h, strings.Join(probeDesc, ","))
	if c.Index < 3 {
		s := map[string]any{"table_namespaces": tableNS, "groups": gdesc, "len": n, "blocks": lay.blocks, "encoded_bytes": encodedLen}
		if len(probeDesc) > 5 {
			s["probes"] = probeDesc[:5]
		} else {
			s["probes"] = probeDesc
		}
		c.Sample(s)
	}
}
