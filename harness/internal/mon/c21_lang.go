package mon

import (
	"fmt"
	"reflect"
	"sort"
	"strings"

	"diagonal.works/b6"
	"diagonal.works/b6/api"
	"diagonal.works/b6/api/functions"
)

// The little language shared by C21 (VM vs reference interpreter) and C22
// (Simplify preserves meaning): own AST, canonical printer, conversion to and
// from b6.Expression, the harness-registered typed library and the reference
// interpreter.
//
// Language, as described by the property text and the api package comments:
//   - expressions are literals, symbols, lambdas {p1, .., pn -> body} and calls
//     (f a1 .. an); a pipeline a | f is the call (f a);
//   - scoping is lexical, the innermost binding of a name wins (lambda
//     parameters shadow outer parameters and global functions);
//   - evaluation is call-by-value, arguments left to right, then the callee;
//   - applying a function of arity n to m arguments: m == n calls it; m < n
//     gives a function of the remaining n-m LEADING parameters (partial
//     application binds the TRAILING parameters: (f b) a == f a b); m > n is an
//     arity error. A variadic function accepts any m >= its fixed parameters.
//   - calling something that is not a function with arguments is a type error,
//     as is passing a value of the wrong type to a library function.

type c21kind uint8

const (
	c21Int c21kind = iota
	c21Str
	c21Qry
	c21Sym
	c21Lam
	c21Call
)

type c21node struct {
	kind   c21kind
	i      int        // c21Int
	s      string     // c21Str value, c21Sym name
	q      b6.Query   // c21Qry
	params []string   // c21Lam
	body   *c21node   // c21Lam
	fn     *c21node   // c21Call
	args   []*c21node // c21Call
	piped  bool
}

func c21IntN(i int) *c21node      { return &c21node{kind: c21Int, i: i} }
func c21StrN(s string) *c21node   { return &c21node{kind: c21Str, s: s} }
func c21QryN(q b6.Query) *c21node { return &c21node{kind: c21Qry, q: q} }
func c21SymN(s string) *c21node   { return &c21node{kind: c21Sym, s: s} }
func c21LamN(ps []string, b *c21node) *c21node {
	return &c21node{kind: c21Lam, params: ps, body: b}
}
func c21CallN(f *c21node, args ...*c21node) *c21node {
	return &c21node{kind: c21Call, fn: f, args: args}
}

// ---- canonical query rendering (own; nested and/or flattened, because a
// nested intersection matches exactly what the flat one matches) ----

func c21canonQuery(q b6.Query) string {
	switch q := q.(type) {
	case b6.Keyed:
		return "k(" + fmt.Sprintf("%q", q.Key) + ")"
	case *b6.Keyed:
		return c21canonQuery(*q)
	case b6.Tagged:
		return "t(" + fmt.Sprintf("%q", q.Key) + "=" + fmt.Sprintf("%q", q.Value.String()) + ")"
	case *b6.Tagged:
		return c21canonQuery(*q)
	case b6.All:
		return "all"
	case b6.Typed:
		return "ty(" + q.Type.String() + "," + c21canonQuery(q.Query) + ")"
	case *b6.Typed:
		return c21canonQuery(*q)
	case b6.Intersection:
		var parts []string
		var walk func(x b6.Intersection)
		walk = func(x b6.Intersection) {
			for _, e := range x {
				switch e := e.(type) {
				case b6.Intersection:
					walk(e)
				case *b6.Intersection:
					walk(*e)
				default:
					parts = append(parts, c21canonQuery(e))
				}
			}
		}
		walk(q)
		return "and(" + strings.Join(parts, ",") + ")"
	case *b6.Intersection:
		return c21canonQuery(*q)
	case b6.Union:
		var parts []string
		var walk func(x b6.Union)
		walk = func(x b6.Union) {
			for _, e := range x {
				switch e := e.(type) {
				case b6.Union:
					walk(e)
				case *b6.Union:
					walk(*e)
				default:
					parts = append(parts, c21canonQuery(e))
				}
			}
		}
		walk(q)
		return "or(" + strings.Join(parts, ",") + ")"
	case *b6.Union:
		return c21canonQuery(*q)
	}
	return fmt.Sprintf("?%T", q)
}

// exact (unflattened) rendering, used for the case key and for structure
func c21exactQuery(q b6.Query) string {
	switch q := q.(type) {
	case b6.Intersection:
		parts := make([]string, len(q))
		for i, e := range q {
			parts[i] = c21exactQuery(e)
		}
		return "and(" + strings.Join(parts, ",") + ")"
	case b6.Union:
		parts := make([]string, len(q))
		for i, e := range q {
			parts[i] = c21exactQuery(e)
		}
		return "or(" + strings.Join(parts, ",") + ")"
	case b6.Typed:
		return "ty(" + q.Type.String() + "," + c21exactQuery(q.Query) + ")"
	}
	return c21canonQuery(q)
}

// ---- printer ----

func (n *c21node) String() string {
	var sb strings.Builder
	n.print(&sb)
	return sb.String()
}

func (n *c21node) print(sb *strings.Builder) {
	switch n.kind {
	case c21Int:
		fmt.Fprintf(sb, "%d", n.i)
	case c21Str:
		fmt.Fprintf(sb, "%q", n.s)
	case c21Qry:
		sb.WriteString("[" + c21exactQuery(n.q) + "]")
	case c21Sym:
		sb.WriteString(n.s)
	case c21Lam:
		sb.WriteString("{" + strings.Join(n.params, ", ") + " -> ")
		n.body.print(sb)
		sb.WriteString("}")
	case c21Call:
		sb.WriteString("(")
		if n.piped && len(n.args) >= 1 {
			n.args[0].print(sb)
			sb.WriteString(" | ")
			n.fn.print(sb)
			for _, a := range n.args[1:] {
				sb.WriteString(" ")
				a.print(sb)
			}
		} else {
			n.fn.print(sb)
			for _, a := range n.args {
				sb.WriteString(" ")
				a.print(sb)
			}
		}
		sb.WriteString(")")
	}
}

func (n *c21node) count() int {
	switch n.kind {
	case c21Lam:
		return 1 + n.body.count()
	case c21Call:
		c := 1 + n.fn.count()
		for _, a := range n.args {
			c += a.count()
		}
		return c
	}
	return 1
}

func (n *c21node) depth() int {
	switch n.kind {
	case c21Lam:
		return 1 + n.body.depth()
	case c21Call:
		d := n.fn.depth()
		for _, a := range n.args {
			if ad := a.depth(); ad > d {
				d = ad
			}
		}
		return 1 + d
	}
	return 1
}

func (n *c21node) walk(f func(*c21node)) {
	f(n)
	switch n.kind {
	case c21Lam:
		n.body.walk(f)
	case c21Call:
		n.fn.walk(f)
		for _, a := range n.args {
			a.walk(f)
		}
	}
}

// free symbols of n: names used that no enclosing lambda binds.
func (n *c21node) free(bound []string, out map[string]bool) {
	switch n.kind {
	case c21Sym:
		for _, b := range bound {
			if b == n.s {
				return
			}
		}
		out[n.s] = true
	case c21Lam:
		n.body.free(append(append([]string{}, bound...), n.params...), out)
	case c21Call:
		n.fn.free(bound, out)
		for _, a := range n.args {
			a.free(bound, out)
		}
	}
}

// ---- conversion to and from b6.Expression (fresh trees every time:
// api.Simplify writes into the argument slices of the tree it is given) ----

func (n *c21node) expr() b6.Expression {
	switch n.kind {
	case c21Int:
		return b6.NewIntExpression(n.i)
	case c21Str:
		return b6.NewStringExpression(n.s)
	case c21Qry:
		return b6.NewQueryExpression(n.q)
	case c21Sym:
		return b6.NewSymbolExpression(n.s)
	case c21Lam:
		return b6.NewLambdaExpression(append([]string{}, n.params...), n.body.expr())
	case c21Call:
		args := make([]b6.Expression, len(n.args))
		for i, a := range n.args {
			args[i] = a.expr()
		}
		return b6.Expression{AnyExpression: b6.CallExpression{Function: n.fn.expr(), Args: args, Pipelined: n.piped}}
	}
	panic("c21node.expr: bad kind")
}

func c21fromExpr(e b6.Expression) (*c21node, error) {
	switch x := e.AnyExpression.(type) {
	case b6.IntExpression:
		return c21IntN(int(x)), nil
	case b6.StringExpression:
		return c21StrN(string(x)), nil
	case b6.QueryExpression:
		return c21QryN(x.Query), nil
	case b6.SymbolExpression:
		return c21SymN(string(x)), nil
	case b6.LambdaExpression:
		b, err := c21fromExpr(x.Expression)
		if err != nil {
			return nil, err
		}
		return c21LamN(append([]string{}, x.Args...), b), nil
	case b6.CallExpression:
		f, err := c21fromExpr(x.Function)
		if err != nil {
			return nil, err
		}
		n := &c21node{kind: c21Call, fn: f, piped: x.Pipelined}
		for _, a := range x.Args {
			an, err := c21fromExpr(a)
			if err != nil {
				return nil, err
			}
			n.args = append(n.args, an)
		}
		return n, nil
	case nil:
		return nil, fmt.Errorf("empty expression")
	}
	return nil, fmt.Errorf("unexpected node %T", e.AnyExpression)
}

// ---- reference values ----

type c21val interface{}

type c21pairV struct{ a, b c21val }
type c21strV string
type c21qryV string // canonical rendering

type c21slot struct {
	lam *c21node
	i   int
}

type c21binding struct {
	name string
	val  c21val
	slot c21slot
	act  int
}

type c21env struct {
	b    c21binding
	next *c21env
}

func (e *c21env) lookup(name string) *c21binding {
	for ; e != nil; e = e.next {
		if e.b.name == name {
			return &e.b
		}
	}
	return nil
}

type c21fnV struct {
	kind   uint8 // 0 builtin, 1 closure, 2 partial, 3 native
	b      *c21builtin
	lam    *c21node
	env    *c21env
	inner  *c21fnV
	bound  []c21val
	snap   map[c21slot]int
	native func(in *c21interp, x c21val) (c21val, *c21err)
}

type c21err struct {
	class string // arity | type | unbound | fuel
	msg   string
}

func (e *c21err) String() string { return e.class + ": " + e.msg }

func c21errf(class, f string, a ...any) *c21err { return &c21err{class, fmt.Sprintf(f, a...)} }

type c21builtin struct {
	name     string
	fixed    int // number of non-variadic parameters
	variadic bool
	impl     func(in *c21interp, a []c21val) (c21val, *c21err)
	goFn     interface{} // the function registered with the VM
}

// arity as the VM's Callable.NumArgs documents it: a variadic tail counts as one.
func (f *c21fnV) arity() int {
	switch f.kind {
	case 0:
		if f.b.variadic {
			return f.b.fixed + 1
		}
		return f.b.fixed
	case 1:
		return len(f.lam.params)
	case 2:
		return f.inner.arity() - len(f.bound)
	}
	return 1
}

func c21render(v c21val) string {
	switch v := v.(type) {
	case int:
		return fmt.Sprintf("%d", v)
	case *c21pairV:
		return "<" + c21render(v.a) + "," + c21render(v.b) + ">"
	case c21strV:
		return fmt.Sprintf("%q", string(v))
	case c21qryV:
		return "[" + string(v) + "]"
	case *c21fnV:
		return "<fn>"
	}
	return fmt.Sprintf("?%T", v)
}

// c21renderVM renders a value returned by the VM in the same notation.
func c21renderVM(v interface{}) string {
	switch v := v.(type) {
	case int:
		return fmt.Sprintf("%d", v)
	case api.Pair:
		return "<" + c21renderVM(v.First()) + "," + c21renderVM(v.Second()) + ">"
	case string:
		return fmt.Sprintf("%q", v)
	case b6.Query:
		return "[" + c21canonQuery(v) + "]"
	case api.Callable:
		return "<fn>"
	case nil:
		return "nil"
	}
	return fmt.Sprintf("?%T:%v", v, v)
}

// ---- the interpreter ----

type c21interp struct {
	globals map[string]*c21builtin
	fuel    int
	nextAct int
	// model of the VM's per-parameter argument slots, used ONLY to classify a
	// mismatch as the known "closures are not lexical" defect: slots[s] is the
	// activation that last stored into slot s. A read whose lexical binding
	// belongs to another activation is a hazard.
	slots   map[c21slot]int
	hazards int
	ev      map[string]int // what the evaluation actually did
}

func c21newInterp(globals map[string]*c21builtin) *c21interp {
	return &c21interp{globals: globals, fuel: 20000, slots: map[c21slot]int{}, ev: map[string]int{}}
}

func (in *c21interp) note(s string) { in.ev[s]++ }

// c21static reports what is wrong with a program before it runs: a literal
// in function position can never be called, wherever it stands (the VM
// rejects it when it compiles the program, so also in a lambda that is never
// applied), and a symbol nothing binds is undefined.
func (in *c21interp) static(n *c21node, bound []string) *c21err {
	switch n.kind {
	case c21Sym:
		for _, b := range bound {
			if b == n.s {
				return nil
			}
		}
		if _, ok := in.globals[n.s]; !ok {
			return c21errf("unbound", "undefined symbol %q", n.s)
		}
	case c21Lam:
		return in.static(n.body, append(append([]string{}, bound...), n.params...))
	case c21Call:
		switch n.fn.kind {
		case c21Int, c21Str, c21Qry:
			return c21errf("type", "cannot call the literal %s", n.fn)
		}
		for _, a := range n.args {
			if err := in.static(a, bound); err != nil {
				return err
			}
		}
		return in.static(n.fn, bound)
	}
	return nil
}

// run is the whole reference evaluation of a closed program.
func (in *c21interp) run(n *c21node) (c21val, *c21err) {
	if err := in.static(n, nil); err != nil {
		return nil, err
	}
	return in.eval(n, nil)
}

func (in *c21interp) eval(n *c21node, env *c21env) (c21val, *c21err) {
	in.fuel--
	if in.fuel < 0 {
		return nil, c21errf("fuel", "out of fuel")
	}
	switch n.kind {
	case c21Int:
		return n.i, nil
	case c21Str:
		return c21strV(n.s), nil
	case c21Qry:
		return c21qryV(c21canonQuery(n.q)), nil
	case c21Sym:
		if b := env.lookup(n.s); b != nil {
			if in.slots[b.slot] != b.act {
				in.hazards++
			}
			return b.val, nil
		}
		if g, ok := in.globals[n.s]; ok {
			return &c21fnV{kind: 0, b: g}, nil
		}
		return nil, c21errf("unbound", "undefined symbol %q", n.s)
	case c21Lam:
		return &c21fnV{kind: 1, lam: n, env: env}, nil
	case c21Call:
		args := make([]c21val, len(n.args))
		for i, a := range n.args {
			v, err := in.eval(a, env)
			if err != nil {
				return nil, err
			}
			args[i] = v
		}
		switch n.fn.kind {
		case c21Lam:
			in.note("call_lambda_literal")
		case c21Call:
			in.note("call_of_call")
		case c21Sym:
			if env.lookup(n.fn.s) != nil {
				in.note("call_of_parameter")
				if len(n.args) == 0 {
					// (x) with x a parameter: the parameter's value
					return in.eval(n.fn, env)
				}
			}
		}
		if n.piped {
			in.note("pipeline")
		}
		fv, err := in.eval(n.fn, env)
		if err != nil {
			return nil, err
		}
		f, ok := fv.(*c21fnV)
		if !ok {
			return nil, c21errf("type", "cannot call %s", c21render(fv))
		}
		return in.call(f, args)
	}
	return nil, c21errf("type", "bad node")
}

func (in *c21interp) partial(f *c21fnV, args []c21val) *c21fnV {
	snap := make(map[c21slot]int, len(in.slots))
	for k, v := range in.slots {
		snap[k] = v
	}
	if len(args) > 0 {
		if f.kind == 2 {
			in.note("partial_of_partial")
		} else {
			in.note("partial_once")
		}
	} else {
		in.note("partial_zero_args")
	}
	return &c21fnV{kind: 2, inner: f, bound: args, snap: snap}
}

func (in *c21interp) call(f *c21fnV, args []c21val) (c21val, *c21err) {
	in.fuel--
	if in.fuel < 0 {
		return nil, c21errf("fuel", "out of fuel")
	}
	n := len(args)
	switch f.kind {
	case 0:
		if f.b.variadic {
			if n < f.b.fixed {
				return in.partial(f, args), nil
			}
			in.note("variadic_call")
			return f.b.impl(in, args)
		}
		if n > f.b.fixed {
			in.note("over_application")
			return nil, c21errf("arity", "%s: expected %d arguments, found %d", f.b.name, f.b.fixed, n)
		}
		if n < f.b.fixed {
			return in.partial(f, args), nil
		}
		return f.b.impl(in, args)
	case 1:
		np := len(f.lam.params)
		if n > np {
			in.note("over_application")
			return nil, c21errf("arity", "lambda: expected %d arguments, found %d", np, n)
		}
		if n < np {
			return in.partial(f, args), nil
		}
		in.nextAct++
		act := in.nextAct
		env := f.env
		for i, p := range f.lam.params {
			s := c21slot{f.lam, i}
			if f.env.lookup(p) != nil {
				in.note("shadowing")
			} else if _, ok := in.globals[p]; ok {
				in.note("shadowing_global")
			}
			in.slots[s] = act
			env = &c21env{b: c21binding{name: p, val: args[i], slot: s, act: act}, next: env}
		}
		in.note("closure_applied")
		if f.env != nil {
			in.note("nested_closure_applied")
		}
		return in.eval(f.lam.body, env)
	case 2:
		rem := f.arity()
		if n > rem {
			in.note("over_application")
			return nil, c21errf("arity", "partial: expected at most %d arguments, found %d", rem, n)
		}
		if n < rem {
			return in.partial(f, args), nil
		}
		in.note("partial_completed")
		saved := in.slots
		in.slots = make(map[c21slot]int, len(f.snap))
		for k, v := range f.snap {
			in.slots[k] = v
		}
		all := append(append([]c21val{}, args...), f.bound...)
		r, err := in.call(f.inner, all)
		in.slots = saved
		return r, err
	case 3:
		if n > 1 {
			in.note("over_application")
			return nil, c21errf("arity", "function: expected 1 argument, found %d", n)
		}
		if n < 1 {
			return in.partial(f, args), nil
		}
		return f.native(in, args[0])
	}
	return nil, c21errf("type", "bad function")
}

// ---- the library: every function exists twice, once for the reference
// interpreter and once as a Go function registered with the VM ----

func c21wantInt(name string, v c21val) (int, *c21err) {
	if i, ok := v.(int); ok {
		return i, nil
	}
	return 0, c21errf("type", "%s: expected int, found %s", name, c21render(v))
}

func c21wantFn(name string, v c21val) (*c21fnV, *c21err) {
	if f, ok := v.(*c21fnV); ok {
		return f, nil
	}
	return nil, c21errf("type", "%s: expected a function, found %s", name, c21render(v))
}

func c21wantPair(name string, v c21val) (*c21pairV, *c21err) {
	if p, ok := v.(*c21pairV); ok {
		return p, nil
	}
	return nil, c21errf("type", "%s: expected a pair, found %s", name, c21render(v))
}

func c21wantStr(name string, v c21val) (string, *c21err) {
	if s, ok := v.(c21strV); ok {
		return string(s), nil
	}
	return "", c21errf("type", "%s: expected a string, found %s", name, c21render(v))
}

func c21wantQry(name string, v c21val) (string, *c21err) {
	if s, ok := v.(c21qryV); ok {
		return string(s), nil
	}
	return "", c21errf("type", "%s: expected a query, found %s", name, c21render(v))
}

var c21placeholder = b6.NewSymbolExpression("_")

// vmCall applies a VM callable to Go values the way the repository's own
// higher-order functions (map, filter, call) do.
func c21vmCall(c *api.Context, f api.Callable, args ...interface{}) (interface{}, error) {
	frames := make([]api.StackFrame, len(args))
	for i, a := range args {
		if a == nil {
			return nil, fmt.Errorf("nil value")
		}
		frames[i] = api.StackFrame{Value: reflect.ValueOf(a), Expression: c21placeholder}
	}
	return c.VM.CallWithArgsAndExpressions(c, f, frames)
}

func c21intFn(name string, n int, f func(a []int) int) func(in *c21interp, a []c21val) (c21val, *c21err) {
	return func(in *c21interp, a []c21val) (c21val, *c21err) {
		is := make([]int, len(a))
		for i, v := range a {
			x, err := c21wantInt(name, v)
			if err != nil {
				return nil, err
			}
			is[i] = x
		}
		return f(is), nil
	}
}

// flatten a query rendering pair into the canonical nested-flattened form
func c21joinQ(op string, a, b string) string {
	parts := []string{}
	for _, x := range []string{a, b} {
		if strings.HasPrefix(x, op+"(") && strings.HasSuffix(x, ")") && c21balancedTop(x[len(op)+1:len(x)-1]) {
			parts = append(parts, x[len(op)+1:len(x)-1])
		} else {
			parts = append(parts, x)
		}
	}
	return op + "(" + strings.Join(parts, ",") + ")"
}

// reports whether s, the inside of "op(...)", closes no parenthesis it did not
// open (so the outer parentheses really enclosed all of it).
func c21balancedTop(s string) bool {
	d := 0
	inq := false
	for i := 0; i < len(s); i++ {
		ch := s[i]
		if inq {
			if ch == '\\' {
				i++
			} else if ch == '"' {
				inq = false
			}
			continue
		}
		switch ch {
		case '"':
			inq = true
		case '(':
			d++
		case ')':
			d--
			if d < 0 {
				return false
			}
		}
	}
	return d == 0
}

func c21library() (map[string]*c21builtin, api.FunctionSymbols) {
	type A = []c21val
	lib := []*c21builtin{
		{name: "add", fixed: 2, impl: c21intFn("add", 2, func(a []int) int { return a[0] + a[1] }),
			goFn: func(c *api.Context, a int, b int) (int, error) { return a + b, nil }},
		{name: "sub", fixed: 2, impl: c21intFn("sub", 2, func(a []int) int { return a[0] - a[1] }),
			goFn: func(c *api.Context, a int, b int) (int, error) { return a - b, nil }},
		{name: "mul", fixed: 2, impl: c21intFn("mul", 2, func(a []int) int { return a[0] * a[1] }),
			goFn: func(c *api.Context, a int, b int) (int, error) { return a * b, nil }},
		{name: "neg", fixed: 1, impl: c21intFn("neg", 1, func(a []int) int { return -a[0] }),
			goFn: func(c *api.Context, a int) (int, error) { return -a, nil }},
		{name: "lin3", fixed: 3, impl: c21intFn("lin3", 3, func(a []int) int { return a[0] + 10*a[1] + 100*a[2] }),
			goFn: func(c *api.Context, a int, b int, d int) (int, error) { return a + 10*b + 100*d, nil }},
		{name: "seven", fixed: 0, impl: func(in *c21interp, a A) (c21val, *c21err) { return 7, nil },
			goFn: func(c *api.Context) (int, error) { return 7, nil }},
		{name: "sum", fixed: 0, variadic: true, impl: c21intFn("sum", -1, func(a []int) int {
			s := 0
			for i, x := range a {
				s += (i + 1) * x
			}
			return s
		}), goFn: func(c *api.Context, xs ...int) (int, error) {
			s := 0
			for i, x := range xs {
				s += (i + 1) * x
			}
			return s, nil
		}},
		{name: "pair", fixed: 2, impl: func(in *c21interp, a A) (c21val, *c21err) { return &c21pairV{a[0], a[1]}, nil },
			goFn: func(c *api.Context, a interface{}, b interface{}) (api.Pair, error) { return api.AnyAnyPair{a, b}, nil }},
		{name: "tri", fixed: 3, impl: func(in *c21interp, a A) (c21val, *c21err) { return &c21pairV{a[0], &c21pairV{a[1], a[2]}}, nil },
			goFn: func(c *api.Context, a interface{}, b interface{}, d interface{}) (api.Pair, error) {
				return api.AnyAnyPair{a, api.AnyAnyPair{b, d}}, nil
			}},
		{name: "first", fixed: 1, impl: func(in *c21interp, a A) (c21val, *c21err) {
			p, err := c21wantPair("first", a[0])
			if err != nil {
				return nil, err
			}
			return p.a, nil
		}, goFn: func(c *api.Context, p api.Pair) (interface{}, error) { return p.First(), nil }},
		{name: "second", fixed: 1, impl: func(in *c21interp, a A) (c21val, *c21err) {
			p, err := c21wantPair("second", a[0])
			if err != nil {
				return nil, err
			}
			return p.b, nil
		}, goFn: func(c *api.Context, p api.Pair) (interface{}, error) { return p.Second(), nil }},
		{name: "apply", fixed: 2, impl: func(in *c21interp, a A) (c21val, *c21err) {
			f, err := c21wantFn("apply", a[0])
			if err != nil {
				return nil, err
			}
			in.note("go_calls_callable")
			return in.call(f, A{a[1]})
		}, goFn: func(c *api.Context, f api.Callable, x interface{}) (interface{}, error) { return c21vmCall(c, f, x) }},
		{name: "app2", fixed: 3, impl: func(in *c21interp, a A) (c21val, *c21err) {
			f, err := c21wantFn("app2", a[0])
			if err != nil {
				return nil, err
			}
			in.note("go_calls_callable")
			return in.call(f, A{a[1], a[2]})
		}, goFn: func(c *api.Context, f api.Callable, x interface{}, y interface{}) (interface{}, error) {
			return c21vmCall(c, f, x, y)
		}},
		{name: "apply2", fixed: 3, impl: func(in *c21interp, a A) (c21val, *c21err) {
			f, err := c21wantFn("apply2", a[0])
			if err != nil {
				return nil, err
			}
			g, err := c21wantFn("apply2", a[1])
			if err != nil {
				return nil, err
			}
			in.note("go_calls_callable")
			y, err := in.call(g, A{a[2]})
			if err != nil {
				return nil, err
			}
			return in.call(f, A{y})
		}, goFn: func(c *api.Context, f api.Callable, g api.Callable, x interface{}) (interface{}, error) {
			y, err := c21vmCall(c, g, x)
			if err != nil {
				return nil, err
			}
			return c21vmCall(c, f, y)
		}},
		{name: "both", fixed: 3, impl: func(in *c21interp, a A) (c21val, *c21err) {
			f, err := c21wantFn("both", a[0])
			if err != nil {
				return nil, err
			}
			g, err := c21wantFn("both", a[1])
			if err != nil {
				return nil, err
			}
			in.note("go_calls_callable")
			x, err := in.call(f, A{a[2]})
			if err != nil {
				return nil, err
			}
			y, err := in.call(g, A{a[2]})
			if err != nil {
				return nil, err
			}
			return &c21pairV{x, y}, nil
		}, goFn: func(c *api.Context, f api.Callable, g api.Callable, x interface{}) (api.Pair, error) {
			a, err := c21vmCall(c, f, x)
			if err != nil {
				return nil, err
			}
			b, err := c21vmCall(c, g, x)
			if err != nil {
				return nil, err
			}
			return api.AnyAnyPair{a, b}, nil
		}},
		{name: "twice", fixed: 2, impl: func(in *c21interp, a A) (c21val, *c21err) {
			f, err := c21wantFn("twice", a[0])
			if err != nil {
				return nil, err
			}
			in.note("go_calls_callable")
			y, err := in.call(f, A{a[1]})
			if err != nil {
				return nil, err
			}
			return in.call(f, A{y})
		}, goFn: func(c *api.Context, f api.Callable, x interface{}) (interface{}, error) {
			y, err := c21vmCall(c, f, x)
			if err != nil {
				return nil, err
			}
			return c21vmCall(c, f, y)
		}},
		{name: "compose", fixed: 2, impl: func(in *c21interp, a A) (c21val, *c21err) {
			f, err := c21wantFn("compose", a[0])
			if err != nil {
				return nil, err
			}
			g, err := c21wantFn("compose", a[1])
			if err != nil {
				return nil, err
			}
			in.note("go_returns_function")
			return &c21fnV{kind: 3, native: func(in *c21interp, x c21val) (c21val, *c21err) {
				y, err := in.call(g, A{x})
				if err != nil {
					return nil, err
				}
				return in.call(f, A{y})
			}}, nil
		}, goFn: func(c *api.Context, f api.Callable, g api.Callable) (func(*api.Context, interface{}) (interface{}, error), error) {
			return func(c *api.Context, x interface{}) (interface{}, error) {
				y, err := c21vmCall(c, g, x)
				if err != nil {
					return nil, err
				}
				return c21vmCall(c, f, y)
			}, nil
		}},
		// applyi takes its function through the VM's function adaptors (the
		// route map-geometries, materialise etc. use): the adaptor checks the
		// callable's arity when the argument is converted.
		{name: "applyi", fixed: 2, impl: func(in *c21interp, a A) (c21val, *c21err) {
			f, err := c21wantFn("applyi", a[0])
			if err != nil {
				return nil, err
			}
			if f.arity() != 1 {
				return nil, c21errf("arity", "applyi: expected a function with 1 args, found %d", f.arity())
			}
			x, err := c21wantInt("applyi", a[1])
			if err != nil {
				return nil, err
			}
			in.note("go_calls_adaptor")
			return in.call(f, A{x})
		}, goFn: func(c *api.Context, f func(*api.Context, interface{}) (interface{}, error), x int) (interface{}, error) {
			return f(c, x)
		}},
	}
	// query builders (C22): reference semantics here, the VM uses the
	// repository's own functions.
	real := functions.Functions()
	lib = append(lib,
		&c21builtin{name: "keyed", fixed: 1, impl: func(in *c21interp, a A) (c21val, *c21err) {
			k, err := c21wantStr("keyed", a[0])
			if err != nil {
				return nil, err
			}
			return c21qryV(c21canonQuery(b6.Keyed{Key: k})), nil
		}, goFn: real["keyed"]},
		&c21builtin{name: "tagged", fixed: 2, impl: func(in *c21interp, a A) (c21val, *c21err) {
			k, err := c21wantStr("tagged", a[0])
			if err != nil {
				return nil, err
			}
			v, err := c21wantStr("tagged", a[1])
			if err != nil {
				return nil, err
			}
			return c21qryV(c21canonQuery(b6.Tagged{Key: k, Value: b6.NewStringExpression(v)})), nil
		}, goFn: real["tagged"]},
		&c21builtin{name: "typed", fixed: 2, impl: func(in *c21interp, a A) (c21val, *c21err) {
			t, err := c21wantStr("typed", a[0])
			if err != nil {
				return nil, err
			}
			q, err := c21wantQry("typed", a[1])
			if err != nil {
				return nil, err
			}
			return c21qryV("ty(" + b6.FeatureTypeFromString(t).String() + "," + q + ")"), nil
		}, goFn: real["typed"]},
		&c21builtin{name: "and", fixed: 2, impl: func(in *c21interp, a A) (c21val, *c21err) {
			x, err := c21wantQry("and", a[0])
			if err != nil {
				return nil, err
			}
			y, err := c21wantQry("and", a[1])
			if err != nil {
				return nil, err
			}
			return c21qryV(c21joinQ("and", x, y)), nil
		}, goFn: real["and"]},
		&c21builtin{name: "or", fixed: 2, impl: func(in *c21interp, a A) (c21val, *c21err) {
			x, err := c21wantQry("or", a[0])
			if err != nil {
				return nil, err
			}
			y, err := c21wantQry("or", a[1])
			if err != nil {
				return nil, err
			}
			return c21qryV(c21joinQ("or", x, y)), nil
		}, goFn: real["or"]},
	)
	globals := map[string]*c21builtin{}
	fs := api.FunctionSymbols{}
	for _, b := range lib {
		globals[b.name] = b
		fs[b.name] = b.goFn
	}
	return globals, fs
}

var c21globals, c21symbols = c21library()

func c21builtinNames() []string {
	names := make([]string, 0, len(c21globals))
	for n := range c21globals {
		names = append(names, n)
	}
	sort.Strings(names)
	return names
}
