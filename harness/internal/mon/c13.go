package mon

import (
	"fmt"
	"strings"

	"diagonal.works/b6"
	"diagonal.works/b6/ingest"
	"github.com/golang/geo/s2"
	"verif/internal/core"
	"verif/internal/obs"
	"verif/internal/wm"
)

// C13 A rejected change leaves the world as it was (fault enumeration).
//
// Every fault kind is applied to every world kind. Refuting event: the call
// returned an error and the observation dump (everything a user can ask) after
// the call differs from the dump before it. If an invalid replacement is
// accepted that is counted (not_rejected) and left to C37: C13 is conditional
// on rejection.

var c13Faults = []string{"path-1pt", "path-2pt", "path-open", "path-clockwise", "path-missing-point", "area-missing-path",
	"area-open-path", "invalid-id", "move-point", "new-path-missing-point", "hole-open",
	"merged-fail-first", "merged-fail-middle", "merged-fail-last", "merged-all-valid", "merged-fail-tag-last", "merged-fail-tag-middle"}

var c13Worlds = []string{"basic-mutable", "overlay-target-in-base", "overlay-path-resident", "overlay-area-resident", "overlay-all-resident", "overlay-on-overlay"}

func c13Probes(model *wm.World, extra ...b6.FeatureID) obs.Probes {
	p := obs.Probes{What: obs.All}
	p.IDs = append(p.IDs, model.IDs()...)
	p.IDs = append(p.IDs, extra...)
	for _, q := range wm.StandardQueries() {
		p.Queries = append(p.Queries, obs.NamedQuery{Name: q.String(), Query: q})
	}
	return p
}

func init() {
	core.Register(&core.Monitor{
		ID:        "C13",
		Level:     "fault_enumeration",
		Title:     "A rejected change leaves the world as it was",
		Technique: "fault enumeration (every invalid-change kind x every world kind) with a before/after observation-dump comparison",
		Rule: "case = (fault kind, world kind, generated world, history prefix); the case list cycles through all 15 fault kinds x 6 world kinds; " +
			"distinct = fault + world kind + generated features; non-trivial = the change was rejected (an accepted invalid change is counted as not_rejected, C37's subject)",
		Assumptions: []string{"the observation dump (lookups, tags, geometry, locations, searches, references, traversal, enumeration, tokens) is what 'answers every query' means"},
		Quick:       len(c13Faults) * len(c13Worlds) * 4, Thorough: len(c13Faults) * len(c13Worlds) * 300,
		Required: []string{"rejected", "rejected_basic-mutable", "rejected_overlay-target-in-base", "rejected_overlay-path-resident",
			"fault_path-open", "fault_move-point", "fault_merged-fail-middle", "fault_merged-fail-tag-last", "merged_all_valid_applied", "ring_shared_by_several_areas"},
		Run: func(c *core.Ctx) {
			r := c.R
			fault := c13Faults[c.Index%len(c13Faults)]
			kind := c13Worlds[(c.Index/len(c13Faults))%len(c13Worlds)]
			c.Count("fault_" + fault)
			o := wm.DefaultGen()
			o.MaxCollections = 1
			g := wm.NewGen(r.Fork(), o)
			specs := g.World()
			// the target: a ring with k points, its path and area, optionally with a hole
			k := r.Range(3, 6)
			ringPts, ring := g.Ring(120000, 120000, 4000, k, false)
			area := &wm.Spec{ID: b6.FeatureID{Type: b6.FeatureTypeArea, Namespace: ring.ID.Namespace, Value: ring.ID.Value},
				Tags: []b6.Tag{{Key: "#building", Value: b6.NewStringExpression("yes")}}}
			g.Reserve(area.ID)
			area.Polys = []wm.Poly{{PathIDs: []b6.FeatureID{ring.ID}}}
			var holePts []*wm.Spec
			var hole *wm.Spec
			if fault == "hole-open" || r.Chance(0.3) {
				holePts, hole = g.Ring(120000, 120000, 900, r.Range(3, 4), false)
				area.Polys[0].PathIDs = append(area.Polys[0].PathIDs, hole.ID)
			}
			// an open path for area-open-path
			open := &wm.Spec{ID: g.NewID(b6.FeatureTypePath, b6.NamespaceOSMWay), Tags: []b6.Tag{{Key: "#highway", Value: b6.NewStringExpression("primary")}},
				Path: []wm.Elem{{Ref: ringPts[0].ID}, {Ref: ringPts[1].ID}, {Ref: ringPts[2].ID}}}
			specs = append(specs, ringPts...)
			specs = append(specs, ring)
			if hole != nil {
				specs = append(specs, holePts...)
				specs = append(specs, hole)
			}
			specs = append(specs, area, open)
			// further features over the same ring: a rejected change to the ring (or to one of its
			// points) then invalidates several referrers at once, not just one
			if r.Chance(0.4) {
				for i, n := 0, r.Range(3, 6); i < n; i++ {
					a := &wm.Spec{ID: g.NewID(b6.FeatureTypeArea, b6.NamespaceOSMWay), Tags: []b6.Tag{{Key: "#landuse", Value: b6.NewStringExpression("yes")}},
						Polys: []wm.Poly{{PathIDs: []b6.FeatureID{ring.ID}}}}
					specs = append(specs, a)
				}
				c.Count("ring_shared_by_several_areas")
			}
			model := wm.ModelOf(specs)

			var world ingest.MutableWorld
			var err error
			reAdd := func(w ingest.MutableWorld, s *wm.Spec) error { // valid re-add: makes the feature resident in the overlay
				t := s.Clone()
				t.Tags = append(t.Tags, b6.Tag{Key: "note", Value: b6.NewStringExpression("readded")})
				model.Add(t)
				return w.AddFeature(t.Ingest())
			}
			switch kind {
			case "basic-mutable":
				world, err = wm.BasicMutable(specs)
			default:
				var base b6.World
				base, err = wm.Basic(specs, 1)
				if err != nil {
					break
				}
				if kind == "overlay-on-overlay" {
					lower := ingest.NewMutableOverlayWorld(base)
					if err = reAdd(lower, model.F[ring.ID]); err != nil {
						break
					}
					base = lower
				}
				mo := ingest.NewMutableOverlayWorld(base)
				world = mo
				switch kind {
				case "overlay-path-resident":
					err = reAdd(mo, model.F[ring.ID])
				case "overlay-area-resident":
					err = reAdd(mo, model.F[area.ID])
				case "overlay-all-resident":
					for _, p := range ringPts {
						if err == nil {
							err = reAdd(mo, model.F[p.ID])
						}
					}
					if err == nil {
						err = reAdd(mo, model.F[ring.ID])
					}
					if err == nil {
						err = reAdd(mo, model.F[area.ID])
					}
				}
			}
			if err != nil {
				c.Violate("setup-failed:"+kind, nil, "valid setup of a %s world failed: %v", kind, err)
				return
			}
			// a short valid history prefix
			var script []string
			for i := r.Intn(6); i > 0; i-- {
				op := g.NextOp(model)
				script = append(script, op.String())
				errW, errM := wm.Apply(world, op), wm.ApplyModel(model, op)
				if (errW != nil) != (errM != nil) {
					c.Violate("prefix:error-mismatch", script, "%s: world %v, model %v", op, errW, errM)
					return
				}
			}
			ringNow := model.F[ring.ID]
			absentPoint := b6.FeatureID{Type: b6.FeatureTypePoint, Namespace: b6.NamespaceOSMNode, Value: 999001}
			absentPath := b6.FeatureID{Type: b6.FeatureTypePath, Namespace: b6.NamespaceOSMWay, Value: 999002}
			newPath := b6.FeatureID{Type: b6.FeatureTypePath, Namespace: b6.NamespaceOSMWay, Value: 999003}

			// build the failing change
			var bad *wm.Spec
			mk := func(f func(s *wm.Spec)) *wm.Spec { s := ringNow.Clone(); f(s); return s }
			switch fault {
			case "path-1pt":
				bad = mk(func(s *wm.Spec) { s.Path = s.Path[:1] })
			case "path-2pt":
				bad = mk(func(s *wm.Spec) { s.Path = s.Path[:2] })
			case "path-open":
				bad = mk(func(s *wm.Spec) { s.Path = s.Path[:len(s.Path)-1] })
			case "path-clockwise":
				bad = mk(func(s *wm.Spec) {
					for i, j := 0, len(s.Path)-1; i < j; i, j = i+1, j-1 {
						s.Path[i], s.Path[j] = s.Path[j], s.Path[i]
					}
				})
			case "path-missing-point":
				bad = mk(func(s *wm.Spec) { s.Path[1+r.Intn(len(s.Path)-2)].Ref = absentPoint })
			case "area-missing-path":
				bad = model.F[area.ID].Clone()
				bad.Polys[0].PathIDs[0] = absentPath
			case "area-open-path":
				bad = model.F[area.ID].Clone()
				bad.Polys[0].PathIDs[0] = open.ID
			case "hole-open":
				bad = model.F[hole.ID].Clone()
				bad.Path = bad.Path[:len(bad.Path)-1]
			case "invalid-id":
				bad = &wm.Spec{ID: b6.FeatureID{Type: b6.FeatureTypePoint, Namespace: b6.NamespaceInvalid, Value: 1}, LL: g.Place(5, 5)}
			case "move-point":
				// move one ring vertex far across the centre: the loop self-intersects or flips
				p := model.F[ringPts[r.Intn(k)].ID].Clone()
				q := model.F[p.ID]
				// reflect through the ring centre and push out 3x
				cLat, cLng := centreOf(model, ringPts)
				dLat := obsE7(q.LL.Lat.Degrees()) - cLat
				dLng := obsE7(q.LL.Lng.Degrees()) - cLng
				p.LL = wm.E7(cLat-3*dLat, cLng-3*dLng)
				bad = p
			case "new-path-missing-point":
				bad = &wm.Spec{ID: newPath, Tags: []b6.Tag{{Key: "#highway", Value: b6.NewStringExpression("primary")}},
					Path: []wm.Elem{{Ref: ringPts[0].ID}, {Ref: absentPoint}}}
			}
			extra := []b6.FeatureID{absentPoint, absentPath, newPath}
			probes := c13Probes(model, extra...)

			if strings.HasPrefix(fault, "merged") {
				validTag := ingest.AddTags{{ID: ringPts[0].ID, Tag: b6.Tag{Key: "#amenity", Value: b6.NewStringExpression("cafe")}}}
				validRemove := ingest.RemoveTags{{ID: area.ID, Key: "#building"}}
				validAdd := &ingest.AddFeatures{g.Point(1).Ingest()}
				invalid := &ingest.AddFeatures{ringNow.Clone().Ingest()}
				(*invalid)[0] = mk(func(s *wm.Spec) { s.Path = s.Path[:len(s.Path)-1] }).Ingest()
				var change ingest.MergedChange
				switch fault {
				case "merged-fail-first":
					change = ingest.MergedChange{invalid, validTag, validRemove}
				case "merged-fail-middle":
					change = ingest.MergedChange{validTag, invalid, validRemove}
				case "merged-fail-last":
					change = ingest.MergedChange{validTag, validAdd, validRemove, invalid}
				case "merged-all-valid":
					change = ingest.MergedChange{validTag, validAdd, validRemove}
				case "merged-fail-tag-last": // the part that fails is a tag edit (on a feature that is not there)
					change = ingest.MergedChange{validAdd, validTag, validRemove, ingest.AddTags{{ID: absentPoint, Tag: b6.Tag{Key: "#amenity", Value: b6.NewStringExpression("cafe")}}}}
				case "merged-fail-tag-middle":
					change = ingest.MergedChange{validAdd, ingest.AddTags{{ID: ringPts[1].ID, Tag: b6.Tag{Key: "name", Value: b6.NewStringExpression("x")}}, {ID: absentPath, Tag: b6.Tag{Key: "name", Value: b6.NewStringExpression("x")}}}, validRemove}
				}
				before := obs.Take(world, probes)
				var cerr error
				if p, cl, fr, st := core.Protect(func() { _, cerr = change.Apply(world) }); p {
					c.Violate("merged:panic@"+fr, st, "MergedChange.Apply panicked on a %s world: %s", kind, cl)
					return
				}
				if fault == "merged-all-valid" {
					if cerr != nil {
						c.Violate("merged:valid-change-failed:"+kind, script, "a merged change with only valid parts failed: %v", cerr)
						return
					}
					c.Count("merged_all_valid_applied")
					// the model applies the parts one by one
					model.AddTag(ringPts[0].ID, b6.Tag{Key: "#amenity", Value: b6.NewStringExpression("cafe")})
					np := (*validAdd)[0]
					model.Add(&wm.Spec{ID: np.FeatureID(), Tags: nonGeometryTags(np.AllTags()), LL: pointLL(np)})
					model.RemoveTag(area.ID, "#building")
					for _, d := range model.Conform(world, nil, wm.StandardQueries(), true) {
						c.Violate("merged:all-valid:"+d.Class, script, "after a fully valid merged change on a %s world: %s", kind, d.Detail)
					}
					c.Key("%s/%s/%d", fault, kind, len(specs))
					c.Nontrivial()
					return
				}
				if cerr == nil {
					c.Count("not_rejected")
					c.Count("not_rejected_" + fault)
					return
				}
				c.Count("rejected")
				c.Count("rejected_" + kind)
				c.Nontrivial()
				after := obs.Take(world, probes)
				if diffs := before.Diff(after); len(diffs) > 0 {
					c.Violate("merged-change-partially-applied:"+strings.SplitN(diffs[0].Key, " ", 2)[0], map[string]any{"history": script, "diff": fmt.Sprint(diffs[0])},
						"%s on a %s world failed (%v) but the world changed: %s", fault, kind, cerr, diffs[0])
				}
				c.Key("%s/%s/%d", fault, kind, len(specs))
				return
			}

			before := obs.Take(world, probes)
			var aerr error
			if p, cl, fr, st := core.Protect(func() { aerr = world.AddFeature(bad.Ingest()) }); p {
				c.Violate("addfeature:panic@"+fr, st, "AddFeature(%s) panicked on a %s world: %s", bad, kind, cl)
				return
			}
			c.Key("%s/%s/%s", fault, kind, bad.String())
			if aerr == nil {
				c.Count("not_rejected")
				c.Count("not_rejected_" + fault + "_" + kind)
				return
			}
			c.Count("rejected")
			c.Count("rejected_" + kind)
			c.Nontrivial()
			after := obs.Take(world, probes)
			if diffs := before.Diff(after); len(diffs) > 0 {
				sec := strings.SplitN(diffs[0].Key, " ", 2)[0]
				c.Violate("rejected-but-changed:"+sec+":"+worldClass(kind), map[string]any{"fault": fault, "world": kind, "history": script, "change": bad.String(), "error": aerr.Error(), "diffs": len(diffs)},
					"AddFeature(%s) [%s] on a %s world was rejected (%v) but %d observations changed, first: %s", bad, fault, kind, aerr, len(diffs), diffs[0])
			}
			if c.Index < 3 {
				c.Sample(map[string]any{"fault": fault, "world": kind, "change": bad.String(), "error": aerr.Error()})
			}
		},
	})
}

func worldClass(kind string) string {
	if kind == "basic-mutable" {
		return "basic-mutable"
	}
	return "mutable-overlay"
}

func obsE7(deg float64) int64 {
	if deg < 0 {
		return int64(deg*1e7 - 0.5)
	}
	return int64(deg*1e7 + 0.5)
}

func centreOf(model *wm.World, pts []*wm.Spec) (int64, int64) {
	var la, ln int64
	for _, p := range pts {
		q := model.F[p.ID]
		la += obsE7(q.LL.Lat.Degrees())
		ln += obsE7(q.LL.Lng.Degrees())
	}
	return la / int64(len(pts)), ln / int64(len(pts))
}

func nonGeometryTags(tags b6.Tags) []b6.Tag {
	var out []b6.Tag
	for _, t := range tags {
		if t.Key != b6.PointTag && t.Key != b6.PathTag {
			out = append(out, t)
		}
	}
	return out
}

func pointLL(f ingest.Feature) (ll s2.LatLng) {
	if p, ok := f.(b6.PhysicalFeature); ok {
		return s2.LatLngFromPoint(p.Point())
	}
	return
}
