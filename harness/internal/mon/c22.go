package mon

import (
	"fmt"
	"sort"
	"strings"

	"diagonal.works/b6"
	"diagonal.works/b6/api"
	"verif/internal/core"
)

// C22 Simplification never changes a program's result.
//
// Oracle: the reference interpreter of c21_lang.go evaluates the program and
// its simplified form; both must give the same value (functions are compared
// by arity and by applying them to probe arguments) or the same class of
// error. Independently, every free symbol of the simplified program must be
// free in the original (a lambda parameter left behind without its lambda
// shows up as a new free symbol). The VM's results for both forms are
// recorded; a difference that the reference does not share is C21's business.

func c22lambdas(n *c21node) int {
	c := 0
	n.walk(func(x *c21node) {
		if x.kind == c21Lam {
			c++
		}
	})
	return c
}

func c22count(n *c21node, k c21kind) int {
	c := 0
	n.walk(func(x *c21node) {
		if x.kind == k {
			c++
		}
	})
	return c
}

// c22observe renders a reference value; a function is described by its arity
// and by what it does to probe arguments.
func c22observe(in *c21interp, v c21val, err *c21err, depth int) string {
	if err != nil {
		if err.class == "fuel" {
			return "FUEL"
		}
		return "error(" + err.class + ")"
	}
	f, ok := v.(*c21fnV)
	if !ok {
		return c21render(v)
	}
	if depth <= 0 {
		return fmt.Sprintf("<fn/%d>", f.arity())
	}
	var parts []string
	probes := [][]c21val{{3, 5, 7}, {-2, 11, 4}}
	for _, p := range probes {
		k := f.arity()
		if k > len(p) {
			k = len(p)
		}
		if k < 0 {
			k = 0
		}
		r, e := in.call(f, append([]c21val{}, p[:k]...))
		parts = append(parts, c22observe(in, r, e, depth-1))
		if k == 0 {
			break
		}
	}
	// over-application by one must fail in the same way
	over := append([]c21val{}, probes[0][:1]...)
	for len(over) <= f.arity() {
		over = append(over, 1)
	}
	_, e := in.call(f, over)
	if e != nil {
		parts = append(parts, "over:"+e.class)
	} else {
		parts = append(parts, "over:ok")
	}
	return fmt.Sprintf("<fn/%d %s>", f.arity(), strings.Join(parts, " "))
}

func c22etaShape(shapes map[string]int) string {
	var etas []string
	for k := range shapes {
		if strings.HasPrefix(k, "eta_") && k != "eta_function_may_mention_parameter" {
			etas = append(etas, strings.TrimPrefix(k, "eta_"))
		}
	}
	sort.Strings(etas)
	switch len(etas) {
	case 0:
		return "no-eta-shaped-lambda"
	case 1:
		return etas[0]
	}
	return "several-shapes"
}

// a lambda parameter named like a query builder, called inside the lambda
// with the literal arguments that Simplify folds for the global builder.
func c22shadowedBuilder(r *core.R) *c21node {
	S, Str := c21SymN, c21StrN
	g := &c21gen{r: r, shapes: map[string]int{}}
	q1, q2 := c21QryN(g.qryLit(1)), c21QryN(g.qryLit(1))
	k, v := core.Pick(r, c21strPool[:5]), core.Pick(r, c21strPool)
	var body, arg *c21node
	var name string
	switch r.Intn(5) {
	case 0:
		name, body = "and", c21CallN(S("and"), q1, q2)
		arg = core.Pick(r, []*c21node{S("or"), c21LamN([]string{"a", "b"}, S("b")), S("pair")})
	case 1:
		name, body = "or", c21CallN(S("or"), q1, q2)
		arg = core.Pick(r, []*c21node{S("and"), c21LamN([]string{"a", "b"}, S("a")), S("pair")})
	case 2:
		name, body = "keyed", c21CallN(S("keyed"), Str(k))
		arg = core.Pick(r, []*c21node{c21LamN([]string{"s"}, c21CallN(S("tagged"), S("s"), Str(v))), c21LamN([]string{"s"}, S("s"))})
	case 3:
		name, body = "tagged", c21CallN(S("tagged"), Str(k), Str(v))
		arg = core.Pick(r, []*c21node{c21LamN([]string{"a", "b"}, c21CallN(S("keyed"), S("b"))), S("pair")})
	default:
		name, body = "typed", c21CallN(S("typed"), Str(core.Pick(r, []string{"point", "path", "area"})), q1)
		arg = core.Pick(r, []*c21node{c21LamN([]string{"t", "q"}, S("q")), S("pair")})
	}
	// sometimes one lambda further in, or next to a second parameter
	lam := c21LamN([]string{name}, body)
	switch r.Intn(3) {
	case 0:
		return c21CallN(lam, arg)
	case 1:
		return c21CallN(S("apply"), lam, arg)
	}
	return c21CallN(c21LamN([]string{name, "z"}, c21CallN(c21LamN([]string{"w"}, body), S("z"))), arg, c21IntN(r.Range(0, 9)))
}

// {a -> (F a)} where the global F takes more arguments than it is given: the
// lambda accepts one argument, F accepts two or three.
func c22etaArity(r *core.R) *c21node {
	S, I := c21SymN, c21IntN
	f := core.Pick(r, []string{"sub", "add", "pair", "lin3", "mul"})
	lam := c21LamN([]string{"a"}, c21CallN(S(f), S("a")))
	x, y := I(r.Range(-5, 9)), I(r.Range(-5, 9))
	switch r.Intn(4) {
	case 0:
		return c21CallN(S("app2"), lam, x, y) // arity error: the lambda takes one argument
	case 1:
		return c21CallN(S("applyi"), lam, x) // fine: a function of one argument
	case 2:
		return c21CallN(lam, x, y)
	}
	return c21CallN(S("pair"), lam, x) // the function itself is part of the result
}

// {a, b -> (tri a b L)} where L is a nested lambda that rebinds one of the
// outer parameters (or none) and uses the others: the eta-reduction test has to
// look into L with the right set of still-visible names, and must not disturb
// the outer parameter list while doing so.
func c22etaShadowingExtra(r *core.R) *c21node {
	S, I := c21SymN, c21IntN
	var inner *c21node
	switch r.Intn(4) {
	case 0:
		inner = c21LamN([]string{"a"}, c21CallN(S("add"), S("b"), S("a"))) // rebinds the first parameter
	case 1:
		inner = c21LamN([]string{"b"}, c21CallN(S("add"), S("a"), S("b"))) // rebinds the last parameter
	case 2:
		inner = c21LamN([]string{"x"}, c21CallN(S("add"), S("x"), S("b"))) // rebinds nothing, uses one
	default:
		inner = c21LamN([]string{"a"}, S("a")) // rebinds the first, uses nothing else
	}
	lam := c21LamN([]string{"a", "b"}, c21CallN(S("tri"), S("a"), S("b"), inner))
	if r.Chance(0.3) { // three parameters, the middle one rebound
		lam = c21LamN([]string{"a", "b", "c"}, c21CallN(S("tri"), S("a"), S("b"), c21LamN([]string{"b"}, c21CallN(S("lin3"), S("a"), S("b"), S("c")))))
		return c21CallN(S("apply"), c21CallN(S("second"), c21CallN(S("second"), c21CallN(lam, I(r.Range(1, 9)), I(r.Range(1, 9)), I(r.Range(1, 9))))), I(r.Range(1, 9)))
	}
	return c21CallN(S("apply"), c21CallN(S("second"), c21CallN(S("second"), c21CallN(lam, I(r.Range(1, 9)), I(r.Range(1, 9))))), I(r.Range(1, 9)))
}

func init() {
	core.Register(&core.Monitor{
		ID:        "C22",
		Title:     "Simplification never changes a program's result",
		Technique: "metamorphic monitor: reference interpreter on p and on api.Simplify(p), plus a free-symbol inclusion check",
		Rule: "case = one program from the C21 generator extended with strings, query literals and the query builders and/or/keyed/tagged/typed (literal and non-literal arguments), " +
			"in which 55% of the lambdas get a body (F args) whose arguments are the lambda's parameters in order, permuted, repeated, only a prefix, followed by other arguments, or preceded by one; " +
			"parameters also shadow global names; 4% of cases call a parameter named and/or/keyed/tagged/typed with literal arguments, 2% wrap a global function of more parameters in a one-parameter lambda, 3% pass a nested lambda that rebinds an outer parameter as an extra argument. distinct = distinct program text; non-trivial = api.Simplify changed the program",
		Assumptions: []string{
			"the reference interpreter of c21_lang.go is the language definition",
			"nested and/or queries are equal to their flattened form (they match the same features)",
			"functions are equal when they have the same arity, agree on two probe argument lists and fail over-application the same way",
		},
		Quick: 12000, Thorough: 600000,
		Required: []string{"simplify_changed_program", "lambda_removed", "lambda_kept_with_eta_shape", "query_folded", "zero_argument_call_removed",
			"gen_eta_exact", "gen_eta_drops_parameter", "gen_eta_repeats_parameter", "gen_eta_extra_arguments", "gen_eta_permuted",
			"gen_eta_parameter_not_leading", "gen_eta_parameter_in_later_argument", "gen_eta_function_may_mention_parameter", "gen_eta_extra_argument_fails",
			"same_value", "same_error", "same_function", "query_builder_with_non_literal_argument", "gen_shadowed_query_builder", "gen_eta_function_arity_differs", "gen_eta_extra_argument_rebinds_parameter"},
		Run: func(c *core.Ctx) {
			var prog *c21node
			var g *c21gen
			if x := c.R.Intn(100); x < 4 {
				prog, g = c22shadowedBuilder(c.R), &c21gen{shapes: map[string]int{"shadowed_query_builder": 1}}
			} else if x < 6 {
				prog, g = c22etaArity(c.R), &c21gen{shapes: map[string]int{"eta_function_arity_differs": 1}}
			} else if x < 9 {
				prog, g = c22etaShadowingExtra(c.R), &c21gen{shapes: map[string]int{"eta_extra_argument_rebinds_parameter": 1}}
			} else {
				prog, g = c21generate(c.R, true, 0.55)
			}
			for k, v := range g.shapes {
				c.Add("gen_"+k, v)
			}
			text := prog.String()
			c.Key("%s", text)
			c.Max("nodes", int64(prog.count()))

			var sexpr b6.Expression
			panicked, class, frame, stack := core.Protect(func() {
				sexpr = api.Simplify(prog.expr(), c21symbols)
			})
			if panicked {
				c.Violate("Simplify:panic@"+frame+":"+class, map[string]any{"program": text, "stack": stack}, "Simplify(%s) panicked: %s", text, class)
				return
			}
			snode, err := c21fromExpr(sexpr)
			if err != nil {
				c.Violate("Simplify:malformed-result", map[string]any{"program": text}, "Simplify(%s) returned a tree the language does not have: %v", text, err)
				return
			}
			stext := snode.String()
			if c.Index < 3 {
				c.Sample(map[string]any{"program": text, "simplified": stext})
			}
			witness := map[string]any{"program": text, "simplified": stext, "b6": prog.expr().String()}
			shape := c22etaShape(g.shapes)

			// what did Simplify do?
			changed := stext != text
			site := "unchanged"
			if changed {
				c.Count("simplify_changed_program")
				c.Nontrivial()
				switch {
				case c22lambdas(snode) < c22lambdas(prog):
					site = "lambda-removed:" + shape
					c.Count("lambda_removed")
				case c22count(snode, c21Qry) != c22count(prog, c21Qry):
					site = "query-folded"
				default:
					site = "call-rewritten"
				}
				if c22count(snode, c21Qry) > c22count(prog, c21Qry) {
					c.Count("query_folded")
				}
				if c22count(snode, c21Call) < c22count(prog, c21Call) && c22lambdas(snode) == c22lambdas(prog) && c22count(snode, c21Qry) == c22count(prog, c21Qry) {
					c.Count("zero_argument_call_removed")
				}
			}
			if c22lambdas(snode) == c22lambdas(prog) && shape != "no-eta-shaped-lambda" {
				c.Count("lambda_kept_with_eta_shape")
			}
			prog.walk(func(x *c21node) {
				if x.kind == c21Call && x.fn.kind == c21Sym {
					switch x.fn.s {
					case "and", "or", "keyed", "tagged", "typed":
						for _, a := range x.args {
							if a.kind != c21Str && a.kind != c21Qry {
								c.Count("query_builder_with_non_literal_argument")
								return
							}
						}
						c.Count("query_builder_with_literal_arguments")
					}
				}
			})

			// 1. no new free symbol
			fp, fs := map[string]bool{}, map[string]bool{}
			prog.free(nil, fp)
			snode.free(nil, fs)
			for name := range fs {
				if !fp[name] {
					c.Violate("free-symbol-introduced:"+site, witness, "Simplify(%s) = %s in which %q is free; it is not free in the original", text, stext, name)
					break
				}
			}

			// 2. same meaning according to the reference
			in1 := c21newInterp(c21globals)
			v1, e1 := in1.run(prog)
			o1 := c22observe(in1, v1, e1, 2)
			in2 := c21newInterp(c21globals)
			v2, e2 := in2.run(snode)
			o2 := c22observe(in2, v2, e2, 2)
			witness["reference_original"], witness["reference_simplified"] = o1, o2
			if strings.Contains(o1, "FUEL") || strings.Contains(o2, "FUEL") {
				c.Count("reference_out_of_fuel")
				return
			}
			if e1 != nil && e1.class == "unbound" {
				c.Inconclusive("generator produced an unbound symbol: " + text)
				return
			}
			if o1 != o2 {
				c.Violate("changes-result:"+site, witness, "%s means %s, but Simplify gives %s which means %s", text, o1, stext, o2)
			} else {
				switch {
				case e1 != nil:
					c.Count("same_error")
				case strings.HasPrefix(o1, "<fn"):
					c.Count("same_function")
				default:
					c.Count("same_value")
				}
			}

			// 3. the VM on both forms (recorded; a VM-only difference is C21's)
			g1 := c21runVM(prog.expr())
			g2 := c21runVM(snode.expr())
			r1, r2 := g1.String(), g2.String()
			if g1.err != nil {
				r1 = "error"
			}
			if g2.err != nil {
				r2 = "error"
			}
			if r1 != r2 {
				if o1 == o2 {
					c.Count("vm_only_difference_attributed_to_C21")
				} else {
					c.Count("vm_difference_with_reference_difference")
				}
			} else {
				c.Count("vm_agrees_on_both_forms")
			}
		},
	})
}
