package mon

import (
	"bytes"
	"context"
	"fmt"
	"sync"

	"diagonal.works/b6"
	"diagonal.works/b6/encoding"
	"diagonal.works/b6/ingest"
	"diagonal.works/b6/ingest/compact"
	"diagonal.works/b6/osm"
)

// Subjects for C28: small worlds, maps, sources and PBF files with exactly n
// enumerable items. Everything is a pure function of n (no randomness), built
// lazily and cached per child process.

// c28osm returns OSM input that yields exactly n features in an in-memory
// world: every node is tagged (so it is a feature in every kind of world),
// ways are open (paths only), relations are plain (no areas).
func c28osm(n int) ([]osm.Node, []osm.Way, []osm.Relation) {
	w := n / 4
	r := n / 6
	nn := n - w - r
	if nn < 2 {
		w, r, nn = 0, 0, n
	}
	var nodes []osm.Node
	for i := 0; i < nn; i++ {
		nodes = append(nodes, osm.Node{
			ID:       osm.NodeID(i + 1),
			Location: osm.LatLng{Lat: 51.5 + float64(i)*0.0001, Lng: -0.12 + float64(i%5)*0.0001},
			Tags:     []osm.Tag{{Key: "name", Value: fmt.Sprintf("p%d", i+1)}},
		})
	}
	var ways []osm.Way
	for i := 0; i < w; i++ {
		a, b := i%nn, (i+1)%nn
		ways = append(ways, osm.Way{
			ID:    osm.WayID(i + 1),
			Nodes: []osm.NodeID{osm.NodeID(a + 1), osm.NodeID(b + 1)},
			Tags:  []osm.Tag{{Key: "highway", Value: "footway"}},
		})
	}
	var rels []osm.Relation
	for i := 0; i < r; i++ {
		rels = append(rels, osm.Relation{
			ID:      osm.RelationID(i + 1),
			Members: []osm.Member{{Type: osm.ElementTypeNode, ID: osm.AnyID(i%nn + 1), Role: "stop"}},
			Tags:    []osm.Tag{{Key: "type", Value: "route"}},
		})
	}
	return nodes, ways, rels
}

// c28features returns the same n features as ingest features (for the mutable
// worlds and the in-memory feature source).
func c28features(n int) []ingest.Feature {
	nodes, ways, rels := c28osm(n)
	src, err := ingest.NewFeatureSourceFromPBF(&ingest.MemoryOSMSource{Nodes: nodes, Ways: ways, Relations: rels}, &ingest.BuildOptions{Cores: 1}, context.Background())
	if err != nil {
		panic(err)
	}
	var mu sync.Mutex
	byType := map[b6.FeatureType][]ingest.Feature{}
	emit := func(f ingest.Feature, g int) error {
		mu.Lock()
		defer mu.Unlock()
		byType[f.FeatureID().Type] = append(byType[f.FeatureID().Type], f.Clone())
		return nil
	}
	if err := src.Read(ingest.ReadOptions{Goroutines: 1}, emit, context.Background()); err != nil {
		panic(err)
	}
	var out []ingest.Feature
	for _, t := range []b6.FeatureType{b6.FeatureTypePoint, b6.FeatureTypePath, b6.FeatureTypeArea, b6.FeatureTypeRelation} {
		out = append(out, byType[t]...)
	}
	return out
}

func c28basic(n int) b6.World {
	nodes, ways, rels := c28osm(n)
	w, err := ingest.BuildWorldFromOSM(nodes, ways, rels, &ingest.BuildOptions{Cores: 1})
	if err != nil {
		panic(err)
	}
	return w
}

func c28basicMutable(n int) *ingest.BasicMutableWorld {
	w := ingest.NewBasicMutableWorld()
	for _, f := range c28features(n) {
		if err := w.AddFeature(f); err != nil {
			panic(err)
		}
	}
	return w
}

// c28mutableOverlay: the base holds the first half (rounded up) of the
// features plus one shadowed feature, the overlay the rest and a new version
// of the shadowed one, so that both phases of EachFeature (overlay first, then
// the filtered base) deliver items and the filter is exercised.
func c28mutableOverlay(n int) *ingest.MutableOverlayWorld {
	fs := c28features(n)
	split := (len(fs) + 1) / 2
	base := ingest.NewBasicMutableWorld()
	for _, f := range fs[:split] {
		if err := base.AddFeature(f.Clone()); err != nil {
			panic(err)
		}
	}
	w := ingest.NewMutableOverlayWorld(base)
	// shadow the first base feature (a point) with a retagged copy
	if len(fs) >= 2 {
		sh := fs[0].Clone()
		sh.AddTag(b6.Tag{Key: "shadow", Value: b6.NewStringExpression("yes")})
		if err := w.AddFeature(sh); err != nil {
			panic(err)
		}
	}
	for _, f := range fs[split:] {
		if err := w.AddFeature(f.Clone()); err != nil {
			panic(err)
		}
	}
	return w
}

func c28tagsOverlay(n int) *ingest.MutableTagsOverlayWorld {
	w := ingest.NewMutableTagsOverlayWorld(c28basic(n))
	for i, f := range c28features(n) {
		if i%3 == 0 {
			w.AddTag(f.FeatureID(), b6.Tag{Key: "mod", Value: b6.NewStringExpression(fmt.Sprint(i))})
		}
	}
	return w
}

// c28overlay: OverlayWorld(overlay, base): the overlay holds the last third of
// the features and a shadowing copy of the first, the base everything else.
func c28overlay(n int) b6.World {
	fs := c28features(n)
	split := len(fs) - len(fs)/3
	base := ingest.NewBasicMutableWorld()
	over := ingest.NewBasicMutableWorld()
	// points first so that paths/relations validate in whichever world they land
	for _, f := range fs[:split] {
		if err := base.AddFeature(f.Clone()); err != nil {
			panic(err)
		}
	}
	for _, f := range fs[split:] {
		// the overlay world must be self-contained for validation: add the
		// referenced points too if they are missing
		for _, ref := range f.References() {
			if !over.HasFeatureWithID(ref.Source()) {
				if bf := base.FindFeatureByID(ref.Source()); bf != nil {
					if err := over.AddFeature(ingest.NewFeatureFromWorld(bf)); err != nil {
						panic(err)
					}
				}
			}
		}
		if err := over.AddFeature(f.Clone()); err != nil {
			panic(err)
		}
	}
	return ingest.NewOverlayWorld(over, base)
}

// c28compactOSM gives the compact world all four feature maps: tagged nodes,
// open ways, closed building ways (areas) and relations. IDs are consecutive
// from 1 within each type, so no two features of one type share a hash bucket
// (bucket = id mod 2^bits with 2^bits >= count of that type): a callback is a
// bucket, the dispatch unit of Uint64Map.EachItem.
func c28compactOSM() ([]osm.Node, []osm.Way, []osm.Relation) {
	var nodes []osm.Node
	for i := 0; i < 12; i++ {
		// a 3 x 4 grid
		nodes = append(nodes, osm.Node{
			ID:       osm.NodeID(i + 1),
			Location: osm.LatLng{Lat: 51.5 + float64(i/4)*0.0002, Lng: -0.12 + float64(i%4)*0.0002},
			Tags:     []osm.Tag{{Key: "name", Value: fmt.Sprintf("p%d", i+1)}},
		})
	}
	var ways []osm.Way
	for i := 0; i < 4; i++ {
		ways = append(ways, osm.Way{
			ID:    osm.WayID(i + 1),
			Nodes: []osm.NodeID{osm.NodeID(i + 1), osm.NodeID(i + 5), osm.NodeID(i + 9)},
			Tags:  []osm.Tag{{Key: "highway", Value: "footway"}},
		})
	}
	// two closed squares: 1-2-6-5-1 and 3-4-8-7-3 (counter-clockwise in lat/lng)
	ways = append(ways, osm.Way{ID: 5, Nodes: []osm.NodeID{1, 2, 6, 5, 1}, Tags: []osm.Tag{{Key: "building", Value: "yes"}}})
	ways = append(ways, osm.Way{ID: 6, Nodes: []osm.NodeID{3, 4, 8, 7, 3}, Tags: []osm.Tag{{Key: "building", Value: "yes"}}})
	var rels []osm.Relation
	for i := 0; i < 4; i++ {
		rels = append(rels, osm.Relation{
			ID:      osm.RelationID(i + 1),
			Members: []osm.Member{{Type: osm.ElementTypeWay, ID: osm.AnyID(i + 1), Role: "part"}},
			Tags:    []osm.Tag{{Key: "type", Value: "route"}},
		})
	}
	return nodes, ways, rels
}

func c28compact() b6.World {
	nodes, ways, rels := c28compactOSM()
	src, err := ingest.NewFeatureSourceFromPBF(&ingest.MemoryOSMSource{Nodes: nodes, Ways: ways, Relations: rels}, &ingest.BuildOptions{Cores: 1}, context.Background())
	if err != nil {
		panic(err)
	}
	index, err := compact.BuildInMemory(src, &compact.Options{Goroutines: 1, PointsScratchOutputType: compact.OutputTypeMemory})
	if err != nil {
		panic(err)
	}
	w := compact.NewWorld()
	if err := w.Merge(index); err != nil {
		panic(err)
	}
	return w
}

// c28map builds a Uint64Map with n distinct IDs.
//
//	shape 0: 2^bits >= n buckets, IDs 1..n, one ID per bucket
//	shape 1: all IDs in one bucket (id = i << bits)
//	shape 2: about three IDs per bucket, two tagged entries for every third ID
func c28map(n, shape int) (m *encoding.Uint64Map, bits int, ids []uint64) {
	bits = 1
	for 1<<bits < n {
		bits++
	}
	switch shape {
	case 0:
		for i := 0; i < n; i++ {
			ids = append(ids, uint64(i+1))
		}
	case 1:
		bits = 3
		for i := 0; i < n; i++ {
			ids = append(ids, uint64(i+1)<<bits|5)
		}
	default:
		bits = 1
		for 3<<bits < n {
			bits++
		}
		for i := 0; i < n; i++ {
			ids = append(ids, uint64(i*7+3))
		}
	}
	b := encoding.NewUint64MapBuilder(bits, 1)
	type entry struct {
		id  uint64
		tag encoding.Tag
		v   []byte
	}
	var es []entry
	for i, id := range ids {
		es = append(es, entry{id, 0, []byte(fmt.Sprintf("v%d", id))})
		if shape == 2 && i%3 == 0 {
			es = append(es, entry{id, 1, []byte("second")})
		}
	}
	for _, e := range es {
		b.Reserve(e.id, e.tag, len(e.v))
	}
	b.FinishReservation()
	var out encoding.Buffer
	if _, err := b.WriteHeader(&out, 0); err != nil {
		panic(err)
	}
	for _, e := range es {
		if err := b.WriteItem(e.id, e.tag, e.v, &out); err != nil {
			panic(err)
		}
	}
	data := append([]byte{}, out.Bytes()...)
	data = append(data, make([]byte, 64)...)
	return encoding.NewUint64Map(data), bits, ids
}

// c28pbf writes n elements into a PBF file whose data blobs hold 1, 2, 1, 2 …
// elements (a type change also starts a new blob). Element IDs are their
// position + 1 within their type; blobOf maps (type, id) to the blob index.
type c28pbfFile struct {
	data   []byte
	n      int
	blobs  int
	blobOf map[string]int
}

func c28pbfKey(e osm.Element) string {
	switch e := e.(type) {
	case *osm.Node:
		return fmt.Sprintf("n%d", e.ID)
	case *osm.Way:
		return fmt.Sprintf("w%d", e.ID)
	case *osm.Relation:
		return fmt.Sprintf("r%d", e.ID)
	}
	return "?"
}

func c28pbf(n int) *c28pbfFile {
	nodes, ways, rels := c28osm(n)
	var buf bytes.Buffer
	w, err := osm.NewWriter(&buf)
	if err != nil {
		panic(err)
	}
	f := &c28pbfFile{n: n, blobOf: map[string]int{}}
	blob, inBlob, size := 0, 0, 1
	lastType := ""
	add := func(e osm.Element) {
		k := c28pbfKey(e)
		if lastType != "" && lastType != k[:1] && inBlob > 0 {
			// the writer flushes on a type change by itself
			blob++
			inBlob = 0
			size = 3 - size
		}
		lastType = k[:1]
		if err := w.WriteElement(e); err != nil {
			panic(err)
		}
		f.blobOf[k] = blob
		inBlob++
		if inBlob == size {
			if err := w.Flush(); err != nil {
				panic(err)
			}
			blob++
			inBlob = 0
			size = 3 - size
		}
	}
	for i := range nodes {
		add(&nodes[i])
	}
	for i := range ways {
		add(&ways[i])
	}
	for i := range rels {
		add(&rels[i])
	}
	if err := w.Flush(); err != nil {
		panic(err)
	}
	if inBlob > 0 {
		blob++
	}
	f.blobs = blob
	f.data = buf.Bytes()
	return f
}

// c28modifiedTags returns n modified tags over ceil(n/3) features.
func c28modifiedTags(n int) ingest.ModifiedTags {
	m := ingest.NewModifiedTags()
	for i := 0; i < n; i++ {
		id := b6.FeatureID{Type: b6.FeatureTypePoint, Namespace: b6.NamespaceOSMNode, Value: uint64(i/3 + 1)}
		if i%3 == 2 {
			m.RemoveTag(id, fmt.Sprintf("k%d", i%3))
		} else {
			m.ModifyOrAddTag(id, b6.Tag{Key: fmt.Sprintf("k%d", i%3), Value: b6.NewStringExpression(fmt.Sprint(i))})
		}
	}
	return m
}

// c28modifiedFeatures returns a mutable overlay with exactly n modified
// features (all n features added to the overlay of an unrelated base).
func c28modifiedFeatures(n int) *ingest.MutableOverlayWorld {
	w := ingest.NewMutableOverlayWorld(c28basic(3))
	for _, f := range c28features(n) {
		if err := w.AddFeature(f.Clone()); err != nil {
			panic(err)
		}
	}
	return w
}
