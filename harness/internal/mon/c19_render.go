package mon

import (
	"fmt"
	"math"
	"reflect"
	"strings"

	"diagonal.works/b6"
	"diagonal.works/b6/geometry"
	pb "diagonal.works/b6/proto"
	"github.com/golang/geo/s1"
	"github.com/golang/geo/s2"
)

// Own structural rendering of expressions (C19). Two expressions are
// structurally equal iff their renderings are equal. The repository's Equal
// methods are not used (RouteExpression.Equal returns true for any non-route,
// Expressions.Equal indexes out of range, CallExpression.Equal ignores
// Pipelined, none compares Name/Begin/End).
//
// The same text is produced from a proto (c19renderProto): "the expression this
// proto denotes". exact=true adds the float bits of every coordinate, so that
// e1 == e2 is strict; exact=false renders coordinates on the E7 grid only, which
// is all a proto can say.
//
// Cap radii are not part of the text: they are appended to caps and compared
// with a tolerance by the caller (a cap keeps a chord angle, so the radius in
// metres moves by an ulp or two on every conversion; that has its own signature).

type c19renderer struct {
	exact   bool
	caps    []float64
	unknown []string
}

func c19bits(f float64) string { return fmt.Sprintf("%016x", math.Float64bits(f)) }

func c19e7(a s1.Angle) int64 { return int64(math.Round(a.Degrees() * 1e7)) }

func (r *c19renderer) latlng(ll s2.LatLng) string {
	if r.exact {
		return fmt.Sprintf("(%d,%d|%s,%s)", c19e7(ll.Lat), c19e7(ll.Lng), c19bits(float64(ll.Lat)), c19bits(float64(ll.Lng)))
	}
	return fmt.Sprintf("(%d,%d)", c19e7(ll.Lat), c19e7(ll.Lng))
}

func (r *c19renderer) s2point(p s2.Point) string {
	ll := s2.LatLngFromPoint(p)
	if r.exact {
		return fmt.Sprintf("(%d,%d|%s,%s,%s)", c19e7(ll.Lat), c19e7(ll.Lng), c19bits(p.X), c19bits(p.Y), c19bits(p.Z))
	}
	return fmt.Sprintf("(%d,%d)", c19e7(ll.Lat), c19e7(ll.Lng))
}

// Feature types are rendered by name, through two tables written out here (the
// proto enum and the Go type number their values differently).
func c19typeName(t b6.FeatureType) string {
	switch t {
	case b6.FeatureTypePoint:
		return "point"
	case b6.FeatureTypePath:
		return "path"
	case b6.FeatureTypeArea:
		return "area"
	case b6.FeatureTypeRelation:
		return "relation"
	case b6.FeatureTypeCollection:
		return "collection"
	case b6.FeatureTypeExpression:
		return "expression"
	case b6.FeatureTypeInvalid:
		return "invalid"
	}
	return fmt.Sprintf("type#%d", int(t))
}

func c19protoTypeName(t pb.FeatureType) string {
	switch t {
	case pb.FeatureType_FeatureTypePoint:
		return "point"
	case pb.FeatureType_FeatureTypePath:
		return "path"
	case pb.FeatureType_FeatureTypeArea:
		return "area"
	case pb.FeatureType_FeatureTypeRelation:
		return "relation"
	case pb.FeatureType_FeatureTypeCollection:
		return "collection"
	case pb.FeatureType_FeatureTypeExpression:
		return "expression"
	case pb.FeatureType_FeatureTypeInvalid:
		return "invalid"
	}
	return fmt.Sprintf("prototype#%d", int(t))
}

func (r *c19renderer) id(id b6.FeatureID) string {
	return fmt.Sprintf("id(%s,%q,%d)", c19typeName(id.Type), string(id.Namespace), id.Value)
}

func (r *c19renderer) polyline(p *s2.Polyline) string {
	if p == nil {
		return "polyline(nil)"
	}
	var sb strings.Builder
	sb.WriteString("polyline[")
	for _, pt := range *p {
		sb.WriteString(r.s2point(pt))
	}
	sb.WriteString("]")
	return sb.String()
}

func (r *c19renderer) multiPolygon(m geometry.MultiPolygon) string {
	var sb strings.Builder
	sb.WriteString("multipolygon[")
	for _, poly := range m {
		if poly == nil {
			sb.WriteString("polygon(nil)")
			continue
		}
		sb.WriteString("polygon[")
		for _, l := range poly.Loops() {
			// vertices in stored order; nesting depth decides hole or shell
			fmt.Fprintf(&sb, "loop(hole=%v)[", l.IsHole())
			for _, v := range l.Vertices() {
				sb.WriteString(r.s2point(v))
			}
			sb.WriteString("]")
		}
		sb.WriteString("]")
	}
	sb.WriteString("]")
	return sb.String()
}

func (r *c19renderer) expr(e b6.Expression) string {
	return fmt.Sprintf("<%q %d %d %s>", e.Name, e.Begin, e.End, r.any(e.AnyExpression))
}

func (r *c19renderer) any(e b6.AnyExpression) string {
	switch e := e.(type) {
	case nil:
		return "EMPTY-EXPRESSION"
	case b6.SymbolExpression:
		return fmt.Sprintf("symbol(%q)", string(e))
	case b6.IntExpression:
		return fmt.Sprintf("int(%d)", int64(e))
	case b6.FloatExpression:
		return "float(" + c19bits(float64(e)) + ")"
	case b6.BoolExpression:
		return fmt.Sprintf("bool(%v)", bool(e))
	case b6.StringExpression:
		return fmt.Sprintf("string(%q)", string(e))
	case b6.FeatureIDExpression:
		return r.id(b6.FeatureID(e))
	case b6.TagExpression:
		return fmt.Sprintf("tag(%q,%s)", e.Key, r.expr(e.Value))
	case b6.QueryExpression:
		return "query:" + r.query(e.Query)
	case b6.PointExpression:
		return "point" + r.latlng(s2.LatLng(e))
	case b6.PathExpression:
		return r.geometry(e.Path, "path")
	case b6.AreaExpression:
		return r.area(e.Area)
	case b6.NilExpression:
		return "nil"
	case b6.RouteExpression:
		return r.route(b6.Route(e))
	case b6.CollectionExpression:
		return r.collection(e.UntypedCollection)
	case b6.CallExpression:
		var sb strings.Builder
		fmt.Fprintf(&sb, "call(pipelined=%v,%s", e.Pipelined, r.expr(e.Function))
		for _, a := range e.Args {
			sb.WriteString("," + r.expr(a))
		}
		sb.WriteString(")")
		return sb.String()
	case b6.LambdaExpression:
		return fmt.Sprintf("lambda(%q,%s)", e.Args, r.expr(e.Expression))
	}
	r.unknown = append(r.unknown, fmt.Sprintf("%T", e))
	return fmt.Sprintf("unknown(%T)", e)
}

func (r *c19renderer) route(rt b6.Route) string {
	var sb strings.Builder
	sb.WriteString("route(" + r.id(rt.Origin))
	for _, s := range rt.Steps {
		fmt.Fprintf(&sb, ",step(%s,%s,%s)", r.id(s.Destination), r.id(s.Via), c19bits(s.Cost))
	}
	sb.WriteString(")")
	return sb.String()
}

func (r *c19renderer) area(a b6.Area) string {
	if a == nil {
		return "area(nil)"
	}
	m := make(geometry.MultiPolygon, a.Len())
	for i := range m {
		m[i] = a.Polygon(i)
	}
	return "area:" + r.multiPolygon(m)
}

// geometry renders a point or path value; want is what the surrounding
// expression says it is ("path" for a PathExpression, "" inside a collection).
func (r *c19renderer) geometry(g b6.Geometry, want string) string {
	if g == nil {
		return "geometry(nil)"
	}
	if a, ok := g.(b6.Area); ok {
		return r.area(a)
	}
	t := g.GeometryType()
	if want == "path" || t == b6.GeometryTypePath {
		return "path:" + r.polyline(g.Polyline())
	}
	if t == b6.GeometryTypePoint {
		return "point" + r.s2pointAsLatLng(g.Point())
	}
	r.unknown = append(r.unknown, fmt.Sprintf("geometry type %v", t))
	return "unknown-geometry"
}

// A point that lives in a collection is kept as an s2.Point, a point literal as
// an s2.LatLng; in the E7 rendering both print the same.
func (r *c19renderer) s2pointAsLatLng(p s2.Point) string {
	if r.exact {
		return r.s2point(p)
	}
	return r.latlng(s2.LatLngFromPoint(p))
}

func (r *c19renderer) collection(c b6.UntypedCollection) string {
	if c == nil {
		return "collection(nil)"
	}
	var sb strings.Builder
	sb.WriteString("collection{")
	i := c.BeginUntyped()
	for n := 0; ; n++ {
		ok, err := i.Next()
		if err != nil {
			sb.WriteString("ERROR:" + err.Error())
			break
		}
		if !ok {
			break
		}
		if n > 0 {
			sb.WriteString(",")
		}
		sb.WriteString(r.value(i.Key()) + "=>" + r.value(i.Value()))
	}
	sb.WriteString("}")
	return sb.String()
}

// value renders a Go value held by a collection, in the words used for the
// literal expression of the same kind.
func (r *c19renderer) value(v any) string {
	switch v := v.(type) {
	case nil:
		return "nil"
	case int:
		return fmt.Sprintf("int(%d)", int64(v))
	case float64:
		return "float(" + c19bits(v) + ")"
	case bool:
		return fmt.Sprintf("bool(%v)", v)
	case string:
		return fmt.Sprintf("string(%q)", v)
	case b6.FeatureID:
		return r.id(v)
	case b6.Tag:
		return fmt.Sprintf("tag(%q,%s)", v.Key, r.expr(v.Value))
	case b6.Route:
		return r.route(v)
	case b6.Query:
		return "query:" + r.query(v)
	case b6.Area:
		return r.area(v)
	case b6.Geometry:
		return r.geometry(v, "")
	case b6.UntypedCollection:
		return r.collection(v)
	}
	r.unknown = append(r.unknown, fmt.Sprintf("%T", v))
	return fmt.Sprintf("unknown(%T)", v)
}

func (r *c19renderer) query(q b6.Query) string {
	switch q := q.(type) {
	case nil:
		return "NIL-QUERY"
	case b6.All:
		return "all"
	case b6.Empty:
		return "empty"
	case b6.IsValid:
		return "isValid"
	case b6.Keyed:
		return fmt.Sprintf("keyed(%q)", q.Key)
	case b6.Tagged:
		return fmt.Sprintf("tagged(%q,%s)", q.Key, r.expr(q.Value))
	case b6.Typed:
		return fmt.Sprintf("typed(%s,%s)", c19typeName(q.Type), r.query(q.Query))
	case b6.Intersection:
		parts := make([]string, len(q))
		for i, c := range q {
			parts[i] = r.query(c)
		}
		return "intersection(" + strings.Join(parts, ",") + ")"
	case b6.Union:
		parts := make([]string, len(q))
		for i, c := range q {
			parts[i] = r.query(c)
		}
		return "union(" + strings.Join(parts, ",") + ")"
	case *b6.IntersectsCap:
		return r.capQuery(q)
	case b6.IntersectsFeature:
		return "intersectsFeature(" + r.id(q.ID) + ")"
	case b6.IntersectsPoint:
		return "intersectsPoint" + r.s2pointAsLatLng(q.Point)
	case b6.IntersectsPolyline:
		return "intersectsPolyline:" + r.polyline(q.Polyline)
	case b6.IntersectsMultiPolygon:
		return "intersectsMultiPolygon:" + r.multiPolygon(q.MultiPolygon)
	case b6.IntersectsCells:
		ids := make([]string, len(q.Cells))
		for i, c := range q.Cells {
			ids[i] = fmt.Sprintf("%x", uint64(c.ID()))
		}
		return "intersectsCells(" + strings.Join(ids, ",") + ")"
	case b6.MightIntersect:
		if u, ok := q.Region.(*s2.CellUnion); ok {
			return "mightIntersect" + c19cells(*u)
		}
		return fmt.Sprintf("mightIntersect(%T)", q.Region)
	}
	r.unknown = append(r.unknown, fmt.Sprintf("%T", q))
	return fmt.Sprintf("unknown(%T)", q)
}

func c19cells(u s2.CellUnion) string {
	ids := make([]string, len(u))
	for i, c := range u {
		ids[i] = fmt.Sprintf("%x", uint64(c))
	}
	return "(" + strings.Join(ids, ",") + ")"
}

// capQuery reads the unexported s2.Cap of an IntersectsCap by reflection
// (reading is allowed; nothing is modified).
func (r *c19renderer) capQuery(q *b6.IntersectsCap) string {
	if q == nil {
		return "intersectsCap(nil)"
	}
	v := reflect.ValueOf(q).Elem().FieldByName("cap")
	if !v.IsValid() {
		r.unknown = append(r.unknown, "IntersectsCap without a cap field")
		return "intersectsCap(?)"
	}
	center := v.FieldByName("center") // s2.Point{r3.Vector{X,Y,Z}}
	vec := center.Field(0)
	p := s2.Point{}
	p.X, p.Y, p.Z = vec.Field(0).Float(), vec.Field(1).Float(), vec.Field(2).Float()
	chord := s1.ChordAngle(v.FieldByName("radius").Float())
	// the radius in metres, computed here from the chord (not through b6)
	r.caps = append(r.caps, 6371010.0*float64(chord.Angle()))
	return fmt.Sprintf("intersectsCap(%s,r#%d)", r.s2pointAsLatLng(p), len(r.caps)-1)
}

// ---------------------------------------------------------------------------
// The expression a proto denotes, in the same words (exact=false form).

type c19protoRenderer struct {
	caps []float64
	bad  []string // things in the proto the generator never makes
}

func (r *c19protoRenderer) id(p *pb.FeatureIDProto) string {
	return fmt.Sprintf("id(%s,%q,%d)", c19protoTypeName(p.GetType()), p.GetNamespace(), p.GetValue())
}

func (r *c19protoRenderer) point(p *pb.PointProto) string {
	return fmt.Sprintf("(%d,%d)", p.GetLatE7(), p.GetLngE7())
}

func (r *c19protoRenderer) polyline(p *pb.PolylineProto) string {
	var sb strings.Builder
	sb.WriteString("polyline[")
	for _, pt := range p.GetPoints() {
		sb.WriteString(r.point(pt))
	}
	sb.WriteString("]")
	return sb.String()
}

// multiPolygon: the generator writes each polygon as shell, hole, hole...
func (r *c19protoRenderer) multiPolygon(m *pb.MultiPolygonProto) string {
	var sb strings.Builder
	sb.WriteString("multipolygon[")
	for _, poly := range m.GetPolygons() {
		sb.WriteString("polygon[")
		for i, l := range poly.GetLoops() {
			fmt.Fprintf(&sb, "loop(hole=%v)[", i > 0)
			for _, v := range l.GetPoints() {
				sb.WriteString(r.point(v))
			}
			sb.WriteString("]")
		}
		sb.WriteString("]")
	}
	sb.WriteString("]")
	return sb.String()
}

func c19plainString(s string) string { return fmt.Sprintf("<\"\" 0 0 string(%q)>", s) }

func (r *c19protoRenderer) node(n *pb.NodeProto) string {
	var body string
	switch v := n.GetNode().(type) {
	case *pb.NodeProto_Symbol:
		body = fmt.Sprintf("symbol(%q)", v.Symbol)
	case *pb.NodeProto_Literal:
		body = r.literal(v.Literal)
	case *pb.NodeProto_Call:
		var sb strings.Builder
		fmt.Fprintf(&sb, "call(pipelined=%v,%s", v.Call.GetPipelined(), r.node(v.Call.GetFunction()))
		for _, a := range v.Call.GetArgs() {
			sb.WriteString("," + r.node(a))
		}
		sb.WriteString(")")
		body = sb.String()
	case *pb.NodeProto_Lambda_:
		args := v.Lambda_.GetArgs()
		if args == nil {
			args = []string{}
		}
		body = fmt.Sprintf("lambda(%q,%s)", args, r.node(v.Lambda_.GetNode()))
	default:
		r.bad = append(r.bad, fmt.Sprintf("node %T", v))
		body = "?"
	}
	return fmt.Sprintf("<%q %d %d %s>", n.GetName(), n.GetBegin(), n.GetEnd(), body)
}

func (r *c19protoRenderer) literal(l *pb.LiteralNodeProto) string {
	switch v := l.GetValue().(type) {
	case *pb.LiteralNodeProto_NilValue:
		return "nil"
	case *pb.LiteralNodeProto_BoolValue:
		return fmt.Sprintf("bool(%v)", v.BoolValue)
	case *pb.LiteralNodeProto_StringValue:
		return fmt.Sprintf("string(%q)", v.StringValue)
	case *pb.LiteralNodeProto_IntValue:
		return fmt.Sprintf("int(%d)", v.IntValue)
	case *pb.LiteralNodeProto_FloatValue:
		return "float(" + c19bits(v.FloatValue) + ")"
	case *pb.LiteralNodeProto_FeatureIDValue:
		return r.id(v.FeatureIDValue)
	case *pb.LiteralNodeProto_TagValue:
		return fmt.Sprintf("tag(%q,%s)", v.TagValue.GetKey(), c19plainString(v.TagValue.GetValue()))
	case *pb.LiteralNodeProto_PointValue:
		return "point" + r.point(v.PointValue)
	case *pb.LiteralNodeProto_PathValue:
		return "path:" + r.polyline(v.PathValue)
	case *pb.LiteralNodeProto_AreaValue:
		return "area:" + r.multiPolygon(v.AreaValue)
	case *pb.LiteralNodeProto_QueryValue:
		return "query:" + r.query(v.QueryValue)
	case *pb.LiteralNodeProto_RouteValue:
		var sb strings.Builder
		sb.WriteString("route(" + r.id(v.RouteValue.GetOrigin()))
		for _, s := range v.RouteValue.GetSteps() {
			fmt.Fprintf(&sb, ",step(%s,%s,%s)", r.id(s.GetDestination()), r.id(s.GetVia()), c19bits(s.GetCost()))
		}
		sb.WriteString(")")
		return sb.String()
	case *pb.LiteralNodeProto_CollectionValue:
		var sb strings.Builder
		sb.WriteString("collection{")
		for i := range v.CollectionValue.GetKeys() {
			if i > 0 {
				sb.WriteString(",")
			}
			sb.WriteString(r.literal(v.CollectionValue.Keys[i]) + "=>")
			if i < len(v.CollectionValue.GetValues()) {
				sb.WriteString(r.literal(v.CollectionValue.Values[i]))
			}
		}
		sb.WriteString("}")
		return sb.String()
	}
	r.bad = append(r.bad, fmt.Sprintf("literal %T", l.GetValue()))
	return "?"
}

func (r *c19protoRenderer) query(q *pb.QueryProto) string {
	switch v := q.GetQuery().(type) {
	case *pb.QueryProto_All:
		return "all"
	case *pb.QueryProto_Empty:
		return "empty"
	case *pb.QueryProto_IsValid:
		return "isValid"
	case *pb.QueryProto_Keyed:
		return fmt.Sprintf("keyed(%q)", v.Keyed)
	case *pb.QueryProto_Tagged:
		return fmt.Sprintf("tagged(%q,%s)", v.Tagged.GetKey(), c19plainString(v.Tagged.GetValue()))
	case *pb.QueryProto_Typed:
		return fmt.Sprintf("typed(%s,%s)", c19protoTypeName(v.Typed.GetType()), r.query(v.Typed.GetQuery()))
	case *pb.QueryProto_Intersection:
		parts := make([]string, len(v.Intersection.GetQueries()))
		for i, c := range v.Intersection.GetQueries() {
			parts[i] = r.query(c)
		}
		return "intersection(" + strings.Join(parts, ",") + ")"
	case *pb.QueryProto_Union:
		parts := make([]string, len(v.Union.GetQueries()))
		for i, c := range v.Union.GetQueries() {
			parts[i] = r.query(c)
		}
		return "union(" + strings.Join(parts, ",") + ")"
	case *pb.QueryProto_IntersectsCap:
		r.caps = append(r.caps, v.IntersectsCap.GetRadiusMeters())
		return fmt.Sprintf("intersectsCap(%s,r#%d)", r.point(v.IntersectsCap.GetCenter()), len(r.caps)-1)
	case *pb.QueryProto_IntersectsFeature:
		return "intersectsFeature(" + r.id(v.IntersectsFeature) + ")"
	case *pb.QueryProto_IntersectsPoint:
		return "intersectsPoint" + r.point(v.IntersectsPoint)
	case *pb.QueryProto_IntersectsPolyline:
		return "intersectsPolyline:" + r.polyline(v.IntersectsPolyline)
	case *pb.QueryProto_IntersectsMultiPolygon:
		return "intersectsMultiPolygon:" + r.multiPolygon(v.IntersectsMultiPolygon)
	case *pb.QueryProto_IntersectsCells:
		ids := make([]string, len(v.IntersectsCells.GetS2CellIDs()))
		for i, c := range v.IntersectsCells.GetS2CellIDs() {
			ids[i] = fmt.Sprintf("%x", c)
		}
		return "intersectsCells(" + strings.Join(ids, ",") + ")"
	case *pb.QueryProto_MightIntersect:
		ids := make([]string, len(v.MightIntersect.GetS2CellIDs()))
		for i, c := range v.MightIntersect.GetS2CellIDs() {
			ids[i] = fmt.Sprintf("%x", c)
		}
		return "mightIntersect(" + strings.Join(ids, ",") + ")"
	}
	r.bad = append(r.bad, fmt.Sprintf("query %T", q.GetQuery()))
	return "?"
}
