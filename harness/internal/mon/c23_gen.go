package mon

import (
	"fmt"
	"math"
	"reflect"
	"strings"

	"diagonal.works/b6"
	"github.com/golang/geo/s1"
	"github.com/golang/geo/s2"
	"verif/internal/core"
)

// Typed request generator for C23: for every parameter type that occurs in
// functions.Functions() a pool of well-formed and hostile argument
// expressions. Arguments are expression trees (literals and calls of other
// library functions) of bounded depth.

type c23gen struct {
	r            *core.R
	extreme      bool // the numeric argument being drawn may be one of the labelled extreme values (direct arguments only)
	bounded      bool // the request contains a function whose cost grows with geometric extent: only small, local geometry
	safe         bool // functions that do their work in goroutines of their own: arguments that reach no known panic site
	classes      []string
	touched      []b6.FeatureID // features the earlier requests of a session added or changed
	shorter      bool           // a session replaced a feature by a shorter version of itself
	geometryEdit bool           // a session tried to remove or overwrite a geometry tag
}

// c23costScaling lists the functions whose legitimate cost grows with the extent
// of their geometry argument (cells, tiles or samples per square metre); their
// geometry is kept small and local so that heavy work is not mistaken for a hang.
var c23costScaling = map[string]bool{"s2-grid": true, "s2-covering": true, "s2-points": true, "tile-paths": true,
	"sample-points": true, "sample-points-along-paths": true}

func (g *c23gen) note(class string) { g.classes = append(g.classes, class) }

var (
	c23presentIDs = []b6.FeatureID{fPointID(1), fPointID(2), fPointID(6), fPathID(1), fPathID(2), fPathID(3), fAreaID(2), fRelationID(1), fCollectionID(1), fCollectionID(2)}
	c23absentIDs  = []b6.FeatureID{fPointID(900), fPathID(901), fAreaID(902), fRelationID(903), fCollectionID(904)}
	c23oddIDs     = []b6.FeatureID{
		{Type: b6.FeatureTypePoint, Namespace: "", Value: 1},
		{Type: b6.FeatureTypeExpression, Namespace: fNS, Value: 1},
		{Type: b6.FeatureTypePoint, Namespace: fNS, Value: math.MaxUint64},
		{Type: b6.FeatureTypeArea, Namespace: b6.NamespaceLatLng, Value: 0x48761b3dc0000000},
	}
	c23strings = []string{"", "a", "name", "#amenity", "amenity", "cafe", "#highway", "highway", "footway", "#building", "yes", "building:levels",
		"point", "path", "area", "relation", "collection", "expression", "invalid", "bogus",
		"48761b", "48761b3dc", "X", "0", "-1", "3", "1.5", "\x00", "é", "walk", "bus", "diagonal.works/ns/x", "/tmp/verif-c23-should-not-exist",
		c26geoPoint, c26geoLine1, `{"type":"FeatureCollection","features":[]}`, `{"type":"Feature"}`, "{", "[1,2"}
)

func (g *c23gen) anyID() b6.FeatureID {
	switch g.r.Intn(10) {
	case 0, 1:
		return core.Pick(g.r, c23absentIDs)
	case 2:
		return core.Pick(g.r, c23oddIDs)
	}
	return core.Pick(g.r, c23presentIDs)
}

func (g *c23gen) idOfType(t b6.FeatureType) b6.FeatureID {
	if g.r.Chance(0.2) {
		return g.anyID()
	}
	var ids []b6.FeatureID
	for _, id := range append(append([]b6.FeatureID{}, c23presentIDs...), c23absentIDs...) {
		if id.Type == t {
			ids = append(ids, id)
		}
	}
	return core.Pick(g.r, ids)
}

func (g *c23gen) str() b6.Expression {
	if g.r.Chance(0.03) {
		return xStr(strings.Repeat("k", 5000))
	}
	return xStr(core.Pick(g.r, c23strings))
}

func (g *c23gen) intFor(name string) b6.Expression {
	n := strings.ToLower(name)
	if strings.Contains(n, "level") || strings.Contains(n, "zoom") {
		// S2 levels / zoom: bounded so that covering a 100 m feature stays cheap
		return xInt(core.Pick(g.r, []int{-100, -1, 0, 1, 5, 10, 14, 16, 17, 18, 19}))
	}
	if g.extreme && g.r.Chance(0.3) {
		g.note("extreme-int")
		return xInt(core.Pick(g.r, []int{math.MaxInt64, math.MinInt64, math.MaxInt64 - 1}))
	}
	return xInt(core.Pick(g.r, []int{0, 0, 1, 1, 2, 3, 5, 7, 10, 100, 1000, -1, -1, -2, -1000}))
}

func (g *c23gen) floatFor(name string) b6.Expression {
	if g.extreme && g.r.Chance(0.3) {
		g.note("extreme-float")
		return xFloat(core.Pick(g.r, []float64{1e300, -1e300, math.Inf(1), math.Inf(-1), math.MaxFloat64, 1e18, -1e18}))
	}
	n := strings.ToLower(name)
	if strings.Contains(n, "distance") || strings.Contains(n, "radius") || strings.Contains(n, "duration") || strings.Contains(n, "limit") || strings.Contains(n, "threshold") {
		// metres / seconds: the world is ~200 m across, so these are all cheap
		return xFloat(core.Pick(g.r, []float64{0, 0, -1, -0.5, 0.5, 1, 5, 10, 50, 100, 250, 1000, 2000, math.NaN()}))
	}
	if g.r.Chance(0.3) {
		return xInt(core.Pick(g.r, []int{0, 1, -1, 2, 90, 180}))
	}
	return xFloat(core.Pick(g.r, []float64{0, 0.5, 1, -1, 0.25, 0.999, 1.5, 2, -0.5, 51.5352, -0.1246, 90, -90, 180, 91, 360, math.NaN(), math.Copysign(0, -1), 1e-9}))
}

func (g *c23gen) number() b6.Expression {
	if g.r.Bool() {
		return g.intFor("")
	}
	return g.floatFor("")
}

func (g *c23gen) point() b6.Expression {
	if g.bounded {
		return xLL(51.5348+float64(g.r.Intn(20))*0.0001, -0.1255+float64(g.r.Intn(20))*0.0001)
	}
	switch g.r.Intn(8) {
	case 0:
		return xLL(0, 0)
	case 1:
		return xLL(90, 180)
	case 2:
		return xCall("ll", g.floatFor(""), g.floatFor(""))
	}
	return xLL(51.5348+float64(g.r.Intn(20))*0.0001, -0.1255+float64(g.r.Intn(20))*0.0001)
}

func (g *c23gen) tag() b6.Expression {
	switch g.r.Intn(6) {
	case 0:
		return xCall("tag", g.str(), g.str())
	case 1:
		return xCall("get", g.identifiable(0), g.str())
	case 2:
		return b6.Expression{AnyExpression: b6.TagExpression(b6.Tag{})} // invalid tag
	case 3:
		return xTag(core.Pick(g.r, []string{"#n", "n", "@n", ""}), core.Pick(g.r, []string{"", "1", "-3", "2.5", "x", "1e400"}))
	}
	return xTag(core.Pick(g.r, []string{"#amenity", "name", "#highway", "building:levels"}), core.Pick(g.r, []string{"cafe", "3", "x"}))
}

func (g *c23gen) feature(depth int, want b6.FeatureType) b6.Expression {
	var id b6.FeatureID
	if want == b6.FeatureTypeInvalid {
		id = g.anyID()
	} else {
		id = g.idOfType(want)
	}
	switch g.r.Intn(10) {
	case 0:
		return xCall("find-area", xID(id))
	case 1:
		return xCall("find-relation", xID(id))
	case 2:
		return xCall("find-collection", xID(id))
	case 3:
		return xID(id) // an ID where a feature is expected
	}
	return xCall("find-feature", xID(id))
}

// freshID returns an ID that nothing else in a request refers to. Relations,
// collections and expressions created by a change get such IDs, so that a
// generated feature can never (directly or through another generated feature)
// refer to itself: reference cycles make reference queries recurse without end,
// which is the subject of C15, not of this property.
func (g *c23gen) freshID(t b6.FeatureType) b6.FeatureID {
	return b6.FeatureID{Type: t, Namespace: fNS, Value: 950 + uint64(g.r.Intn(2))}
}

func (g *c23gen) identifiable(depth int) b6.Expression {
	if g.r.Chance(0.6) {
		return xID(g.anyID())
	}
	return g.feature(depth, b6.FeatureTypeInvalid)
}

func (g *c23gen) area(depth int) b6.Expression {
	if g.bounded {
		switch g.r.Intn(6) {
		case 0:
			return xCall("cap-polygon", g.point(), xFloat(core.Pick(g.r, []float64{1, 5, 20, 100, 250})))
		case 1:
			lat, lng := 51.5348+float64(g.r.Intn(10))*0.0001, -0.1255+float64(g.r.Intn(10))*0.0001
			return xCall("rectangle-polygon", xLL(lat, lng), xLL(lat+0.0001*float64(g.r.Range(1, 10)), lng+0.0001*float64(g.r.Range(1, 10))))
		case 2:
			return xCall("find-area", xID(g.anyID()))
		case 3:
			return xCall("s2-polygon", xStr(core.Pick(g.r, []string{"48761b3dc", "48761b3dd4"})))
		}
		return xCall("find-area", xID(fAreaID(2)))
	}
	switch g.r.Intn(9) {
	case 0:
		return xCall("cap-polygon", g.point(), g.floatFor("radius"))
	case 1:
		return xCall("rectangle-polygon", g.point(), g.point())
	case 2:
		return xCall("s2-polygon", xStr(core.Pick(g.r, []string{"48761b3dc", "48761b", "", "X", "zz"})))
	case 3:
		return xCall("collect-areas", g.collection(depth+1, "area"))
	case 4:
		return xCall("convex-hull", g.collection(depth+1, "geometry"))
	case 5:
		return xCall("find-area", xID(g.anyID()))
	case 6:
		return xCall("sightline", g.point(), g.floatFor("radius"))
	}
	return xCall("find-area", xID(fAreaID(2)))
}

func (g *c23gen) geometry(depth int) b6.Expression {
	switch g.r.Intn(12) {
	case 0, 1:
		return g.point()
	case 2:
		return g.area(depth + 1)
	case 3:
		return xCall("find-feature", xID(fPathID(uint64(g.r.Range(1, 3)))))
	case 4:
		return xCall("find-feature", xID(fPointID(uint64(g.r.Range(1, 8)))))
	case 5:
		return xCall("centroid", g.feature(depth+1, b6.FeatureTypeInvalid))
	case 6:
		return xCall("get-centroid", g.identifiable(depth+1))
	case 7:
		if depth < 2 {
			return xCall("interpolate", g.geometry(depth+1), g.floatFor("fraction"))
		}
	case 8:
		if depth < 2 {
			return xCall(core.Pick(g.r, []string{"join", "ordered-join"}), g.geometry(depth+1), g.geometry(depth+1))
		}
	case 9:
		if g.bounded {
			return xCall("s2-center", xStr("48761b3dc"))
		}
		return xCall("s2-center", xStr(core.Pick(g.r, []string{"48761b3dc", "", "X"})))
	}
	return g.feature(depth, b6.FeatureTypeInvalid)
}

func (g *c23gen) queryLiteral(depth int) b6.Query {
	switch g.r.Intn(14) {
	case 0:
		return b6.All{}
	case 1:
		return b6.Empty{}
	case 2:
		return b6.Keyed{Key: core.Pick(g.r, []string{"#amenity", "#building", "", "name"})}
	case 3:
		return b6.Intersection{}
	case 4:
		return b6.Union{}
	case 5:
		if depth < 2 {
			return b6.Intersection{g.queryLiteral(depth + 1), g.queryLiteral(depth + 1)}
		}
	case 6:
		if depth < 2 {
			return b6.Union{g.queryLiteral(depth + 1), g.queryLiteral(depth + 1)}
		}
	case 7:
		if depth < 2 {
			return b6.Typed{Type: core.Pick(g.r, []b6.FeatureType{b6.FeatureTypePoint, b6.FeatureTypePath, b6.FeatureTypeArea, b6.FeatureTypeRelation,
				b6.FeatureTypeCollection, b6.FeatureTypeExpression, b6.FeatureTypeInvalid}), Query: g.queryLiteral(depth + 1)}
		}
	case 8:
		return b6.NewIntersectsCap(s2.CapFromCenterAngle(s2.PointFromLatLng(s2.LatLngFromDegrees(51.5355, -0.1246)), s1.Angle(core.Pick(g.r, []float64{0, 1e-6, 1e-5, 1e-4}))))
	case 9:
		return b6.IntersectsFeature{ID: g.anyID()}
	case 10:
		return b6.IsValid{}
	}
	return b6.Tagged{Key: core.Pick(g.r, []string{"#amenity", "#highway", "#building", "name", ""}), Value: b6.NewStringExpression(core.Pick(g.r, []string{"cafe", "footway", "yes", ""}))}
}

func (g *c23gen) query(depth int) b6.Expression {
	if g.safe {
		switch g.r.Intn(3) {
		case 0:
			return xCall("all")
		case 1:
			return xCall("keyed", xStr(core.Pick(g.r, []string{"#amenity", "#highway", "#building", "#nothing"})))
		}
		return xCall("tagged", xStr("#amenity"), xStr(core.Pick(g.r, []string{"cafe", "bench", "none"})))
	}
	switch g.r.Intn(12) {
	case 0:
		return xCall("tagged", g.str(), g.str())
	case 1:
		return xCall("keyed", g.str())
	case 2:
		return xCall("all")
	case 3:
		if depth < 2 {
			return xCall(core.Pick(g.r, []string{"and", "or"}), g.query(depth+1), g.query(depth+1))
		}
	case 4:
		if depth < 2 {
			return xCall("typed", xStr(core.Pick(g.r, []string{"point", "path", "area", "relation", "collection", "expression", "invalid", "bogus", ""})), g.query(depth+1))
		}
	case 5:
		return xCall("intersecting", g.geometry(depth+1))
	case 6:
		return xCall("intersecting-cap", g.point(), g.floatFor("radius"))
	case 7:
		return xCall("within", g.area(depth+1))
	case 8:
		return xCall("within-cap", g.point(), g.floatFor("radius"))
	case 9:
		return xCall(core.Pick(g.r, []string{"type-point", "type-path", "type-area", "is-valid"}))
	}
	return b6.NewQueryExpression(g.queryLiteral(depth))
}

func (g *c23gen) pair(depth int) b6.Expression {
	return xCall("pair", g.any(depth+1), g.any(depth+1))
}

func (g *c23gen) change(depth int) b6.Expression {
	switch g.r.Intn(8) {
	case 0:
		return xCall("remove-tag", g.identifiable(depth+1), g.str())
	case 1:
		return xCall("add-point", g.point(), xID(g.anyID()), g.collection(depth+1, "tag"))
	case 2:
		if depth < 2 {
			return xCall("merge-changes", g.collection(depth+1, "change"))
		}
	case 3:
		return xCall("import-geojson", g.geojson(depth+1), g.str())
	case 4:
		return xCall("histogram", g.collection(depth+1, "any"))
	case 5:
		return xCall("add-relation", xID(g.freshID(b6.FeatureTypeRelation)), g.collection(depth+1, "tag"), g.collection(depth+1, "idstr"))
	}
	return xCall("add-tag", g.identifiable(depth+1), g.tag())
}

func (g *c23gen) geojson(depth int) b6.Expression {
	switch g.r.Intn(5) {
	case 0:
		return xCall("to-geojson", g.geometry(depth+1))
	case 1:
		return xCall("to-geojson-collection", g.collection(depth+1, "geometry"))
	case 2:
		return xCall("parse-geojson", g.str())
	}
	return xCall("parse-geojson", xStr(core.Pick(g.r, []string{c26geoPoint, c26geoLine, c26geoLine1, c26geoPolygon, c26collection(c26geoPoint, c26geoPolygon), c26collection()})))
}

// callable returns a function value of (roughly) the given arity.
func (g *c23gen) callable(depth int, arity int) b6.Expression {
	if g.safe {
		// functions that return a value or an error for any argument
		x := xSym("x")
		return core.Pick(g.r, []b6.Expression{
			xLambda([]string{"x"}, x), xLambda([]string{"x"}, xCall("pair", x, x)), xLambda([]string{"x"}, xInt(1)),
			xLambda([]string{"x"}, xCall("to-str", x)), xLambda([]string{"x"}, xCall("get-string", x, xStr("name"))),
			xLambda(nil, xInt(1)), xLambda([]string{"x", "y"}, x), xLambda([]string{"x"}, xCall("all-tags", x)),
			xLambda([]string{"x"}, xCall("add-ints", x, xInt(1))), xSym("to-str"),
		})
	}
	if arity == 0 {
		switch g.r.Intn(4) {
		case 0:
			return xLambda(nil, g.any(depth+1))
		case 1:
			return xLambda([]string{"x"}, xSym("x")) // wrong arity
		case 2:
			return xSym("all")
		}
		return xLambda(nil, xCall("find", g.query(depth+1)))
	}
	x := xSym("x")
	switch g.r.Intn(22) {
	case 0:
		return xLambda([]string{"x"}, x)
	case 1:
		return xLambda([]string{"x"}, xCall("get", x, g.str()))
	case 2:
		return xLambda([]string{"x"}, xCall("get-string", x, xStr("name")))
	case 3:
		return xLambda([]string{"x"}, xCall("pair", x, x))
	case 4:
		return xLambda([]string{"x"}, xCall("all-tags", x))
	case 5:
		return xLambda([]string{"x"}, xCall("gt", x, g.number()))
	case 6:
		return xLambda([]string{"x"}, xCall("matches", x, g.query(depth+1)))
	case 7:
		return xLambda([]string{"x"}, g.any(depth+1)) // constant
	case 8:
		return xLambda(nil, g.any(depth+1)) // wrong arity: none
	case 9:
		return xLambda([]string{"x", "y"}, xCall("pair", xSym("y"), x)) // wrong arity: two
	case 10:
		return xSym(core.Pick(g.r, []string{"count", "all-tags", "first", "second", "centroid", "area", "length", "degree", "to-str", "points", "value", "find-feature", "is-valid", "pair", "collection"}))
	case 11:
		return xCall("get-string", xStr("name")) // not enough arguments for a direct call
	case 12:
		return xCall("tag", xStr("name")) // partial application
	case 13:
		return xLambda([]string{"x"}, xCall("centroid", x))
	case 14:
		return xLambda([]string{"x"}, xCall("add-tag", x, g.tag()))
	case 15:
		return xLambda([]string{"x"}, xCall("count", x))
	case 16:
		return xLambda([]string{"x"}, xCall("second", x))
	case 17:
		return xLambda([]string{"x"}, xCall("divide", x, g.number()))
	case 18:
		return xLambda([]string{"x"}, xCall("to-geojson", x))
	case 19:
		return xCall(core.Pick(g.r, []string{"apply-to-point", "apply-to-path", "apply-to-area"}), g.callable(depth+1, 1))
	case 20:
		return xLambda([]string{"x"}, xCall("cap-polygon", x, g.floatFor("radius")))
	}
	return xLambda([]string{"x"}, xCall("find-feature", x))
}

// element draws one value of an element class for collections.
func (g *c23gen) element(depth int, class string) b6.Expression {
	switch class {
	case "int":
		return g.intFor("")
	case "float":
		return g.floatFor("")
	case "string":
		return g.str()
	case "id":
		return xID(g.anyID())
	case "identifiable":
		return g.identifiable(depth)
	case "feature":
		return g.feature(depth, b6.FeatureTypeInvalid)
	case "tag":
		return g.tag()
	case "area":
		return g.area(depth)
	case "geometry":
		return g.geometry(depth)
	case "change":
		return g.change(depth)
	case "collection":
		return g.collection(depth+1, "any")
	}
	return g.any(depth)
}

var c23elementClasses = []string{"int", "float", "string", "id", "identifiable", "feature", "tag", "area", "geometry", "change", "collection", "any"}

// collection returns a collection whose values are of the given class; "idstr"
// is Identifiable -> string, "idtag" FeatureID -> Tag, "idid" FeatureID -> FeatureID.
func (g *c23gen) collection(depth int, class string) b6.Expression {
	if g.safe {
		if (class == "feature" || class == "identifiable" || class == "any") && g.r.Chance(0.4) {
			return xCall("find", g.query(depth+1))
		}
		n := g.r.Intn(5)
		var kv []b6.Expression
		for i := 0; i < n; i++ {
			k := xInt(i)
			if g.r.Chance(0.3) {
				k = core.Pick(g.r, []b6.Expression{xStr("k"), xID(g.anyID()), xInt(0), xFloat(1.5)})
			}
			vc := core.Pick(g.r, []string{"int", "float", "string", "id", "tag"})
			if class == "feature" || class == "identifiable" {
				vc = "id"
			}
			kv = append(kv, k, g.element(depth+1, vc))
		}
		return xPairs(kv...)
	}
	kc, vc := "key", class
	switch class {
	case "idstr":
		kc, vc = "id", "string"
	case "idtag":
		kc, vc = "id", "tag"
	case "idid":
		kc, vc = "id", "id"
	case "idgeometry":
		kc, vc = "id", "geometry"
	}
	if g.r.Chance(0.12) { // element type confusion
		vc = core.Pick(g.r, c23elementClasses)
	}
	if depth >= 3 {
		return xPairs()
	}
	switch g.r.Intn(14) {
	case 0:
		return xPairs() // empty
	case 1: // a producer from the library
		switch vc {
		case "feature", "identifiable", "any", "geometry":
			return xCall("find", g.query(depth+1))
		case "area":
			return xCall("find-areas", g.query(depth+1))
		case "tag":
			return xCall("all-tags", g.identifiable(depth+1))
		case "int":
			return xCall("count-values", g.collection(depth+1, "any"))
		case "string":
			return xCall("debug-tokens", g.identifiable(depth+1))
		}
	case 2: // literal collection of plain literals
		n := g.r.Intn(4)
		keys, values := make([]any, n), make([]any, n)
		for i := range keys {
			keys[i] = core.Pick(g.r, []any{i, "k", 1.5, fPointID(1), "k"})
			values[i] = core.Pick(g.r, []any{i, -1, "v", 2.5, fPointID(2), fPathID(1), "v", math.NaN()})
		}
		return xLitColl(keys, values)
	case 3:
		if depth < 2 {
			return xCall("take", g.collection(depth+1, class), g.intFor("n"))
		}
	case 4:
		if depth < 2 {
			return xCall("map", g.collection(depth+1, "any"), g.callable(depth+1, 1))
		}
	case 5:
		if depth < 2 {
			return xCall("filter", g.collection(depth+1, class), g.callable(depth+1, 1))
		}
	case 6:
		if vc == "geometry" {
			return xCall("points", g.geometry(depth+1))
		}
	case 7:
		if depth < 2 {
			return xCall("flatten", g.collection(depth+1, "collection"))
		}
	}
	n := g.r.Intn(4)
	var kv []b6.Expression
	for i := 0; i < n; i++ {
		var k b6.Expression
		switch {
		case kc == "id":
			k = xID(g.anyID())
		case g.r.Chance(0.7):
			k = xInt(i)
		case g.r.Chance(0.5):
			k = xInt(0) // duplicate keys
		default:
			k = g.any(depth + 1)
		}
		kv = append(kv, k, g.element(depth+1, vc))
	}
	return xPairs(kv...)
}

func (g *c23gen) any(depth int) b6.Expression {
	if depth >= 3 {
		return xInt(g.r.Intn(3))
	}
	if g.safe {
		return core.Pick(g.r, []b6.Expression{g.intFor(""), g.floatFor(""), g.str(), xID(g.anyID())})
	}
	switch g.r.Intn(16) {
	case 0:
		return g.intFor("")
	case 1:
		return g.floatFor("")
	case 2:
		return g.str()
	case 3:
		return xID(g.anyID())
	case 4:
		return g.feature(depth, b6.FeatureTypeInvalid)
	case 5:
		return g.tag()
	case 6:
		return g.geometry(depth)
	case 7:
		return g.query(depth)
	case 8:
		return g.pair(depth)
	case 9:
		return g.collection(depth+1, "any")
	case 10:
		return g.callable(depth, 1)
	case 11:
		return xBool(g.r.Bool())
	case 12:
		return b6.Expression{AnyExpression: b6.NilExpression{}}
	case 13:
		return g.change(depth)
	case 14:
		return g.area(depth)
	}
	return g.geojson(depth)
}

// collectionTypes extracts K and V of a b6.Collection[K,V] by reflection.
func c23collectionTypes(t reflect.Type) (k, v reflect.Type, ok bool) {
	if t.Kind() != reflect.Struct || !strings.HasPrefix(t.String(), "b6.Collection[") || t.NumField() == 0 {
		return nil, nil, false
	}
	begin, found := t.Field(0).Type.MethodByName("Begin")
	if !found || begin.Type.NumOut() != 1 {
		return nil, nil, false
	}
	it := begin.Type.Out(0)
	km, ok1 := it.MethodByName("Key")
	vm, ok2 := it.MethodByName("Value")
	if !ok1 || !ok2 {
		return nil, nil, false
	}
	return km.Type.Out(0), vm.Type.Out(0), true
}

func c23elementClass(t reflect.Type) string {
	switch t.String() {
	case "int":
		return "int"
	case "float64":
		return "float"
	case "string":
		return "string"
	case "b6.FeatureID":
		return "id"
	case "b6.Identifiable":
		return "identifiable"
	case "b6.Feature", "b6.AreaFeature", "b6.PhysicalFeature":
		return "feature"
	case "b6.Tag":
		return "tag"
	case "b6.Area":
		return "area"
	case "b6.Geometry":
		return "geometry"
	case "ingest.Change":
		return "change"
	case "b6.UntypedCollection":
		return "collection"
	}
	return "any"
}

// forType returns an argument for a parameter of Go type t named name.
func (g *c23gen) forType(t reflect.Type, name string, depth int) b6.Expression {
	if k, v, ok := c23collectionTypes(t); ok {
		class := c23elementClass(v)
		if kc := c23elementClass(k); kc == "id" || kc == "identifiable" {
			switch class {
			case "string":
				class = "idstr"
			case "tag":
				class = "idtag"
			case "id":
				class = "idid"
			case "geometry":
				class = "idgeometry"
			}
		}
		return g.collection(depth, class)
	}
	switch t.Kind() {
	case reflect.Int:
		return g.intFor(name)
	case reflect.Float64:
		return g.floatFor(name)
	case reflect.String:
		return g.str()
	case reflect.Func:
		return g.callable(depth, t.NumIn()-1)
	}
	switch t.String() {
	case "b6.Number":
		return g.number()
	case "b6.FeatureID":
		return xID(g.anyID())
	case "b6.CollectionID":
		return xID(g.idOfType(b6.FeatureTypeCollection))
	case "b6.RelationID":
		return xID(g.idOfType(b6.FeatureTypeRelation))
	case "b6.Identifiable":
		return g.identifiable(depth)
	case "b6.Feature":
		return g.feature(depth, b6.FeatureTypeInvalid)
	case "b6.AreaFeature":
		return g.feature(depth, b6.FeatureTypeArea)
	case "b6.Area":
		return g.area(depth)
	case "b6.Geometry":
		return g.geometry(depth)
	case "b6.Query":
		return g.query(depth)
	case "b6.Tag":
		return g.tag()
	case "api.Pair":
		return g.pair(depth)
	case "api.Callable":
		return g.callable(depth, 1)
	case "b6.Expression":
		return g.any(depth)
	case "b6.UntypedCollection":
		return g.collection(depth, core.Pick(g.r, c23elementClasses))
	case "ingest.Change":
		return g.change(depth)
	case "geojson.GeoJSON":
		return g.geojson(depth)
	}
	return g.any(depth)
}

// c23prelude: the earlier requests of a session. Features are added and then
// replaced by versions of a different size (the stored feature is merged with
// its replacement), tags come and go, and a few random changes are mixed in.
// The ids are noted in g so that the main request can read what was touched.
func c23prelude(r *core.R, g *c23gen) []b6.Expression {
	var out []b6.Expression
	pairs := func(n int) b6.Expression {
		var kv []b6.Expression
		for i := 0; i < n; i++ {
			kv = append(kv, xInt(i), xStr(fmt.Sprintf("v%d", i)))
		}
		return xPairs(kv...)
	}
	members := func(n int) b6.Expression {
		var kv []b6.Expression
		for i := 0; i < n; i++ {
			kv = append(kv, xID(fPointID(uint64(1+i%7))), xStr(core.Pick(r, []string{"", "stop", "via"})))
		}
		return xPairs(kv...)
	}
	for i, n := 0, r.Range(1, 2); i < n; i++ {
		switch r.Intn(5) {
		case 4: // an attempt to take a feature's geometry away (or to overwrite it with text), then reads of what is built on it
			target := core.Pick(r, []struct {
				id  b6.FeatureID
				key string
				on  []b6.FeatureID
			}{{fPointID(1), "point", []b6.FeatureID{fPathID(1)}}, {fPointID(4), "point", []b6.FeatureID{fPathID(2), fAreaID(2)}}, {fPathID(2), "path", []b6.FeatureID{fAreaID(2)}}})
			if r.Bool() {
				out = append(out, xCall("remove-tag", xCall("find-feature", xID(target.id)), xStr(target.key)))
			} else {
				out = append(out, xCall("add-tag", xID(target.id), xTag(target.key, core.Pick(r, []string{"", "x", "51.5,-0.1"}))))
			}
			g.touched = append(g.touched, target.id)
			g.touched = append(g.touched, target.on...)
			g.geometryEdit = true
		case 0: // a collection, then the same id again with fewer or more entries
			id := fCollectionID(uint64(60 + r.Intn(3)))
			a, b := r.Range(0, 6), r.Range(0, 6)
			out = append(out, xCall("add-collection", xID(id), xPairs(), pairs(a)), xCall("add-collection", xID(id), xPairs(), pairs(b)))
			g.touched = append(g.touched, id)
			if b < a {
				g.shorter = true
			}
		case 1: // a relation, then the same id with fewer or more members
			id := fRelationID(uint64(60 + r.Intn(3)))
			a, b := r.Range(0, 5), r.Range(0, 5)
			out = append(out, xCall("add-relation", xID(id), xPairs(), members(a)), xCall("add-relation", xID(id), xPairs(), members(b)))
			g.touched = append(g.touched, id)
			if b < a {
				g.shorter = true
			}
		case 2: // tags on a feature of the world, added, overwritten, removed
			id := core.Pick(r, []b6.FeatureID{fPointID(1), fPathID(1), fAreaID(2), fRelationID(1), fCollectionID(1)})
			k := core.Pick(r, []string{"name", "#amenity", "@ref"})
			out = append(out, xCall("add-tag", xID(id), xTag(k, "first")), xCall("add-tag", xID(id), xTag(k, "second")))
			if r.Bool() {
				out = append(out, xCall("remove-tag", xID(id), xStr(k)))
			}
			g.touched = append(g.touched, id)
		default:
			out = append(out, g.change(1))
		}
	}
	// and reads of what was touched
	for _, id := range g.touched {
		switch id.Type {
		case b6.FeatureTypeCollection:
			out = append(out, xCall("find-collection", xID(id)), xCall("count", xCall("find-collection", xID(id))))
		case b6.FeatureTypeRelation:
			out = append(out, xCall("find-relation", xID(id)))
		}
		out = append(out, xCall("find-feature", xID(id)), xCall("all-tags", xCall("find-feature", xID(id))))
		if id.Type == b6.FeatureTypePath || id.Type == b6.FeatureTypeArea {
			out = append(out, xCall("to-geojson", xCall("find-feature", xID(id))), xCall("centroid", xCall("find-feature", xID(id))))
		}
	}
	return out
}
