package mon

import (
	"fmt"
	"math"
	"runtime/metrics"
	"strconv"
	"strings"
	"syscall"
	"time"

	"diagonal.works/b6/renderer"
	"github.com/golang/geo/r2"
	"verif/internal/core"
)

// C34 Line simplification matches the recursive reference.
//
// Three implementations are run on every generated line:
//   - the iterative explicit-stack one (renderer.VerifDouglasPeucker, which is
//     also what the exported renderer.Simplify calls),
//   - the repository's recursive reference (renderer.VerifReferenceDouglasPeucker),
//   - a reference written here (c34Reference) that works on index ranges and
//     returns the kept indices.
//
// All three must return the same points; the result must start with the first
// and end with the last input point and be a subsequence of the input.
//
// The harness reference follows the recursion scheme that the repository's
// reference defines: the farthest interior point m of [lo,hi) (first maximum,
// strictly greater than the tolerance) splits the range into [lo,m) and
// [m,hi); a range that is not split contributes its first point; the last
// point of the whole line is appended at the end. (Textbook Douglas-Peucker
// splits into [lo,m] and [m,hi); the monitor counts how often that would give
// a different line in "textbook_dp_differs" but does not demand it, because
// the property only speaks about the agreement of the implementations.)
//
// The distance is the perpendicular distance to the line through the range's
// end points, written out here with the same sequence of float64 operations
// as the documented definition (reject (a-p) from the unit vector of (b-a),
// Hypot for norms), so that ties and the comparison with the tolerance fall
// the same way. A separate, tolerance-based check compares the repository's
// distance with |cross|/|b-a|.

// c34LimitMemory caps the address space of the child process. A simplifier
// that stops terminating (for instance a >= instead of > against a zero
// tolerance) grows its explicit stack or recursion without bound; with the cap
// the child dies with "fatal error: out of memory" (or a stack overflow) within
// seconds, the parent reports the case as a crash and carries on, and the
// machine is not exhausted.
func c34LimitMemory() {
	lim := syscall.Rlimit{Cur: 4 << 30, Max: 4 << 30}
	syscall.Setrlimit(syscall.RLIMIT_AS, &lim)
}

func c34HeapBytes() uint64 {
	sm := []metrics.Sample{{Name: "/memory/classes/heap/objects:bytes"}, {Name: "/memory/classes/heap/stacks:bytes"}}
	metrics.Read(sm)
	var t uint64
	for _, m := range sm {
		if m.Value.Kind() == metrics.KindUint64 {
			t += m.Value.Uint64()
		}
	}
	return t
}

// c34Guarded runs f (a call into the code under test on a small input) and
// waits for it. Normally f returns within microseconds and nothing else
// happens. If it is still running after a while the guard starts looking at a
// logical quantity, the bytes of live heap and stack: a call that has made the
// process grow by more than budget bytes on an input of a few hundred points
// is reported as runaway (a decisive verdict in bytes, not in time; the
// goroutine cannot be stopped, so the caller must request a restart and
// return). A call that keeps running without growing is left to the
// framework's case cap (inconclusive).
func c34Guarded(f func(), budget uint64) (panicked bool, class, frame string, runaway bool, grown uint64) {
	base := c34HeapBytes()
	type res struct {
		p      bool
		cl, fr string
	}
	done := make(chan res, 1)
	go func() {
		p, cl, fr, _ := core.Protect(f)
		done <- res{p, cl, fr}
	}()
	t := time.NewTimer(300 * time.Millisecond)
	defer t.Stop()
	for {
		select {
		case r := <-done:
			return r.p, r.cl, r.fr, false, 0
		case <-t.C:
			if now := c34HeapBytes(); now > base && now-base > budget {
				return false, "", "", true, now - base
			}
			t.Reset(100 * time.Millisecond)
		}
	}
}

func c34Dist(a, b, p r2.Point) float64 {
	nx, ny := b.X-a.X, b.Y-a.Y
	if !(nx == 0 && ny == 0) {
		l := 1 / math.Hypot(nx, ny)
		nx, ny = l*nx, l*ny
	}
	vx, vy := a.X-p.X, a.Y-p.Y
	d := vx*nx + vy*ny
	return math.Hypot(vx-d*nx, vy-d*ny)
}

type c34Stats struct {
	splits    int
	maxDepth  int
	exactTie  int     // two interior points with bit-equal maximal distance (first one must win)
	nearTie   bool    // a decision hung on a relative difference below 1e-12 (not bit-equal)
	epsEqual  int     // the maximal distance was exactly the tolerance (must not split)
	leafSpans int     // unsplit ranges with interior points (points were dropped)
	tieTol    float64 // relative difference below which a decision counts as a near tie (0 = 1e-12)
}

// c34Reference returns the indices kept by the recursive scheme described above.
func c34Reference(pts []r2.Point, eps float64, st *c34Stats) []int {
	var out []int
	tol := st.tieTol
	if tol == 0 {
		tol = 1e-12
	}
	var rec func(lo, hi, depth int) // range [lo,hi), hi exclusive
	rec = func(lo, hi, depth int) {
		if depth > st.maxDepth {
			st.maxDepth = depth
		}
		max, maxi := 0.0, 0
		second := -1.0
		for i := lo + 1; i < hi-1; i++ {
			d := c34Dist(pts[lo], pts[hi-1], pts[i])
			if d > max {
				second = max
				max, maxi = d, i
			} else if d > second {
				second = d
			}
		}
		if max > 0 {
			if second == max {
				st.exactTie++
			} else if second > 0 && (max-second) <= tol*max {
				st.nearTie = true
			}
			if max == eps {
				st.epsEqual++
			} else if math.Abs(max-eps) <= tol*max {
				st.nearTie = true
			}
		}
		if max > eps {
			st.splits++
			rec(lo, maxi, depth+1)
			rec(maxi, hi, depth+1)
		} else {
			if hi-lo > 2 {
				st.leafSpans++
			}
			out = append(out, lo)
		}
	}
	rec(0, len(pts), 1)
	return append(out, len(pts)-1)
}

// c34Textbook is textbook Douglas-Peucker (both halves contain the split
// point). Informational only.
func c34Textbook(pts []r2.Point, eps float64) []int {
	var out []int
	var tb func(lo, hi int) // inclusive lo..hi
	tb = func(lo, hi int) {
		max, maxi := 0.0, 0
		for i := lo + 1; i < hi; i++ {
			if d := c34Dist(pts[lo], pts[hi], pts[i]); d > max {
				max, maxi = d, i
			}
		}
		if max > eps {
			tb(lo, maxi)
			tb(maxi, hi)
		} else {
			out = append(out, lo)
		}
	}
	tb(0, len(pts)-1)
	return append(out, len(pts)-1)
}

func c34Same(a, b []r2.Point) bool {
	if len(a) != len(b) {
		return false
	}
	for i := range a {
		if math.Float64bits(a[i].X) != math.Float64bits(b[i].X) || math.Float64bits(a[i].Y) != math.Float64bits(b[i].Y) {
			// +0 and -0 are the same coordinate
			if a[i].X != b[i].X || a[i].Y != b[i].Y {
				return false
			}
		}
	}
	return true
}

func c34IsSubsequence(sub, all []r2.Point) bool {
	j := 0
	for _, p := range sub {
		for j < len(all) && !(all[j].X == p.X && all[j].Y == p.Y) {
			j++
		}
		if j == len(all) {
			return false
		}
		j++
	}
	return true
}

func c34Render(ps []r2.Point) string {
	var sb strings.Builder
	for i, p := range ps {
		if i > 0 {
			sb.WriteByte(' ')
		}
		sb.WriteString(strconv.FormatFloat(p.X, 'g', -1, 64))
		sb.WriteByte(',')
		sb.WriteString(strconv.FormatFloat(p.Y, 'g', -1, 64))
	}
	return sb.String()
}

func c34Witness(class string, pts []r2.Point, eps float64, extra map[string]any) map[string]any {
	w := map[string]any{"class": class, "epsilon": strconv.FormatFloat(eps, 'g', -1, 64), "n": len(pts)}
	if len(pts) <= 60 {
		w["points"] = c34Render(pts)
	} else {
		w["points_head"] = c34Render(pts[:30])
		w["points_tail"] = c34Render(pts[len(pts)-30:])
	}
	for k, v := range extra {
		w[k] = v
	}
	return w
}

// c34Line generates one line; returns the class name too.
func c34Line(r *core.R, maxN int) ([]r2.Point, string) {
	n := 2
	switch r.Intn(10) {
	case 0:
		n = r.Range(2, 4)
	case 1, 2, 3:
		n = r.Range(3, 12)
	case 4, 5, 6, 7:
		n = r.Range(5, 60)
	default:
		n = r.Range(30, maxN)
	}
	pts := make([]r2.Point, n)
	class := ""
	switch r.Intn(12) {
	case 0:
		class = "random-float"
		s := core.Pick(r, []float64{1, 100, 4096, 1e6})
		for i := range pts {
			pts[i] = r2.Point{X: r.Float() * s, Y: r.Float() * s}
		}
	case 1:
		class = "small-grid" // many exact ties, duplicates and collinear triples
		g := r.Range(2, 6)
		for i := range pts {
			pts[i] = r2.Point{X: float64(r.Intn(g)), Y: float64(r.Intn(g))}
		}
	case 2:
		class = "collinear-runs"
		x, y := float64(r.Intn(50)), float64(r.Intn(50))
		dx, dy := float64(r.Range(-3, 3)), float64(r.Range(-3, 3))
		for i := range pts {
			pts[i] = r2.Point{X: x, Y: y}
			if r.Chance(0.15) {
				dx, dy = float64(r.Range(-3, 3)), float64(r.Range(-3, 3))
			}
			if r.Chance(0.1) { // a duplicate
				continue
			}
			x, y = x+dx, y+dy
		}
	case 3:
		class = "spikes"
		for i := range pts {
			y := 0.0
			if r.Chance(0.12) {
				y = float64(r.Range(-100, 100))
			} else if r.Chance(0.3) {
				y = r.Float() * 0.2
			}
			pts[i] = r2.Point{X: float64(i), Y: y}
		}
	case 4:
		class = "closed-ring" // first == last: the distance degenerates to the distance from that point
		cx, cy := r.Float()*100, r.Float()*100
		rad := 1 + r.Float()*50
		for i := range pts {
			a := 2 * math.Pi * float64(i) / float64(n-1)
			rr := rad * (1 + 0.2*(r.Float()-0.5))
			pts[i] = r2.Point{X: cx + rr*math.Cos(a), Y: cy + rr*math.Sin(a)}
		}
		pts[n-1] = pts[0]
	case 5:
		class = "all-identical"
		p := r2.Point{X: float64(r.Intn(10)), Y: float64(r.Intn(10))}
		for i := range pts {
			pts[i] = p
		}
		if n > 2 && r.Bool() {
			pts[r.Range(1, n-2)] = r2.Point{X: p.X + 1, Y: p.Y}
		}
	case 6:
		class = "zigzag-equal" // equal amplitudes: exact ties, the first maximum must win
		amp := float64(r.Range(1, 5))
		for i := range pts {
			y := 0.0
			switch i % 4 {
			case 1:
				y = amp
			case 3:
				y = -amp
			}
			pts[i] = r2.Point{X: float64(i), Y: y}
		}
		if r.Bool() {
			pts[n-1].Y = 0
			pts[0].Y = 0
		}
	case 7:
		class = "smooth-curve"
		k := 0.5 + r.Float()*6
		amp := 1 + r.Float()*100
		for i := range pts {
			t := float64(i) / float64(n)
			pts[i] = r2.Point{X: 400 * t, Y: amp * math.Sin(k*2*math.Pi*t)}
		}
	case 8:
		class = "random-walk"
		x, y := 0.0, 0.0
		for i := range pts {
			pts[i] = r2.Point{X: x, Y: y}
			x += r.NormFloat() * 3
			y += r.NormFloat() * 3
		}
	case 9:
		class = "extreme-magnitude"
		s := core.Pick(r, []float64{1e-150, 1e-30, 1e30, 1e150})
		for i := range pts {
			pts[i] = r2.Point{X: (r.Float() - 0.5) * s, Y: (r.Float() - 0.5) * s}
		}
	case 10:
		class = "tile-ring" // what the tile encoder feeds in: projected pixels, large offsets
		ox, oy := float64(r.Intn(1<<20)*4096), float64(r.Intn(1<<20)*4096)
		rad := 100 + r.Float()*1500
		for i := range pts {
			a := 2 * math.Pi * float64(i) / float64(n)
			rr := rad * (1 + 0.05*(r.Float()-0.5))
			pts[i] = r2.Point{X: ox + 2048 + rr*math.Cos(a), Y: oy + 2048 + rr*math.Sin(a)}
		}
	default:
		class = "back-and-forth" // revisits the same points, including the first
		base := make([]r2.Point, r.Range(2, 5))
		for i := range base {
			base[i] = r2.Point{X: float64(r.Intn(8)), Y: float64(r.Intn(8))}
		}
		for i := range pts {
			pts[i] = base[r.Intn(len(base))]
		}
	}
	return pts, class
}

func c34Epsilon(r *core.R, pts []r2.Point) (float64, string) {
	n := len(pts)
	// scale of the line
	span := 0.0
	for _, p := range pts {
		span = math.Max(span, math.Max(math.Abs(p.X-pts[0].X), math.Abs(p.Y-pts[0].Y)))
	}
	switch r.Intn(10) {
	case 0:
		return 0, "zero"
	case 1:
		return core.Pick(r, []float64{1e-300, 1e-12, 1e-6}), "tiny"
	case 2:
		return core.Pick(r, []float64{0.1, 0.5, 1, 2, 5}), "fixed"
	case 3:
		return core.Pick(r, []float64{1e9, 1e300, math.Inf(1)}), "huge"
	case 4, 5:
		if n > 2 {
			// exactly the distance of an interior point from the chord of some range:
			// a strict comparison must not split there
			lo := r.Intn(n - 2)
			hi := r.Range(lo+2, n-1)
			i := r.Range(lo+1, hi-1)
			return c34Dist(pts[lo], pts[hi], pts[i]), "a-distance"
		}
		return span, "span"
	default:
		f := r.Float()
		return span * f * f * f, "fraction-of-span"
	}
}

func init() {
	core.Register(&core.Monitor{
		ID:        "C34",
		Title:     "Line simplification matches the recursive reference",
		Technique: "three-way differential: iterative Douglas-Peucker vs the repository's recursive reference vs a harness reference, plus first/last and subsequence checks",
		Rule: "case = (line, tolerance): lines of 1..400 points from 12 classes (random, small integer grid, collinear runs with duplicates, spikes, " +
			"closed ring, all identical, equal-amplitude zigzag, smooth curve, random walk, extreme magnitudes, projected tile ring, back-and-forth) and " +
			"tolerances 0, tiny, fixed, huge/+Inf, exactly the distance of an interior point, a fraction of the span; distinct = distinct (points, tolerance); " +
			"non-trivial = at least one split happened and at least one point was dropped",
		Assumptions: []string{
			"tolerances are >= 0 and finite or +Inf (a negative tolerance makes both implementations loop/recurse forever on a 2-point range and is outside 'all tolerances' of a distance)",
			"float64 arithmetic without fused multiply-add (amd64), so the harness distance is bit-identical to the documented definition; a decision that hangs on a relative difference < 1e-12 is counted as ambiguous instead of reported",
		},
		Quick: 60000, Thorough: 5000000,
		CaseCap:  120 * time.Second, // the median case costs 0.15 ms
		Setup:    func(string) { c34LimitMemory() },
		Required: []string{"split", "exact_tie_first_max_wins", "eps_equals_max_distance", "closed_ring_split", "recursion_depth_ge_4", "points_dropped", "simplify_exported_checked", "long_line"},
		Run: func(c *core.Ctx) {
			r := c.R
			maxN := 400
			pts, class := c34Line(r, maxN)
			if r.Chance(0.01) {
				pts = pts[:1]
				class = "single-point"
			}
			eps, epsClass := c34Epsilon(r, pts)
			orig := append([]r2.Point(nil), pts...)
			n := len(pts)
			c.Key("%s|%s", strconv.FormatFloat(eps, 'g', -1, 64), c34Render(pts))
			if c.Index < 3 {
				c.Sample(c34Witness(class, orig, eps, map[string]any{"eps_class": epsClass}))
			}
			c.Count("class_" + class)
			c.Count("eps_" + epsClass)

			if n < 2 {
				// only the exported entry point accepts a single point
				var got []r2.Point
				if p, cl, fr, _ := core.Protect(func() { got = renderer.Simplify(pts, eps) }); p {
					c.Violate("Simplify:panic@"+fr, c34Witness(class, orig, eps, nil), "Simplify panicked on a single point: %s", cl)
				} else if !c34Same(got, orig) {
					c.Violate("Simplify:single-point", c34Witness(class, orig, eps, nil), "Simplify of a single point returned %s", c34Render(got))
				}
				c.Count("single_point")
				return
			}

			var it, rf, ex []r2.Point
			const budget = 64 << 20
			for _, call := range []struct {
				name string
				f    func()
			}{
				{"iterative", func() { it = renderer.VerifDouglasPeucker(pts, eps) }},
				{"reference", func() { rf = renderer.VerifReferenceDouglasPeucker(pts, eps) }},
				{"Simplify", func() { ex = renderer.Simplify(pts, eps) }},
			} {
				p, cl, fr, runaway, grown := c34Guarded(call.f, budget)
				if runaway {
					c.Violate(call.name+":runaway-allocation", c34Witness(class, orig, eps, map[string]any{"eps_class": epsClass, "grown_bytes": grown}),
						"%s on %d points (eps=%g, %s) has not returned and made the process grow by %d MB: it does not terminate", call.name, n, eps, epsClass, grown>>20)
					c.RequestRestart()
					return
				}
				if p {
					c.Violate(call.name+":panic@"+fr, c34Witness(class, orig, eps, nil), "%s panicked: %s", call.name, cl)
					return
				}
			}
			c.Count("simplify_exported_checked")

			var st c34Stats
			idx := c34Reference(orig, eps, &st)
			mine := make([]r2.Point, len(idx))
			for i, j := range idx {
				mine[i] = orig[j]
			}

			c.Add("split", st.splits)
			c.Add("exact_tie_first_max_wins", st.exactTie)
			c.Add("eps_equals_max_distance", st.epsEqual)
			c.Max("max_recursion_depth", int64(st.maxDepth))
			if st.maxDepth >= 4 {
				c.Count("recursion_depth_ge_4")
			}
			if class == "closed-ring" && st.splits > 0 {
				c.Count("closed_ring_split")
			}
			if n >= 200 {
				c.Count("long_line")
			}
			c.Add("points_dropped", n-len(mine))
			if len(mine) == n {
				c.Count("all_kept")
			}
			if len(mine) == 2 && n > 2 {
				c.Count("only_endpoints")
			}
			if st.splits > 0 && len(mine) < n {
				c.Nontrivial()
			}

			wit := func() map[string]any {
				return c34Witness(class, orig, eps, map[string]any{
					"iterative": c34Render(it), "reference": c34Render(rf), "harness": c34Render(mine), "eps_class": epsClass})
			}
			if !c34Same(it, rf) {
				c.Violate("iterative-differs-from-recursive-reference", wit(), "n=%d eps=%g (%s, %s): iterative returned %d points, the repository's recursive reference %d", n, eps, class, epsClass, len(it), len(rf))
			}
			if !c34Same(it, mine) {
				if st.nearTie {
					c.Count("ambiguous_near_tie")
				} else {
					c.Violate("iterative-differs-from-harness-reference", wit(), "n=%d eps=%g (%s, %s): iterative returned %d points, the harness reference %d", n, eps, class, epsClass, len(it), len(mine))
				}
			}
			if !c34Same(rf, mine) && c34Same(it, mine) {
				c.Violate("recursive-reference-differs-from-harness-reference", wit(), "n=%d eps=%g (%s, %s): the repository's recursive reference returned %d points, the harness reference %d", n, eps, class, epsClass, len(rf), len(mine))
			}
			if !c34Same(ex, it) {
				c.Violate("Simplify-differs-from-iterative", wit(), "exported Simplify returned %s", c34Render(ex))
			}
			for name, got := range map[string][]r2.Point{"iterative": it, "reference": rf} {
				if len(got) < 1 || !(got[0] == orig[0]) {
					c.Violate(name+":first-point-not-kept", wit(), "%s result does not start with the first input point", name)
				}
				if len(got) < 2 || !(got[len(got)-1] == orig[n-1]) {
					c.Violate(name+":last-point-not-kept", wit(), "%s result does not end with the last input point", name)
				}
				if !c34IsSubsequence(got, orig) {
					c.Violate(name+":not-a-subsequence", wit(), "%s result is not a subsequence of the input", name)
				}
			}

			// informational: how often the textbook split would differ
			if n <= 120 {
				tb := c34Textbook(orig, eps)
				if len(tb) != len(idx) {
					c.Count("textbook_dp_differs")
				} else {
					for i := range tb {
						if tb[i] != idx[i] {
							c.Count("textbook_dp_differs")
							break
						}
					}
				}
			}

			// the shared distance function against |cross| / |b-a|
			if class != "extreme-magnitude" && n >= 3 {
				a, b, p := orig[0], orig[n-1], orig[r.Range(1, n-2)]
				got := renderer.VerifDistance(a, b, p)
				var want float64
				ab := b.Sub(a)
				if ab.X == 0 && ab.Y == 0 {
					want = p.Sub(a).Norm()
				} else {
					want = math.Abs(ab.Cross(p.Sub(a))) / ab.Norm()
				}
				scale := math.Max(p.Sub(a).Norm(), 1e-300)
				if math.Abs(got-want) > 1e-6*scale {
					c.Violate("distance:not-the-perpendicular-distance", map[string]any{"a": fmt.Sprint(a), "b": fmt.Sprint(b), "p": fmt.Sprint(p)},
						"distance(%v,%v,%v) = %g, |cross|/|b-a| = %g", a, b, p, got, want)
				}
				c.Count("distance_checked")
			}
		},
	})
}
