package mon

import (
	"fmt"
	"sort"
	"strings"
	"sync"
	"time"

	"diagonal.works/b6"
	"diagonal.works/b6/ingest/compact"
	"verif/internal/core"
	"verif/internal/obs"
	"verif/internal/wm"
)

// C01 Compact index round-trips every feature it accepts.
//
// Oracle: the input set itself. A valid-by-construction, E7-exact feature set
// (wm specs) is built into a compact index in memory and loaded back; the
// loaded world must conform to the feature-map model of the input: every
// feature found by ID with the same tags (keys, values, value kinds), the same
// geometry, enumerated exactly once under its true ID, and IDs that are not in
// the input (neighbours in value, namespace and type of the input's IDs,
// including the value with bit 63 flipped) must be absent.

// c01Namespaces is the palette of non-OSM namespaces.
var c01Namespaces = []b6.Namespace{"example.com/a", "example.com/a/b/c", b6.NamespaceLatLng, "a.example/first", "zz.example/last"}

// c01Options draws the generator options of a case.
func c01Options(r *core.R) wm.GenOptions {
	o := wm.DefaultGen()
	o.MaxCollections = 0 // compact worlds do not hold collections
	switch r.Intn(4) {
	case 0: // tiny
		o.MinPoints, o.MaxPoints = 1, 3
	case 1, 2:
		o.MinPoints, o.MaxPoints = 2, 14
	default:
		o.MinPoints, o.MaxPoints = 9, 40
	}
	o.MaxPaths = r.Range(0, 5)
	o.MaxRings = r.Range(0, 3)
	o.MaxRelations = r.Range(0, 4)
	o.InlinePathPoints = r.Chance(0.6)
	o.LatLngPolygons = r.Chance(0.5)
	o.HostileIDs = r.Chance(0.5)
	o.PointTags = r.Chance(0.5)
	o.TinyNamespaces = r.Intn(3)
	if r.Chance(0.6) {
		for _, i := range r.Perm(len(c01Namespaces))[:r.Range(1, 3)] {
			o.Namespaces = append(o.Namespaces, c01Namespaces[i])
		}
		o.SpreadTypes = r.Bool()
	}
	if r.Chance(0.5) {
		o.LatLngOnlyAreaP = 0.7
	}
	if r.Chance(0.5) {
		o.MultiPolygonP = 0.4
	}
	return o
}

// c01PathKind classifies the encoding of a path geometry.
func c01PathKind(s *wm.Spec) string {
	refs, lls := 0, 0
	for _, e := range s.Path {
		if e.IsRef() {
			refs++
		} else {
			lls++
		}
	}
	switch {
	case lls == 0:
		return "refs"
	case refs == 0:
		return "latlngs"
	}
	return "mixed"
}

func c01AreaKind(s *wm.Spec) string {
	refs, lls := 0, 0
	for _, p := range s.Polys {
		if p.PathIDs != nil {
			refs++
		} else {
			lls++
		}
	}
	switch {
	case lls == 0:
		return "refs"
	case refs == 0:
		return "latlngs"
	}
	return "mixed"
}

// c01Mechanisms counts what the generated set makes the builder do and reports
// whether the case is non-trivial.
func c01Mechanisms(c *core.Ctx, specs []*wm.Spec) bool {
	type block struct {
		t  b6.FeatureType
		ns b6.Namespace
	}
	blocks := map[block]int{}
	areas := map[b6.FeatureID]bool{}
	for _, s := range specs {
		blocks[block{s.ID.Type, s.ID.Namespace}]++
		if s.ID.Type == b6.FeatureTypeArea {
			areas[s.ID] = true
		}
	}
	encodings := map[string]bool{}
	for _, s := range specs {
		switch s.ID.Type {
		case b6.FeatureTypePoint:
			if s.ID.Value&(1<<63) != 0 && blocks[block{s.ID.Type, s.ID.Namespace}] <= 2 {
				c.Count("bit63_in_point_block_le2")
			}
		case b6.FeatureTypePath:
			k := c01PathKind(s)
			c.Count("path_" + k)
			encodings["path_"+k] = true
			// the value kind of the path tag
			c.Count(map[string]string{"refs": "tagkind_ids", "latlngs": "tagkind_points", "mixed": "tagkind_mixed"}[k])
			if k == "mixed" && s.Path[0].IsRef() {
				only := true
				for _, e := range s.Path[1:] {
					only = only && !e.IsRef()
				}
				if only {
					c.Count("mixed_path_only_first_is_reference")
				}
			}
		case b6.FeatureTypeArea:
			k := c01AreaKind(s)
			c.Count("area_" + k)
			encodings["area_"+k] = true
			if len(s.Polys) > 1 {
				c.Count("area_multipolygon")
			}
			for _, p := range s.Polys {
				if len(p.PathIDs) > 1 || len(p.Loops) > 1 {
					c.Count("area_with_hole")
				}
			}
		case b6.FeatureTypeRelation:
			for _, m := range s.Members {
				if areas[m.ID] {
					c.Count("area_is_relation_member")
					if s.ID.Namespace == b6.NamespaceOSMRelation {
						c.Count("area_is_member_of_osm_relation")
					}
				}
				if m.ID.Type == b6.FeatureTypeRelation {
					c.Count("relation_is_relation_member")
				}
			}
		}
		for _, t := range s.Tags {
			switch t.Value.AnyExpression.(type) {
			case b6.StringExpression:
				c.Count("tagkind_string")
			case b6.PointExpression:
				c.Count("tagkind_point")
			}
		}
		if s.ID.Value&(1<<63) != 0 {
			c.Count("id_bit63")
		}
	}
	for _, n := range blocks {
		switch {
		case n == 1:
			c.Count("block_1")
		case n == 2:
			c.Count("block_2")
		case n <= 8:
			c.Count("block_3_8")
		default:
			c.Count("block_gt8")
		}
	}
	c.Max("namespaces_in_one_file", int64(len(blocks)))
	return len(encodings) >= 2 && len(blocks) >= 4
}

// c01Absent returns IDs that are not in the model but close to IDs that are.
func c01Absent(model *wm.World, r *core.R) []b6.FeatureID {
	var out []b6.FeatureID
	add := func(id b6.FeatureID) {
		if _, ok := model.F[id]; !ok {
			out = append(out, id)
		}
	}
	ids := model.IDs()
	nss := map[b6.Namespace]bool{}
	for _, id := range ids {
		nss[id.Namespace] = true
	}
	var nsl []b6.Namespace
	for ns := range nss {
		nsl = append(nsl, ns)
	}
	sort.Slice(nsl, func(i, j int) bool { return nsl[i] < nsl[j] })
	for _, id := range ids {
		add(b6.FeatureID{Type: id.Type, Namespace: id.Namespace, Value: id.Value ^ (1 << 63)})
		add(b6.FeatureID{Type: id.Type, Namespace: id.Namespace, Value: id.Value + 1})
		add(b6.FeatureID{Type: id.Type, Namespace: id.Namespace, Value: id.Value - 1})
		add(b6.FeatureID{Type: id.Type, Namespace: id.Namespace, Value: id.Value ^ (1 << uint(r.Intn(63)))})
		add(b6.FeatureID{Type: id.Type, Namespace: core.Pick(r, nsl), Value: id.Value})
		add(b6.FeatureID{Type: core.Pick(r, []b6.FeatureType{b6.FeatureTypePoint, b6.FeatureTypePath, b6.FeatureTypeArea, b6.FeatureTypeRelation}), Namespace: id.Namespace, Value: id.Value})
	}
	add(b6.FeatureID{Type: b6.FeatureTypePoint, Namespace: "absent.example/ns", Value: 1})
	return out
}

// c01Extra performs the read-back checks that wm.Conform does not: Polyline of
// paths, repeated (cached) lookups, and enumeration with several goroutines.
func c01Extra(c *core.Ctx, world b6.World, model *wm.World, witness any) {
	for _, id := range model.IDs() {
		s := model.F[id]
		if id.Type != b6.FeatureTypePath && id.Type != b6.FeatureTypeArea {
			continue
		}
		p, cl, fr, _ := core.Protect(func() {
			f := world.FindFeatureByID(id) // second lookup: served from the cache
			if f == nil {
				c.Violate("relookup:missing", witness, "second FindFeatureByID(%s) is nil", id)
				return
			}
			for _, d := range model.CheckFeature(f, s, true) {
				c.Violate("relookup:"+d.Class, witness, "second lookup: %s", d.Detail)
			}
			if id.Type == b6.FeatureTypePath {
				want, ok := model.PathPoints(s)
				if !ok {
					return
				}
				pl := f.(b6.PhysicalFeature).Polyline()
				var got, exp []string
				for _, pt := range *pl {
					got = append(got, obs.PointE7(pt))
				}
				for _, ll := range want {
					exp = append(exp, obs.LatLngE7(ll))
				}
				if strings.Join(got, " ") != strings.Join(exp, " ") {
					c.Violate("polyline:"+c01PathKind(s), witness, "%s Polyline() = %v, model %v", id, got, exp)
				}
			}
		})
		if p {
			c.Violate("relookup:panic@"+fr, witness, "reading %s again panicked: %s", id, cl)
		}
	}
	// enumeration with several goroutines: still each ID exactly once
	seen := map[b6.FeatureID]int{}
	var mu sync.Mutex
	p, cl, fr, _ := core.Protect(func() {
		err := world.EachFeature(func(f b6.Feature, g int) error {
			mu.Lock()
			seen[f.FeatureID()]++
			mu.Unlock()
			return nil
		}, &b6.EachFeatureOptions{Goroutines: 3})
		if err != nil {
			c.Violate("each3:error", witness, "EachFeature with 3 goroutines returned %v", err)
		}
	})
	if p {
		c.Violate("each3:panic@"+fr, witness, "EachFeature with 3 goroutines panicked: %s", cl)
		return
	}
	for _, id := range model.IDs() {
		if seen[id] != 1 {
			c.Violate("each3:count", witness, "EachFeature with 3 goroutines delivered %s %d times", id, seen[id])
			break
		}
	}
	for id := range seen {
		if _, ok := model.F[id]; !ok {
			c.Violate("each3:phantom", witness, "EachFeature with 3 goroutines delivered %s which is not in the input", id)
			break
		}
	}
}

func c01Render(specs []*wm.Spec) []string {
	out := make([]string, len(specs))
	for i, s := range specs {
		out[i] = s.String()
	}
	return out
}

func init() {
	core.Register(&core.Monitor{
		ID:        "C01",
		Title:     "Compact index round-trips every feature it accepts",
		Technique: "reference-model monitor: the generated input set is the model; build + load + full conformance (lookup, tags with kinds, geometry, enumeration, absent neighbours)",
		Rule: "case = generator options (sizes, inline lat/lng path points, lat/lng / mixed / multi polygons, hostile 64-bit ID values, extra and tiny namespaces, " +
			"types spread over namespaces, point-valued tags) + the valid feature set drawn from them, possibly shuffled; distinct = distinct feature set; " +
			"non-trivial = at least two geometry encodings among paths and areas and at least four (type, namespace) blocks",
		Assumptions: []string{"coordinates lie on the 1e-7 degree grid, so E7 quantisation is the identity",
			"closed paths are generated counter-clockwise (the builder normalises clockwise loops, which is C36/C37's subject)",
			"tag values are strings or points; lists occur as path geometry (IDs, points, mixed)",
			"collections are not generated (compact worlds do not hold them)",
			"a relation whose member is not in the file is valid input (ValidateRelation only checks the ID; OSM extracts are full of them)"},
		Quick: 112, Thorough: 4800,
		// the cap is a safety net only: a case costs seconds, but the box may be shared and builds allocate ~80 MB per goroutine and stage
		CaseCap: 30 * time.Minute,
		Required: []string{"path_refs", "path_latlngs", "path_mixed", "area_refs", "area_latlngs", "area_mixed",
			"block_1", "block_2", "block_3_8", "block_gt8", "bit63_in_point_block_le2", "area_is_member_of_osm_relation",
			"tagkind_string", "tagkind_point", "tagkind_ids", "tagkind_points", "tagkind_mixed", "mixed_path_only_first_is_reference",
			"area_multipolygon", "area_with_hole", "relation_is_relation_member", "shuffled", "relation_with_absent_point_member_in_unused_namespace"},
		Run: func(c *core.Ctx) {
			r := c.R
			o := c01Options(r)
			g := wm.NewGen(r.Fork(), o)
			specs := g.World()
			var dangling []b6.FeatureID
			if r.Chance(0.25) {
				// a relation may list members that are not in the file (the norm in OSM extracts); the member's
				// namespace may hold nothing else
				rel := &wm.Spec{ID: g.NewID(b6.FeatureTypeRelation, b6.NamespaceOSMRelation), Tags: g.RandomTags(0.9)}
				ns := core.Pick(r, []b6.Namespace{"dangling.example/ns", b6.NamespaceOSMNode, b6.NamespaceOSMWay})
				id := b6.FeatureID{Type: core.Pick(r, []b6.FeatureType{b6.FeatureTypePoint, b6.FeatureTypePoint, b6.FeatureTypePath, b6.FeatureTypeArea, b6.FeatureTypeRelation}), Namespace: ns, Value: 900000 + uint64(r.Intn(9))}
				rel.Members = append(rel.Members, b6.RelationMember{ID: id, Role: "stop"})
				if len(specs) > 0 && r.Bool() {
					rel.Members = append(rel.Members, b6.RelationMember{ID: core.Pick(r, specs).ID, Role: ""})
				}
				specs = append(specs, rel)
				dangling = append(dangling, id)
				c.Count("relation_with_absent_member")
				if id.Type == b6.FeatureTypePoint && ns == "dangling.example/ns" {
					c.Count("relation_with_absent_point_member_in_unused_namespace")
				}
			}
			if r.Chance(0.4) {
				// the builder reads its source several times and must not depend on the order of features
				core.Shuffle(r, specs)
				c.Count("shuffled")
			}
			model := wm.ModelOf(specs)
			witness := map[string]any{"features": c01Render(specs)}
			if c01Mechanisms(c, specs) {
				c.Nontrivial()
			}
			var sb strings.Builder
			for _, s := range specs {
				sb.WriteString(s.String() + "|")
			}
			c.Key("%s", sb.String())
			if c.Index < 3 {
				c.Sample(map[string]any{"options": fmt.Sprintf("%+v", o), "features": c01Render(specs)})
			}
			c.Add("features", len(specs))

			var data []byte
			var err error
			// a panic in a goroutine of the builder kills the process: the framework reports crash@<frame>
			if p, cl, fr, st := core.Protect(func() { data, err = wm.CompactBytes(specs, 1) }); p {
				c.Violate("build:panic@"+fr, map[string]any{"features": c01Render(specs), "stack": st}, "building the index panicked: %s", cl)
				return
			}
			if err != nil {
				c.Violate("build:error", witness, "building a compact index from a valid feature set failed: %v", err)
				return
			}
			var world *compact.World
			if p, cl, fr, _ := core.Protect(func() { world, err = compact.NewWorldFromData(data) }); p {
				c.Violate("load:panic@"+fr, witness, "loading the index panicked: %s", cl)
				return
			}
			if err != nil {
				c.Violate("load:error", witness, "loading the index failed: %v", err)
				return
			}
			c.Count("builds")
			for _, d := range model.Conform(world, append(c01Absent(model, r), dangling...), wm.StandardQueries(), true) {
				c.Violate(d.Class, witness, "%s", d.Detail)
			}
			c01Extra(c, world, model, witness)
		},
	})
}
