package mon

import (
	"bytes"
	"fmt"
	"sort"
	"strings"
	"sync"

	"diagonal.works/b6"
	"diagonal.works/b6/ingest"
	"verif/internal/core"
	"verif/internal/obs"
	"verif/internal/wm"
)

// C18 Exported change files reproduce the edited world.
//
// Oracle: differential twin. The same base is built twice; one mutable overlay
// is edited by a random history, its changes are exported as YAML and applied
// to a fresh overlay over the second base; the observation dumps (obs.Take: every
// lookup, location, search, reference query, traversal, enumeration, token set)
// of the two overlays must be equal, tags compared as key -> (kind, value).
//
// Triage: a differing feature is classified per tag (value kind changed /
// tag missing / extra / value changed) and by where the tag lived (a tag edit
// on a base feature, exported under add/remove, or a feature stored in the
// overlay, exported whole); other sections of the dump get section signatures.

// Values that look like something else to ExpressionFromString or to YAML.
var c18Values = []struct{ class, v string }{
	{"int", "123"}, {"int", "-7"}, {"int", "0"}, {"float", "1.5"}, {"float", "1e3"}, {"float", ".5"},
	{"point", "51.5,-0.1"}, {"point", "51.50, -0.10"}, {"point", "1.0,2.0"}, {"point", "1,2"},
	{"id", "/point/openstreetmap.org/node/1"}, {"id", "/area/openstreetmap.org/way/222"}, {"id", "/path/openstreetmap.org/way/5"},
	{"list", "a;b"}, {"list", "1;2"}, {"list", "a;51.5,-0.1"}, {"list", ";"}, {"list", "a;"},
	{"bool", "yes"}, {"bool", "no"}, {"bool", "true"}, {"bool", "on"}, {"null", "~"}, {"null", "null"}, {"empty", ""},
	{"space", " leading"}, {"space", "trailing "}, {"space", " "}, {"space", "\tx"},
	{"multiline", "line one\nline two"}, {"multiline", "a\n"}, {"multiline", "\nb"}, {"multiline", "a\r\nb"},
	{"yaml", "a: b"}, {"yaml", "- a"}, {"yaml", "#x"}, {"yaml", "'q'"}, {"yaml", "\"dq\""}, {"yaml", "{a: 1}"}, {"yaml", "[1]"}, {"yaml", "!!str x"},
	{"yaml", "&a"}, {"yaml", "*a"}, {"yaml", "|"}, {"yaml", ">"}, {"yaml", "%x"}, {"yaml", "@x"}, {"yaml", "`x"}, {"yaml", "key: "},
	{"unicode", "café"}, {"unicode", "日本"}, {"unicode", "a b"}, {"plain", "cafe"}, {"plain", "primary"}, {"plain", "a b"},
}

var c18Keys = []string{"name", "note", "oneway", "addr:street", "#amenity", "#building", "#highway", "#shop", "@wikidata", "@ref"}

func c18Kind(rendered string) string {
	if i := strings.IndexAny(rendered, ":["); i >= 0 {
		if rendered[i] == '[' {
			return "list"
		}
		switch rendered[:i] {
		case "s":
			return "string"
		case "p":
			return "point"
		case "f":
			return "id"
		case "i":
			return "int"
		case "fl":
			return "float"
		}
		return rendered[:i]
	}
	return rendered
}

func init() {
	core.Register(&core.Monitor{
		ID:        "C18",
		Title:     "Exported change files reproduce the edited world",
		Technique: "differential twin: observation dump of the edited overlay versus a fresh overlay over an identical base after ExportChangesAsYAML / IngestChangesFromYAML",
		Rule: "case = (generated base world, edit history of <= 30 operations: wm.Gen.NextOp edits plus added paths, areas (ring + closed path), relations and collections, " +
			"tag additions with string values from a palette of ints, floats, points, feature IDs, lists, YAML-special, empty, spaced, multi-line and unicode strings on plain, # and @ keys, " +
			"tag removals); distinct = base + history; non-trivial = the export holds both a tag-edit document and a whole-feature document and the history used a non-plain value",
		Assumptions: []string{
			"points whose only tag is their geometry tag may be in or out of search results (an overlay that saw the tag removed keeps them indexed, one that receives the final feature does not)",
			"a search token with no feature behind it (left in the edited world's index by an overwritten value) is not a differing answer",
			"tag values are strings (the property's quantifier); non-string values on base features are flattened by ModifiedTags and are not generated",
		},
		Quick: 300, Thorough: 20000,
		Required: []string{"ops", "doc_tag_edits", "doc_features", "exported_remove", "added_path", "added_area", "added_relation", "added_collection",
			"value_int", "value_float", "value_point", "value_id", "value_list", "value_null", "value_empty", "value_space", "value_multiline", "value_yaml",
			"plain_edit_on_base", "searchable_edit_on_base", "edit_on_overlay_feature", "dumps_compared", "plain_edit_move_edit_again"},
		Run: c18Run,
	})
}

func c18Run(c *core.Ctx) {
	r := c.R
	o := wm.DefaultGen()
	if r.Chance(0.3) {
		o.Namespaces = []b6.Namespace{"example.com/a", "example.com/a/b/c"}
	}
	g := wm.NewGen(r.Fork(), o)
	specs := g.World()
	movable := g.AddMovable() // NextOp then also moves points under a path and under an area
	specs = append(specs, movable...)
	model := wm.ModelOf(specs)
	inBase := map[b6.FeatureID]bool{}
	for _, s := range specs {
		inBase[s.ID] = true
	}
	base1, err := wm.Basic(specs, 1)
	var base2 b6.World
	if err == nil {
		base2, err = wm.Basic(specs, 1)
	}
	if err != nil {
		c.Violate("build-failed", nil, "building the base failed: %v", err)
		return
	}
	edited := ingest.NewMutableOverlayWorld(base1)
	var script []string
	hostile := false
	inOverlay := map[b6.FeatureID]bool{}
	apply := func(op wm.Op) bool {
		script = append(script, op.String())
		var errW error
		if p, cl, fr, _ := core.Protect(func() { errW = wm.Apply(edited, op) }); p {
			c.Violate("edit:panic@"+fr, script, "%s panicked: %s", op, cl)
			return false
		}
		errM := wm.ApplyModel(model, op)
		if (errW != nil) != (errM != nil) {
			// the edit semantics themselves are C12/C13's subject
			c.Inconclusive(fmt.Sprintf("%s: world error %v, model error %v", op, errW, errM))
			return false
		}
		c.Count("ops")
		if op.Kind == "add" {
			inOverlay[op.Spec.ID] = true
		}
		return true
	}
	points := func() []*wm.Spec {
		var ps []*wm.Spec
		for _, id := range model.IDs() {
			if id.Type == b6.FeatureTypePoint {
				ps = append(ps, model.F[id])
			}
		}
		return ps
	}
	// directed sequence (one case in four): a plain tag edit on a base feature, then a move of a point under it
	// (which copies the feature into the overlay), then another edit of the same key
	directed := func() bool {
		dependants := []*wm.Spec{movable[3], movable[len(movable)-2], movable[len(movable)-1]} // open path, ring path, area
		f := core.Pick(r, dependants)
		key := core.Pick(r, []string{"name", "note", "surface"})
		first := wm.Op{Kind: "addtag", ID: f.ID, Tag: b6.Tag{Key: key, Value: b6.NewStringExpression("first")}}
		if r.Chance(0.3) {
			if err := wm.ApplyModel(model.Clone(), wm.Op{Kind: "addtag", ID: f.ID, Tag: b6.Tag{Key: key, Value: b6.NewStringExpression("x")}}); err == nil && len(model.F[f.ID].Tags) > 0 {
				first = wm.Op{Kind: "removetag", ID: f.ID, Key: core.Pick(r, model.F[f.ID].Tags).Key}
				key = first.Key
			}
		}
		if !apply(first) {
			return false
		}
		moved := false
		for try := 0; try < 20 && !moved; try++ {
			op, ok := g.MoveOp(model)
			if !ok {
				break
			}
			// the moved point must lie under the chosen feature
			under := false
			for _, ref := range model.F[movable[3].ID].Refs() {
				if f.ID == movable[3].ID && ref == op.Spec.ID {
					under = true
				}
			}
			for _, ref := range model.F[movable[len(movable)-2].ID].Refs() {
				if f.ID != movable[3].ID && ref == op.Spec.ID {
					under = true
				}
			}
			if !under {
				continue
			}
			if !apply(op) {
				return false
			}
			moved = true
		}
		if moved {
			c.Count("plain_edit_move_edit_again")
		}
		return apply(wm.Op{Kind: "addtag", ID: f.ID, Tag: b6.Tag{Key: key, Value: b6.NewStringExpression("second")}})
	}
	n := r.Range(1, 30)
	at := -1
	if c.Index%4 == 3 {
		at = r.Intn(n)
	}
	for i := 0; i < n; i++ {
		if i == at && !directed() {
			return
		}
		switch k := r.Intn(20); {
		case k < 8: // a tag with a palette value
			ids := model.IDs()
			id := core.Pick(r, ids)
			v := core.Pick(r, c18Values)
			key := core.Pick(r, c18Keys)
			c.Count("value_" + v.class)
			if v.class != "plain" {
				hostile = true
			}
			switch {
			case inOverlay[id]:
				c.Count("edit_on_overlay_feature")
			case strings.HasPrefix(key, "#") || strings.HasPrefix(key, "@"):
				c.Count("searchable_edit_on_base")
				inOverlay[id] = true // copy on write
			default:
				c.Count("plain_edit_on_base")
			}
			if !apply(wm.Op{Kind: "addtag", ID: id, Tag: b6.Tag{Key: key, Value: b6.NewStringExpression(v.v)}}) {
				return
			}
		case k < 10: // remove a tag that exists (or, rarely, does not)
			ids := model.IDs()
			id := core.Pick(r, ids)
			s := model.F[id]
			key := core.Pick(r, c18Keys)
			if len(s.Tags) > 0 && r.Chance(0.85) {
				key = core.Pick(r, s.Tags).Key
			}
			if !apply(wm.Op{Kind: "removetag", ID: id, Key: key}) {
				return
			}
		case k < 14:
			if !apply(g.NextOp(model)) {
				return
			}
		case k < 16: // a new open path over existing points
			ps := points()
			if len(ps) < 2 {
				continue
			}
			p := &wm.Spec{ID: g.NewID(b6.FeatureTypePath, b6.NamespaceOSMWay), Tags: g.RandomTags(0.8)}
			for _, j := range r.Perm(len(ps))[:r.Range(2, min(5, len(ps)))] {
				p.Path = append(p.Path, wm.Elem{Ref: ps[j].ID})
			}
			c.Count("added_path")
			if !apply(wm.Op{Kind: "add", Spec: p}) {
				return
			}
		case k < 17 && r.Chance(0.4): // a new area given by explicit loops (holes, several polygons): exported as geometry
			a := g.ExplicitArea()
			if len(a.Polys) > 1 || len(a.Polys[0].Loops) > 1 {
				c.Count("added_explicit_area_with_several_loops")
			}
			c.Count("added_explicit_area")
			if !apply(wm.Op{Kind: "add", Spec: a}) {
				return
			}
		case k < 17: // a new area: ring points, closed path, area
			ps, ring := g.Ring(int64(r.Intn(160000))-80000, int64(r.Intn(160000))-80000, 2000+float64(r.Intn(2000)), r.Range(3, 6), false)
			for _, p := range ps {
				if !apply(wm.Op{Kind: "add", Spec: p}) {
					return
				}
			}
			if !apply(wm.Op{Kind: "add", Spec: ring}) {
				return
			}
			a := &wm.Spec{ID: b6.FeatureID{Type: b6.FeatureTypeArea, Namespace: ring.ID.Namespace, Value: ring.ID.Value}, Tags: g.RandomTags(0.9),
				Polys: []wm.Poly{{PathIDs: []b6.FeatureID{ring.ID}}}}
			g.Reserve(a.ID)
			c.Count("added_area")
			if !apply(wm.Op{Kind: "add", Spec: a}) {
				return
			}
		case k < 18: // a new relation
			ids := model.IDs()
			rel := &wm.Spec{ID: g.NewID(b6.FeatureTypeRelation, b6.NamespaceOSMRelation), Tags: g.RandomTags(0.9)}
			for j := r.Range(1, 4); j > 0; j-- {
				m := core.Pick(r, ids)
				if m.Type == b6.FeatureTypeCollection {
					continue
				}
				rel.Members = append(rel.Members, b6.RelationMember{ID: m, Role: core.Pick(r, []string{"", "outer", "inner", "stop", "a b"})})
			}
			if len(rel.Members) == 0 {
				continue
			}
			c.Count("added_relation")
			if !apply(wm.Op{Kind: "add", Spec: rel}) {
				return
			}
		default: // a new collection
			ids := model.IDs()
			col := &wm.Spec{ID: g.NewID(b6.FeatureTypeCollection, "diagonal.works/ns/test"), Tags: g.RandomTags(0.9)}
			for j := r.Range(1, 4); j > 0; j-- {
				if r.Bool() {
					col.Keys = append(col.Keys, core.Pick(r, ids))
				} else {
					col.Keys = append(col.Keys, fmt.Sprintf("k%d", j))
				}
				col.Values = append(col.Values, j)
			}
			c.Count("added_collection")
			if !apply(wm.Op{Kind: "add", Spec: col}) {
				return
			}
		}
	}
	c.Key("%d/%s", len(specs), strings.Join(script, ";"))
	witness := func(yaml string) map[string]any {
		return map[string]any{"history": script, "yaml": yaml}
	}
	// export
	var buf bytes.Buffer
	if p, cl, fr, _ := core.Protect(func() { err = ingest.ExportChangesAsYAML(edited, &buf) }); p {
		c.Violate("export:panic@"+fr, witness(""), "ExportChangesAsYAML panicked: %s", cl)
		return
	}
	yamlText := buf.String()
	if err != nil {
		c.Violate("export:error", witness(yamlText), "ExportChangesAsYAML failed: %v", err)
		return
	}
	docs := strings.Split(yamlText, "\n---\n")
	tagDocs, featureDocs := 0, 0
	for _, d := range docs {
		if strings.Contains(d, "\ntags:") || strings.HasPrefix(d, "tags:") || strings.Contains(d, "\narea:") || strings.Contains(d, "\nrelation:") || strings.Contains(d, "\ncollection:") {
			featureDocs++
		} else if strings.Contains(d, "add:") || strings.Contains(d, "remove:") {
			tagDocs++
		}
		if strings.Contains(d, "\nremove:") {
			c.Count("exported_remove")
		}
	}
	c.Add("doc_tag_edits", tagDocs)
	c.Add("doc_features", featureDocs)
	if tagDocs > 0 && featureDocs > 0 && hostile {
		c.Nontrivial()
	}
	// import into a fresh overlay over an identical base
	fresh := ingest.NewMutableOverlayWorld(base2)
	if p, cl, fr, _ := core.Protect(func() { _, err = ingest.IngestChangesFromYAML(strings.NewReader(yamlText)).Apply(fresh) }); p {
		c.Violate("import:panic@"+fr, witness(yamlText), "applying the exported YAML panicked: %s", cl)
		return
	}
	if err != nil {
		c.Violate("import:error:"+core.PanicClass(err.Error()), witness(yamlText), "applying the exported YAML failed: %v", err)
		return
	}
	// compare
	ids := model.IDs()
	ids = append(ids, b6.FeatureID{Type: b6.FeatureTypePoint, Namespace: b6.NamespaceOSMNode, Value: 99999}, b6.FeatureID{Type: b6.FeatureTypeArea, Namespace: b6.NamespaceOSMWay, Value: 99999})
	var queries []obs.NamedQuery
	for _, q := range wm.StandardQueries() {
		queries = append(queries, obs.NamedQuery{Name: q.String(), Query: q})
	}
	for _, v := range []string{"123", "1.5", "1.0,2.0", "51.5,-0.1", "a;b", "", "~"} {
		q := b6.Tagged{Key: "#amenity", Value: b6.NewStringExpression(v)}
		queries = append(queries, obs.NamedQuery{Name: q.String(), Query: q})
	}
	probes := obs.Probes{IDs: ids, Queries: queries, What: obs.All}
	da, db := obs.Take(edited, probes), obs.Take(fresh, probes)
	c.Count("dumps_compared")
	diffs := da.Diff(db)
	if len(diffs) == 0 {
		if c.Index < 2 {
			c.Sample(map[string]any{"history": script, "yaml": yamlText})
		}
		return
	}
	dontCare := map[string]bool{}
	for id, s := range model.F {
		if s.DontCare() {
			dontCare[id.String()] = true
		}
	}
	stripDontCare := func(list string) string {
		var keep []string
		for _, f := range strings.Fields(strings.Trim(list, "[]")) {
			if !dontCare[f] {
				keep = append(keep, f)
			}
		}
		return strings.Join(keep, " ")
	}
	byString := map[string]b6.FeatureID{}
	for _, id := range ids {
		byString[id.String()] = id
	}
	featureLevel := 0
	dontCareFind := map[string]bool{}
	var other []obs.Difference
	for _, d := range diffs {
		switch {
		case strings.HasPrefix(d.Key, "feature "):
			id := byString[strings.TrimPrefix(d.Key, "feature ")]
			where := "tag-edit-on-base-feature"
			if inOverlay[id] || !inBase[id] {
				where = "feature-in-overlay"
			}
			fa, fb := edited.FindFeatureByID(id), fresh.FindFeatureByID(id)
			if fa == nil || fb == nil {
				featureLevel++
				c.Violate("feature-missing:"+id.Type.String(), witness(yamlText), "%s: edited world %s, re-imported world %s", id, d.A, d.B)
				continue
			}
			ta, tb := wm.TagMap(fa.AllTags()), wm.TagMap(fb.AllTags())
			keys := map[string]bool{}
			for k := range ta {
				keys[k] = true
			}
			for k := range tb {
				keys[k] = true
			}
			var sorted []string
			for k := range keys {
				sorted = append(sorted, k)
			}
			sort.Strings(sorted)
			tagDiff := false
			for _, k := range sorted {
				va, oka := ta[k]
				vb, okb := tb[k]
				if oka && okb && va == vb {
					continue
				}
				tagDiff = true
				featureLevel++
				switch {
				case !okb:
					c.Violate("tag-missing:"+where, witness(yamlText), "%s: tag %q=%s of the edited world is missing after re-import", id, k, va)
				case !oka:
					c.Violate("tag-extra:"+where, witness(yamlText), "%s: tag %q=%s appears only after re-import", id, k, vb)
				case c18Kind(va) != c18Kind(vb):
					c.Count("value_kind_changed")
					c.Violate("value-kind:"+c18Kind(va)+"->"+c18Kind(vb)+":"+where, witness(yamlText), "%s: tag %q is %s in the edited world and %s after re-import", id, k, va, vb)
				default:
					c.Violate("tag-value:"+c18Kind(va)+":"+where, witness(yamlText), "%s: tag %q is %s in the edited world and %s after re-import", id, k, va, vb)
				}
			}
			if !tagDiff {
				featureLevel++
				c.Violate("geometry:"+id.Type.String()+":"+where, witness(yamlText), "%s differs beyond its tags: edited %s, re-imported %s", id, d.A, d.B)
			}
		case strings.HasPrefix(d.Key, "find "):
			if stripDontCare(d.A) != stripDontCare(d.B) {
				other = append(other, d)
			} else {
				c.Count("find_differs_only_in_untagged_points")
				dontCareFind[strings.TrimPrefix(d.Key, "find ")] = true
			}
		default:
			other = append(other, d)
		}
	}
	// the features delivered by a search differ necessarily when its id list differs in untagged points
	kept := other[:0]
	for _, d := range other {
		if strings.HasPrefix(d.Key, "findf ") && dontCareFind[strings.TrimPrefix(d.Key, "findf ")] {
			continue
		}
		kept = append(kept, d)
	}
	other = kept
	if featureLevel > 0 {
		return // the remaining differences (enumeration hashes, searches, tokens) follow from the feature differences
	}
	seen := map[string]bool{}
	for _, d := range other {
		section := strings.Fields(d.Key)[0]
		sig := "dump:" + section
		switch section {
		case "tokens":
			// a token left behind by an overwritten or removed value, with no feature behind it, answers no query differently
			stale := true
			var live []string
			ta, tb := map[string]bool{}, map[string]bool{}
			for _, t := range edited.Tokens() {
				ta[t] = true
			}
			for _, t := range fresh.Tokens() {
				tb[t] = true
			}
			// the tokens the current features of a world give rise to (independent of the state of its index)
			expected := func(w b6.World) map[string]bool {
				out := map[string]bool{}
				var mu sync.Mutex
				w.EachFeature(func(f b6.Feature, _ int) error {
					mu.Lock()
					defer mu.Unlock()
					core.Protect(func() {
						for _, t := range ingest.TokensForFeature(f) {
							out[t] = true
						}
					})
					return nil
				}, &b6.EachFeatureOptions{Goroutines: 1})
				return out
			}
			var expA, expB map[string]bool
			check := func(w b6.World, here, there map[string]bool) {
				for t := range here {
					if there[t] {
						continue
					}
					kv := strings.SplitN(t, "=", 2)
					alive := true
					switch {
					case strings.HasPrefix(t, "a2:") || strings.HasPrefix(t, "s2:"):
						// a cell token is alive if a current feature is indexed under it; after a point moved, the
						// cells of the old position stay in the token list with nothing behind them
						if w == edited {
							if expA == nil {
								expA = expected(edited)
							}
							alive = expA[t]
						} else {
							if expB == nil {
								expB = expected(fresh)
							}
							alive = expB[t]
						}
					case len(kv) == 2:
						alive = len(obs.FindIDs(w, b6.Tagged{Key: "#" + kv[0], Value: b6.NewStringExpression(kv[1])})) > 0
					default:
						alive = len(obs.FindIDs(w, b6.Keyed{Key: "#" + t})) > 0 || len(obs.FindIDs(w, b6.Keyed{Key: "@" + t})) > 0
					}
					if alive {
						stale = false
						live = append(live, t)
					}
				}
			}
			check(edited, ta, tb)
			check(fresh, tb, ta)
			if stale {
				c.Count("stale_token_ignored")
				continue
			}
			sort.Strings(live)
			spatialOnly := true
			for _, t := range live {
				if !strings.HasPrefix(t, "a2:") && !strings.HasPrefix(t, "s2:") {
					spatialOnly = false
				}
			}
			untaggedInOverlay := len(dontCareFind) > 0
			for id, sp := range model.F {
				if sp.DontCare() && (inOverlay[id] || !inBase[id]) {
					untaggedInOverlay = true
				}
			}
			if spatialOnly && untaggedInOverlay {
				// the cell tokens of an untagged point that only one of the two indices holds
				c.Count("cell_tokens_of_untagged_points_ignored")
				continue
			}
			if spatialOnly {
				sig += ":cells"
			} else {
				sig += ":tags"
			}
			d.A, d.B = "tokens in one world only that have features behind them: "+strings.Join(live, " | "), ""
		case "traverse":
			// same ways left from the same positions, different segment ends = the two worlds disagree on which points are graph nodes
			starts := func(list string) string {
				var out []string
				for _, f := range strings.Fields(strings.Trim(list, "[]")) {
					if i := strings.LastIndex(f, "-"); i > 0 {
						f = f[:i]
					}
					out = append(out, f)
				}
				sort.Strings(out)
				return strings.Join(out, " ")
			}
			if starts(d.A) == starts(d.B) {
				sig += ":segment-ends-differ"
			} else {
				sig += ":segments-differ"
			}
		}
		if seen[sig] {
			continue
		}
		seen[sig] = true
		c.Violate(sig, witness(yamlText), "%s", d.String())
	}
}
