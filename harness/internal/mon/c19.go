package mon

import (
	"bytes"
	"encoding/hex"
	"fmt"
	"math"
	"sort"
	"strings"

	"diagonal.works/b6"
	pb "diagonal.works/b6/proto"
	"google.golang.org/protobuf/encoding/prototext"
	"google.golang.org/protobuf/proto"
	"verif/internal/core"
)

// C19 Expressions survive the client/server wire format.
//
// For a proto p0 a client can send:
//   p1 = Unmarshal(Marshal(p0))                     (what the server receives)
//   e1 = ExpressionFromProto(p1);  p2 = e1.ToProto()
//   e2 = ExpressionFromProto(p2);  p3 = e2.ToProto()
// Checks, in this order (the first failing one names the violation):
//   no step errors or panics; p2 can be marshalled;
//   e1 is the expression p1 denotes (own rendering of both, Name/Begin/End included);
//   e1 == e2 strictly (own rendering with float bits);
//   p1 == p2 on the fields a client controls (PolylineProto.length_meters is
//   computed by the server and ignored; cap radii compared with a tolerance and
//   reported under their own signature when they moved);
//   p2 == p3 byte for byte (deterministic marshalling; NaN-safe).
// A failing tree is reduced to a minimal failing sub-tree, whose kind is the
// signature.

func c19marshal(m proto.Message) ([]byte, error) {
	return proto.MarshalOptions{Deterministic: true}.Marshal(m)
}

func c19text(m proto.Message) string {
	return clipString(prototext.MarshalOptions{}.Format(m), 1500)
}

func clipString(s string, n int) string {
	if len(s) > n {
		return s[:n] + "…"
	}
	return s
}

type c19failure struct {
	class  string // names the failing step
	detail string
}

func c19close(a, b float64) bool {
	if a == b {
		return true
	}
	return math.Abs(a-b) <= 1e-9*math.Max(math.Abs(a), math.Abs(b))+1e-9
}

// c19normalise zeroes, in place, the fields that are compared separately:
// cap radii (returned in traversal order) and server-computed polyline lengths.
func c19normalise(n *pb.NodeProto, caps *[]float64) {
	switch v := n.GetNode().(type) {
	case *pb.NodeProto_Literal:
		c19normaliseLiteral(v.Literal, caps)
	case *pb.NodeProto_Call:
		if v.Call.GetFunction() != nil {
			c19normalise(v.Call.Function, caps)
		}
		for _, a := range v.Call.GetArgs() {
			c19normalise(a, caps)
		}
	case *pb.NodeProto_Lambda_:
		if v.Lambda_.GetNode() != nil {
			c19normalise(v.Lambda_.Node, caps)
		}
	}
}

func c19normaliseLiteral(l *pb.LiteralNodeProto, caps *[]float64) {
	switch v := l.GetValue().(type) {
	case *pb.LiteralNodeProto_PathValue:
		if v.PathValue != nil {
			v.PathValue.LengthMeters = 0
		}
	case *pb.LiteralNodeProto_QueryValue:
		c19normaliseQuery(v.QueryValue, caps)
	case *pb.LiteralNodeProto_CollectionValue:
		for _, k := range v.CollectionValue.GetKeys() {
			c19normaliseLiteral(k, caps)
		}
		for _, k := range v.CollectionValue.GetValues() {
			c19normaliseLiteral(k, caps)
		}
	}
}

func c19normaliseQuery(q *pb.QueryProto, caps *[]float64) {
	switch v := q.GetQuery().(type) {
	case *pb.QueryProto_IntersectsCap:
		if v.IntersectsCap != nil {
			*caps = append(*caps, v.IntersectsCap.RadiusMeters)
			v.IntersectsCap.RadiusMeters = 0
		}
	case *pb.QueryProto_IntersectsPolyline:
		if v.IntersectsPolyline != nil {
			v.IntersectsPolyline.LengthMeters = 0
		}
	case *pb.QueryProto_Typed:
		if v.Typed.GetQuery() != nil {
			c19normaliseQuery(v.Typed.Query, caps)
		}
	case *pb.QueryProto_Intersection:
		for _, c := range v.Intersection.GetQueries() {
			c19normaliseQuery(c, caps)
		}
	case *pb.QueryProto_Union:
		for _, c := range v.Union.GetQueries() {
			c19normaliseQuery(c, caps)
		}
	}
}

// c19compareProtos compares a and b with cap radii and polyline lengths set
// aside. It returns (structurally equal, radii identical, radii close).
func c19compareProtos(a, b *pb.NodeProto, ignoreLengths bool) (same, radiiSame, radiiClose bool) {
	ca, cb := proto.Clone(a).(*pb.NodeProto), proto.Clone(b).(*pb.NodeProto)
	var ra, rb []float64
	if ignoreLengths {
		c19normalise(ca, &ra)
		c19normalise(cb, &rb)
	} else {
		// only set the radii aside: lengths must agree
		keepA, keepB := proto.Clone(a).(*pb.NodeProto), proto.Clone(b).(*pb.NodeProto)
		c19normalise(keepA, &ra)
		c19normalise(keepB, &rb)
		c19zeroRadii(ca)
		c19zeroRadii(cb)
	}
	ba, err1 := c19marshal(ca)
	bb, err2 := c19marshal(cb)
	same = err1 == nil && err2 == nil && bytes.Equal(ba, bb)
	radiiSame, radiiClose = len(ra) == len(rb), len(ra) == len(rb)
	if len(ra) == len(rb) {
		for i := range ra {
			if math.Float64bits(ra[i]) != math.Float64bits(rb[i]) {
				radiiSame = false
			}
			if !c19close(ra[i], rb[i]) {
				radiiClose = false
			}
		}
	}
	return
}

// c19zeroRadii zeroes cap radii only.
func c19zeroRadii(n *pb.NodeProto) {
	var visitQ func(q *pb.QueryProto)
	var visitL func(l *pb.LiteralNodeProto)
	var visitN func(n *pb.NodeProto)
	visitQ = func(q *pb.QueryProto) {
		switch v := q.GetQuery().(type) {
		case *pb.QueryProto_IntersectsCap:
			if v.IntersectsCap != nil {
				v.IntersectsCap.RadiusMeters = 0
			}
		case *pb.QueryProto_Typed:
			if v.Typed.GetQuery() != nil {
				visitQ(v.Typed.Query)
			}
		case *pb.QueryProto_Intersection:
			for _, c := range v.Intersection.GetQueries() {
				visitQ(c)
			}
		case *pb.QueryProto_Union:
			for _, c := range v.Union.GetQueries() {
				visitQ(c)
			}
		}
	}
	visitL = func(l *pb.LiteralNodeProto) {
		switch v := l.GetValue().(type) {
		case *pb.LiteralNodeProto_QueryValue:
			visitQ(v.QueryValue)
		case *pb.LiteralNodeProto_CollectionValue:
			for _, k := range v.CollectionValue.GetKeys() {
				visitL(k)
			}
			for _, k := range v.CollectionValue.GetValues() {
				visitL(k)
			}
		}
	}
	visitN = func(n *pb.NodeProto) {
		switch v := n.GetNode().(type) {
		case *pb.NodeProto_Literal:
			visitL(v.Literal)
		case *pb.NodeProto_Call:
			if v.Call.GetFunction() != nil {
				visitN(v.Call.Function)
			}
			for _, a := range v.Call.GetArgs() {
				visitN(a)
			}
		case *pb.NodeProto_Lambda_:
			if v.Lambda_.GetNode() != nil {
				visitN(v.Lambda_.Node)
			}
		}
	}
	visitN(n)
}

func c19capsClose(a, b []float64) bool {
	if len(a) != len(b) {
		return false
	}
	for i := range a {
		if !c19close(a[i], b[i]) {
			return false
		}
	}
	return true
}

// c19roundTrip runs the double round trip of one node proto. drift reports
// that everything held except that a cap radius moved within the tolerance.
func c19roundTrip(p0 *pb.NodeProto) (fail *c19failure, drift *c19failure) {
	wire, err := c19marshal(p0)
	if err != nil {
		return &c19failure{"generator:unmarshallable", err.Error()}, nil
	}
	p1 := &pb.NodeProto{}
	if err := proto.Unmarshal(wire, p1); err != nil {
		return &c19failure{"generator:unmarshallable", err.Error()}, nil
	}
	var e1, e2 b6.Expression
	var p2, p3 *pb.NodeProto
	step := func(name string, f func() error) *c19failure {
		var err error
		panicked, class, frame, _ := core.Protect(func() { err = f() })
		if panicked {
			return &c19failure{name + ":panic@" + frame, fmt.Sprintf("%s panicked: %s", name, class)}
		}
		if err != nil {
			return &c19failure{name + ":error", fmt.Sprintf("%s returned the error %q", name, err.Error())}
		}
		return nil
	}
	if f := step("FromProto", func() (err error) { e1, err = b6.ExpressionFromProto(p1); return }); f != nil {
		return f, nil
	}
	// e1 must be the expression p1 denotes
	pr := &c19protoRenderer{}
	want := pr.node(p1)
	er := &c19renderer{}
	var got string
	if f := step("render(e1)", func() error { got = er.expr(e1); return nil }); f != nil {
		return f, nil
	}
	if len(pr.bad) > 0 {
		return &c19failure{"generator:unexpected-proto", strings.Join(pr.bad, ",")}, nil
	}
	if got != want || !c19capsClose(er.caps, pr.caps) {
		return &c19failure{"FromProto:not-the-expression-sent", fmt.Sprintf("the proto denotes %s (cap radii %v) but FromProto built %s (cap radii %v)", clipString(want, 1200), pr.caps, clipString(got, 1200), er.caps)}, nil
	}
	if f := step("ToProto", func() (err error) { p2, err = e1.ToProto(); return }); f != nil {
		return f, nil
	}
	if _, err := c19marshal(p2); err != nil {
		return &c19failure{"ToProto:unmarshallable-result", err.Error()}, nil
	}
	if f := step("FromProto(second)", func() (err error) { e2, err = b6.ExpressionFromProto(p2); return }); f != nil {
		return f, nil
	}
	if f := step("ToProto(second)", func() (err error) { p3, err = e2.ToProto(); return }); f != nil {
		return f, nil
	}
	// strict equality of e1 and e2
	x1, x2 := &c19renderer{exact: true}, &c19renderer{exact: true}
	var s1, s2 string
	if f := step("render(e2)", func() error { s1, s2 = x1.expr(e1), x2.expr(e2); return nil }); f != nil {
		return f, nil
	}
	if len(x1.unknown) > 0 {
		return &c19failure{"monitor:unknown-expression-type", strings.Join(x1.unknown, ",")}, nil
	}
	if s1 != s2 {
		return &c19failure{"e1!=e2", fmt.Sprintf("FromProto(ToProto(e1)) differs from e1: e1=%s e2=%s", clipString(s1, 1200), clipString(s2, 1200))}, nil
	}
	same12, radiiSame12, radiiClose12 := c19compareProtos(p1, p2, true)
	if !same12 {
		return &c19failure{"p1!=p2", fmt.Sprintf("ToProto(FromProto(p1)) differs from p1 on client-controlled fields: p1=%s p2=%s", c19text(p1), c19text(p2))}, nil
	}
	if !radiiClose12 {
		return &c19failure{"p1!=p2:cap-radius-wrong", fmt.Sprintf("cap radius changed beyond rounding: p1=%s p2=%s", c19text(p1), c19text(p2))}, nil
	}
	same23, radiiSame23, radiiClose23 := c19compareProtos(p2, p3, false)
	if !same23 {
		return &c19failure{"p2!=p3", fmt.Sprintf("the second conversion changed the proto: p2=%s p3=%s", c19text(p2), c19text(p3))}, nil
	}
	if !radiiClose23 || !c19capsClose(x1.caps, x2.caps) {
		return &c19failure{"p2!=p3:cap-radius-wrong", fmt.Sprintf("cap radius changed beyond rounding: p2=%s p3=%s", c19text(p2), c19text(p3))}, nil
	}
	if !radiiSame12 || !radiiSame23 {
		var r1, r2, r3 []float64
		c19normalise(proto.Clone(p1).(*pb.NodeProto), &r1)
		c19normalise(proto.Clone(p2).(*pb.NodeProto), &r2)
		c19normalise(proto.Clone(p3).(*pb.NodeProto), &r3)
		return nil, &c19failure{"cap-radius-drift", fmt.Sprintf("cap radii in metres: sent %v, after one conversion %v, after two %v", r1, r2, r3)}
	}
	return nil, nil
}

// ---------------------------------------------------------------------------
// Reduction of a failing tree to a minimal failing sub-tree.

func c19litNode(l *pb.LiteralNodeProto) *pb.NodeProto {
	return &pb.NodeProto{Node: &pb.NodeProto_Literal{Literal: l}}
}

func c19queryNode(q *pb.QueryProto) *pb.NodeProto {
	return c19litNode(&pb.LiteralNodeProto{Value: &pb.LiteralNodeProto_QueryValue{QueryValue: q}})
}

func c19children(n *pb.NodeProto) []*pb.NodeProto {
	var out []*pb.NodeProto
	switch v := n.GetNode().(type) {
	case *pb.NodeProto_Call:
		out = append(out, v.Call.GetFunction())
		out = append(out, v.Call.GetArgs()...)
	case *pb.NodeProto_Lambda_:
		out = append(out, v.Lambda_.GetNode())
	case *pb.NodeProto_Literal:
		switch l := v.Literal.GetValue().(type) {
		case *pb.LiteralNodeProto_CollectionValue:
			for _, k := range l.CollectionValue.GetKeys() {
				out = append(out, c19litNode(k))
			}
			for _, k := range l.CollectionValue.GetValues() {
				out = append(out, c19litNode(k))
			}
		case *pb.LiteralNodeProto_QueryValue:
			switch q := l.QueryValue.GetQuery().(type) {
			case *pb.QueryProto_Typed:
				if q.Typed.GetQuery() != nil {
					out = append(out, c19queryNode(q.Typed.GetQuery()))
				}
			case *pb.QueryProto_Intersection:
				for _, c := range q.Intersection.GetQueries() {
					out = append(out, c19queryNode(c))
				}
			case *pb.QueryProto_Union:
				for _, c := range q.Union.GetQueries() {
					out = append(out, c19queryNode(c))
				}
			}
		}
	}
	return out
}

func c19literalKind(l *pb.LiteralNodeProto) string {
	switch v := l.GetValue().(type) {
	case *pb.LiteralNodeProto_NilValue:
		return "nil"
	case *pb.LiteralNodeProto_BoolValue:
		return "bool"
	case *pb.LiteralNodeProto_StringValue:
		return "string"
	case *pb.LiteralNodeProto_IntValue:
		return "int"
	case *pb.LiteralNodeProto_FloatValue:
		return "float"
	case *pb.LiteralNodeProto_FeatureIDValue:
		return "featureID"
	case *pb.LiteralNodeProto_TagValue:
		return "tag"
	case *pb.LiteralNodeProto_PointValue:
		return "point"
	case *pb.LiteralNodeProto_PathValue:
		if n := len(v.PathValue.GetPoints()); n < 2 {
			return fmt.Sprintf("path(%d points)", n)
		}
		return "path"
	case *pb.LiteralNodeProto_AreaValue:
		if len(v.AreaValue.GetPolygons()) == 0 {
			return "area(0 polygons)"
		}
		return "area" + c19areaShape(v.AreaValue)
	case *pb.LiteralNodeProto_RouteValue:
		return "route"
	case *pb.LiteralNodeProto_QueryValue:
		return "query." + c19queryKind(v.QueryValue)
	case *pb.LiteralNodeProto_CollectionValue:
		c := v.CollectionValue
		if len(c.GetKeys()) == 0 {
			return "collection[]"
		}
		// the distinct element kinds other than int (the reduction replaces
		// innocent members by int 0), without query/area detail, so that one
		// defect has one signature wherever the element sits
		seen := map[string]bool{}
		var kinds []string
		for _, l := range append(append([]*pb.LiteralNodeProto{}, c.GetKeys()...), c.GetValues()...) {
			k := c19literalKind(l)
			if i := strings.IndexAny(k, ".+{["); i > 0 {
				k = k[:i]
			}
			if k != "int" && !seen[k] {
				seen[k] = true
				kinds = append(kinds, k)
			}
		}
		sort.Strings(kinds)
		if len(kinds) == 0 {
			return "collection[int]"
		}
		return "collection[" + strings.Join(kinds, ",") + "]"
	}
	return fmt.Sprintf("%T", l.GetValue())
}

func c19areaShape(m *pb.MultiPolygonProto) string {
	s := ""
	holes := 0
	for _, p := range m.GetPolygons() {
		if len(p.GetLoops()) > 1 {
			holes = max(holes, len(p.GetLoops())-1)
		}
	}
	if holes == 1 {
		s += "+hole"
	} else if holes > 1 {
		s += "+holes"
	}
	if len(m.GetPolygons()) > 1 {
		s += "+multi"
	}
	return s
}

func c19queryKind(q *pb.QueryProto) string {
	switch v := q.GetQuery().(type) {
	case *pb.QueryProto_All:
		return "all"
	case *pb.QueryProto_Empty:
		return "empty"
	case *pb.QueryProto_IsValid:
		return "isValid"
	case *pb.QueryProto_Keyed:
		return "keyed"
	case *pb.QueryProto_Tagged:
		return "tagged"
	case *pb.QueryProto_Typed:
		return "typed"
	case *pb.QueryProto_Intersection:
		return "intersection"
	case *pb.QueryProto_Union:
		return "union"
	case *pb.QueryProto_IntersectsCap:
		return "intersectsCap"
	case *pb.QueryProto_IntersectsFeature:
		return "intersectsFeature"
	case *pb.QueryProto_IntersectsPoint:
		return "intersectsPoint"
	case *pb.QueryProto_IntersectsPolyline:
		return "intersectsPolyline"
	case *pb.QueryProto_IntersectsMultiPolygon:
		return "intersectsMultiPolygon" + c19areaShape(v.IntersectsMultiPolygon)
	case *pb.QueryProto_IntersectsCells:
		return "intersectsCells"
	case *pb.QueryProto_MightIntersect:
		return "mightIntersect"
	}
	return fmt.Sprintf("%T", q.GetQuery())
}

func c19nodeKind(n *pb.NodeProto) string {
	switch v := n.GetNode().(type) {
	case *pb.NodeProto_Symbol:
		return "symbol"
	case *pb.NodeProto_Call:
		return "call"
	case *pb.NodeProto_Lambda_:
		return "lambda"
	case *pb.NodeProto_Literal:
		return "literal." + c19literalKind(v.Literal)
	}
	return fmt.Sprintf("%T", n.GetNode())
}

// c19shrinkLocal tries smaller variants of the node itself (its children are
// already known to pass on their own).
func c19shrinkLocal(n *pb.NodeProto, fails func(*pb.NodeProto) bool) *pb.NodeProto {
	cur := proto.Clone(n).(*pb.NodeProto)
	try := func(mutate func(c *pb.NodeProto) bool) {
		for {
			cand := proto.Clone(cur).(*pb.NodeProto)
			if !mutate(cand) || !fails(cand) {
				return
			}
			cur = cand
		}
	}
	zero := func() *pb.LiteralNodeProto {
		return &pb.LiteralNodeProto{Value: &pb.LiteralNodeProto_IntValue{IntValue: 0}}
	}
	shrinkArea := func(get func(c *pb.NodeProto) *pb.MultiPolygonProto) {
		if get(cur) == nil {
			return
		}
		for i := len(get(cur).GetPolygons()) - 1; i >= 0; i-- {
			i := i
			try(func(c *pb.NodeProto) bool {
				m := get(c)
				if i >= len(m.Polygons) || len(m.Polygons) <= 1 {
					return false
				}
				m.Polygons = append(m.Polygons[:i:i], m.Polygons[i+1:]...)
				return true
			})
		}
		for pi := range get(cur).GetPolygons() {
			pi := pi
			try(func(c *pb.NodeProto) bool {
				p := get(c).Polygons[pi]
				if len(p.Loops) <= 1 {
					return false
				}
				p.Loops = p.Loops[:len(p.Loops)-1]
				return true
			})
		}
	}
	if l := cur.GetLiteral(); l != nil {
		switch l.GetValue().(type) {
		case *pb.LiteralNodeProto_CollectionValue:
			for i := len(l.GetCollectionValue().GetKeys()) - 1; i >= 0; i-- {
				i := i
				try(func(c *pb.NodeProto) bool {
					cv := c.GetLiteral().GetCollectionValue()
					if i >= len(cv.Keys) || i >= len(cv.Values) {
						return false
					}
					cv.Keys = append(cv.Keys[:i:i], cv.Keys[i+1:]...)
					cv.Values = append(cv.Values[:i:i], cv.Values[i+1:]...)
					return true
				})
			}
			for i := range cur.GetLiteral().GetCollectionValue().GetKeys() {
				i := i
				done := false
				try(func(c *pb.NodeProto) bool {
					if done {
						return false
					}
					done = true
					c.GetLiteral().GetCollectionValue().Keys[i] = zero()
					return true
				})
				done = false
				try(func(c *pb.NodeProto) bool {
					if done {
						return false
					}
					done = true
					c.GetLiteral().GetCollectionValue().Values[i] = zero()
					return true
				})
			}
		case *pb.LiteralNodeProto_AreaValue:
			shrinkArea(func(c *pb.NodeProto) *pb.MultiPolygonProto { return c.GetLiteral().GetAreaValue() })
		case *pb.LiteralNodeProto_QueryValue:
			if l.GetQueryValue().GetIntersectsMultiPolygon() != nil {
				shrinkArea(func(c *pb.NodeProto) *pb.MultiPolygonProto {
					return c.GetLiteral().GetQueryValue().GetIntersectsMultiPolygon()
				})
			}
		}
	}
	return cur
}

// c19minimise returns a minimal failing sub-tree of n (n fails) and a suffix
// saying whether the failure needs the node's name or positions.
func c19minimise(n *pb.NodeProto, fails func(*pb.NodeProto) bool) (*pb.NodeProto, string) {
	for depth := 0; depth < 64; depth++ {
		descended := false
		for _, ch := range c19children(n) {
			if ch != nil && fails(ch) {
				n, descended = ch, true
				break
			}
		}
		if !descended {
			break
		}
	}
	n = c19shrinkLocal(n, fails)
	suffix := ""
	if n.Name != "" || n.Begin != 0 || n.End != 0 {
		bare := proto.Clone(n).(*pb.NodeProto)
		bare.Name, bare.Begin, bare.End = "", 0, 0
		if fails(bare) {
			n = bare
		} else {
			noName := proto.Clone(n).(*pb.NodeProto)
			noName.Name = ""
			if fails(noName) {
				n, suffix = noName, "+positioned"
			} else {
				suffix = "+named"
			}
		}
	}
	return n, suffix
}

// c19subCases: input classes that have a recorded finding live in their own
// labelled cases, so that they cannot hide anything in the main list.
var c19subCases = []string{"mightIntersect", "degenerate-geometry"}

func init() {
	required := []string{"rt_node_symbol", "rt_node_call", "rt_node_lambda", "rt_node_literal", "rt_pipelined_call", "rt_named_node", "rt_positioned_node",
		"rt_lambda_no_args", "rt_collection_empty", "rt_area_with_holes", "rt_area_with_2plus_holes", "rt_area_multi", "rt_direct_query", "rt_top_level_collection"}
	for _, k := range c19literalKinds {
		required = append(required, "rt_lit_"+k, "rt_elem_"+k)
	}
	for _, k := range c19queryKinds {
		if k != "mightIntersect" {
			required = append(required, "rt_query_"+k)
		}
	}
	required = append(required, "sibling_round_trips")
	sort.Strings(required)
	core.Register(&core.Monitor{
		ID:        "C19",
		Title:     "Expressions survive the client/server wire format",
		Technique: "double round trip proto -> expression -> proto -> expression -> proto with own structural rendering of expressions and byte comparison of protos; failing trees reduced to a minimal failing sub-tree",
		Rule: "case = random NodeProto tree (depth <= 3: symbols, calls incl. pipelined, lambdas, the 13 literal kinds ExpressionFromProto handles, collection literals of every element kind, " +
			"query trees of 14 kinds depth <= 2, names and begin/end, numeric extremes, NaN/-0/Inf, E7-grid geometry incl. poles/antimeridian, polygons with 0-2 holes), or a bare QueryProto tree sent through NewQueryFromProto, " +
			"or a top-level collection literal; distinct = distinct deterministic wire bytes; non-trivial = more than one node, or a composite literal (collection, query tree, geometry, route, tag)",
		Assumptions: []string{
			"sendable = node/literal/query kinds ExpressionFromProto and NewQueryFromProto are meant to accept; featureValue (\"Can't import features from protos\"), geoJSONValue (handler is panic(\"Unimplemented\")), pairValue and appliedChangeValue (results only) are excluded",
			"PolylineProto.length_meters is computed by the server and is not a client-controlled field",
			"polygons follow the documented PolygonProto convention: all loops counter-clockwise, shell first, then its holes; valid, disjoint, non-degenerate",
			"cap radii are in [0, 1e7] m (beyond pi*R a cap is the whole sphere); cell ids are valid",
			"mightIntersect protos are a lossy covering of a region (no inverse exists); they are a labelled sub-case",
			"google.golang.org/protobuf deterministic marshalling is trusted as proto equality",
		},
		Quick: 20000, Thorough: 2000000,
		Required: required,
		Run:      c19run,
	})
}

func c19run(c *core.Ctx) {
	r := c.R
	g := &c19gen{r: r, kinds: map[string]int{}}
	mode := "tree"
	switch k := r.Intn(20); {
	case k == 0:
		g.sub = core.Pick(r, c19subCases)
		mode = "sub:" + g.sub
	case k < 4:
		mode = "direct-query"
	case k < 7:
		mode = "collection"
	}
	var p0 *pb.NodeProto
	var q0 *pb.QueryProto
	switch {
	case mode == "direct-query":
		q0 = g.query(2)
		p0 = c19queryNode(q0)
		g.note("direct_query")
	case mode == "collection":
		for {
			l := g.literal(2, false)
			if l.GetCollectionValue() != nil {
				p0 = g.decorate(c19litNode(l))
				break
			}
		}
		g.note("top_level_collection")
	case mode == "sub:mightIntersect":
		q0 = g.query(2)
		p0 = c19queryNode(q0)
	case mode == "sub:degenerate-geometry":
		l := g.literal(1, false)
		for l.GetPathValue() == nil && l.GetAreaValue() == nil && l.GetCollectionValue() == nil {
			l = g.literal(1, false)
		}
		p0 = c19litNode(l)
	default:
		p0 = g.node(3)
	}
	wire, err := c19marshal(p0)
	if err != nil {
		c.Inconclusive("generator produced an unmarshallable proto: " + err.Error())
		return
	}
	c.Key("%s|%s", mode, hex.EncodeToString(wire))
	if len(c19children(p0)) > 0 || p0.GetLiteral().GetCollectionValue() != nil {
		c.Nontrivial()
	} else if l := p0.GetLiteral(); l != nil {
		switch l.GetValue().(type) {
		case *pb.LiteralNodeProto_QueryValue, *pb.LiteralNodeProto_PathValue, *pb.LiteralNodeProto_AreaValue, *pb.LiteralNodeProto_RouteValue, *pb.LiteralNodeProto_TagValue, *pb.LiteralNodeProto_PointValue, *pb.LiteralNodeProto_FeatureIDValue:
			c.Nontrivial()
		}
	}
	if c.Index < 3 {
		c.Sample(map[string]any{"mode": mode, "proto": c19text(p0)})
	}
	c.Count("mode_" + mode)

	// the signature is the failing step and the kind of the minimal failing
	// sub-tree; sub-cases need no prefix (their input class is in the kind)
	const prefix = ""
	report := func(f *c19failure, p *pb.NodeProto) {
		minimal, suffix := c19minimise(p, func(x *pb.NodeProto) bool {
			ff, _ := c19roundTrip(x)
			return ff != nil && !strings.HasPrefix(ff.class, "generator:")
		})
		mf, _ := c19roundTrip(minimal)
		if mf == nil {
			mf = f
		}
		c.Violate(prefix+mf.class+":"+c19nodeKind(minimal)+suffix,
			map[string]any{"sent": c19text(p), "minimal_failing_subtree": c19text(minimal), "mode": mode},
			"%s; minimal failing sub-tree: %s", mf.detail, c19text(minimal))
	}

	fail, drift := c19roundTrip(p0)
	if fail != nil && strings.HasPrefix(fail.class, "generator:") {
		c.Inconclusive(fail.class + ": " + fail.detail)
		return
	}
	if fail != nil {
		report(fail, p0)
		return
	}
	if drift != nil {
		c.Violate(prefix+"query.intersectsCap:radius-drift", map[string]any{"sent": c19text(p0)}, "%s", drift.detail)
	}
	if q0 != nil {
		// the same through the query entry points themselves
		if f := c19roundTripQuery(q0); f != nil {
			if wf, _ := c19roundTrip(p0); wf != nil {
				report(wf, p0)
			} else {
				c.Violate(prefix+"direct-query:"+f.class+":query."+c19queryKind(q0), map[string]any{"sent": c19text(q0)}, "%s", f.detail)
			}
			return
		}
	}
	// the nearest neighbour on the wire, sent straight after the original
	if sib, n := c19sibling(p0); n > 0 {
		c.Count("sibling_round_trips")
		if f, _ := c19roundTrip(sib); f != nil && !strings.HasPrefix(f.class, "generator:") {
			c.Violate(prefix+"sibling:"+f.class+":"+c19nodeKind(p0), map[string]any{"sent_first": c19text(p0), "sent_second": c19text(sib), "mode": mode},
				"after the original, a request that differs from it by the smallest step the wire format expresses (%d fields) does not survive: %s", n, f.detail)
			return
		}
	}
	for k, n := range g.kinds {
		c.Add("rt_"+k, n)
	}
	c.Count("round_trips_ok")
}

// c19roundTripQuery: NewQueryFromProto / Query.ToProto called directly.
func c19roundTripQuery(q0 *pb.QueryProto) *c19failure {
	wire, err := c19marshal(q0)
	if err != nil {
		return nil
	}
	q1 := &pb.QueryProto{}
	if proto.Unmarshal(wire, q1) != nil {
		return nil
	}
	var x1, x2 b6.Query
	var q2, q3 *pb.QueryProto
	step := func(name string, f func() error) *c19failure {
		var err error
		panicked, class, frame, _ := core.Protect(func() { err = f() })
		if panicked {
			return &c19failure{name + ":panic@" + frame, fmt.Sprintf("%s panicked: %s", name, class)}
		}
		if err != nil {
			return &c19failure{name + ":error", fmt.Sprintf("%s returned the error %q", name, err.Error())}
		}
		return nil
	}
	if f := step("NewQueryFromProto", func() (err error) { x1, err = b6.NewQueryFromProto(q1); return }); f != nil {
		return f
	}
	if f := step("Query.ToProto", func() (err error) { q2, err = x1.ToProto(); return }); f != nil {
		return f
	}
	if f := step("NewQueryFromProto(second)", func() (err error) { x2, err = b6.NewQueryFromProto(q2); return }); f != nil {
		return f
	}
	if f := step("Query.ToProto(second)", func() (err error) { q3, err = x2.ToProto(); return }); f != nil {
		return f
	}
	pr, r1, r2 := &c19protoRenderer{}, &c19renderer{}, &c19renderer{exact: true}
	r3 := &c19renderer{exact: true}
	want := pr.query(q1)
	var got, s1, s2 string
	if f := step("render(query)", func() error { got, s1, s2 = r1.query(x1), r2.query(x1), r3.query(x2); return nil }); f != nil {
		return f
	}
	if got != want || !c19capsClose(r1.caps, pr.caps) {
		return &c19failure{"not-the-query-sent", fmt.Sprintf("the proto denotes %s but NewQueryFromProto built %s", clipString(want, 1200), clipString(got, 1200))}
	}
	if s1 != s2 || !c19capsClose(r2.caps, r3.caps) {
		return &c19failure{"q1!=q2", fmt.Sprintf("x1=%s x2=%s", clipString(s1, 1200), clipString(s2, 1200))}
	}
	same12, _, close12 := c19compareProtos(c19queryNode(q1), c19queryNode(q2), true)
	same23, _, close23 := c19compareProtos(c19queryNode(q2), c19queryNode(q3), false)
	if !same12 || !close12 {
		return &c19failure{"p1!=p2", fmt.Sprintf("q1=%s q2=%s", c19text(q1), c19text(q2))}
	}
	if !same23 || !close23 {
		return &c19failure{"p2!=p3", fmt.Sprintf("q2=%s q3=%s", c19text(q2), c19text(q3))}
	}
	return nil
}
