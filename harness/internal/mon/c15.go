package mon

import (
	"fmt"
	"sort"
	"strings"

	"diagonal.works/b6"
	"diagonal.works/b6/ingest"
	"verif/internal/core"
	"verif/internal/wm"
)

// C15 Reference queries return the current referrers and always terminate.
//
// Oracle: the transitive reverse-reachability closure of the model's current
// reference graph (wm.World.Referrers), filtered by type. Results are compared
// as sets and any duplicate is a violation. Cyclic graphs (self-membership,
// 2- and 3-cycles between relations, collections keyed by themselves) are part
// of the case list; non-termination shows as a fatal stack overflow of the
// child (the case is logged before it runs) or as a hang verdict.

func c15ids(fs interface {
	Next() bool
	FeatureID() b6.FeatureID
}) []b6.FeatureID {
	var out []b6.FeatureID
	for fs.Next() {
		out = append(out, fs.FeatureID())
	}
	return out
}

func c15compare(c *core.Ctx, call string, kind string, id b6.FeatureID, got []b6.FeatureID, want map[b6.FeatureID]bool, baseClosure map[b6.FeatureID]bool, witness any) {
	seen := map[b6.FeatureID]int{}
	for _, g := range got {
		seen[g]++
	}
	for g, n := range seen {
		if n > 1 {
			c.Violate(call+":duplicate:"+kind, witness, "%s(%s) returned %s %d times", call, id, g, n)
			return
		}
	}
	var missing, extra []string
	for w := range want {
		if seen[w] == 0 {
			missing = append(missing, w.String())
		}
	}
	for g := range seen {
		if !want[g] {
			extra = append(extra, g.String())
		}
	}
	sort.Strings(missing)
	sort.Strings(extra)
	if len(missing) > 0 {
		c.Violate(call+":missing-referrer:"+kind, witness, "%s(%s) misses %v (returned %v)", call, id, missing, got)
	}
	if len(extra) > 0 {
		// Shape: every extra element was a (transitive) referrer in the base world the overlay was
		// built on, i.e. the overlay reports referrers through base versions that have been replaced.
		stale := baseClosure != nil
		for g := range seen {
			if !want[g] && !baseClosure[g] {
				stale = false
			}
		}
		if stale {
			c.Violate(call+":stale-base-referrer:"+kind, witness, "%s(%s) returned %v which referenced it in the base world but do not (transitively) reference it now", call, id, extra)
		} else {
			c.Violate(call+":wrong-referrer:"+kind, witness, "%s(%s) returned %v which do not (transitively) reference it", call, id, extra)
		}
	}
}

func c15filter(all map[b6.FeatureID]bool, t b6.FeatureType) map[b6.FeatureID]bool {
	out := map[b6.FeatureID]bool{}
	for id := range all {
		if id.Type == t {
			out[id] = true
		}
	}
	return out
}

func c15check(c *core.Ctx, world b6.World, model *wm.World, baseModel *wm.World, kind string, witness any) (transitive bool) {
	ids := model.IDs()
	ids = append(ids, b6.FeatureID{Type: b6.FeatureTypePoint, Namespace: b6.NamespaceOSMNode, Value: 990001})
	types := []b6.FeatureType{b6.FeatureTypePoint, b6.FeatureTypePath, b6.FeatureTypeArea, b6.FeatureTypeRelation, b6.FeatureTypeCollection}
	for _, id := range ids {
		closure := model.Referrers(id)
		// For a mutable overlay: the features that referenced id in the base world, plus everything
		// that currently references one of those (the overlay chains its own referrers onto the base's).
		var bc map[b6.FeatureID]bool
		if baseModel != nil {
			bc = baseModel.Referrers(id)
			for s := range baseModel.Referrers(id) {
				for g := range model.Referrers(s) {
					bc[g] = true
				}
			}
		}
		c.Count("queries")
		if len(closure) > len(model.DirectReferrers(id)) {
			c.Count("transitive_referrers")
			transitive = true
		}
		c15compare(c, "FindReferences", kind, id, c15ids(world.FindReferences(id)), closure, bc, witness)
		for _, t := range types {
			c15compare(c, "FindReferences-typed", kind, id, c15ids(world.FindReferences(id, t)), c15filter(closure, t), bc, witness)
		}
		c15compare(c, "FindRelationsByFeature", kind, id, c15ids(world.FindRelationsByFeature(id)), c15filter(closure, b6.FeatureTypeRelation), bc, witness)
		c15compare(c, "FindCollectionsByFeature", kind, id, c15ids(world.FindCollectionsByFeature(id)), c15filter(closure, b6.FeatureTypeCollection), bc, witness)
		if id.Type == b6.FeatureTypePoint {
			c15compare(c, "FindAreasByPoint", kind, id, c15ids(world.FindAreasByPoint(id)), c15filter(closure, b6.FeatureTypeArea), bc, witness)
		}
		if c.Violations() > 0 {
			return
		}
	}
	return
}

func init() {
	core.Register(&core.Monitor{
		ID:        "C15",
		Title:     "Reference queries return the current referrers and always terminate",
		Technique: "reference-model monitor: reverse-reachability closure of the model's reference graph versus FindReferences/FindRelationsByFeature/FindCollectionsByFeature/FindAreasByPoint; crash/hang detection for cyclic graphs in a child process",
		Rule: "case = (world kind basic / basic-mutable / mutable-overlay, generated reference graph over points, paths, areas, relations and collections, optionally with " +
			"self-references and 2-/3-cycles, edit history that re-wires or replaces referencing features, including replacements that are rejected because of a referrer and are followed by accepted ones); distinct = kind + graph + history; " +
			"non-trivial = some feature has a referrer that is only reachable transitively",
		Assumptions: []string{"for in-memory worlds the query is defined as the transitive reverse closure (what FindReferences documents by implementation); typed variants filter the closure"},
		Quick:       600, Thorough: 60000,
		Batch:    20,
		Required: []string{"kind_basic", "kind_basic-mutable", "kind_mutable-overlay", "cyclic_graphs", "self_reference", "rewire_ops", "transitive_referrers", "queries", "replaced_base_referrer", "rejected_replacements"},
		Run: func(c *core.Ctx) {
			r := c.R
			kind := []string{"basic", "basic-mutable", "mutable-overlay"}[c.Index%3]
			cyclic := c.Index%4 == 3
			c.Count("kind_" + kind)
			g := wm.NewGen(r.Fork(), wm.DefaultGen())
			specs := g.World()
			var rels, cols, others []*wm.Spec
			for _, s := range specs {
				switch s.ID.Type {
				case b6.FeatureTypeRelation:
					rels = append(rels, s)
				case b6.FeatureTypeCollection:
					cols = append(cols, s)
				default:
					others = append(others, s)
				}
			}
			// extra relations so that chains and cycles exist
			for len(rels) < 4 {
				rel := &wm.Spec{ID: g.NewID(b6.FeatureTypeRelation, b6.NamespaceOSMRelation), Tags: g.RandomTags(0.8)}
				pool := append(append([]*wm.Spec{}, others...), rels...)
				for j := r.Range(1, 3); j > 0; j-- {
					rel.Members = append(rel.Members, b6.RelationMember{ID: core.Pick(r, pool).ID, Role: "m"})
				}
				rels = append(rels, rel)
				specs = append(specs, rel)
			}
			if len(cols) == 0 {
				col := &wm.Spec{ID: g.NewID(b6.FeatureTypeCollection, "diagonal.works/ns/test"), Keys: []any{rels[0].ID, core.Pick(r, others).ID}, Values: []any{1, 2}}
				cols = append(cols, col)
				specs = append(specs, col)
			}
			if cyclic {
				c.Count("cyclic_graphs")
				switch r.Intn(4) {
				case 0: // self membership
					rels[0].Members = append(rels[0].Members, b6.RelationMember{ID: rels[0].ID, Role: "self"})
					c.Count("self_reference")
				case 1: // 2-cycle
					rels[0].Members = append(rels[0].Members, b6.RelationMember{ID: rels[1].ID, Role: "x"})
					rels[1].Members = append(rels[1].Members, b6.RelationMember{ID: rels[0].ID, Role: "y"})
				case 2: // 3-cycle
					rels[0].Members = append(rels[0].Members, b6.RelationMember{ID: rels[1].ID, Role: "x"})
					rels[1].Members = append(rels[1].Members, b6.RelationMember{ID: rels[2].ID, Role: "y"})
					rels[2].Members = append(rels[2].Members, b6.RelationMember{ID: rels[0].ID, Role: "z"})
				case 3: // collection keyed by itself
					cols[0].Keys = append(cols[0].Keys, cols[0].ID)
					cols[0].Values = append(cols[0].Values, 9)
					c.Count("self_reference")
				}
			}
			model := wm.ModelOf(specs)
			var baseModel *wm.World // the graph of the base world under a mutable overlay
			if kind == "mutable-overlay" {
				baseModel = model.Clone()
			}
			var world b6.World
			var mutable ingest.MutableWorld
			var err error
			switch kind {
			case "basic":
				world, err = wm.Basic(specs, 1)
			case "basic-mutable":
				var bm *ingest.BasicMutableWorld
				bm, err = wm.BasicMutable(specs)
				world, mutable = bm, bm
			case "mutable-overlay":
				var base b6.World
				base, err = wm.Basic(specs, 1)
				if err == nil {
					mo := ingest.NewMutableOverlayWorld(base)
					world, mutable = mo, mo
				}
			}
			if err != nil {
				c.Violate("setup-failed:"+kind, nil, "setup failed: %v", err)
				return
			}
			var script []string
			witness := func() any {
				var fs []string
				for _, id := range model.IDs() {
					if len(model.F[id].Refs()) > 0 {
						fs = append(fs, model.F[id].String())
					}
				}
				return map[string]any{"kind": kind, "history": script, "referencing_features": fs}
			}
			trans := c15check(c, world, model, baseModel, kind, witness())
			if c.Violations() > 0 || mutable == nil {
				c.Key("%s/%v/%s", kind, cyclic, fmt.Sprint(witness()))
				if trans {
					c.Nontrivial()
				}
				return
			}
			written := map[b6.FeatureID]bool{}
			n := r.Range(1, 10)
			for i := 0; i < n; i++ {
				var s *wm.Spec
				pool := model.IDs()
				switch r.Intn(5) {
				case 4: // a closed path under an area: a replacement its area rejects, then one that drops a vertex
					needed := map[b6.FeatureID]bool{}
					for _, f := range model.F {
						if f.ID.Type == b6.FeatureTypeArea {
							for _, ref := range f.Refs() {
								needed[ref] = true
							}
						}
					}
					var rings []*wm.Spec
					for _, id := range pool {
						if f := model.F[id]; id.Type == b6.FeatureTypePath && needed[id] && len(f.Path) >= 5 && f.Path[0].IsRef() && f.Path[0].Ref == f.Path[len(f.Path)-1].Ref {
							rings = append(rings, f)
						}
					}
					if len(rings) == 0 {
						continue
					}
					ring := core.Pick(r, rings)
					j := r.Range(1, len(ring.Path)-2)
					open := ring.Clone()
					if r.Bool() { // the rejected version already lacks the vertex the accepted one will drop
						open.Path = append(open.Path[:j:j], open.Path[j+1:]...)
					}
					open.Path = open.Path[:len(open.Path)-1]
					script = append(script, "AddFeature("+open.String()+") [must be rejected: its area needs a closed path]")
					var rerr error
					if p, cl, fr, st := core.Protect(func() { rerr = mutable.AddFeature(open.Ingest()) }); p {
						c.Violate("addfeature:panic@"+fr+":"+kind, map[string]any{"history": script, "stack": st}, "AddFeature(%s) panicked: %s", open, cl)
						return
					}
					if rerr == nil {
						c.Count("open_replacement_accepted") // C13/C37's subject; the model cannot follow
						return
					}
					c.Count("rejected_replacements")
					if c15check(c, world, model, baseModel, kind, witness()) {
						trans = true
					}
					if c.Violations() > 0 {
						return
					}
					s = ring.Clone()
					s.Path = append(s.Path[:j:j], s.Path[j+1:]...)
				case 0: // re-wire a relation
					s = model.F[core.Pick(r, rels).ID].Clone()
					s.Members = nil
					for j := r.Range(0, 3); j > 0; j-- {
						s.Members = append(s.Members, b6.RelationMember{ID: core.Pick(r, pool), Role: "r"})
					}
				case 1: // re-key a collection
					s = model.F[core.Pick(r, cols).ID].Clone()
					s.Keys, s.Values = nil, nil
					for j := r.Range(0, 3); j > 0; j-- {
						s.Keys = append(s.Keys, core.Pick(r, pool))
						s.Values = append(s.Values, j)
					}
				case 2: // re-route an open path that nothing with geometry depends on
					var open []*wm.Spec
					needed := map[b6.FeatureID]bool{}
					for _, f := range model.F {
						if f.ID.Type == b6.FeatureTypeArea {
							for _, ref := range f.Refs() {
								needed[ref] = true
							}
						}
					}
					var points []b6.FeatureID
					for _, id := range pool {
						if id.Type == b6.FeatureTypePoint {
							points = append(points, id)
						}
						if id.Type == b6.FeatureTypePath && !needed[id] {
							f := model.F[id]
							if len(f.Path) > 0 && f.Path[0].Ref != f.Path[len(f.Path)-1].Ref {
								open = append(open, f)
							}
						}
					}
					if len(open) == 0 || len(points) < 3 {
						continue
					}
					s = core.Pick(r, open).Clone()
					s.Path = nil
					for _, j := range r.Perm(len(points))[:r.Range(2, 3)] {
						s.Path = append(s.Path, wm.Elem{Ref: points[j]})
					}
				case 3: // a new relation
					s = &wm.Spec{ID: g.NewID(b6.FeatureTypeRelation, b6.NamespaceOSMRelation), Tags: g.RandomTags(0.8)}
					for j := r.Range(1, 3); j > 0; j-- {
						s.Members = append(s.Members, b6.RelationMember{ID: core.Pick(r, pool), Role: "n"})
					}
					rels = append(rels, s)
				}
				if _, existed := model.F[s.ID]; existed && !written[s.ID] && kind == "mutable-overlay" {
					c.Count("replaced_base_referrer")
				} else if existed {
					c.Count("replaced_resident_referrer")
				}
				written[s.ID] = true
				script = append(script, "AddFeature("+s.String()+")")
				c.Count("rewire_ops")
				var aerr error
				if p, cl, fr, st := core.Protect(func() { aerr = mutable.AddFeature(s.Ingest()) }); p {
					c.Violate("addfeature:panic@"+fr+":"+kind, map[string]any{"history": script, "stack": st}, "AddFeature(%s) panicked: %s", s, cl)
					return
				}
				if aerr != nil {
					c.Violate("addfeature:rejected-valid:"+kind, witness(), "AddFeature(%s) was rejected: %v", s, aerr)
					return
				}
				model.Add(s)
				if c15check(c, world, model, baseModel, kind, witness()) {
					trans = true
				}
				if c.Violations() > 0 {
					break
				}
			}
			c.Key("%s/%v/%s", kind, cyclic, strings.Join(script, ";")+fmt.Sprint(len(specs)))
			if trans {
				c.Nontrivial()
			}
			if c.Index < 2 {
				c.Sample(witness())
			}
		},
	})
}
