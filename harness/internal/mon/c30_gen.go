package mon

import (
	"fmt"
	"math"
	"strings"

	"diagonal.works/b6"
	"verif/internal/core"
	"verif/internal/wm"
)

// Street-network generator of C30. Everything is a wm.Spec, so the same
// description feeds basic, basic-mutable and compact worlds. All path points
// are references to point features (the search works on point IDs).

type c30Net struct {
	specs     []*wm.Spec // points first, then ways, then areas (dependency order)
	points    []*wm.Spec
	ways      []*wm.Spec
	areas     []*wm.Spec
	buildings []*wm.Spec
	loops     int // closed ways
	twice     int // ways that visit a point twice without being closed
	oneway    int
	shared    int // points on >= 2 ways
	tagged    int // points with a tag besides their geometry
	dense     bool
}

var (
	c30Highways      = []string{"primary", "residential", "secondary", "service", "trunk", "unclassified", "footway", "cycleway", "construction", "path", "motorway", "pedestrian"}
	c30WeightStrings = []string{"2", "0.5", "1e1", "x", "0", "3.25", " 2", "1"}
)

func c30WayTags(r *core.R) []b6.Tag {
	var tags []b6.Tag
	add := func(k, v string) { tags = append(tags, b6.Tag{Key: k, Value: b6.NewStringExpression(v)}) }
	switch k := r.Intn(20); {
	case k < 17:
		add("#highway", core.Pick(r, c30Highways))
	case k < 18:
		add("diagonal", "connection")
	default: // no highway tag at all: unusable for every built-in weighting
	}
	switch k := r.Intn(20); {
	case k < 5:
		add("oneway", "yes")
		if r.Chance(0.2) {
			add("oneway:bus", "no")
		}
	case k < 6:
		add("oneway", "no")
	}
	if r.Chance(0.1) {
		add("access", "no")
		if r.Bool() {
			add("bus", "yes")
		}
	}
	if r.Chance(0.25) {
		add("diagonal:weight", core.Pick(r, c30WeightStrings))
	}
	// tags read by the harness Weights (c30Hops)
	add("hw", fmt.Sprint(r.Range(1, 5)))
	if r.Chance(0.15) {
		add("hu", "no")
	}
	switch k := r.Intn(10); {
	case k < 2:
		add("hd", "fwd")
	case k < 3:
		add("hd", "rev")
	}
	return tags
}

// c30Network generates a network. Only loopy networks contain streets that
// visit a point twice (closed streets, self-touching walks); the others contain
// at most closed building outlines.
func c30Network(r *core.R, loopy bool) *c30Net {
	n := &c30Net{}
	cx, cy := int64(515300000+r.Intn(20000)), int64(-1200000+r.Intn(20000))
	nextPoint, nextWay := uint64(1000), uint64(5000)
	newPoint := func(dx, dy int64) *wm.Spec {
		nextPoint += uint64(1 + r.Intn(3))
		p := &wm.Spec{ID: b6.FeatureID{Type: b6.FeatureTypePoint, Namespace: b6.NamespaceOSMNode, Value: nextPoint}, LL: wm.E7(cx+dx, cy+dy)}
		if r.Chance(0.12) {
			p.Tags = []b6.Tag{{Key: core.Pick(r, []string{"#amenity", "name", "ele", "@ref"}), Value: b6.NewStringExpression(core.Pick(r, []string{"cafe", "x", "12"}))}}
		}
		n.points = append(n.points, p)
		return p
	}
	newWay := func() *wm.Spec {
		nextWay += uint64(1 + r.Intn(3))
		w := &wm.Spec{ID: b6.FeatureID{Type: b6.FeatureTypePath, Namespace: b6.NamespaceOSMWay, Value: nextWay}}
		n.ways = append(n.ways, w)
		return w
	}
	// points on distinct cells of a 7x7 grid (about 100 m x 60 m cells), jittered
	np := r.Range(4, 22)
	cells := r.Perm(49)
	for i := 0; i < np; i++ {
		gx, gy := int64(cells[i]%7), int64(cells[i]/7)
		newPoint(gx*9000+int64(r.Intn(5000)), gy*9000+int64(r.Intn(5000)))
	}
	used := map[b6.FeatureID]int{}
	var usedList []*wm.Spec
	use := func(p *wm.Spec) {
		if used[p.ID] == 0 {
			usedList = append(usedList, p)
		}
		used[p.ID]++
	}
	nw := r.Range(2, 12)
	rings := 0
	for wi := 0; wi < nw; wi++ {
		switch k := r.Intn(20); {
		case k < 3 && rings < 3: // a closed way, counter-clockwise, over fresh points; later ways may attach to them
			rings++
			w := newWay()
			k := r.Range(3, 6)
			ox, oy := int64(70000+rings*15000), int64(r.Intn(60000))
			phase := r.Float() * 2 * math.Pi
			var ring []*wm.Spec
			for i := 0; i < k; i++ {
				a := phase + 2*math.Pi*float64(i)/float64(k)
				rr := 2500 * (0.7 + 0.3*r.Float())
				ring = append(ring, newPoint(ox+int64(rr*math.Sin(a)), oy+int64(rr*math.Cos(a))))
			}
			for _, p := range ring {
				w.Path = append(w.Path, wm.Elem{Ref: p.ID})
				use(p)
			}
			w.Path = append(w.Path, wm.Elem{Ref: ring[0].ID})
			n.loops++
			if !loopy || r.Chance(0.4) {
				// a building: the ring itself is not a street
				w.Tags = []b6.Tag{{Key: "hu", Value: b6.NewStringExpression("no")}, {Key: "hw", Value: b6.NewStringExpression("1")}}
				a := &wm.Spec{ID: b6.FeatureID{Type: b6.FeatureTypeArea, Namespace: b6.NamespaceOSMWay, Value: w.ID.Value},
					Tags:  []b6.Tag{{Key: "#building", Value: b6.NewStringExpression("yes")}},
					Polys: []wm.Poly{{PathIDs: []b6.FeatureID{w.ID}}}}
				n.areas = append(n.areas, a)
				n.buildings = append(n.buildings, a)
			} else {
				w.Tags = c30WayTags(r)
				if r.Chance(0.3) {
					// a pedestrian square: the ring is a street and an area
					a := &wm.Spec{ID: b6.FeatureID{Type: b6.FeatureTypeArea, Namespace: b6.NamespaceOSMWay, Value: w.ID.Value},
						Tags:  []b6.Tag{{Key: "#leisure", Value: b6.NewStringExpression("park")}},
						Polys: []wm.Poly{{PathIDs: []b6.FeatureID{w.ID}}}}
					n.areas = append(n.areas, a)
				}
			}
		case k < 6 && len(usedList) > 0: // a dead-end stub off the network
			w := newWay()
			w.Tags = c30WayTags(r)
			a := core.Pick(r, usedList)
			b := newPoint(int64(r.Intn(60000)), int64(-9000-r.Intn(9000)))
			if r.Bool() {
				w.Path = []wm.Elem{{Ref: a.ID}, {Ref: b.ID}}
			} else {
				w.Path = []wm.Elem{{Ref: b.ID}, {Ref: a.ID}}
			}
			use(a)
			use(b)
		default: // an open walk over the point pool
			w := newWay()
			w.Tags = c30WayTags(r)
			k := r.Range(2, 7)
			if !loopy && k > len(n.points) {
				k = len(n.points)
			}
			var walk []*wm.Spec
			twice := false
			for len(walk) < k {
				var p *wm.Spec
				switch {
				case len(walk) == 0 && len(usedList) > 0 && r.Chance(0.75):
					p = core.Pick(r, usedList)
				case loopy && len(walk) >= 2 && r.Chance(0.15):
					p = walk[r.Intn(len(walk)-1)] // revisit an earlier point of this way
				case len(usedList) > 0 && r.Chance(0.3):
					p = core.Pick(r, usedList)
				default:
					p = core.Pick(r, n.points)
				}
				if len(walk) > 0 && walk[len(walk)-1].ID == p.ID {
					continue
				}
				if len(walk) == k-1 && walk[0].ID == p.ID {
					continue // never close a walk: closed ways are generated explicitly
				}
				again := false
				for _, q := range walk {
					if q.ID == p.ID {
						again = true
					}
				}
				if again && !loopy {
					continue
				}
				twice = twice || again
				walk = append(walk, p)
			}
			if twice {
				n.twice++
			}
			for _, p := range walk {
				w.Path = append(w.Path, wm.Elem{Ref: p.ID})
				use(p)
			}
		}
	}
	for _, w := range n.ways {
		for _, t := range w.Tags {
			if t.Key == "oneway" && t.Value.String() == "yes" {
				n.oneway++
			}
		}
	}
	for _, c := range used {
		if c >= 2 {
			n.shared++
		}
	}
	for _, p := range n.points {
		if len(p.Tags) > 0 {
			n.tagged++
		}
	}
	n.specs = append(n.specs, n.points...)
	n.specs = append(n.specs, n.ways...)
	n.specs = append(n.specs, n.areas...)
	return n
}

func (n *c30Net) String() string {
	var sb strings.Builder
	for _, s := range n.specs {
		sb.WriteString(s.String() + "|")
	}
	return sb.String()
}

// c30DenseNetwork generates a dense network: 8..14 junctions joined by 18..40
// two-point streets with varied weights, so that a search has a large frontier
// and lowers the distance of queued points many times.
func c30DenseNetwork(r *core.R) *c30Net {
	n := &c30Net{dense: true}
	cx, cy := int64(515300000+r.Intn(20000)), int64(-1200000+r.Intn(20000))
	np := r.Range(8, 14)
	cells := r.Perm(49)
	for i := 0; i < np; i++ {
		gx, gy := int64(cells[i]%7), int64(cells[i]/7)
		n.points = append(n.points, &wm.Spec{ID: b6.FeatureID{Type: b6.FeatureTypePoint, Namespace: b6.NamespaceOSMNode, Value: uint64(1000 + 2*i)},
			LL: wm.E7(cx+gx*9000+int64(r.Intn(5000)), cy+gy*9000+int64(r.Intn(5000)))})
	}
	seen := map[[2]int]bool{}
	used := map[int]int{}
	nw := r.Range(18, 40)
	for wi := 0; wi < nw; wi++ {
		a, b := r.Intn(np), r.Intn(np)
		if wi < np { // a spanning chain first, so that most junctions are connected
			a, b = wi, (wi+1)%np
		}
		if a == b || seen[[2]int{a, b}] || seen[[2]int{b, a}] {
			continue
		}
		seen[[2]int{a, b}] = true
		w := &wm.Spec{ID: b6.FeatureID{Type: b6.FeatureTypePath, Namespace: b6.NamespaceOSMWay, Value: uint64(5000 + 2*wi)}, Tags: c30WayTags(r),
			Path: []wm.Elem{{Ref: n.points[a].ID}, {Ref: n.points[b].ID}}}
		for ti := range w.Tags { // a wide range of integer weights for the harness weighting
			if w.Tags[ti].Key == "hw" {
				w.Tags[ti].Value = b6.NewStringExpression(fmt.Sprint(r.Range(1, 40)))
			}
		}
		if r.Chance(0.25) && np > 4 { // a longer street through a third junction
			m := r.Intn(np)
			if m != a && m != b {
				w.Path = []wm.Elem{{Ref: n.points[a].ID}, {Ref: n.points[m].ID}, {Ref: n.points[b].ID}}
				used[m]++
			}
		}
		used[a]++
		used[b]++
		n.ways = append(n.ways, w)
	}
	for _, w := range n.ways {
		for _, t := range w.Tags {
			if t.Key == "oneway" && t.Value.String() == "yes" {
				n.oneway++
			}
		}
	}
	for _, c := range used {
		if c >= 2 {
			n.shared++
		}
	}
	n.specs = append(n.specs, n.points...)
	n.specs = append(n.specs, n.ways...)
	return n
}
