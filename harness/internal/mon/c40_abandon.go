package mon

import (
	"context"
	"fmt"
	"sync"
	"sync/atomic"
	"time"

	"diagonal.works/b6"
	"diagonal.works/b6/api"
	b6grpc "diagonal.works/b6/grpc"
	"diagonal.works/b6/ingest"
	pb "diagonal.works/b6/proto"

	"verif/internal/core"
)

// The "abandon" sub-workload of C40: requests whose result is a lazily filled
// collection of which only a prefix is consumed (take n of a map-parallel over a
// search), mixed with changes to the features the search walks. map-parallel
// fills its result from goroutines of its own; the serial-order property needs
// them to be gone (or at least to have stopped touching the world) by the time
// the request's read lock is released, because the next change takes the write
// lock on the assumption that nobody reads.
//
// Observed: (a) the lock-state probe of the wrapped world - a read of the world
// (FindFeatureByID from the mapped function, Next of the search iterator) while
// the service lock can be taken for writing; (b) the race detector (this monitor
// runs in the race build); (c) a fatal "concurrent map read and map write" or a
// "World modified during query" panic, which end the child and are triaged as a
// crash of this case. The request's context is cancelled when Evaluate returns,
// as the gRPC server does.

const c40abandonPoints = 80

func c40abandonBase() *ingest.BasicMutableWorld {
	w := fSmallBasicWorld()
	for i := 0; i < c40abandonPoints; i++ {
		p := fPoint(uint64(1000+i), 51.5300+float64(i)*1e-5, -0.1300, fStrTag("#amenity", "cafe"), fStrTag("name", fmt.Sprintf("n%d", i)))
		if err := w.AddFeature(p); err != nil {
			panic("harness: " + err.Error())
		}
	}
	return w
}

func c40abandonRequest(e b6.Expression) *pb.EvaluateRequestProto {
	p, err := e.ToProto()
	if err != nil {
		panic("harness: request does not convert to a proto: " + err.Error())
	}
	return &pb.EvaluateRequestProto{Request: p, Version: b6.ApiVersion, Root: b6.NewProtoFromFeatureID(c40worldID(0))}
}

func c40abandon(c *core.Ctx) {
	r := c.R
	cores := r.Range(2, 4)
	nReaders, nWriters := r.Range(1, 3), r.Range(0, 2)
	perClient := r.Range(3, 8)
	take := r.Range(1, 3)
	var delays []uint8
	for i := 0; i < 32; i++ {
		delays = append(delays, core.Pick(r, []uint8{0, 0, 0, 1, 1, 2}))
	}
	c.Key("abandon|cores=%d readers=%d writers=%d n=%d take=%d delays=%v", cores, nReaders, nWriters, perClient, take, delays)
	witness := map[string]any{"sub_workload": "abandon", "cores": cores, "readers": nReaders, "writers": nWriters, "requests_per_client": perClient, "take": take,
		"reader_request": fmt.Sprintf("take (map-parallel (find (keyed \"#amenity\")) {f -> get-string (find-feature f) \"name\"}) %d", take),
		"writer_request": "add-tag /point/verif.test/f/<1000+i> (tag \"#amenity\" <v>)"}

	var lock sync.RWMutex
	probe := &c40probe{script: delays, lock: &lock}
	worlds := &c40worlds{inner: &ingest.MutableWorlds{Base: c40abandonBase()}, p: probe}
	service := b6grpc.NewB6Service(worlds, api.Options{Cores: cores}, &lock)

	reader := c40abandonRequest(xCall("take",
		xCall("map-parallel", xCall("find", xCall("keyed", xStr("#amenity"))),
			xLambda([]string{"f"}, xCall("get-string", xCall("find-feature", xSym("f")), xStr("name")))),
		xInt(take)))
	var replies, changes, errs atomic.Int64
	var firstErr atomic.Value
	evaluate := func(req *pb.EvaluateRequestProto) {
		ctx, cancel := context.WithCancel(context.Background())
		_, err := service.Evaluate(ctx, req)
		cancel() // the gRPC server cancels a request's context when its handler returns
		if err != nil {
			errs.Add(1)
			firstErr.CompareAndSwap(nil, err.Error())
		}
	}
	var panics []string
	var pl sync.Mutex
	rep := core.Watch(func() {
		var wg sync.WaitGroup
		for cl := 0; cl < nReaders+nWriters; cl++ {
			wg.Add(1)
			go func(cl int) {
				defer wg.Done()
				panicked, class, frame, _ := core.Protect(func() {
					for i := 0; i < perClient; i++ {
						if cl < nReaders {
							evaluate(reader)
							replies.Add(1)
						} else {
							id := fPointID(uint64(1000 + (i*7+cl*13)%c40abandonPoints))
							evaluate(c40abandonRequest(xCall("add-tag", xID(id), xTag("#amenity", fmt.Sprintf("v%d.%d", cl, i)))))
							changes.Add(1)
						}
					}
				})
				if panicked {
					pl.Lock()
					panics = append(panics, frame+":"+class)
					pl.Unlock()
				}
			}(cl)
		}
		wg.Wait()
	}, 20*time.Second, 100*time.Second)
	if rep.Verdict != core.Completed {
		witness["goroutines"] = rep.Dump
		if rep.Verdict == core.Quiescent {
			c.Violate("abandon:deadlock@"+rep.Frame, witness, "the clients never finished and every goroutine is parked")
		} else {
			c.Inconclusive("clients still running after the cap (top frame " + rep.Frame + ")")
		}
		c.RequestRestart()
		return
	}
	for _, p := range panics {
		c.Violate("abandon:panic@"+p, witness, "a client's request panicked: %s", p)
	}
	if e, _ := firstErr.Load().(string); e != "" {
		c.Violate("abandon:error", witness, "%d requests failed, first: %s", errs.Load(), e)
	}
	c.Count("histories_checked")
	c.Add("abandoned_results", int(replies.Load()))
	c.Add("abandon_changes", int(changes.Load()))
	c.Add("boundary_delays", int(probe.delays.Load()))
	c.Add("mutations_under_write_lock", int(probe.mutateExclusive.Load()))
	c.Add("reads_under_lock", int(probe.readLocked.Load()))
	if nWriters > 0 {
		c.Nontrivial()
	}
	if n := probe.mutateShared.Load(); n > 0 {
		method, _ := probe.firstSharedMutation.Load().(string)
		c.Violate("abandon:mutation-without-write-lock:"+method, witness,
			"%d calls of mutating world methods (first: %s) happened while the service lock could be acquired for reading", n, method)
	}
	if n := probe.readUnlocked.Load(); n > 0 {
		c.Violate("abandon:read-without-lock", witness,
			"%d reads of the world (by the goroutines of a map-parallel whose result was not consumed to the end) happened while nobody held the service lock", n)
	}
}
