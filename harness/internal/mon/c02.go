package mon

import (
	"context"
	"fmt"
	"runtime"
	"sort"
	"strings"
	"time"

	"diagonal.works/b6"
	"diagonal.works/b6/ingest"
	"diagonal.works/b6/ingest/compact"
	"diagonal.works/b6/osm"
	"github.com/golang/geo/s1"
	"github.com/golang/geo/s2"
	"verif/internal/core"
	"verif/internal/obs"
)

// C02 Compact world answers every query like the in-memory world.
//
// Oracle: differential. One G-OSM input (c29_osmgen.go) is built into the
// in-memory world (BuildWorldFromOSM) and into a compact index
// (NewFeatureSourceFromPBF -> compact.BuildInMemory -> NewWorldFromData); both
// are observed with obs.Take over the same probes (every ID the input
// mentions, absent IDs, tag / key / type / spatial queries); any difference
// between the dumps is a violation. Neither side is trusted; the C29 rule
// model of the input is used only to classify a difference by shape
// (c02_triage.go) and is shown in the witness for orientation.

// c02relationsFirst is an OSM source that delivers relations before ways (the
// PBF format recommends nodes, ways, relations, but does not demand it, and
// extracts stitched from several files come in any order).
type c02relationsFirst struct {
	ingest.MemoryOSMSource
}

func (s *c02relationsFirst) Read(options osm.ReadOptions, emit osm.EmitWithGoroutine, ctx context.Context) error {
	nodes, ways, relations := options, options, options
	nodes.SkipWays, nodes.SkipRelations = true, true
	relations.SkipNodes, relations.SkipWays = true, true
	ways.SkipNodes, ways.SkipRelations = true, true
	for _, o := range []osm.ReadOptions{nodes, relations, ways} {
		if err := s.MemoryOSMSource.Read(o, emit, ctx); err != nil {
			return err
		}
	}
	return nil
}

func c02BuildCompact(in *c29Input, relationsFirst bool) (*compact.World, error) {
	ns, ws, rs := c29Copy(in)
	var osmSource ingest.OSMSource = &ingest.MemoryOSMSource{Nodes: ns, Ways: ws, Relations: rs}
	if relationsFirst {
		osmSource = &c02relationsFirst{ingest.MemoryOSMSource{Nodes: ns, Ways: ws, Relations: rs}}
	}
	src, err := ingest.NewFeatureSourceFromPBF(osmSource, &ingest.BuildOptions{Cores: 1}, context.Background())
	if err != nil {
		return nil, err
	}
	data, err := compact.BuildInMemory(src, &compact.Options{Goroutines: 1, PointsScratchOutputType: compact.OutputTypeMemory})
	if err != nil {
		return nil, err
	}
	return compact.NewWorldFromData(data)
}

// c02Probes derives the probe IDs and queries from the input.
func c02Probes(r *core.R, in *c29Input, m *c29Model) obs.Probes {
	p := obs.Probes{What: obs.All}
	seen := map[b6.FeatureID]bool{}
	add := func(id b6.FeatureID) {
		if !seen[id] {
			seen[id] = true
			p.IDs = append(p.IDs, id)
		}
	}
	for _, id := range m.IDs {
		add(id)
	}
	// everything a relation mentions, present or not, under both candidate types
	for _, rel := range in.Relations {
		for _, mem := range rel.Members {
			switch mem.Type {
			case osm.ElementTypeNode:
				add(c29PointID(osm.NodeID(mem.ID)))
			case osm.ElementTypeWay:
				add(c29PathID(osm.WayID(mem.ID)))
				add(c29WayAreaID(osm.WayID(mem.ID)))
			case osm.ElementTypeRelation:
				add(c29RelID(osm.RelationID(mem.ID)))
				add(c29RelAreaID(osm.RelationID(mem.ID)))
			}
		}
	}
	// IDs of the wrong type for an existing number, and absent IDs
	for _, w := range in.Ways {
		add(c29WayAreaID(w.ID)) // an area ID for an open way is absent
	}
	for _, rel := range in.Relations {
		add(c29RelID(rel.ID))
		add(c29RelAreaID(rel.ID))
	}
	add(c29PointID(424242))
	add(c29PathID(424242))
	add(b6.FeatureID{Type: b6.FeatureTypePoint, Namespace: "example.com/absent", Value: 1})
	add(b6.FeatureID{Type: b6.FeatureTypeCollection, Namespace: "openstreetmap.org/way", Value: 1})

	q := func(name string, query b6.Query) {
		p.Queries = append(p.Queries, obs.NamedQuery{Name: name, Query: query})
	}
	q("all", b6.All{})
	q("empty", b6.Empty{})
	for _, t := range []b6.FeatureType{b6.FeatureTypePoint, b6.FeatureTypePath, b6.FeatureTypeArea, b6.FeatureTypeRelation} {
		q("typed:"+t.String(), b6.Typed{Type: t, Query: b6.All{}})
	}
	// tag and key queries over the tags that occur
	type kv struct{ k, v string }
	var kvs []kv
	seenKV := map[kv]bool{}
	collect := func(tags osm.Tags) {
		for _, t := range tags {
			x := kv{c29MapKey(t.Key), t.Value}
			if !seenKV[x] {
				seenKV[x] = true
				kvs = append(kvs, x)
			}
		}
	}
	for _, n := range in.Nodes {
		collect(n.Tags)
	}
	for _, w := range in.Ways {
		collect(w.Tags)
	}
	for _, rel := range in.Relations {
		collect(rel.Tags)
	}
	sort.Slice(kvs, func(i, j int) bool { return kvs[i].k < kvs[j].k || kvs[i].k == kvs[j].k && kvs[i].v < kvs[j].v })
	seenK := map[string]bool{}
	var tagged []b6.Query
	for _, x := range kvs {
		tq := b6.Tagged{Key: x.k, Value: b6.NewStringExpression(x.v)}
		q(fmt.Sprintf("tagged:%s=%q", x.k, x.v), tq)
		tagged = append(tagged, tq)
		if !seenK[x.k] {
			seenK[x.k] = true
			q("keyed:"+x.k, b6.Keyed{Key: x.k})
			if !strings.HasPrefix(x.k, "#") && !strings.HasPrefix(x.k, "@") {
				q("keyed:#"+x.k, b6.Keyed{Key: "#" + x.k})
			}
		}
	}
	q("keyed:#absent", b6.Keyed{Key: "#absent"})
	for i := 0; i+1 < len(tagged) && i < 6; i += 2 {
		q(fmt.Sprintf("and:%d", i), b6.Intersection{tagged[i], tagged[i+1]})
		q(fmt.Sprintf("or:%d", i), b6.Union{tagged[i], tagged[i+1]})
		q(fmt.Sprintf("typed-or:%d", i), b6.Typed{Type: b6.FeatureTypeArea, Query: b6.Union{tagged[i], tagged[i+1]}})
	}
	// spatial queries around nodes of the input
	for i := 0; i < 4 && len(in.Nodes) > 0; i++ {
		n := core.Pick(r, in.Nodes)
		centre := s2.PointFromLatLng(s2.LatLngFromDegrees(n.Location.Lat, n.Location.Lng))
		metres := []float64{0.5, 20, 300, 5000, 100000}[r.Intn(5)]
		q(fmt.Sprintf("cap:n%d:%gm", n.ID, metres), b6.NewIntersectsCap(s2.CapFromCenterAngle(centre, s1.Angle(metres/6371010.0))))
		level := []int{30, 21, 16, 12, 6}[r.Intn(5)]
		q(fmt.Sprintf("cell:n%d:L%d", n.ID, level), b6.NewIntersectsCellID(s2.CellIDFromLatLng(s2.LatLngFromDegrees(n.Location.Lat, n.Location.Lng)).Parent(level)))
		q(fmt.Sprintf("point:n%d", n.ID), b6.IntersectsPoint{Point: centre})
		q(fmt.Sprintf("typed-cap:n%d:%gm", n.ID, metres), b6.Typed{Type: b6.FeatureTypeArea, Query: b6.NewIntersectsCap(s2.CapFromCenterAngle(centre, s1.Angle(metres/6371010.0)))})
	}
	// intersects-feature for a few paths and areas
	var shapes []b6.FeatureID
	for _, id := range m.IDs {
		if (id.Type == b6.FeatureTypePath || id.Type == b6.FeatureTypeArea) && !m.F[id].Broken {
			shapes = append(shapes, id)
		}
	}
	for i := 0; i < 3 && len(shapes) > 0; i++ {
		id := core.Pick(r, shapes)
		q("intersects-feature:"+id.String(), b6.IntersectsFeature{ID: id})
	}
	return p
}

func c02QueryKind(name string) string {
	if i := strings.IndexByte(name, ':'); i > 0 {
		name = name[:i]
	}
	return name
}

func init() {
	core.Register(&core.Monitor{
		ID:        "C02",
		Title:     "Compact world answers every query like the in-memory world",
		Technique: "differential monitor: canonical observation dumps of the in-memory and the compact world built from one generated OSM-shaped input; differences triaged by shape against the input's reference graph",
		Rule: "case = one G-OSM input (as C29) built both ways, probed with every ID it mentions (present, missing, wrong-typed, absent) and with all/typed/tagged/keyed/and/or/cap/cell/point/" +
			"intersects-feature queries; distinct = distinct input text; non-trivial = the input has a point on >= 2 paths, an untagged interior node and a relation or multipolygon",
		Assumptions: []string{"point coordinates are E7-exact and dumps render points at E7, so quantisation cannot cause a difference",
			"FindFeatures results are compared in order; references, relations, areas-by-point and traversal segments as sets with multiplicity",
			"the reference graph used for triage comes from the C29 rule model; it only names the shape of a difference, it never decides that there is one"},
		Quick: 128, Thorough: 1500,
		MaxParallel: 16,
		CaseCap:     10 * time.Minute, // one compact build costs 0.2-0.6 s alone but has been seen to take 45 s on a loaded machine
		Required: []string{"source_relations_before_ways", "probe_point_on_0_paths", "probe_point_on_1_path", "probe_point_on_2plus_paths", "interior_node_tagged", "interior_node_untagged",
			"closed_ways", "closed_ways_cw", "multipolygons", "multipolygons_with_holes", "multipolygons_several_outers", "relations_of_relations", "relations_with_missing_members",
			"multipolygons_unassemblable", "tags_not_searchable", "tags_searchable", "probe_ids", "probe_queries", "find_nonempty", "traverse_nonempty", "refs_nonempty", "areas_by_point_nonempty",
			"traverse_multi_hop_segments"},
		// the compact builder spins up workers per P and collapses on an oversubscribed machine
		// (one build: 0.3 s alone, up to 400 s with 16 children x 16 Ps on a loaded box)
		Setup: func(tier string) { runtime.GOMAXPROCS(2) },
		Run: func(c *core.Ctx) {
			r := c.R
			in := c29Generate(r.Fork(), c29DefaultOpts())
			m := c29Expect(in)
			c.Key("%s", in.String())
			if c.Index < 2 {
				c.Sample(in.Witness())
			}
			// ---- build both worlds
			var basic b6.World
			var cw *compact.World
			var err error
			ns, ws, rs := c29Copy(in)
			t0 := time.Now()
			if p, class, frame, _ := core.Protect(func() { basic, err = ingest.BuildWorldFromOSM(ns, ws, rs, &ingest.BuildOptions{Cores: 1}) }); p {
				c.Violate("build:basic-panics@"+frame, in.Witness(), "BuildWorldFromOSM panicked: %s", class)
				return
			}
			if err != nil {
				c.Violate("build:basic-fails", in.Witness(), "BuildWorldFromOSM failed on a valid input: %v", err)
				return
			}
			c.Max("ms_build_basic", time.Since(t0).Milliseconds()) // reporting only, never part of a verdict
			t0 = time.Now()
			relationsFirst := c.Index%4 == 2
			if relationsFirst {
				c.Count("source_relations_before_ways")
			}
			if p, class, frame, _ := core.Protect(func() { cw, err = c02BuildCompact(in, relationsFirst) }); p {
				c.Violate("build:compact-panics@"+frame, in.Witness(), "building the compact index panicked: %s", class)
				return
			}
			if err != nil {
				c.Violate("build:compact-fails:"+core.PanicClass(err), in.Witness(), "building the compact index failed on an input the in-memory world accepts: %v", err)
				return
			}
			c.Max("ms_build_compact", time.Since(t0).Milliseconds())
			// ---- mechanism counters from the input
			absent := map[b6.FeatureID]bool{}
			for _, id := range m.IDs {
				if m.F[id].Broken && !basic.HasFeatureWithID(id) {
					absent[id] = true
					c.Count("multipolygons_unassemblable")
				}
			}
			g := c02NewGraph(m, absent)
			multi, untaggedInterior, relOrMP := false, false, false
			for _, id := range m.IDs {
				f := m.F[id]
				switch f.Kind {
				case "point":
					switch n := len(g.onPaths[id]); {
					case n == 0:
						c.Count("probe_point_on_0_paths")
					case n == 1:
						c.Count("probe_point_on_1_path")
					default:
						c.Count("probe_point_on_2plus_paths")
						multi = true
					}
				case "open-path", "closed-path":
					for i := 1; i+1 < len(f.Nodes); i++ {
						if len(g.onPaths[f.Nodes[i]]) > 1 {
							continue
						}
						if len(m.F[f.Nodes[i]].Tags) > 0 {
							c.Count("interior_node_tagged")
						} else {
							c.Count("interior_node_untagged")
							untaggedInterior = true
						}
					}
					if f.Kind == "closed-path" {
						c.Count("closed_ways")
						if f.CW {
							c.Count("closed_ways_cw")
						}
					}
				case "multipolygon-area":
					if f.Broken {
						break
					}
					relOrMP = true
					c.Count("multipolygons")
					if len(f.Polys) > 1 {
						c.Count("multipolygons_several_outers")
					}
					for _, p := range f.Polys {
						if len(p) > 1 {
							c.Count("multipolygons_with_holes")
							break
						}
					}
				case "relation":
					relOrMP = true
					for _, cl := range f.MemberClass {
						if cl == "relation" {
							c.Count("relations_of_relations")
						}
						if strings.HasPrefix(cl, "missing-") {
							c.Count("relations_with_missing_members")
						}
					}
				}
				for _, t := range f.Tags {
					if strings.HasPrefix(t, `"#`) || strings.HasPrefix(t, `"@`) {
						c.Count("tags_searchable")
					} else {
						c.Count("tags_not_searchable")
					}
				}
			}
			if multi && untaggedInterior && relOrMP {
				c.Nontrivial()
			}
			// ---- observe
			probes := c02Probes(r, in, m)
			c.Add("probe_ids", len(probes.IDs))
			c.Add("probe_queries", len(probes.Queries))
			t0 = time.Now()
			da := obs.Take(basic, probes)
			c.Max("ms_observe_basic", time.Since(t0).Milliseconds())
			t0 = time.Now()
			db := obs.Take(cw, probes)
			c.Max("ms_observe_compact", time.Since(t0).Milliseconds())
			for _, k := range da.Keys {
				v := da.M[k]
				switch {
				case strings.HasPrefix(k, "find ") && v != "[]":
					c.Count("find_nonempty")
				case strings.HasPrefix(k, "traverse ") && v != "[]":
					c.Count("traverse_nonempty")
					for _, seg := range strings.Fields(strings.Trim(v, "[]")) {
						var a, b int
						if i := strings.LastIndexByte(seg, ':'); i > 0 {
							if _, err := fmt.Sscanf(seg[i+1:], "%d-%d", &a, &b); err == nil && (a-b > 1 || b-a > 1) {
								c.Count("traverse_multi_hop_segments")
							}
						}
					}
				case strings.HasPrefix(k, "refs ") && v != "[]":
					c.Count("refs_nonempty")
				case strings.HasPrefix(k, "areas ") && v != "[]":
					c.Count("areas_by_point_nonempty")
				case strings.HasPrefix(k, "relations ") && v != "[]":
					c.Count("relations_nonempty")
				}
			}
			diffs := da.Diff(db)
			if len(diffs) == 0 {
				return
			}
			c.Add("differences", len(diffs))
			// ---- triage: one violation per signature per case
			nodesOf := func(w b6.World) func(b6.FeatureID) []b6.FeatureID {
				return func(path b6.FeatureID) []b6.FeatureID {
					var out []b6.FeatureID
					core.Protect(func() {
						if p, ok := w.FindFeatureByID(path).(b6.PhysicalFeature); ok && p != nil {
							for i := 0; i < p.GeometryLen(); i++ {
								out = append(out, p.Reference(i).Source())
							}
						}
					})
					return out
				}
			}
			parseID := func(s string) b6.FeatureID {
				for _, id := range probes.IDs {
					if id.String() == s {
						return id
					}
				}
				return b6.FeatureIDInvalid
			}
			kindOf := func(id b6.FeatureID) string {
				if f, ok := m.F[id]; ok {
					k := f.Kind
					if f.Broken {
						k = "unassemblable-multipolygon"
					}
					if f.Kind == "closed-path" && f.CW {
						k = "closed-path-listed-clockwise"
					}
					return k
				}
				return "id-not-in-input:" + id.Type.String()
			}
			reported := map[string]bool{}
			for _, d := range diffs {
				section, rest, _ := strings.Cut(d.Key, " ")
				var sig string
				extra := map[string]any{}
				switch section {
				case "has":
					id := parseID(rest)
					sig = "HasFeatureWithID:" + kindOf(id) + c02If(d.A == "true", ":only-basic", ":only-compact")
				case "feature":
					id := parseID(rest)
					sig = "FindFeatureByID:" + kindOf(id) + ":" + c02FeatureShape(d.A, d.B)
					if f, ok := m.F[id]; ok {
						extra["rule_expectation"] = fmt.Sprintf("%+v", *f)
					}
				case "loc":
					id := parseID(rest)
					sig = "FindLocationByID:" + kindOf(id)
				case "refs", "relations", "areas", "collections":
					idText, typ, _ := strings.Cut(rest, " ")
					id := parseID(idText)
					call := map[string]string{"refs": "FindReferences", "relations": "FindRelationsByFeature", "areas": "FindAreasByPoint", "collections": "FindCollectionsByFeature"}[section]
					filter := typ
					switch section {
					case "relations":
						filter = "relation"
					case "areas":
						filter = "area"
					case "collections":
						filter = "collection"
					}
					if typ != "" {
						call += "(typed)"
					}
					sig = call + ":" + g.refsShape(id, filter, d.A, d.B)
					var dir, tr []string
					for _, f := range g.direct[id] {
						dir = append(dir, f.String())
					}
					for f := range g.closure(id) {
						tr = append(tr, f.String())
					}
					sort.Strings(dir)
					sort.Strings(tr)
					extra["input_direct_referrers"] = dir
					extra["input_transitive_referrers"] = tr
				case "traverse":
					id := parseID(rest)
					ra, rb := g.traverseRule(id, nodesOf(basic)), g.traverseRule(id, nodesOf(cw))
					sig = "Traverse:" + g.traverseShape(id, d.A, d.B, ra, rb)
					extra["rule_segments_on_basic_paths"] = ra
					extra["rule_segments_on_compact_paths"] = rb
				case "find":
					la, _ := c02ParseList(d.A)
					lb, _ := c02ParseList(d.B)
					sa, sb := append([]string{}, la...), append([]string{}, lb...)
					sort.Strings(sa)
					sort.Strings(sb)
					shape := "different-features"
					if s, ok := c02PanicShape(d.A, d.B); ok {
						shape = s
					} else if strings.Join(sa, " ") == strings.Join(sb, " ") {
						shape = "different-order"
					} else {
						onlyType := map[string]bool{}
						am, _ := c02Set(la)
						bm, _ := c02Set(lb)
						for x := range am {
							if !bm[x] {
								onlyType["basic-only-"+c02TypeOf(x)] = true
							}
						}
						for x := range bm {
							if !am[x] {
								onlyType["compact-only-"+c02TypeOf(x)] = true
							}
						}
						var ts []string
						for t := range onlyType {
							ts = append(ts, t)
						}
						sort.Strings(ts)
						shape += ":" + strings.Join(ts, "+")
					}
					sig = "FindFeatures:" + c02QueryKind(rest) + ":" + shape
				case "each":
					sig = "EachFeature:" + c02EachShape(d.A, d.B)
				case "tokens":
					sig = "Tokens:differs"
				default:
					sig = "other:" + section
				}
				if reported[sig] {
					continue
				}
				reported[sig] = true
				w := in.Witness()
				w["probe"] = d.Key
				w["in_memory_world"] = d.A
				w["compact_world"] = d.B
				for k, v := range extra {
					w[k] = v
				}
				c.Violate(sig, w, "%s: in-memory world answers %s, compact world answers %s", d.Key, clipText(d.A, 600), clipText(d.B, 600))
			}
		},
	})
}

func clipText(s string, n int) string {
	if len(s) > n {
		return s[:n] + "..."
	}
	return s
}
