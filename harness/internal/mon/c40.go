package mon

import (
	"context"
	"fmt"
	"runtime"
	"sort"
	"strings"
	"sync"
	"sync/atomic"
	"time"

	"diagonal.works/b6"
	"diagonal.works/b6/api"
	"diagonal.works/b6/api/functions"
	b6grpc "diagonal.works/b6/grpc"
	"diagonal.works/b6/ingest"
	pb "diagonal.works/b6/proto"
	"github.com/anishathalye/porcupine"
	"verif/internal/core"
)

// C40 Concurrent client requests behave like some serial order.
//
// A case is a script: 2-4 clients x 3-8 requests over 1-3 world IDs, plus a
// delay script for the wrapped Worlds/MutableWorld boundaries. The requests are
// built as protos before the clients start. Each client records a call event,
// invokes the service method on the shared service object, and records the
// return event with what the reply said; one atomic counter is the clock. After
// the clients are done, a read of every world is appended. The history is
// checked for linearizability with porcupine against c40model. A deadlock is
// decided by core.Watch (every goroutine parked), never by time. The race
// detector build reports data races through the parent.
//
// Sub-workloads (by case index, so that a finding in one cannot mask another):
//   main  Evaluate(read | change) / DeleteWorld / ListWorlds through the grpc service
//   rmw   like main, plus changes whose value is read from the world in the same request
//   awc   one client evaluates add-world-with-change on a world nobody else uses
//   ui    Evaluator.EvaluateString (parses) from several goroutines holding the read lock

var c40featureIDs = [c40nFeatures]b6.FeatureID{fPointID(1), fPathID(1), fPointID(100), fPointID(101)}

// The two tracked tag keys are both plain or both searchable within one script. (Mixing them on a
// base feature runs into a sequential defect of the overlay world that belongs to C12: adding a
// searchable tag copies the base feature into the overlay and drops its earlier plain-tag edits.)
var c40keySets = [2][c40nKeys]string{{"vk0", "vk1"}, {"#vk0", "#vk1"}}

func c40worldID(i int) b6.FeatureID { return fCollectionID(60 + uint64(i)) }

type c40request struct {
	in     c40in
	kind   string // evaluate | delete | list | awc
	expr   b6.Expression
	proto  *pb.EvaluateRequestProto
	text   string // ui: the same request as shell text
	awcFor int    // awc: the world changed (the request's root is another world)
	keys   [c40nKeys]string
}

func c40featureText(f int) string { return "/" + c40featureIDs[f].String() }

func c40editExpr(edits []c40edit, c40keys [c40nKeys]string) (b6.Expression, string) {
	tag := func(e c40edit) (b6.Expression, string) {
		return xTag(c40keys[e.Key], e.Value), fmt.Sprintf("(tag %q %q)", c40keys[e.Key], e.Value)
	}
	if len(edits) == 1 {
		e := edits[0]
		switch e.Kind {
		case "add-tag":
			t, ts := tag(e)
			return xCall("add-tag", xID(c40featureIDs[e.Feature]), t), fmt.Sprintf("add-tag %s %s", c40featureText(e.Feature), ts)
		case "remove-tag":
			return xCall("remove-tag", xID(c40featureIDs[e.Feature]), xStr(c40keys[e.Key])), fmt.Sprintf("remove-tag %s %q", c40featureText(e.Feature), c40keys[e.Key])
		case "add-point":
			t, ts := tag(e)
			return xCall("add-point", xLL(51.5357, -0.1249), xID(c40featureIDs[e.Feature]), xPairs(xInt(0), t)),
				fmt.Sprintf("add-point (ll 51.5357 -0.1249) %s (collection (pair 0 %s))", c40featureText(e.Feature), ts)
		case "copy":
			k := c40keys[e.Key]
			return xCall("add-tag", xID(c40featureIDs[e.Feature]), xCall("tag", xStr(k), xCall("get-string", xID(c40featureIDs[e.Src]), xStr(k)))),
				fmt.Sprintf("add-tag %s (tag %q (get-string %s %q))", c40featureText(e.Feature), k, c40featureText(e.Src), k)
		}
	}
	var kv []b6.Expression
	var parts []string
	for _, e := range edits {
		t, ts := tag(e)
		kv = append(kv, xID(c40featureIDs[e.Feature]), t)
		parts = append(parts, fmt.Sprintf("(pair %s %s)", c40featureText(e.Feature), ts))
	}
	return xCall("add-tags", xPairs(kv...)), "add-tags (collection " + strings.Join(parts, " ") + ")"
}

func c40readExpr() (b6.Expression, string) {
	var kv []b6.Expression
	var parts []string
	for f := 0; f < c40nFeatures; f++ {
		kv = append(kv, xInt(f), xCall("all-tags", xID(c40featureIDs[f])))
		parts = append(parts, fmt.Sprintf("(pair %d (all-tags %s))", f, c40featureText(f)))
	}
	return xPairs(kv...), "collection " + strings.Join(parts, " ")
}

func (r *c40request) build() {
	switch r.kind {
	case "evaluate":
		if r.in.Kind == "read" {
			r.expr, r.text = c40readExpr()
		} else {
			r.expr, r.text = c40editExpr(r.in.Edits, r.keys)
		}
	case "awc":
		e, t := c40editExpr(r.in.Edits, r.keys)
		r.expr = xCall("add-world-with-change", xID(c40worldID(r.awcFor)), e)
		r.text = fmt.Sprintf("add-world-with-change /%s (%s)", c40worldID(r.awcFor), t)
	default:
		return
	}
	p, err := r.expr.ToProto()
	if err != nil {
		panic("harness: request does not convert to a proto: " + err.Error())
	}
	r.proto = &pb.EvaluateRequestProto{Request: p, Version: b6.ApiVersion, Root: b6.NewProtoFromFeatureID(c40worldID(r.in.World))}
}

// c40snapshotOf interprets the value of a read request.
func c40snapshotOf(v any, c40keys [c40nKeys]string) (c40snapshot, string) {
	var s c40snapshot
	c, ok := v.(b6.UntypedCollection)
	if !ok {
		return s, fmt.Sprintf("read result is a %T", v)
	}
	i := c.BeginUntyped()
	n := 0
	for {
		ok, err := i.Next()
		if err != nil {
			return s, err.Error()
		}
		if !ok {
			break
		}
		f, isInt := b6.ToInt(i.Key())
		if !isInt || f < 0 || f >= c40nFeatures {
			return s, fmt.Sprintf("read result has the key %v", i.Key())
		}
		tags, ok := i.Value().(b6.UntypedCollection)
		if !ok {
			return s, fmt.Sprintf("read result has a value of type %T", i.Value())
		}
		j := tags.BeginUntyped()
		for {
			ok, err := j.Next()
			if err != nil {
				return s, err.Error()
			}
			if !ok {
				break
			}
			t, ok := j.Value().(b6.Tag)
			if !ok {
				return s, fmt.Sprintf("tag list holds a %T", j.Value())
			}
			s.Present[f] = true
			for k := range c40keys {
				if t.Key == c40keys[k] {
					s.Val[f][k] = t.Value.String()
				}
			}
		}
		n++
	}
	if n != c40nFeatures {
		return s, fmt.Sprintf("read result has %d entries", n)
	}
	return s, ""
}

func c40idsOf(v any) ([]int, string) {
	c, ok := v.(b6.UntypedCollection)
	if !ok {
		return nil, fmt.Sprintf("change result is a %T", v)
	}
	seen := map[int]bool{}
	i := c.BeginUntyped()
	for {
		ok, err := i.Next()
		if err != nil {
			return nil, err.Error()
		}
		if !ok {
			break
		}
		for _, x := range []any{i.Key(), i.Value()} {
			id, ok := x.(b6.FeatureID)
			if !ok {
				return nil, fmt.Sprintf("change result holds a %T", x)
			}
			found := false
			for f := range c40featureIDs {
				if c40featureIDs[f] == id {
					seen[f] = true
					found = true
				}
			}
			if !found {
				return nil, "change result holds the unexpected ID " + id.String()
			}
		}
	}
	var ids []int
	for f := range seen {
		ids = append(ids, f)
	}
	sort.Ints(ids)
	return ids, ""
}

type c40script struct {
	sub      string
	nWorlds  int
	clients  [][]*c40request
	delays   []uint8
	keys     [c40nKeys]string
	thinking [][]uint8 // per client, per op: pause class before the call
}

func c40genScript(r *core.R, sub string, c *core.Ctx) *c40script {
	s := &c40script{sub: sub, nWorlds: r.Range(1, 3), keys: c40keySets[r.Intn(2)]}
	nClients := r.Range(2, 4)
	if sub == "awc" && s.nWorlds < 2 {
		s.nWorlds = 2
	}
	for i, n := 0, r.Range(8, 24); i < n; i++ {
		s.delays = append(s.delays, core.Pick(r, []uint8{0, 0, 0, 1, 1, 2, 2, 3}))
	}
	uniq := 0
	value := func(client int) string { uniq++; return fmt.Sprintf("c%dn%d", client, uniq) }
	if sub == "firstuse" {
		// every client changes world k in its k-th request, and the clients start each step together (a spin
		// barrier in c40execute): the first use of every world ID is contended, so the lookup-or-create of the
		// worlds registry must hand all clients the same world
		s.nWorlds = 3
		nClients = r.Range(3, 4)
		for cl := 0; cl < nClients; cl++ {
			var ops []*c40request
			var think []uint8
			for w := 0; w < s.nWorlds; w++ {
				req := &c40request{kind: "evaluate", in: c40in{Kind: "change", World: w}}
				req.in.Edits = []c40edit{{Kind: "add-tag", Feature: r.Intn(2), Key: cl % c40nKeys, Value: value(cl)}}
				req.keys = s.keys
				req.build()
				ops = append(ops, req)
				think = append(think, 0)
			}
			s.clients = append(s.clients, ops)
			s.thinking = append(s.thinking, think)
		}
		return s
	}
	for cl := 0; cl < nClients; cl++ {
		var ops []*c40request
		var think []uint8
		for o, n := 0, r.Range(3, 8); o < n; o++ {
			w := r.Intn(s.nWorlds)
			if sub == "awc" {
				// world 0 belongs to client 0's add-world-with-change requests alone
				if cl == 0 {
					w = 0
				} else {
					w = 1 + r.Intn(s.nWorlds-1)
				}
			}
			req := &c40request{kind: "evaluate", in: c40in{World: w}}
			roll := r.Intn(100)
			switch {
			case sub == "awc" && cl == 0:
				req.kind, req.awcFor = "awc", 0
				req.in = c40in{Kind: "awc", World: 1 + r.Intn(s.nWorlds-1)} // the request's root
				req.in.Edits = []c40edit{{Kind: "add-tag", Feature: r.Intn(2), Key: r.Intn(c40nKeys), Value: value(cl)}}
			case roll < 30:
				req.in.Kind = "read"
			case roll < 45: // single add-tag, possibly on a point that may not exist
				req.in.Kind = "change"
				req.in.Edits = []c40edit{{Kind: "add-tag", Feature: r.Intn(c40nFeatures), Key: r.Intn(c40nKeys), Value: value(cl)}}
			case roll < 60: // several features (or keys) in one change: must appear atomically
				req.in.Kind = "change"
				for e, n := 0, r.Range(2, 3); e < n; e++ {
					req.in.Edits = append(req.in.Edits, c40edit{Kind: "add-tag", Feature: r.Intn(2), Key: r.Intn(c40nKeys), Value: value(cl)})
				}
				c.Count("gen_multi_feature_change")
			case roll < 67:
				req.in.Kind = "change"
				f := r.Intn(c40nFeatures)
				if s.keys[0][0] != '#' {
					// plain tags added to a base feature cannot be removed again (sequential defect of
					// MutableOverlayWorld.RemoveTag, C12's subject): only remove from the added points
					f = 2 + r.Intn(2)
				}
				req.in.Edits = []c40edit{{Kind: "remove-tag", Feature: f, Key: r.Intn(c40nKeys)}}
			case roll < 75:
				req.in.Kind = "change"
				req.in.Edits = []c40edit{{Kind: "add-point", Feature: 2 + r.Intn(2), Key: r.Intn(c40nKeys), Value: value(cl)}}
			case roll < 85 && sub != "ui":
				req.kind, req.in.Kind = "delete", "delete"
			case roll < 92 && sub != "ui":
				req.kind, req.in.Kind = "list", "list"
			case sub == "rmw":
				req.in.Kind = "change"
				f := r.Intn(2)
				req.in.Edits = []c40edit{{Kind: "copy", Feature: f, Src: 1 - f, Key: r.Intn(c40nKeys)}}
				c.Count("gen_read_dependent_change")
			default:
				req.in.Kind = "read"
			}
			if sub == "rmw" && req.in.Kind == "read" && r.Chance(0.6) {
				req.in.Kind = "change"
				f := r.Intn(2)
				req.in.Edits = []c40edit{{Kind: "copy", Feature: f, Src: 1 - f, Key: r.Intn(c40nKeys)}}
				c.Count("gen_read_dependent_change")
			}
			req.keys = s.keys
			req.build()
			ops = append(ops, req)
			think = append(think, core.Pick(r, []uint8{0, 0, 1, 2}))
		}
		s.clients = append(s.clients, ops)
		s.thinking = append(s.thinking, think)
	}
	return s
}

func (s *c40script) describe() []string {
	var out []string
	for cl, ops := range s.clients {
		var parts []string
		for _, op := range ops {
			parts = append(parts, op.in.String())
		}
		out = append(out, fmt.Sprintf("client %d: %s", cl, strings.Join(parts, "; ")))
	}
	out = append(out, fmt.Sprintf("keys %v delays %v", s.keys, s.delays))
	return out
}

type c40run struct {
	history []porcupine.Operation
	order   string // the recorded event order
	probe   *c40probe
	hang    *core.HangReport
	panics  []string
}

func c40pause(class uint8) {
	switch class {
	case 1:
		time.Sleep(20 * time.Microsecond)
	case 2:
		time.Sleep(200 * time.Microsecond)
	}
}

// c40execute runs the script once against a fresh service.
func c40execute(s *c40script) *c40run {
	var lock sync.RWMutex
	probe := &c40probe{script: s.delays, lock: &lock}
	inner := &ingest.MutableWorlds{Base: fSmallBasicWorld()}
	worlds := &c40worlds{inner: inner, p: probe}
	service := b6grpc.NewB6Service(worlds, api.Options{Cores: 1}, &lock)
	evaluator := api.Evaluator{Worlds: worlds, FunctionSymbols: functions.Functions(), Adaptors: functions.Adaptors(), Options: api.Options{Cores: 1}, Lock: &lock}
	var clock atomic.Int64
	run := &c40run{probe: probe}
	perClient := make([][]porcupine.Operation, len(s.clients)+1)
	panics := make([]string, len(s.clients)+1)

	do := func(client int, req *c40request) []porcupine.Operation {
		var out c40out
		call := clock.Add(1)
		switch req.kind {
		case "delete":
			_, err := service.DeleteWorld(context.Background(), &pb.DeleteWorldRequestProto{Id: b6.NewProtoFromFeatureID(c40worldID(req.in.World))})
			if err != nil {
				out.Err, out.ErrText = true, err.Error()
			}
		case "list":
			response, err := service.ListWorlds(context.Background(), &pb.ListWorldsRequestProto{})
			ret := clock.Add(1)
			var ops []porcupine.Operation
			for w := 0; w < s.nWorlds; w++ {
				o := c40out{}
				if err != nil {
					o.Err, o.ErrText = true, err.Error()
				} else {
					for _, id := range response.Ids {
						if b6.NewFeatureIDFromProto(id) == c40worldID(w) {
							if o.Listed {
								o.Malformed = "world listed twice: " + c40worldID(w).String()
							}
							o.Listed = true
						}
					}
				}
				ops = append(ops, porcupine.Operation{ClientId: client, Input: c40in{Kind: "list", World: w}, Call: call, Output: o, Return: ret})
			}
			return ops
		default: // evaluate, awc
			var v any
			var err error
			if s.sub == "ui" {
				lock.RLock() // as the UI handlers do
				v, err = evaluator.EvaluateString(req.text, c40worldID(req.in.World))
				if err == nil {
					if a, ok := v.(*api.AppliedChange); ok {
						v = a.Modified
					}
					// the reply is rendered while the read lock is still held
					if req.in.Kind == "read" {
						out.Snapshot, out.Malformed = c40snapshotOf(v, req.keys)
					} else {
						out.IDs, out.Malformed = c40idsOf(v)
					}
				}
				lock.RUnlock()
			} else {
				var response *pb.EvaluateResponseProto
				response, err = service.Evaluate(context.Background(), req.proto)
				if err == nil {
					e, perr := b6.ExpressionFromProto(response.GetResult())
					if perr != nil {
						out.Malformed = "reply does not decode: " + perr.Error()
					} else if l, ok := e.AnyExpression.(b6.CollectionExpression); !ok {
						out.Malformed = fmt.Sprintf("reply is a %T", e.AnyExpression)
					} else if req.in.Kind == "read" {
						out.Snapshot, out.Malformed = c40snapshotOf(l.UntypedCollection, req.keys)
					} else {
						out.IDs, out.Malformed = c40idsOf(l.UntypedCollection)
					}
				}
			}
			if err != nil {
				out.Err, out.ErrText = true, err.Error()
			}
		}
		ret := clock.Add(1)
		if req.kind == "delete" {
			return []porcupine.Operation{{ClientId: client, Input: req.in, Call: call, Output: out, Return: ret}}
		}
		touch := porcupine.Operation{ClientId: client, Input: c40in{Kind: "touch", World: req.in.World}, Call: call, Output: c40out{}, Return: ret}
		if req.kind == "awc" {
			in := c40in{Kind: "awc", World: req.awcFor, Edits: req.in.Edits}
			return []porcupine.Operation{touch, {ClientId: client, Input: in, Call: call, Output: out, Return: ret}}
		}
		return []porcupine.Operation{touch, {ClientId: client, Input: req.in, Call: call, Output: out, Return: ret}}
	}

	rep := core.Watch(func() {
		var wg sync.WaitGroup
		start := make(chan struct{})
		var arrive [8]atomic.Int32
		for cl := range s.clients {
			wg.Add(1)
			go func(cl int) {
				defer wg.Done()
				<-start
				panicked, class, frame, _ := core.Protect(func() {
					for o, req := range s.clients[cl] {
						c40pause(s.thinking[cl][o])
						if s.sub == "firstuse" {
							// all clients begin step o together
							arrive[o].Add(1)
							for spin := 0; arrive[o].Load() < int32(len(s.clients)); spin++ {
								if spin%2000 == 1999 {
									runtime.Gosched()
								}
							}
						}
						perClient[cl] = append(perClient[cl], do(cl, req)...)
					}
				})
				if panicked {
					panics[cl] = frame + ":" + class
				}
			}(cl)
		}
		close(start)
		wg.Wait()
		// final reads of every world
		final := len(s.clients)
		panicked, class, frame, _ := core.Protect(func() {
			for w := 0; w < s.nWorlds; w++ {
				req := &c40request{kind: "evaluate", in: c40in{Kind: "read", World: w}, keys: s.keys}
				req.build()
				perClient[final] = append(perClient[final], do(final, req)...)
			}
		})
		if panicked {
			panics[final] = frame + ":" + class
		}
	}, 20*time.Second, 100*time.Second)
	if rep.Verdict != core.Completed {
		run.hang = &rep
		return run
	}
	for _, p := range panics {
		if p != "" {
			run.panics = append(run.panics, p)
		}
	}
	type ev struct {
		t      int64
		client int
		what   string
	}
	var evs []ev
	for cl, ops := range perClient {
		for _, op := range ops {
			in := op.Input.(c40in)
			if in.Kind == "touch" {
				continue
			}
			run.history = append(run.history, op)
			evs = append(evs, ev{op.Call, cl, "call"}, ev{op.Return, cl, "ret"})
		}
		for _, op := range ops {
			if op.Input.(c40in).Kind == "touch" {
				run.history = append(run.history, op)
			}
		}
	}
	sort.Slice(evs, func(i, j int) bool { return evs[i].t < evs[j].t })
	var sb strings.Builder
	last := int64(-1)
	for _, e := range evs {
		if e.t == last {
			continue // a list request appears once per world with the same timestamps
		}
		last = e.t
		fmt.Fprintf(&sb, "%d%c", e.client, e.what[0])
	}
	run.order = sb.String()
	return run
}

func c40describeHistory(h []porcupine.Operation) []string {
	ops := append([]porcupine.Operation{}, h...)
	sort.Slice(ops, func(i, j int) bool { return ops[i].Call < ops[j].Call })
	var out []string
	for _, op := range ops {
		in := op.Input.(c40in)
		if in.Kind == "touch" {
			continue
		}
		out = append(out, fmt.Sprintf("[%d,%d] client %d: %s -> %s", op.Call, op.Return, op.ClientId, in.String(), op.Output.(c40out).String(in.Kind)))
	}
	return out
}

func init() {
	// the model's extra step for the awc sub-workload: the world is replaced by a fresh one with the change applied
	baseStep := c40model.Step
	c40model.Step = func(state interface{}, input interface{}, output interface{}) (bool, interface{}) {
		in := input.(c40in)
		if in.Kind != "awc" {
			return baseStep(state, input, output)
		}
		out := output.(c40out)
		if out.Malformed != "" {
			return false, state
		}
		s := c40baseState()
		s.exists = true
		ns, ok, ids := c40apply(s, in.Edits)
		if !ok {
			return out.Err, s
		}
		return !out.Err && fmt.Sprint(ids) == fmt.Sprint(out.IDs), ns
	}

	core.Register(&core.Monitor{
		ID:        "C40",
		Title:     "Concurrent client requests behave like some serial order",
		Technique: "recorded client-boundary histories checked for linearizability (porcupine v1.3.0) against a sequential worldID->feature->tags model; deadlock by goroutine quiescence; race detector; lock-state probes at the wrapped world's mutating methods",
		Rule: "case = script of 2-4 clients x 3-8 requests (Evaluate read of all tracked features | Evaluate change with unique tag values: add-tag, multi-feature add-tags, remove-tag, add-point | " +
			"DeleteWorld | ListWorlds) over 1-3 world IDs, with a delay script (none/Gosched/30us/300us) for the wrapped Worlds and MutableWorld method boundaries; each script is run 3 times " +
			"against a fresh service; final reads of every world appended; sub-workloads by case index: main (3/8), abandon (1-3 clients take a prefix of a map-parallel over a search, cores 2-4, while 0-2 clients change the features searched; observed by the lock-state probe, the race detector and process-fatal errors), firstuse (all clients change each fresh world at the same moment), rmw (read-dependent changes), awc (add-world-with-change), ui (Evaluator.EvaluateString); " +
			"distinct = distinct (script, recorded event order of the first run); non-trivial = two requests of different clients on the same world overlapped in time and one of them was a change or a delete",
		Assumptions: []string{"porcupine's checker is correct", "the history is recorded at the client boundary with one atomic counter as clock",
			"one Evaluate is modelled as two atomic steps (world lookup, then access), which is the lock structure of the service"},
		Quick: 160, Thorough: 8000,
		Race: true, RaceThorough: true,
		MaxParallel: 16,
		CaseCap:     15 * time.Minute,
		Required: []string{"histories_checked", "linearizable", "overlap_change_change", "overlap_change_read", "overlap_delete_evaluate", "mutations_under_write_lock",
			"boundary_delays", "sub_main", "sub_firstuse", "sub_rmw", "sub_awc", "sub_ui", "sub_abandon", "abandoned_results", "abandon_changes", "gen_multi_feature_change", "final_state_has_concurrent_writes"},
		Run: func(c *core.Ctx) {
			sub := []string{"main", "main", "firstuse", "main", "abandon", "rmw", "awc", "ui"}[c.Index%8]
			c.Count("sub_" + sub)
			if sub == "abandon" {
				c40abandon(c)
				return
			}
			script := c40genScript(c.R, sub, c)
			if c.Index < 3 {
				c.Sample(script.describe())
			}
			orders := map[string]bool{}
			for rep := 0; rep < 3; rep++ {
				run := c40execute(script)
				witness := map[string]any{"sub_workload": sub, "script": script.describe()}
				if run.hang != nil {
					witness["goroutines"] = run.hang.Dump
					if run.hang.Verdict == core.Quiescent {
						c.Violate(sub+":deadlock@"+run.hang.Frame, witness, "the clients never finished and every goroutine is parked")
					} else {
						c.Inconclusive("clients still running after the cap (top frame " + run.hang.Frame + ")")
					}
					c.RequestRestart()
					return
				}
				witness["history"] = c40describeHistory(run.history)
				for _, p := range run.panics {
					c.Violate(sub+":panic@"+p, witness, "a client's request panicked: %s", p)
				}
				if len(run.panics) > 0 {
					return
				}
				if rep == 0 {
					c.Key("%s|%s", strings.Join(script.describe(), "|"), run.order)
				}
				orders[run.order] = true
				c.Count("histories_checked")
				c.Add("requests", len(run.history))
				// mechanism counters: what overlapped
				for i, a := range run.history {
					ai := a.Input.(c40in)
					if ai.Kind == "touch" {
						continue
					}
					for _, b := range run.history[i+1:] {
						bi := b.Input.(c40in)
						if bi.Kind == "touch" || a.ClientId == b.ClientId || ai.World != bi.World || a.Return < b.Call || b.Return < a.Call {
							continue
						}
						kinds := []string{ai.Kind, bi.Kind}
						sort.Strings(kinds)
						switch kinds[0] + "+" + kinds[1] {
						case "change+change":
							c.Count("overlap_change_change")
							c.Nontrivial()
						case "change+read":
							c.Count("overlap_change_read")
							c.Nontrivial()
						case "change+delete", "delete+read", "delete+delete":
							c.Count("overlap_delete_evaluate")
							c.Nontrivial()
						case "delete+list", "change+list", "list+read":
							c.Count("overlap_list")
						}
					}
				}
				c.Add("boundary_delays", int(run.probe.delays.Load()))
				c.Add("mutations_under_write_lock", int(run.probe.mutateExclusive.Load()))
				c.Add("reads_under_lock", int(run.probe.readLocked.Load()))
				// the final state holds writes of more than one client (the last writes of concurrent clients survived)
				writers := map[byte]bool{}
				for _, op := range run.history {
					if in := op.Input.(c40in); in.Kind == "read" && op.ClientId == len(script.clients) {
						snap := op.Output.(c40out).Snapshot
						for f := range snap.Val {
							for k := range snap.Val[f] {
								if v := snap.Val[f][k]; len(v) > 1 {
									writers[v[1]] = true
								}
							}
						}
					}
				}
				if len(writers) > 1 {
					c.Count("final_state_has_concurrent_writes")
				}
				// lock discipline at the mutating methods
				if n := run.probe.mutateShared.Load(); n > 0 {
					method, _ := run.probe.firstSharedMutation.Load().(string)
					c.Violate(sub+":mutation-without-write-lock:"+method, witness,
						"%d calls of mutating world methods (first: %s) happened while the service lock could be acquired for reading, i.e. not held for writing", n, method)
				}
				if n := run.probe.readUnlocked.Load(); n > 0 {
					c.Violate(sub+":read-without-lock", witness, "%d reads of a world happened while nobody held the service lock", n)
				}
				// linearizability
				result, _ := porcupine.CheckOperationsVerbose(c40model, run.history, 3*time.Minute)
				switch result {
				case porcupine.Ok:
					c.Count("linearizable")
				case porcupine.Unknown:
					c.Inconclusive("porcupine timed out on a history of " + fmt.Sprint(len(run.history)) + " operations")
				case porcupine.Illegal:
					// name the world whose partition fails, and the kinds of request in it
					bad := ""
					for _, part := range c40model.Partition(run.history) {
						if porcupine.CheckOperations(c40model, part) {
							continue
						}
						witness["failing_world_history"] = c40describeHistory(part)
						for _, op := range part {
							for _, e := range op.Input.(c40in).Edits {
								if e.Kind == "copy" {
									bad = ":with-read-dependent-change"
								}
							}
							if o := op.Output.(c40out); o.Malformed != "" {
								bad = ":malformed-reply"
								witness["malformed"] = o.Malformed
							}
						}
						break
					}
					c.Violate(sub+":not-linearizable"+bad, witness, "the recorded history has no serial order consistent with the replies (porcupine: Illegal)")
				}
			}
			c.Add("distinct_orders_of_a_script", len(orders))
		},
	})
}
