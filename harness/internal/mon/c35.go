package mon

import (
	"context"
	"fmt"
	"math"
	"sort"
	"strings"
	"sync"
	"time"

	"diagonal.works/b6"
	"diagonal.works/b6/graph"
	"diagonal.works/b6/ingest"
	"diagonal.works/b6/ingest/compact"
	"diagonal.works/b6/osm"
	"github.com/golang/geo/s2"
	"verif/internal/core"
	"verif/internal/obs"
	"verif/internal/wm"
)

// C35 Concurrent readers and parallel builders are race-free.
//
// Runs under the race-detector build: the parent turns every DATA RACE report
// into a violation (race:<frameA>|<frameB>). The monitor itself decides the
// second half of the property:
//   (a) readers: every query is first run alone on the world; then 4-16
//       goroutines issue the same queries in random order (few distinct IDs, so
//       the compact LRU cache and the polyline caches are hot) and every result
//       must equal the one obtained alone;
//   (b) builders: BasicWorldBuilder.Finish (Cores 2..16), NewFeatureSourceFromPBF +
//       NewWorldFromSource and compact.BuildInMemory with several goroutines over
//       inputs with CLOCKWISE closed ways shared by areas and multipolygons; the
//       built world must equal the one built with one core.
// Monitor state shared between goroutines (the mismatch list) is under one mutex.

type c35Query struct {
	kind string
	name string
	run  func(w b6.World) string
}

func c35RenderPolyline(p *s2.Polyline) string {
	if p == nil {
		return "nil"
	}
	var sb strings.Builder
	for _, v := range *p {
		sb.WriteString(obs.PointE7(v) + " ")
	}
	return sb.String()
}

// c35Queries builds the query list over the given ids.
func c35Queries(r *core.R, ids []b6.FeatureID, weights graph.Weights) []c35Query {
	var qs []c35Query
	add := func(kind, name string, run func(w b6.World) string) { qs = append(qs, c35Query{kind, name, run}) }
	for _, id := range ids {
		id := id
		add("lookup", "feature "+id.String(), func(w b6.World) string {
			return fmt.Sprint(w.HasFeatureWithID(id)) + " " + obs.RenderFeature(w.FindFeatureByID(id))
		})
		switch id.Type {
		case b6.FeatureTypePoint:
			add("location", "loc "+id.String(), func(w b6.World) string {
				ll, err := w.FindLocationByID(id)
				if err != nil {
					return "error"
				}
				return obs.LatLngE7(ll)
			})
			add("traverse", "traverse "+id.String(), func(w b6.World) string {
				var segs []string
				ss := w.Traverse(id)
				for ss.Next() {
					s := ss.Segment()
					segs = append(segs, fmt.Sprintf("%s:%d-%d<%s>", s.Feature.FeatureID(), s.First, s.Last, c35RenderPolyline(s.Polyline())))
				}
				sort.Strings(segs)
				return strings.Join(segs, " ")
			})
			add("areas-by-point", "areas "+id.String(), func(w b6.World) string {
				var out []string
				as := w.FindAreasByPoint(id)
				for as.Next() {
					out = append(out, as.FeatureID().String())
				}
				sort.Strings(out)
				return strings.Join(out, " ")
			})
			if r.Chance(0.3) {
				add("search", "shortest-paths "+id.String(), func(w b6.World) string {
					s := graph.NewShortestPathSearchFromPoint(id, weights, w)
					s.ExpandSearch(2000, weights, graph.PointsAndAreas, w)
					var out []string
					for p, d := range s.PointDistances() {
						out = append(out, fmt.Sprintf("%s=%.6f", p, d))
					}
					for a, d := range s.AreaDistances() {
						out = append(out, fmt.Sprintf("%s=%.6f", a.FeatureID(), d))
					}
					sort.Strings(out)
					return strings.Join(out, " ")
				})
			}
		case b6.FeatureTypePath:
			add("polyline", "polyline "+id.String(), func(w b6.World) string {
				f := w.FindFeatureByID(id)
				p, ok := f.(b6.PhysicalFeature)
				if !ok {
					return "not-physical"
				}
				// twice on the same feature value: the second call is served from its cache
				return c35RenderPolyline(p.Polyline()) + "|" + c35RenderPolyline(p.Polyline()) + fmt.Sprintf("|%d", p.GeometryLen())
			})
		case b6.FeatureTypeArea:
			add("polygon", "polygon "+id.String(), func(w b6.World) string {
				f := w.FindFeatureByID(id)
				a, ok := f.(b6.AreaFeature)
				if !ok {
					return "not-area"
				}
				var sb strings.Builder
				for i := 0; i < a.Len(); i++ {
					sb.WriteString(obs.RenderPolygon(a.Polygon(i)))
					sb.WriteString(obs.RenderPolygon(a.Polygon(i)))
				}
				return sb.String()
			})
		}
		add("references", "refs "+id.String(), func(w b6.World) string {
			var out []string
			fs := w.FindReferences(id)
			for fs.Next() {
				out = append(out, fs.FeatureID().String())
			}
			rs := w.FindRelationsByFeature(id)
			for rs.Next() {
				out = append(out, "rel:"+rs.FeatureID().String())
			}
			sort.Strings(out)
			return strings.Join(out, " ")
		})
	}
	for _, q := range wm.StandardQueries() {
		q := q
		add("search", "find "+q.String(), func(w b6.World) string {
			var rows []string
			fs := w.FindFeatures(q)
			for fs.Next() {
				rows = append(rows, obs.RenderFeature(fs.Feature()))
			}
			return strings.Join(rows, "\n")
		})
	}
	for _, g := range []int{1, 2} {
		g := g
		add("enumeration", fmt.Sprintf("each goroutines=%d", g), func(w b6.World) string {
			var mu sync.Mutex
			var rows []string
			err := w.EachFeature(func(f b6.Feature, _ int) error {
				row := obs.RenderFeature(f)
				mu.Lock()
				rows = append(rows, row)
				mu.Unlock()
				return nil
			}, &b6.EachFeatureOptions{Goroutines: g})
			if err != nil {
				return "error: " + err.Error()
			}
			sort.Strings(rows)
			return strings.Join(rows, "\n")
		})
	}
	add("tokens", "tokens", func(w b6.World) string {
		ts := append([]string{}, w.Tokens()...)
		sort.Strings(ts)
		return strings.Join(ts, " ")
	})
	return qs
}

// c35Clockwise adds rings whose closed path is ordered CLOCKWISE and that are
// shared: each ring is the boundary of its own area, the outer ring of a
// second, two-polygon area, and (sometimes) has a hole.
func c35Clockwise(g *wm.Gen, n int) []*wm.Spec {
	var out []*wm.Spec
	r := g.R
	for i := 0; i < n; i++ {
		dx, dy := int64(r.Intn(160000))-80000, int64(r.Intn(160000))-80000
		ps, ring := g.Ring(dx, dy, 3000+float64(r.Intn(2000)), r.Range(3, 7), true)
		out = append(out, ps...)
		out = append(out, ring)
		a := &wm.Spec{ID: b6.FeatureID{Type: b6.FeatureTypeArea, Namespace: ring.ID.Namespace, Value: ring.ID.Value}, Tags: g.RandomTags(0.9),
			Polys: []wm.Poly{{PathIDs: []b6.FeatureID{ring.ID}}}}
		g.Reserve(a.ID)
		out = append(out, a)
		// a second ring (clockwise or not) and a "multipolygon" over both
		ps2, ring2 := g.Ring(dx+30000, dy, 2000, r.Range(3, 5), r.Bool())
		out = append(out, ps2...)
		out = append(out, ring2)
		mp := &wm.Spec{ID: g.NewID(b6.FeatureTypeArea, b6.NamespaceOSMRelation), Tags: g.RandomTags(0.9),
			Polys: []wm.Poly{{PathIDs: []b6.FeatureID{ring.ID}}, {PathIDs: []b6.FeatureID{ring2.ID}}}}
		if r.Chance(0.4) {
			hps, hole := g.Ring(dx, dy, 600, r.Range(3, 4), r.Bool())
			out = append(out, hps...)
			out = append(out, hole)
			mp.Polys[0].PathIDs = append(mp.Polys[0].PathIDs, hole.ID)
		}
		out = append(out, mp)
	}
	return out
}

func c35Dump(w b6.World) *obs.Dump {
	return obs.Take(w, obs.Probes{IDs: obs.AllIDs(w), What: obs.Lookup | obs.Each | obs.Refs})
}

// c35OSM is a harness OSMSource that emits its elements from Cores goroutines.
type c35OSM struct {
	nodes     []osm.Node
	ways      []osm.Way
	relations []osm.Relation
}

func (s *c35OSM) Read(options osm.ReadOptions, emit osm.EmitWithGoroutine, ctx context.Context) error {
	cores := options.Cores
	if cores < 1 {
		cores = 1
	}
	c := make(chan osm.Element, cores)
	var wg sync.WaitGroup
	var mu sync.Mutex
	var first error
	for g := 0; g < cores; g++ {
		wg.Add(1)
		go func(g int) {
			defer wg.Done()
			for e := range c {
				if err := emit(e, g); err != nil {
					mu.Lock()
					if first == nil {
						first = err
					}
					mu.Unlock()
				}
			}
		}(g)
	}
	if !options.SkipNodes {
		for i := range s.nodes {
			n := s.nodes[i].Clone()
			c <- &n
		}
	}
	if !options.SkipWays {
		for i := range s.ways {
			w := s.ways[i].Clone()
			c <- &w
		}
	}
	if !options.SkipRelations {
		for i := range s.relations {
			r := s.relations[i].Clone()
			c <- &r
		}
	}
	close(c)
	wg.Wait()
	return first
}

// c35OSMInput: highways sharing nodes, clockwise closed ways that are areas on
// their own and outer/inner members of multipolygons (two relations share one).
func c35OSMInput(r *core.R) *c35OSM {
	s := &c35OSM{}
	next := osm.NodeID(1000)
	node := func(latE7, lngE7 int64, tags ...osm.Tag) osm.NodeID {
		next++
		s.nodes = append(s.nodes, osm.Node{ID: next, Location: osm.LatLng{Lat: float64(latE7) / 1e7, Lng: float64(lngE7) / 1e7}, Tags: tags})
		return next
	}
	ring := func(cx, cy int64, radius float64, k int, clockwise bool) []osm.NodeID {
		var ids []osm.NodeID
		for i := 0; i < k; i++ {
			a := 2 * math.Pi * float64(i) / float64(k)
			if clockwise {
				a = -a
			}
			ids = append(ids, node(cx+int64(radius*math.Sin(a)), cy+int64(radius*math.Cos(a))))
		}
		return append(ids, ids[0])
	}
	way := osm.WayID(5000)
	rel := osm.RelationID(9000)
	var street []osm.NodeID
	for i := 0; i < r.Range(3, 8); i++ {
		street = append(street, node(515300000+int64(i)*8000, -1200000+int64(r.Intn(4000)), osm.Tag{Key: "name", Value: "n"}))
	}
	way++
	s.ways = append(s.ways, osm.Way{ID: way, Nodes: street, Tags: osm.Tags{{Key: "highway", Value: "residential"}}})
	for i := 0; i < r.Range(3, 8); i++ {
		cx, cy := int64(515300000+r.Intn(200000)), int64(-1200000+r.Intn(200000))
		way++
		outer := way
		s.ways = append(s.ways, osm.Way{ID: outer, Nodes: ring(cx, cy, 4000, r.Range(3, 7), true), Tags: osm.Tags{{Key: "building", Value: "yes"}}})
		way++
		inner := way
		s.ways = append(s.ways, osm.Way{ID: inner, Nodes: ring(cx, cy, 1000, r.Range(3, 5), r.Bool())})
		for k := 0; k < r.Range(1, 2); k++ {
			rel++
			s.relations = append(s.relations, osm.Relation{ID: rel, Tags: osm.Tags{{Key: "type", Value: "multipolygon"}, {Key: "landuse", Value: "retail"}},
				Members: []osm.Member{{Type: osm.ElementTypeWay, ID: osm.AnyID(outer), Role: "outer"}, {Type: osm.ElementTypeWay, ID: osm.AnyID(inner), Role: "inner"}}})
		}
		// a street through one corner of the building
		way++
		s.ways = append(s.ways, osm.Way{ID: way, Nodes: []osm.NodeID{street[r.Intn(len(street))], s.ways[len(s.ways)-2].Nodes[0]}, Tags: osm.Tags{{Key: "highway", Value: "footway"}}})
	}
	return s
}

func init() {
	core.Register(&core.Monitor{
		ID:        "C35",
		Title:     "Concurrent readers and parallel builders are race-free",
		Technique: "race detector (-race build) over concurrent query drivers and parallel builds; every concurrent result compared with the same query run alone",
		Rule: "case = (a) one world (basic / basic-mutable / mutable-overlay / compact) of generated features plus a street network, ~100 queries (lookups with all geometry accessors, " +
			"locations, polylines, polygons, references, searches, traversals, shortest-path searches, enumerations, tokens) run alone and then by 4-16 goroutines x 40 random picks; " +
			"or (b) a parallel build (BasicWorldBuilder.Finish with 2-16 cores x 5 repeats; NewFeatureSourceFromPBF + NewWorldFromSource with 2-8 cores; compact.BuildInMemory with 2-4 goroutines) " +
			"over inputs with clockwise closed ways shared by areas and multipolygons, compared with the 1-core build; distinct = workload + world; non-trivial = >= 4 goroutines ran >= 100 " +
			"queries in total, or a build with >= 2 cores saw >= 2 clockwise shared ways",
		Assumptions: []string{"the race detector only reports races that happen in the observed schedule; workloads are repeated to vary schedules",
			"a query result is compared through its canonical rendering (obs), unordered results sorted"},
		Quick: 40, Thorough: 400,
		Batch: 2, MaxParallel: 8,
		CaseCap: 20 * time.Minute, // compact builds under the race detector: ~20 s idle, minutes on an oversubscribed machine
		Race:    true, RaceThorough: true,
		Required: []string{"readers_basic", "readers_basic-mutable", "readers_mutable-overlay", "readers_compact", "concurrent_queries", "polyline_queries", "cache_repeat_lookups",
			"finish_builds", "finish_rejecting_builds", "shared_source_builds", "finish_clockwise_shared_paths", "pbf_source_builds", "compact_parallel_builds"},
		Run: c35Run,
	})
}

func c35Run(c *core.Ctx) {
	r := c.R
	switch k := c.Index % 10; {
	case k < 5:
		kind := []string{"basic", "basic-mutable", "mutable-overlay", "compact", "basic"}[k]
		if kind == "compact" && c.Index%10 != 3 {
			kind = "basic-mutable" // a compact build under the race detector is the dearest reader case: 1 case in 10
		}
		c35Readers(c, kind)
	case k < 8:
		c35Finish(c)
	case k == 8:
		c35PBF(c)
	default:
		if c.Index%40 == 9 {
			c35CompactBuild(c)
		} else if r.Bool() {
			c35Finish(c)
		} else {
			c35PBF(c)
		}
	}
}

func c35Readers(c *core.Ctx, kind string) {
	r := c.R
	o := wm.DefaultGen()
	o.MaxPoints, o.MaxPaths, o.MaxRings = 20, 6, 4
	if kind == "compact" {
		o.MaxCollections = 0
	}
	g := wm.NewGen(r.Fork(), o)
	specs := g.World()
	net := c30Network(r.Fork(), true)
	specs = append(specs, net.specs...)
	model := wm.ModelOf(specs)
	// Two identical instances: the queries run alone on `alone` beforehand, the
	// goroutines run on `world`, whose lazily filled caches (LRU feature cache,
	// polylines, polygons) are still cold when they start. Afterwards the queries
	// are run alone on `world` too.
	var ops []wm.Op
	if kind == "mutable-overlay" {
		for i := 0; i < 10; i++ {
			op := g.NextOp(model)
			if wm.ApplyModel(model, op) == nil {
				ops = append(ops, op)
			}
		}
	}
	var data []byte
	var err error
	if kind == "compact" {
		data, err = wm.CompactBytes(specs, 1)
	}
	build := func() (b6.World, error) {
		switch kind {
		case "basic":
			return wm.Basic(specs, 2)
		case "basic-mutable":
			return wm.BasicMutable(specs)
		case "mutable-overlay":
			base, err := wm.Basic(specs, 1)
			if err != nil {
				return nil, err
			}
			mo := ingest.NewMutableOverlayWorld(base)
			for _, op := range ops {
				wm.Apply(mo, op) // the same outcome in both instances
			}
			return mo, nil
		}
		return compact.NewWorldFromData(data)
	}
	var alone, world b6.World
	if err == nil {
		alone, err = build()
	}
	if err == nil {
		world, err = build()
	}
	if err != nil {
		c.Violate("build-failed:"+kind, nil, "building the %s world failed: %v", kind, err)
		return
	}
	c.Count("readers_" + kind)
	// few distinct ids, so that caches are hit repeatedly
	all := model.IDs()
	var ids []b6.FeatureID
	for _, i := range r.Perm(len(all))[:min(18, len(all))] {
		ids = append(ids, all[i])
	}
	for _, w := range net.ways[:min(3, len(net.ways))] {
		ids = append(ids, w.ID, w.Path[0].Ref)
	}
	ids = append(ids, b6.FeatureID{Type: b6.FeatureTypePoint, Namespace: b6.NamespaceOSMNode, Value: 99999})
	weights := graph.Weights(graph.SimpleHighwayWeights{})
	if r.Bool() {
		weights = graph.SimpleWeights{}
	}
	qs := c35Queries(r, ids, weights)
	expected := make([]string, len(qs))
	for i, q := range qs {
		if p, cl, fr, _ := core.Protect(func() { expected[i] = q.run(alone) }); p {
			expected[i] = "PANIC@" + fr + ":" + cl
		}
	}
	goroutines := r.Range(4, 16)
	perG := 40
	plans := make([][]int, goroutines)
	for gi := range plans {
		for j := 0; j < perG; j++ {
			qi := r.Intn(len(qs))
			plans[gi] = append(plans[gi], qi)
			switch qs[qi].kind {
			case "polyline", "traverse":
				c.Count("polyline_queries")
			case "lookup":
				c.Count("cache_repeat_lookups")
			}
		}
	}
	type mismatch struct{ kind, name, got, want string }
	var mu sync.Mutex
	var mismatches []mismatch
	var wg sync.WaitGroup
	start := make(chan struct{})
	for gi := 0; gi < goroutines; gi++ {
		wg.Add(1)
		go func(plan []int) {
			defer wg.Done()
			<-start
			for _, qi := range plan {
				var got string
				if p, cl, fr, _ := core.Protect(func() { got = qs[qi].run(world) }); p {
					got = "PANIC@" + fr + ":" + cl
				}
				if got != expected[qi] {
					mu.Lock()
					mismatches = append(mismatches, mismatch{qs[qi].kind, qs[qi].name, got, expected[qi]})
					mu.Unlock()
				}
			}
		}(plans[gi])
	}
	close(start)
	wg.Wait()
	c.Add("concurrent_queries", goroutines*perG)
	for i, q := range qs {
		var got string
		if p, cl, fr, _ := core.Protect(func() { got = q.run(world) }); p {
			got = "PANIC@" + fr + ":" + cl
		}
		if got != expected[i] {
			mismatches = append(mismatches, mismatch{q.kind + ":afterwards", q.name, got, expected[i]})
		}
	}
	seen := map[string]bool{}
	for _, m := range mismatches {
		sig := "concurrent-result-differs:" + m.kind + ":" + kind
		if strings.HasPrefix(m.got, "PANIC@") {
			sig = "concurrent-panic:" + m.kind + ":" + kind + ":" + strings.TrimPrefix(m.got, "PANIC@")
		}
		if seen[sig] {
			continue
		}
		seen[sig] = true
		c.Violate(sig, map[string]any{"query": m.name, "alone": m.want, "concurrent": m.got, "goroutines": goroutines},
			"%s on a %s world with %d goroutines returned %.300s, alone it returned %.300s", m.name, kind, goroutines, m.got, m.want)
	}
	c.Key("readers/%s/%d/%d/%s", kind, len(specs), goroutines, net.String())
	if goroutines*perG >= 100 {
		c.Nontrivial()
	}
	if c.Index < 2 {
		c.Sample(map[string]any{"workload": "readers", "world": kind, "features": len(specs), "queries": len(qs), "goroutines": goroutines, "per_goroutine": perG})
	}
}

func c35Specs(r *core.R, collections bool) ([]*wm.Spec, int) {
	o := wm.DefaultGen()
	if !collections {
		o.MaxCollections = 0
	}
	g := wm.NewGen(r.Fork(), o)
	specs := g.World()
	n := r.Range(2, 8)
	specs = append(specs, c35Clockwise(g, n)...)
	return specs, n
}

func c35Finish(c *core.Ctx) {
	r := c.R
	specs, n := c35Specs(r, true)
	ref, err := wm.Basic(specs, 1)
	if err != nil {
		c.Violate("build-failed:finish:cores-1", nil, "Finish with one core failed: %v", err)
		return
	}
	want := c35Dump(ref)
	cores := r.Range(2, 16)
	for rep := 0; rep < 5; rep++ {
		var w b6.World
		if p, cl, fr, _ := core.Protect(func() { w, err = wm.Basic(specs, cores) }); p {
			c.Violate("finish:panic@"+fr, nil, "Finish with %d cores panicked: %s", cores, cl)
			return
		}
		c.Count("finish_builds")
		c.Add("finish_clockwise_shared_paths", n)
		if err != nil {
			c.Violate("finish:error", nil, "Finish with %d cores failed: %v (one core succeeds)", cores, err)
			return
		}
		if ds := want.Diff(c35Dump(w)); len(ds) > 0 {
			c.Violate("finish:result-differs-from-one-core", map[string]any{"cores": cores, "first": ds[0].String()},
				"the world built with %d cores differs from the one built with 1 core in %d observations, first: %.600s", cores, len(ds), ds[0].String())
			break
		}
	}
	// one source, several builds at once: a builder gets its own copies of the features (it
	// inverts clockwise paths in place), so the source must read the same afterwards and the
	// builds must not meet each other in it. Paths carry a list-valued plain tag before their
	// geometry tag (tag lists are copied value by value).
	{
		feats := wm.Features(specs)
		for _, f := range feats {
			if gf, ok := f.(*ingest.GenericFeature); ok && gf.FeatureID().Type == b6.FeatureTypePath {
				list := b6.NewExpressions([]b6.AnyExpression{b6.NewStringExpression("a").AnyExpression, b6.NewStringExpression("b").AnyExpression})
				gf.Tags = append([]b6.Tag{{Key: "verif:list", Value: list}}, gf.Tags...)
			}
		}
		render := func() string {
			var sb strings.Builder
			for _, f := range feats {
				sb.WriteString(f.FeatureID().String() + " " + obs.RenderTags(f.AllTags()) + "\n")
			}
			return sb.String()
		}
		before := render()
		var wg sync.WaitGroup
		errs := make([]error, 3)
		worlds := make([]b6.World, 3)
		for i := range worlds {
			wg.Add(1)
			go func(i int) {
				defer wg.Done()
				worlds[i], errs[i] = ingest.NewWorldFromSource(ingest.MemoryFeatureSource(feats), &ingest.BuildOptions{Cores: 1 + i})
			}(i)
		}
		wg.Wait()
		c.Count("shared_source_builds")
		for i, e := range errs {
			if e != nil {
				c.Violate("finish:shared-source:error", nil, "build %d of 3 from one shared source failed: %v", i, e)
				return
			}
		}
		if after := render(); after != before {
			c.Violate("finish:shared-source:source-changed", nil, "three builds from one in-memory source changed the source's features")
			return
		}
		d0 := c35Dump(worlds[0])
		for i := 1; i < 3; i++ {
			if ds := d0.Diff(c35Dump(worlds[i])); len(ds) > 0 {
				c.Violate("finish:shared-source:builds-differ", map[string]any{"first": ds[0].String()}, "worlds built at once from one source differ in %d observations, first: %.400s", len(ds), ds[0].String())
				break
			}
		}
	}
	// the rejecting path: the same source plus invalid features, built with FailInvalidFeatures;
	// every core count has to report the same broken features as one core does
	{
		var pts []*wm.Spec
		for _, s := range specs {
			if s.ID.Type == b6.FeatureTypePoint {
				pts = append(pts, s)
			}
		}
		bad := append([]*wm.Spec{}, specs...)
		if len(pts) > 0 {
			for i, nb := 0, r.Range(8, 40); i < nb; i++ {
				id := b6.FeatureID{Type: b6.FeatureTypePath, Namespace: "diagonal.works/ns/broken", Value: uint64(i + 1)}
				if r.Bool() {
					bad = append(bad, &wm.Spec{ID: id, Path: []wm.Elem{{Ref: core.Pick(r, pts).ID}}})
				} else {
					bad = append(bad, &wm.Spec{ID: id, Path: []wm.Elem{{Ref: core.Pick(r, pts).ID}, {Ref: b6.FeatureID{Type: b6.FeatureTypePoint, Namespace: b6.NamespaceOSMNode, Value: 999777}}}})
				}
			}
			core.Shuffle(r, bad)
			broken := func(cores int) (string, error) {
				o := &ingest.BuildOptions{Cores: cores, FailInvalidFeatures: true}
				b := ingest.NewBasicWorldBuilder(o)
				for _, s := range bad {
					b.AddFeature(s.Ingest())
				}
				_, err := b.Finish(o)
				bf, ok := err.(ingest.BrokenFeatures)
				if !ok {
					return "", fmt.Errorf("Finish returned %v, expected ingest.BrokenFeatures", err)
				}
				var ids []string
				for _, f := range bf {
					ids = append(ids, f.ID.String())
				}
				sort.Strings(ids)
				return strings.Join(ids, " "), nil
			}
			want1, err := broken(1)
			if err != nil {
				c.Violate("finish:rejecting:one-core", nil, "%v", err)
				return
			}
			for rep := 0; rep < 3; rep++ {
				var got string
				if p, cl, fr, _ := core.Protect(func() { got, err = broken(cores) }); p {
					c.Violate("finish:rejecting:panic@"+fr, nil, "a rejecting Finish with %d cores panicked: %s", cores, cl)
					return
				}
				c.Count("finish_rejecting_builds")
				if err != nil {
					c.Violate("finish:rejecting:error-kind", nil, "%d cores: %v", cores, err)
					return
				}
				if got != want1 {
					c.Violate("finish:rejecting:broken-features-differ-from-one-core", map[string]any{"cores": cores},
						"FailInvalidFeatures with %d cores reports the broken features {%.300s}, with one core {%.300s}", cores, got, want1)
					break
				}
			}
		}
	}
	var sb strings.Builder
	for _, s := range specs {
		sb.WriteString(s.String() + "|")
	}
	c.Key("finish/%d/%s", cores, sb.String())
	if n >= 2 {
		c.Nontrivial()
	}
	if c.Index < 8 {
		c.Sample(map[string]any{"workload": "BasicWorldBuilder.Finish", "cores": cores, "features": len(specs), "clockwise_shared_rings": n})
	}
}

func c35PBF(c *core.Ctx) {
	r := c.R
	in := c35OSMInput(r.Fork())
	build := func(cores int) (b6.World, error) {
		o := &ingest.BuildOptions{Cores: cores}
		src, err := ingest.NewFeatureSourceFromPBF(in, o, context.Background())
		if err != nil {
			return nil, err
		}
		return ingest.NewWorldFromSource(src, o)
	}
	ref, err := build(1)
	if err != nil {
		c.Violate("build-failed:pbf:cores-1", nil, "building from the OSM source with one core failed: %v", err)
		return
	}
	want := c35Dump(ref)
	cores := r.Range(2, 8)
	for rep := 0; rep < 3; rep++ {
		var w b6.World
		if p, cl, fr, _ := core.Protect(func() { w, err = build(cores) }); p {
			c.Violate("pbf:panic@"+fr, nil, "building from the OSM source with %d cores panicked: %s", cores, cl)
			return
		}
		c.Count("pbf_source_builds")
		if err != nil {
			c.Violate("pbf:error", nil, "building from the OSM source with %d cores failed: %v", cores, err)
			return
		}
		if ds := want.Diff(c35Dump(w)); len(ds) > 0 {
			c.Violate("pbf:result-differs-from-one-core", map[string]any{"cores": cores, "first": ds[0].String()},
				"the world built from the OSM source with %d cores differs from the 1-core build in %d observations, first: %.600s", cores, len(ds), ds[0].String())
			break
		}
	}
	c.Key("pbf/%d/%d/%d/%d/%v", cores, len(in.nodes), len(in.ways), len(in.relations), in.ways[len(in.ways)-1].Nodes)
	c.Nontrivial()
	if c.Index < 10 {
		c.Sample(map[string]any{"workload": "NewFeatureSourceFromPBF+NewWorldFromSource", "cores": cores, "nodes": len(in.nodes), "ways": len(in.ways), "relations": len(in.relations)})
	}
}

func c35CompactBuild(c *core.Ctx) {
	r := c.R
	specs, n := c35Specs(r, false)
	ref, err := wm.Compact(specs, 1)
	if err != nil {
		c.Violate("build-failed:compact:goroutines-1", nil, "compact build with one goroutine failed: %v", err)
		return
	}
	want := c35Dump(ref)
	goroutines := core.Pick(r, []int{2, 3, 4})
	var w *compact.World
	if p, cl, fr, _ := core.Protect(func() { w, err = wm.Compact(specs, goroutines) }); p {
		c.Violate("compact-build:panic@"+fr, nil, "compact build with %d goroutines panicked: %s", goroutines, cl)
		return
	}
	c.Count("compact_parallel_builds")
	if err != nil {
		c.Violate("compact-build:error", nil, "compact build with %d goroutines failed: %v", goroutines, err)
		return
	}
	if ds := want.Diff(c35Dump(w)); len(ds) > 0 {
		c.Violate("compact-build:result-differs-from-one-goroutine", map[string]any{"goroutines": goroutines, "first": ds[0].String()},
			"the compact world built with %d goroutines differs from the 1-goroutine build in %d observations, first: %.600s", goroutines, len(ds), ds[0].String())
	}
	c.Key("compact-build/%d/%d/%d", goroutines, len(specs), n)
	if n >= 2 {
		c.Nontrivial()
	}
	c.Sample(map[string]any{"workload": "compact.BuildInMemory", "goroutines": goroutines, "features": len(specs), "clockwise_shared_rings": n})
}
